(* C10 — INSERT rows always match the column list; mismatches are reported. *)
Require Import SQV.Model.Str SQV.Model.Value SQV.Model.Expr SQV.Model.Stmt SQV.Model.Build SQV.Proofs.InsertProofs.

Theorem C10_values_ok_iff_len :
  forall i row,
  (snd (ins_values i row) = IOk <-> length row = length (ins_columns i)) /\
  (forall a b, snd (ins_values i row) = IErr a b ->
     a = length (ins_columns i) /\ b = length row /\ fst (ins_values i row) = i).
Proof. exact values_ok_iff_len. Qed.
Print Assumptions C10_values_ok_iff_len.

Theorem C10_select_from_ok_iff_len :
  forall i s,
  (snd (ins_select_from i s) = IOk <-> select_len s = length (ins_columns i)) /\
  (forall a b, snd (ins_select_from i s) = IErr a b ->
     a = length (ins_columns i) /\ b = select_len s /\ fst (ins_select_from i s) = i).
Proof. exact select_from_ok_iff_len. Qed.
Print Assumptions C10_select_from_ok_iff_len.

Theorem C10_accepted_row_is_appended :
  forall i row, length row = length (ins_columns i) ->
  ins_columns (fst (ins_values i row)) = ins_columns i /\
  ins_rows (fst (ins_values i row)) = match row with [] => ins_rows i | _ => ins_rows i ++ [row] end.
Proof. exact values_appends. Qed.
Print Assumptions C10_accepted_row_is_appended.

(* every state reachable by any history of columns / values / values_panic / values_from_panic /
   select_from / or_default_values* / on_conflict / returning calls that stays outside the known
   class (columns() re-declared with another count after a source was accepted) holds a rectangle *)
Theorem C10_rectangular :
  forall cs, no_recolumn (ins_new, [], false) cs -> rect (st_insert (build_insert cs)).
Proof. exact rectangular_from_new. Qed.
Print Assumptions C10_rectangular.

(* the known class is a genuine failure of the full statement (finding F8) *)
Theorem C10_rectangular_refuted : exists cs, ~ rect (st_insert (build_insert cs)).
Proof. exact rectangular_refuted. Qed.
Print Assumptions C10_rectangular_refuted.
