(* C03 — inlined text and binary literals decode to exactly the supplied value. *)
Require Import SQV.Model.Str SQV.Model.Escape SQV.Model.Literal SQV.Model.LitPos
  SQV.Spec.EngLex SQV.Proofs.LiteralProofs.

(* every string (NUL excluded exactly on Postgres and SQLite), every backend, whatever follows the
   literal (as long as it does not start with a quote): the engine lexer consumes exactly the
   literal and decodes exactly the value *)
Theorem C03_string_literal_roundtrip :
  forall b s rest, nul_ok b s -> not_starting_with 39 rest ->
  lex_string b (write_string_quoted b s ++ rest) = Some (s, rest).
Proof. exact string_literal_roundtrip. Qed.
Print Assumptions C03_string_literal_roundtrip.

Theorem C03_char_literal_roundtrip :
  forall b c rest, nul_ok b [c] -> not_starting_with 39 rest ->
  lex_string b (write_char_quoted b c ++ rest) = Some ([c], rest).
Proof. exact char_literal_roundtrip. Qed.
Print Assumptions C03_char_literal_roundtrip.

Theorem C03_bytes_literal_roundtrip :
  forall b bs rest, is_bytes bs -> not_starting_with 39 rest ->
  lex_bytes b (write_bytes b bs ++ rest) = Some (bs, rest).
Proof. exact bytes_literal_roundtrip. Qed.
Print Assumptions C03_bytes_literal_roundtrip.

Theorem C03_mysql_comment_roundtrip :
  forall s rest, not_starting_with 39 rest ->
  mysql_lex_string (mysql_comment_lit s ++ rest) = Some (s, rest).
Proof. exact mysql_comment_roundtrip. Qed.
Print Assumptions C03_mysql_comment_roundtrip.

Theorem C03_mysql_enum_label_roundtrip :
  forall s rest, not_starting_with 39 rest ->
  mysql_lex_string (mysql_enum_label s ++ rest) = Some (s, rest).
Proof. exact mysql_enum_label_roundtrip. Qed.
Print Assumptions C03_mysql_enum_label_roundtrip.

(* every position writes one of the literal forms covered above (syntactic fact about the model,
   tied to the code by the correspondence on whole statements) *)
Theorem C03_positions_use_covered_literals :
  forall b p k, In (lit_at b p k)
    (match k with
     | KStr s => [write_string_quoted b s; mysql_comment_lit s; mysql_enum_label s]
     | KChar c => [write_char_quoted b c]
     | KBytes bs => [write_bytes b bs]
     end).
Proof. intros b p k. destruct p, k; cbn; tauto. Qed.
Print Assumptions C03_positions_use_covered_literals.

(* The Json arm and arrays of text elements (value_to_string_common): the Json literal decodes, under the
   engine's string lexer, to the text the external formatter produced; the element list value_to_string writes
   for an array of strings, read by the executable array oracle that checks the implementation's output
   (Spec/LitArrayOracle.v), decodes to exactly the given strings - for every non-empty list of strings of any
   length and content (NUL excluded where the engine has no representation for it). *)
Require Import SQV.Model.Value SQV.Model.Writer SQV.Spec.LitArrayOracle SQV.Proofs.LitArrayProofs.
Theorem C03_json_literal_roundtrip :
  forall (ftext : bool -> N -> str) b oid text rest, nul_ok b text -> not_starting_with 39 rest ->
  lex_string b (value_to_string ftext b (V TJson (Some (POpaque oid text))) ++ rest) = Some (text, rest).
Proof. exact json_literal_roundtrip. Qed.
Print Assumptions C03_json_literal_roundtrip.

Theorem C03_string_array_roundtrip :
  forall (ftext : bool -> N -> str) b (ss : list str) pre rest, ss <> [] -> Forall (nul_ok b) ss ->
  decode_string_array_at b pre
    (pre ++ value_to_string ftext b (VArray TString (Some (map (fun s => V TString (Some (PStr s))) ss))) ++ rest)
  = Some (ss, 93 :: rest).
Proof. exact string_array_value_roundtrip. Qed.
Print Assumptions C03_string_array_roundtrip.

(* arrays of chars: every element is written as the string literal of its one character, and the list decodes to
   exactly those one-character strings *)
Theorem C03_char_array_roundtrip :
  forall (ftext : bool -> N -> str) b (cs : list N) pre rest, cs <> [] -> Forall (fun c => nul_ok b [c]) cs ->
  decode_string_array_at b pre
    (pre ++ value_to_string ftext b (VArray TChar (Some (map (fun c => V TChar (Some (PChar c))) cs))) ++ rest)
  = Some (map (fun c => [c]) cs, 93 :: rest).
Proof. exact char_array_value_roundtrip. Qed.
Print Assumptions C03_char_array_roundtrip.

(* arrays of byte strings: the element list written between ARRAY [ and ] decodes, under the engine's
   byte-string lexer, to exactly the given byte strings *)
Theorem C03_bytes_array_roundtrip :
  forall b (bss : list (list N)) pre rest, bss <> [] -> Forall is_bytes bss ->
  decode_bytes_array_at b pre (pre ++ array_open ++ join_lits (map (write_bytes b) bss) ++ 93 :: rest)
  = Some (bss, 93 :: rest).
Proof. exact bytes_array_roundtrip. Qed.
Print Assumptions C03_bytes_array_roundtrip.

(* In the context of a statement (Spec/EngTok.v, the engine's statement lexer): a text or character literal is
   exactly ONE string token whose decoded content is the supplied value; a byte-string literal is one binary-literal
   token (MySQL / SQLite) or the one string constant whose text is the bytea hex input of the bytes (Postgres).
   With the seam theorem (C01_lexing_is_compositional_at_safe_seams) this holds wherever the literal is written:
   after any text whose last token may be followed by a quote or E, and before any text that does not start with a
   quote character - the literal never ends early and never swallows what follows. *)
Require Import SQV.Spec.EngTok SQV.Spec.EngBoundary SQV.Proofs.EngTokProofs SQV.Proofs.EngLiteralTokProofs.
Theorem C03_string_literal_is_one_statement_token :
  forall b s, nul_ok b s -> eng_tokens b (write_string_quoted b s) = Some [TkStr s].
Proof. exact string_literal_is_one_token. Qed.
Print Assumptions C03_string_literal_is_one_statement_token.

Theorem C03_char_literal_is_one_statement_token :
  forall b c, nul_ok b [c] -> eng_tokens b (write_char_quoted b c) = Some [TkStr [c]].
Proof. exact char_literal_is_one_token. Qed.
Print Assumptions C03_char_literal_is_one_statement_token.

Theorem C03_bytes_literal_is_one_statement_token :
  forall b bs, b <> Postgres -> is_bytes bs -> eng_tokens b (write_bytes b bs) = Some [TkBytes bs].
Proof. exact bytes_literal_is_one_token. Qed.
Print Assumptions C03_bytes_literal_is_one_statement_token.

Theorem C03_pg_bytes_literal_is_one_statement_token :
  forall bs, is_bytes bs ->
  exists txt, eng_tokens Postgres (write_bytes Postgres bs) = Some [TkStr txt] /\ pg_bytea_in txt = Some bs.
Proof. exact pg_bytes_literal_is_one_token. Qed.
Print Assumptions C03_pg_bytes_literal_is_one_statement_token.

Theorem C03_string_literal_in_context :
  forall b s pre tpre post tpost, nul_ok b s ->
  eng_tokens b pre = Some tpre -> eng_tokens b post = Some tpost ->
  join_ok tpre (write_string_quoted b s ++ post) = true -> join_ok [TkStr s] post = true ->
  eng_tokens b (pre ++ write_string_quoted b s ++ post) = Some (tpre ++ TkStr s :: tpost).
Proof. exact string_literal_in_context. Qed.
Print Assumptions C03_string_literal_in_context.
