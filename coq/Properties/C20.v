(* C20 — with feature thread-safe, every builder and statement type is Send + Sync.
   AutoImpl G n r : trait r (Send or Sync) holds for node n of the field graph G, as the greatest
   fixed point of the auto-trait rules of Spec/AutoTrait.v; SendSync = both.
   Generated/TypeGraph.v (with thread-safe) and Generated/TypeGraphNoTS.v (without) are rewritten
   from the rustdoc JSON of /repo on every run; rustc's own verdicts are compared with the
   checker's by checks/c20.py. *)
From Coq Require Import List.
Require Import SQV.Spec.AutoTrait SQV.Proofs.AutoTraitProofs SQV.Proofs.TypeGraphProofs.
Require SQV.Generated.TypeGraph SQV.Generated.TypeGraphNoTS.

Theorem C20_checker_sound :
  forall (G : graph) (S : verdicts),
    stable G S -> forall n r, lookup S n r = true -> AutoImpl G n r.
Proof. exact checker_sound. Qed.
Print Assumptions C20_checker_sound.

Theorem C20_checker_complete :
  forall (G : graph) n r, lookup (solve G) n r = false -> ~ AutoImpl G n r.
Proof. exact checker_rejects. Qed.
Print Assumptions C20_checker_complete.

Theorem C20_auto_impl_is_fixed_point :
  forall (G : graph) n r, AutoImpl G n r <-> step G (AutoImpl G) n r.
Proof. exact AutoImpl_unfold. Qed.
Print Assumptions C20_auto_impl_is_fixed_point.

Theorem C20_all_public_types_send_sync :
  Forall (SendSync SQV.Generated.TypeGraph.graph) SQV.Generated.TypeGraph.scope.
Proof. exact ts_all_public_types_send_sync. Qed.
Print Assumptions C20_all_public_types_send_sync.

Theorem C20_statement_expression_value_identifier_types_send_sync :
  SendSync TS.graph TS.n_SelectStatement /\ SendSync TS.graph TS.n_InsertStatement /\
  SendSync TS.graph TS.n_UpdateStatement /\ SendSync TS.graph TS.n_DeleteStatement /\
  SendSync TS.graph TS.n_WithQuery /\
  SendSync TS.graph TS.n_TableCreateStatement /\ SendSync TS.graph TS.n_TableAlterStatement /\
  SendSync TS.graph TS.n_IndexCreateStatement /\ SendSync TS.graph TS.n_ForeignKeyCreateStatement /\
  SendSync TS.graph TS.n_SimpleExpr /\ SendSync TS.graph TS.n_Expr /\ SendSync TS.graph TS.n_Condition /\
  SendSync TS.graph TS.n_Value /\ SendSync TS.graph TS.n_DynIden /\ SendSync TS.graph TS.n_Alias /\
  SendSync TS.graph TS.n_ColumnRef /\ SendSync TS.graph TS.n_TableRef.
Proof. exact ts_named_types_send_sync. Qed.
Print Assumptions C20_statement_expression_value_identifier_types_send_sync.

Theorem C20_without_feature_refuted :
  ~ AutoImpl NoTS.graph NoTS.n_DynIden Send /\
  ~ AutoImpl NoTS.graph NoTS.n_DynIden Sync /\
  (forall n, In n NoTS.scope -> reaches NoTS.graph n NoTS.n_DynIden = true -> ~ SendSync NoTS.graph n) /\
  ~ SendSync NoTS.graph NoTS.n_SelectStatement /\ ~ SendSync NoTS.graph NoTS.n_InsertStatement /\
  ~ SendSync NoTS.graph NoTS.n_UpdateStatement /\ ~ SendSync NoTS.graph NoTS.n_DeleteStatement /\
  ~ SendSync NoTS.graph NoTS.n_TableCreateStatement /\
  ~ SendSync NoTS.graph NoTS.n_SimpleExpr /\ ~ SendSync NoTS.graph NoTS.n_Condition.
Proof. exact nots_refuted. Qed.
Print Assumptions C20_without_feature_refuted.
