(* C11 — custom SQL templates and inject_parameters replace exactly the placeholders. *)
Require Import SQV.Model.Str SQV.Model.Escape SQV.Model.Value SQV.Model.Token SQV.Model.Writer
  SQV.Model.RenderExpr SQV.Model.Inject SQV.Spec.Template SQV.Proofs.TemplateProofs.

(* For every well-formed template -- as the token stream of the crate's tokenizer, where by C16
   quoted text is one Quoted token and therefore never a mark -- and every list of rendered values
   in which each designated value exists: the CustomWithExpr loop emits every non-placeholder token
   unchanged and in place, each `?` replaced by the next positional value, each `$n` by the n-th
   value, a doubled mark by one mark. *)
Theorem C11_custom_template_substitutes :
  forall mark numbered toks segs, Seg mark numbered toks segs ->
  forall (rs : list script) count out,
  interp [WCust mark] (fun s => [WCust s]) rs segs count = Some out ->
  custom_loop rs mark numbered toks count = out.
Proof. exact custom_loop_spec. Qed.
Print Assumptions C11_custom_template_substitutes.

(* inject_parameters: the same statement for the token stream of a parameterised statement *)
Theorem C11_inject_substitutes :
  forall ftext b toks segs,
  ISeg (fst (placeholder b)) (snd (placeholder b)) toks segs ->
  forall params count out,
  interp (fst (placeholder b)) (fun s => s) (map (value_to_string ftext b) params) segs count = Some out ->
  inject_loop ftext b params toks count = Ok out.
Proof. exact inject_loop_spec. Qed.
Print Assumptions C11_inject_substitutes.
