(* C11 — custom SQL templates and inject_parameters replace exactly the placeholders. *)
Require Import SQV.Model.Str SQV.Model.Escape SQV.Model.Value SQV.Model.Token SQV.Model.Writer
  SQV.Model.RenderExpr SQV.Model.Inject SQV.Spec.Template SQV.Proofs.TemplateProofs.

(* For every well-formed template -- as the token stream of the crate's tokenizer, where by C16
   quoted text is one Quoted token and therefore never a mark -- and every list of rendered values
   in which each designated value exists: the CustomWithExpr loop emits every non-placeholder token
   unchanged and in place, each `?` replaced by the next positional value, each `$n` by the n-th
   value, a doubled mark by one mark. *)
Theorem C11_custom_template_substitutes :
  forall mark numbered toks segs, Seg mark numbered toks segs ->
  forall (rs : list script) count out,
  interp [WCust mark] (fun s => [WCust s]) rs segs count = Some out ->
  custom_loop rs mark numbered toks count = out.
Proof. exact custom_loop_spec. Qed.
Print Assumptions C11_custom_template_substitutes.

(* inject_parameters: the same statement for the token stream of a parameterised statement *)
Theorem C11_inject_substitutes :
  forall ftext b toks segs,
  ISeg (fst (placeholder b)) (snd (placeholder b)) toks segs ->
  forall params count out,
  interp (fst (placeholder b)) (fun s => s) (map (value_to_string ftext b) params) segs count = Some out ->
  inject_loop ftext b params toks count = Ok out.
Proof. exact inject_loop_spec. Qed.
Print Assumptions C11_inject_substitutes.

(* Character level (Proofs/TemplateCharProofs.v): for EVERY template assembled from pieces -- well-formed
   quoted text with any of the four delimiters (doubled delimiters and backslash escapes inside, any
   marks inside), words, runs of blanks, single punctuation characters, adjacent pieces not fusing --
   of any length, and for every classification of alphabetic characters: the crate's tokenizer returns
   exactly one token per piece, so a quoted piece is one Quoted token and a mark inside it is never a
   placeholder; and the CustomWithExpr rendering of the template is the interpretation of the
   segmentation of those pieces. *)
Require Import SQV.Model.Expr SQV.Proofs.TokenProofs SQV.Proofs.TemplateCharProofs.
Theorem C11_tokenize_pieces :
  forall is_alpha ps, pieces_ok is_alpha ps ->
  tokenize is_alpha (template_text ps) = Some (map ptok ps).
Proof. exact tokenize_pieces. Qed.
Print Assumptions C11_tokenize_pieces.

Theorem C11_custom_template_char_level :
  forall (Q : Type) (rq : Q -> script) is_alpha b T common (ps : list piece) (es : list (expr Q)) segs out,
  pieces_ok is_alpha ps ->
  Seg (fst (placeholder b)) (snd (placeholder b)) (map ptok ps) segs ->
  interp [WCust (fst (placeholder b))] (fun s => [WCust s]) (map (rexpr Q rq is_alpha b T false) es) segs 0 = Some out ->
  rexpr Q rq is_alpha b T common (ECustomWith (template_text ps) es) = out.
Proof. exact custom_template_char_level. Qed.
Print Assumptions C11_custom_template_char_level.

(* non-vacuity: the template  a = 'x?''y' AND b = ?  (ASCII letters alphabetic) is piecewise
   well-formed, and its only placeholder is the final mark *)
Example C11_pieces_inhabited :
  let is_alpha := fun c : N => ((65 <=? c) && (c <=? 90)) || ((97 <=? c) && (c <=? 122)) in
  let ps := [PW [97]; PS [32]; PP 61; PS [32]; PQ 39 [120; 63; 39; 39; 121]; PS [32]; PW [65; 78; 68]; PS [32];
             PW [98]; PS [32]; PP 61; PS [32]; PP 63] in
  pieces_ok is_alpha ps /\
  Seg [63] false (map ptok ps)
    [SText [97]; SText [32]; SText [61]; SText [32]; SText [39; 120; 63; 39; 39; 121; 39]; SText [32];
     SText [65; 78; 68]; SText [32]; SText [98]; SText [32]; SText [61]; SText [32]; SPos].
Proof.
  intros is_alpha ps. split.
  - cbn [pieces_ok ps piece_ok template_text map concat ptext app].
    repeat match goal with
    | |- _ /\ _ => split
    | |- exists c t, _ => eexists _, _
    | |- True => exact I
    | |- _ = _ => reflexivity
    | |- _ <> _ => discriminate
    | |- body _ _ => first [apply body_nil | apply body_doubled; [reflexivity|reflexivity|] | apply body_plain; [reflexivity|reflexivity|]]
    | |- no_doubling _ _ => reflexivity
    | |- starts_not _ _ _ => reflexivity
    | |- starts_not _ _ => reflexivity
    end.
  - cbn [ps map ptok].
    repeat (apply seg_text; [reflexivity|]).
    apply seg_pos; [reflexivity|reflexivity|exact I|constructor].
Qed.

(* inject_parameters(build(s)) = to_string(s), under lexical separability (Proofs/InjectProofs.v): for EVERY
   writer script (hence every statement), if the crate's tokenizer reads the parameterised SQL piece by piece -
   the tokens of every text piece spell exactly that text and contain no mark token, every hole contributes its
   placeholder token(s) - then inject_parameters applied to build()'s SQL and values returns exactly the inline
   SQL.  The hypothesis is what the known findings F16 and F28 violate (a literal mis-lexed by the generic
   tokenizer swallows the text after it); on all other generated statements the check observes the identity on
   the implementation. *)
Require Import SQV.Proofs.WriterProofs SQV.Proofs.InjectProofs.
Theorem C11_inject_gives_inline :
  forall (ftext : bool -> N -> str) (is_alpha : N -> bool) b params (sc : script) sql vals inl ts,
  emit_params ftext b sc = Ok (sql, vals) -> emit_inline ftext b sc = Ok inl -> vals = params ->
  tokenize is_alpha sql = Some ts -> all_ptoks b (pieces ftext b sc) ts ->
  inject_parameters ftext is_alpha b sql params = Ok inl.
Proof. exact inject_gives_inline. Qed.
Print Assumptions C11_inject_gives_inline.

(* The hypothesis of C11_inject_gives_inline made decidable (Spec/CrateSeam.v): crate_sep holds when every piece of
   the parameterised SQL tokenizes alone under the crate's tokenizer, no token of that tokenizer reaches across a seam
   (tokenize_app: the crate tokenizer is compositional at stable seams - a run of blanks not followed by a blank, a
   word not followed by a word character, a quoted token closed and not followed by its doubled delimiter), text
   pieces contain no mark token and every hole reads as its mark.  For EVERY script with crate_sep = true:
   inject_parameters applied to build()'s SQL and values returns exactly to_string()'s SQL.  The extracted model
   evaluates crate_sep on every generated statement (evidence: inject_theorem_premise). *)
Require Import SQV.Spec.EngScript SQV.Spec.CrateSeam SQV.Proofs.CrateSeamProofs.
Theorem C11_crate_tokenizer_is_compositional_at_stable_seams :
  forall is_alpha s1 ts1 x tsx,
  tokenize is_alpha s1 = Some ts1 -> tokenize is_alpha x = Some tsx -> cjoin_ok is_alpha ts1 x = true ->
  tokenize is_alpha (s1 ++ x) = Some (ts1 ++ tsx).
Proof. exact tokenize_app. Qed.
Print Assumptions C11_crate_tokenizer_is_compositional_at_stable_seams.

Theorem C11_inject_is_inline_when_separable :
  forall (ftext : bool -> N -> str) (is_alpha : N -> bool) b (sc : script) sql vals inl,
  emit_params ftext b sc = Ok (sql, vals) -> emit_inline ftext b sc = Ok inl ->
  crate_sep is_alpha ftext b sc = true ->
  inject_parameters ftext is_alpha b sql vals = Ok inl.
Proof. exact inject_is_inline_when_separable. Qed.
Print Assumptions C11_inject_is_inline_when_separable.
