(* C17 — escape_string and unescape_string are inverse on every backend. *)
Require Import SQV.Model.Str SQV.Model.Escape SQV.Proofs.EscapeProofs.

Theorem C17_unescape_escape :
  forall (b : backend) (s : str), unescape_string b (escape_string b s) = s.
Proof. exact unescape_escape. Qed.
Print Assumptions C17_unescape_escape.

Theorem C17_escape_chain_is_per_char :
  forall s : str, escape_default s = flat_map esc_char s.
Proof. exact escape_chain_is_flat_map. Qed.
Print Assumptions C17_escape_chain_is_per_char.
