(* C19 — derived identifiers spell the documented names.
   Model: Model/Derive.v (sea-query-derive + heck 0.4.1 snake_case / PascalCase + Iden defaults).
   Only pinned statements here; the proofs are in Proofs/DeriveProofs.v. *)
Require Import SQV.Model.Str SQV.Model.Escape SQV.Model.Literal SQV.Model.Derive SQV.Proofs.DeriveProofs.
From Coq Require Import String.
Open Scope list_scope.
Open Scope N_scope.

(* (a) the generated fast path writes exactly what the general identifier quoting writes, for every
   Quote(left, right): Iden::quoted doubles the RIGHT quote byte, prepare writes left, quoted, right;
   the derive writes left, name, right. The right byte is any ASCII byte that is not an identifier
   char (backtick 96, double quote 34, closing bracket 93, ...); left is arbitrary. All names, no bound. *)
Theorem C19_fast_path_is_general_quoting :
  forall (name : str) (q : quote),
    must_be_valid_iden name = true ->
    (q_right q <? 128) && negb ((q_right q =? 95) || is_ascii_alphanumeric (q_right q)) = true ->
    fast_prepare q name = general_prepare q name.
Proof. exact fast_path_is_general_quoting. Qed.
Print Assumptions C19_fast_path_is_general_quoting.

Check (eq_refl : general_prepare =
  fun q name => q_left q :: replace_char (q_right q) [q_right q; q_right q] name ++ [q_right q]).
Check (eq_refl : fast_prepare = fun q name => q_left q :: name ++ [q_right q]).
(* with left = right this is the identifier quoting of C04 *)
Check (fun q name => eq_refl : general_prepare (sym_quote q) name = iden_prepare q name).

Example C19_fast_path_instance :
  let br := {| q_left := 91; q_right := 93 |} in
  must_be_valid_iden (K "http_server2_go") = true
  /\ fast_prepare (sym_quote 34) (K "http_server2_go") = general_prepare (sym_quote 34) (K "http_server2_go")
  /\ fast_prepare br (K "font_size") = K "[font_size]"
  /\ general_prepare br (K "font_size") = K "[font_size]"
  /\ general_prepare br (K "a[b]") = K "[a[b]]]"
  /\ must_be_valid_iden (K "a""b") = false
  /\ fast_prepare (sym_quote 34) (K "a""b") <> general_prepare (sym_quote 34) (K "a""b").
Proof. repeat split; try reflexivity. discriminate. Qed.

(* the same at the level of whole type definitions: whatever the derive emits for a type (the fast
   `prepare` when every variant name is a valid iden, nothing otherwise), `prepare` of every value is
   the general quoting of its name, under every such Quote *)
Theorem C19_derived_prepare_is_general_quoting :
  forall (menv : method_env) (t : tydef) (v : value) (q : quote),
    (q_right q <? 128) && negb ((q_right q =? 95) || is_ascii_alphanumeric (q_right q)) = true ->
    derived_prepare menv q t v = option_map (general_prepare q) (unquoted menv t v).
Proof. exact derived_prepare_is_general. Qed.
Print Assumptions C19_derived_prepare_is_general_quoting.

(* one invalid rename makes the whole type fall back to the general path (is_all_valid) *)
Example C19_is_all_valid_instance :
  let vs := [ {| v_ident := K "FontSize"; v_fields := FUnit; v_attrs := [] |};
              {| v_ident := K "Odd"; v_fields := FUnit; v_attrs := [MIdenEq (K "a""b]")] |} ] in
  let br := {| q_left := 91; q_right := 93 |} in
  has_fast_prepare (DEnum (K "Glyph") [] vs) = false
  /\ has_fast_prepare (DEnum (K "Glyph") [] (firstn 1 vs)) = true
  /\ derived_prepare (fun _ _ => []) (sym_quote 34) (DEnum (K "Glyph") [] vs) (VVariant 1 None) = Some (K """a""""b]""")
  /\ derived_prepare (fun _ _ => []) br (DEnum (K "Glyph") [] vs) (VVariant 1 None) = Some (K "[a""b]]]")
  /\ derived_prepare (fun _ _ => []) (sym_quote 34) (DEnum (K "Glyph") [] vs) (VVariant 0 None) = Some (K """font_size""")
  /\ derived_prepare (fun _ _ => []) br (DEnum (K "Glyph") [] (firstn 1 vs)) (VVariant 0 None) = Some (K "[font_size]").
Proof. repeat split; reflexivity. Qed.

(* (b) the naming function is the documented naming: rename overrides; the Table variant is the
   table name (the type's rename, else snake_case of the type name); otherwise snake_case of the
   variant name; a raw identifier counts without its r# prefix. as_str agrees with it. *)
Theorem C19_derived_name_spec :
  forall (menv : method_env) (ident : str) (attrs : list attr_meta) (vs : list variant) (i : nat)
         (var : variant) (inner : option (tydef * value)) (crename vrename : option str),
    parsed_attr attrs = Some (option_map Rename crename) ->
    nth_error vs i = Some var ->
    variant_new var = Some (option_map Rename vrename) ->
    unquoted menv (DEnum ident attrs vs) (VVariant i inner)
      = Some (spec_variant_name ident crename (v_ident var) vrename)
    /\ as_str menv (DEnum ident attrs vs) (VVariant i inner)
      = Some (spec_variant_name ident crename (v_ident var) vrename).
Proof. exact derived_variant_name_spec. Qed.
Print Assumptions C19_derived_name_spec.

Check (eq_refl : spec_variant_name =
  fun type_name type_rename variant_name variant_rename =>
    match variant_rename with
    | Some r => r
    | None => if str_eqb variant_name (K "Table")
              then match type_rename with Some r => r | None => snake_case (unraw type_name) end
              else snake_case (unraw variant_name)
    end).
(* unraw drops the raw prefix (114 35 = r#) of an identifier; the name of r#type is type *)
Check (eq_refl : unraw = fun ident => match ident with 114 :: 35 :: t => t | _ => ident end).

Example C19_derived_name_instance :
  let glyph := DEnum (K "GlyphToken") [MIdenList [NRename (K "glyphs")]]
                 [ {| v_ident := K "Table"; v_fields := FUnit; v_attrs := [] |};
                   {| v_ident := K "HTTPServer2Go"; v_fields := FUnnamed 2; v_attrs := [] |};
                   {| v_ident := K "Abc_Def"; v_fields := FUnit; v_attrs := [MIdenEq (K "x y"); MMethodEq (K "m")] |} ] in
  let plain := DEnum (K "FontSize") [] [ {| v_ident := K "Table"; v_fields := FUnit; v_attrs := [] |} ] in
  map (unquoted (fun _ _ => []) glyph) [VVariant 0 None; VVariant 1 None; VVariant 2 None]
    = [Some (K "glyphs"); Some (K "http_server2_go"); Some (K "x y")]
  /\ unquoted (fun _ _ => []) plain (VVariant 0 None) = Some (K "font_size")
  /\ unquoted (fun _ _ => []) (DEnum (K "r#Struct") [] [ {| v_ident := K "r#Type"; v_fields := FUnit; v_attrs := [] |};
                                                          {| v_ident := K "Table"; v_fields := FUnit; v_attrs := [] |} ])
               (VVariant 0 None) = Some (K "type")
  /\ unquoted (fun _ _ => []) (DEnum (K "r#Struct") [] [ {| v_ident := K "r#Type"; v_fields := FUnit; v_attrs := [] |};
                                                          {| v_ident := K "Table"; v_fields := FUnit; v_attrs := [] |} ])
               (VVariant 1 None) = Some (K "struct").
Proof. repeat split; reflexivity. Qed.

Theorem C19_method_and_flatten_names :
  (forall menv ident attrs vs i var inner crename m,
      parsed_attr attrs = Some (option_map Rename crename) ->
      nth_error vs i = Some var ->
      variant_new var = Some (Some (Method m)) ->
      unquoted menv (DEnum ident attrs vs) (VVariant i inner) = Some (menv ident m))
  /\ (forall menv ident attrs vs i var t' v' crename,
      parsed_attr attrs = Some (option_map Rename crename) ->
      nth_error vs i = Some var ->
      variant_new var = Some (Some Flatten) ->
      unquoted menv (DEnum ident attrs vs) (VVariant i (Some (t', v'))) = unquoted menv t' v').
Proof. split; [exact derived_method_name | exact derived_flatten_name]. Qed.
Print Assumptions C19_method_and_flatten_names.

Theorem C19_unit_struct_name :
  forall (menv : method_env) (ident : str) (attrs : list attr_meta) (crename : option str),
    parsed_attr attrs = Some (option_map Rename crename) ->
    unquoted menv (DUnit ident attrs) VUnit = Some (spec_table_name ident crename)
    /\ as_str menv (DUnit ident attrs) VUnit = Some (spec_table_name ident crename).
Proof. exact derived_unit_struct_name. Qed.
Print Assumptions C19_unit_struct_name.

(* a rename with braces is written verbatim (it used to be the format string of write!: F11a, fixed) *)
Example C19_unit_struct_brace_instance :
  unquoted (fun _ _ => []) (DUnit (K "B") [MIdenEq (K "b{{x}}")]) VUnit = Some (K "b{{x}}")
  /\ as_str (fun _ _ => []) (DUnit (K "B") [MIdenEq (K "b{{x}}")]) VUnit = Some (K "b{{x}}")
  /\ unquoted (fun _ _ => []) (DUnit (K "B") [MIdenEq (K "{}")]) VUnit = Some (K "{}")
  /\ derived_prepare (fun _ _ => []) (sym_quote 34) (DUnit (K "B") [MIdenEq (K "{}")]) VUnit = Some (K """{}""")
  /\ unquoted (fun _ _ => []) (DUnit (K "r#Struct") []) VUnit = Some (K "struct").
Proof. repeat split; reflexivity. Qed.

Theorem C19_first_attribute_counts :
  parsed_attr [] = Some None
  /\ (forall r rest, parsed_attr (MIdenEq r :: rest) = Some (Some (Rename r)))
  /\ (forall m rest, parsed_attr (MMethodEq m :: rest) = Some (Some (Method m)))
  /\ (forall items it rest, parsed_attr (MIdenList (items ++ [it]) :: rest) = Some (Some (attr_of_nested it))).
Proof. exact parsed_attr_first_wins. Qed.
Print Assumptions C19_first_attribute_counts.

Theorem C19_enum_def_naming :
  forall (a : enum_def_args) (ident : str) (fs : list str),
    enum_def_name a ident = or_default (ed_prefix a) [] ++ unraw ident ++ or_default (ed_suffix a) (K "Iden")
    /\ enum_def_variants fs = K "Table" :: map (fun f => pascal_case (unraw f)) fs
    /\ (forall menv inner, unquoted menv (DEnumDef a ident fs) (VVariant 0 inner)
          = Some (match ed_table_name a with Some t => t | None => snake_case (unraw ident) end))
    /\ (forall menv inner k, unquoted menv (DEnumDef a ident fs) (VVariant (S k) inner)
          = option_map unraw (nth_error fs k))
    /\ (forall menv v, as_str menv (DEnumDef a ident fs) v = unquoted menv (DEnumDef a ident fs) v).
Proof. exact enum_def_naming. Qed.
Print Assumptions C19_enum_def_naming.

Example C19_enum_def_instance :
  let a := {| ed_prefix := Some (K "P"); ed_suffix := None; ed_table_name := None |} in
  enum_def_name a (K "HTTPThing") = K "PHTTPThingIden"
  /\ enum_def_variants [K "font_size"; K "http2Server"; K "_x"; K "r#type"]
     = [K "Table"; K "FontSize"; K "Http2Server"; K "X"; K "Type"]
  /\ unquoted (fun _ _ => []) (DEnumDef a (K "HTTPThing") [K "font_size"]) (VVariant 0 None) = Some (K "http_thing")
  /\ unquoted (fun _ _ => []) (DEnumDef a (K "HTTPThing") [K "font_size"]) (VVariant 1 None) = Some (K "font_size")
  /\ unquoted (fun _ _ => []) (DEnumDef a (K "r#Struct") [K "r#type"]) (VVariant 1 None) = Some (K "type")
  /\ unquoted (fun _ _ => []) (DEnumDef a (K "r#Struct") [K "r#type"]) (VVariant 0 None) = Some (K "struct").
Proof. repeat split; reflexivity. Qed.

(* (c) facts about snake_case that make (b) more than a restatement; all for every input string *)
Theorem C19_snake_case_as_words :
  forall s : str,
    snake_case s = join_with [95] (map lowercase (heck_words s))
    /\ pascal_case s = List.concat (map capitalize (heck_words s))
    /\ List.concat (heck_words s) = filter is_ascii_alphanumeric s
    /\ Forall (fun w => w <> []) (heck_words s).
Proof.
  intros s. repeat split.
  - exact (snake_case_words s).
  - exact (pascal_case_words s).
  - exact (heck_words_concat s).
  - exact (heck_words_nonempty s).
Qed.
Print Assumptions C19_snake_case_as_words.

(* word boundaries are a property of the position alone: inside a maximal run of ASCII letters and
   digits, a word starts at c (pre before it, post after it) iff c is uppercase and either the last
   letter before c is lowercase (lower to upper), or it is uppercase and a lowercase letter follows c
   (end of an acronym). Everything that is not an ASCII letter or digit separates runs. *)
Theorem C19_word_boundaries_position_wise :
  forall s : str, heck_words s = flat_map run_words (get_iterator s).
Proof. exact heck_words_position_wise. Qed.
Print Assumptions C19_word_boundaries_position_wise.

Check (eq_refl : word_starts_at =
  fun pre c post =>
    negb (is_nil pre) && is_uppercase c &&
    (is_mode_lower (last_cased pre)
     || (is_mode_upper (last_cased pre) && match post with n :: _ => is_lowercase n | [] => false end))).
Check (eq_refl : get_iterator = fun s => split_on (fun c => negb (is_ascii_alphanumeric c)) s).

Example C19_word_boundaries_instance :
  run_words (K "HTTPServer2Go") = [K "HTTP"; K "Server2"; K "Go"]
  /\ word_starts_at (K "HTTP") 83 (K "erver2Go") = true      (* S after HTTP, before e: acronym ends *)
  /\ word_starts_at (K "HTT") 80 (K "Server2Go") = false     (* P inside the acronym *)
  /\ word_starts_at (K "HTTPServer2") 71 (K "o") = true      (* G after r2: last letter is lowercase *)
  /\ get_iterator (K "Abc_Def") = [K "Abc"; K "Def"].
Proof. repeat split; reflexivity. Qed.

Theorem C19_snake_case_alphabet :
  forall s : str, Forall (fun c => is_lowercase c || is_dec_digit c || (c =? 95) = true) (snake_case s).
Proof. exact snake_case_alphabet. Qed.
Print Assumptions C19_snake_case_alphabet.

Theorem C19_snake_case_keeps_letters_and_digits :
  forall s : str,
    filter is_ascii_alphanumeric (snake_case s) = map ascii_lower (filter is_ascii_alphanumeric s).
Proof. exact snake_case_preserves_alnum. Qed.
Print Assumptions C19_snake_case_keeps_letters_and_digits.

Theorem C19_snake_case_idempotent :
  forall s : str, snake_case (snake_case s) = snake_case s.
Proof. exact snake_case_idempotent. Qed.
Print Assumptions C19_snake_case_idempotent.

Example C19_snake_case_instances :
  map snake_case [K "HTTPServer2Go"; K "FontSize"; K "Abc_Def"; K "ABcDE"; K "abc123DEf456"; K "__a__B_"; K "_1"; K "XMLHttpRequest"]
    = [K "http_server2_go"; K "font_size"; K "abc_def"; K "a_bc_de"; K "abc123_d_ef456"; K "a_b"; K "1"; K "xml_http_request"]
  /\ map heck_words [K "HTTPServer2Go"; K "Abc_Def"]
    = [[K "HTTP"; K "Server2"; K "Go"]; [K "Abc"; K "Def"]].
Proof. split; reflexivity. Qed.

(* (d) un-renamed names take the fast path: snake_case s is a valid iden exactly when the first
   letter-or-digit of s is a letter (a Rust identifier may be _1: then the general path is used) *)
Theorem C19_snake_names_take_fast_path :
  forall s : str,
    must_be_valid_iden (snake_case s) = true <->
    match filter is_ascii_alphanumeric s with c :: _ => is_ascii_alphabetic c = true | [] => True end.
Proof. exact snake_case_valid_iden_iff. Qed.
Print Assumptions C19_snake_names_take_fast_path.

Theorem C19_unrenamed_variant_is_valid :
  forall (table_name ident : str),
    str_eqb ident (K "Table") = false ->
    match filter is_ascii_alphanumeric (unraw ident) with c :: _ => is_ascii_alphabetic c = true | [] => True end ->
    variant_valid table_name ident None = true.
Proof. exact unrenamed_variant_valid. Qed.
Print Assumptions C19_unrenamed_variant_is_valid.

Example C19_fast_path_names_instance :
  must_be_valid_iden (snake_case (K "HTTPServer2Go")) = true
  /\ variant_valid [] (K "FontSize") None = true
  /\ variant_valid [] (K "r#Type") None = true
  /\ must_be_valid_iden (snake_case (K "_1")) = false.
Proof. repeat split; reflexivity. Qed.
