(* C02 — inline rendering and parameterised rendering are the same statement. *)
Require Import SQV.Model.Str SQV.Model.Escape SQV.Model.Value SQV.Model.Writer SQV.Proofs.WriterProofs.

(* For EVERY script: the inline text is the parameterised text with the i-th hole replaced by the
   backend's literal of the i-th returned value; nothing else can differ (same pieces, same order). *)
Theorem C02_inline_is_params_substituted :
  forall (ftext : bool -> N -> str) b sc inl sql vals,
  emit_inline ftext b sc = Ok inl -> emit_params ftext b sc = Ok (sql, vals) ->
  inl = flatten_inline ftext b vals (pieces ftext b sc) /\ sql = flatten_params b (pieces ftext b sc).
Proof. exact inline_is_params_substituted. Qed.
Print Assumptions C02_inline_is_params_substituted.

Theorem C02_modes_panic_together :
  forall (ftext : bool -> N -> str) b sc,
  emit_inline ftext b sc = Panic <-> emit_params ftext b sc = Panic.
Proof. exact modes_panic_together. Qed.
Print Assumptions C02_modes_panic_together.

(* The two TEXTS as the engine reads them.  For EVERY script that satisfies the decidable separability premises
   (Spec/EngScript.v) in both modes: piece by piece, the engine's token stream of the inline SQL is the token
   stream of the parameterised SQL in which every placeholder token TkParam is replaced by the engine tokens of the
   literal of the value bound to it (pr_hole), and every other piece contributes the same tokens to both
   (pr_text: same tokens, no placeholder among them).  So the two forms cannot differ in structure, clause order
   or parenthesisation as the engine sees them. *)
Require Import SQV.Spec.EngLex SQV.Spec.EngTok SQV.Spec.EngBoundary SQV.Spec.EngScript SQV.Proofs.EngScriptProofs.
Theorem C02_engine_reads_inline_as_params_substituted :
  forall (ftext : bool -> N -> str) b sc inl sql vals,
  emit_inline ftext b sc = Ok inl -> emit_params ftext b sc = Ok (sql, vals) ->
  params_sep ftext b sc = true -> inline_sep ftext b sc = true ->
  exists tsp tsi, eng_tokens b sql = Some (concat tsp) /\ eng_tokens b inl = Some (concat tsi) /\
                  pieces_rel ftext b vals (pieces ftext b sc) tsp tsi.
Proof. exact engine_reads_inline_as_params_substituted. Qed.
Print Assumptions C02_engine_reads_inline_as_params_substituted.
