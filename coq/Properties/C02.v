(* C02 — inline rendering and parameterised rendering are the same statement. *)
Require Import SQV.Model.Str SQV.Model.Escape SQV.Model.Value SQV.Model.Writer SQV.Proofs.WriterProofs.

(* For EVERY script: the inline text is the parameterised text with the i-th hole replaced by the
   backend's literal of the i-th returned value; nothing else can differ (same pieces, same order). *)
Theorem C02_inline_is_params_substituted :
  forall (ftext : bool -> N -> str) b sc inl sql vals,
  emit_inline ftext b sc = Ok inl -> emit_params ftext b sc = Ok (sql, vals) ->
  inl = flatten_inline ftext b vals (pieces ftext b sc) /\ sql = flatten_params b (pieces ftext b sc).
Proof. exact inline_is_params_substituted. Qed.
Print Assumptions C02_inline_is_params_substituted.

Theorem C02_modes_panic_together :
  forall (ftext : bool -> N -> str) b sc,
  emit_inline ftext b sc = Panic <-> emit_params ftext b sc = Panic.
Proof. exact modes_panic_together. Qed.
Print Assumptions C02_modes_panic_together.
