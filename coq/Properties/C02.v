(* C02 — inline rendering and parameterised rendering are the same statement. *)
Require Import SQV.Model.Str SQV.Model.Escape SQV.Model.Value SQV.Model.Writer SQV.Proofs.WriterProofs.

(* For EVERY script: the inline text is the parameterised text with the i-th hole replaced by the
   backend's literal of the i-th returned value; nothing else can differ (same pieces, same order). *)
Theorem C02_inline_is_params_substituted :
  forall (ftext : bool -> N -> str) b sc inl sql vals,
  emit_inline ftext b sc = Ok inl -> emit_params ftext b sc = Ok (sql, vals) ->
  inl = flatten_inline ftext b vals (pieces ftext b sc) /\ sql = flatten_params b (pieces ftext b sc).
Proof. exact inline_is_params_substituted. Qed.
Print Assumptions C02_inline_is_params_substituted.

Theorem C02_modes_panic_together :
  forall (ftext : bool -> N -> str) b sc,
  emit_inline ftext b sc = Panic <-> emit_params ftext b sc = Panic.
Proof. exact modes_panic_together. Qed.
Print Assumptions C02_modes_panic_together.

(* The two TEXTS as the engine reads them.  For EVERY script that satisfies the decidable separability premises
   (Spec/EngScript.v) in both modes: piece by piece, the engine's token stream of the inline SQL is the token
   stream of the parameterised SQL in which every placeholder token TkParam is replaced by the engine tokens of the
   literal of the value bound to it (pr_hole), and every other piece contributes the same tokens to both
   (pr_text: same tokens, no placeholder among them).  So the two forms cannot differ in structure, clause order
   or parenthesisation as the engine sees them. *)
Require Import SQV.Spec.EngLex SQV.Spec.EngTok SQV.Spec.EngBoundary SQV.Spec.EngScript SQV.Proofs.EngScriptProofs.
Theorem C02_engine_reads_inline_as_params_substituted :
  forall (ftext : bool -> N -> str) b sc inl sql vals,
  emit_inline ftext b sc = Ok inl -> emit_params ftext b sc = Ok (sql, vals) ->
  params_sep ftext b sc = true -> inline_sep ftext b sc = true ->
  exists tsp tsi, eng_tokens b sql = Some (concat tsp) /\ eng_tokens b inl = Some (concat tsi) /\
                  pieces_rel ftext b vals (pieces ftext b sc) tsp tsi.
Proof. exact engine_reads_inline_as_params_substituted. Qed.
Print Assumptions C02_engine_reads_inline_as_params_substituted.

(* The premises hold for EVERY rendered expression whose literals lex.  For every expression tree without raw SQL
   whose values and constants are written as lexable literals (expr_plain .. true: decidable; it holds for strings,
   characters, byte strings, integers, booleans and NULLs by the literal theorems of C03, and is a hypothesis for
   the texts of external formatters), every backend, both rendering paths and every table whose spellings lex:
   the inline script is locally safe (Spec/ScriptSafe.v, mode true), hence inline_sep holds; with
   C01_rendered_expression_is_separable for the parameterised mode, C02_engine_reads_inline_as_params_substituted
   applies to the two texts of the expression. *)
Require Import SQV.Model.Expr SQV.Model.RenderExpr SQV.Spec.ScriptSafe SQV.Proofs.ScriptSafeProofs
  SQV.Proofs.ExprSafeProofs.
Theorem C02_local_safety_gives_the_inline_premise :
  forall (ftext : bool -> N -> str) b sc, sc_ok ftext b true sc = true -> inline_sep ftext b sc = true.
Proof. exact sc_ok_inline_sep. Qed.
Print Assumptions C02_local_safety_gives_the_inline_premise.

Theorem C02_rendered_expression_is_separable_inline :
  forall (ftext : bool -> N -> str) Q (rq : Q -> script) is_alpha b T (e : expr Q) common,
  spellings_lex b T -> (forall q, sc_ok ftext b true (rq q) = true) -> expr_plain ftext Q b true (fun _ => true) e = true ->
  inline_sep ftext b (rexpr Q rq is_alpha b T common e) = true.
Proof. exact rendered_expression_is_separable_inline. Qed.
Print Assumptions C02_rendered_expression_is_separable_inline.

(* ... and for EVERY rendered STATEMENT of the class query_plain (inline mode: the literals of its values lex). *)
Require Import SQV.Model.Stmt SQV.Model.RenderStmt SQV.Proofs.StmtSafeProofs.
Theorem C02_rendered_statement_is_separable_inline :
  forall (ftext : bool -> N -> str) is_alpha b T fuel q, spellings_lex b T ->
  query_plain ftext b true fuel q = true -> inline_sep ftext b (rquery is_alpha b T fuel q) = true.
Proof. exact rendered_statement_is_separable_inline. Qed.
Print Assumptions C02_rendered_statement_is_separable_inline.
