(* C08 — MySQL/Postgres statements carry every clause given, in grammar order; dialect-specific
   constructs appear only in their own dialect and in that dialect's form. *)
Require Import SQV.Model.Str SQV.Model.Escape SQV.Model.Value SQV.Model.Expr SQV.Model.Stmt SQV.Model.Writer
  SQV.Model.RenderExpr SQV.Model.RenderStmt SQV.Spec.ClauseOrder SQV.Proofs.ClauseProofs.
From Coq Require Import String.
Open Scope list_scope.

Theorem C08_select_order_mysql_postgres :
  forall b s, b <> SQLite -> no_window s = true -> respects (select_pos b) (sel_emitted s) = true.
Proof. exact select_order_mysql_postgres. Qed.
Print Assumptions C08_select_order_mysql_postgres.

Theorem C08_dml_order :
  forall b,
  respects (insert_pos b) (filter (dialect_has (insert_pos b)) ins_render_order) = true /\
  respects (update_pos b) (filter (dialect_has (update_pos b)) upd_render_order) = true /\
  respects (delete_pos b) (filter (dialect_has (delete_pos b)) del_render_order) = true.
Proof. intros b. split; [apply insert_order|split; [apply update_order|apply delete_order]]. Qed.
Print Assumptions C08_dml_order.

Theorem C08_mysql_renders_no_returning :
  forall is_alpha T rq i u d,
  ins_clause is_alpha MySQL T rq i KReturning = [] /\
  upd_clause is_alpha MySQL T rq u KReturning = [] /\
  upd_clause is_alpha MySQL T rq u KUpdFrom = [] /\
  del_clause is_alpha MySQL T rq d KReturning = [].
Proof. exact mysql_renders_no_returning. Qed.
Print Assumptions C08_mysql_renders_no_returning.

Theorem C08_update_join_only_mysql :
  forall is_alpha T rq b u, b <> MySQL -> upd_clause is_alpha b T rq u KUpdJoin = [].
Proof. exact only_mysql_renders_update_join. Qed.
Print Assumptions C08_update_join_only_mysql.

Theorem C08_index_hints_only_mysql : forall b hs, b <> MySQL -> rhints b hs = [].
Proof. exact index_hints_only_mysql. Qed.
Print Assumptions C08_index_hints_only_mysql.

Theorem C08_distinct_on_only_postgres : forall b cols, b <> Postgres -> rdistinct b (DDistinctOn cols) = [].
Proof. exact distinct_on_only_postgres. Qed.
Print Assumptions C08_distinct_on_only_postgres.

Theorem C08_table_sample_only_postgres : forall b smp, b <> Postgres -> rsample b smp = [].
Proof. exact table_sample_only_postgres. Qed.
Print Assumptions C08_table_sample_only_postgres.

Theorem C08_mysql_upsert_form :
  forall is_alpha T rq targets tw action aw,
  ronconflict is_alpha MySQL T rq (Some (OnConflict targets tw action aw)) =
  wss " ON DUPLICATE KEY" ++ roc_action is_alpha MySQL T rq action.
Proof. exact mysql_upsert_has_no_target_or_where. Qed.
Print Assumptions C08_mysql_upsert_form.

Theorem C08_nulls_ordering_form :
  forall is_alpha T rq b e o n,
  rorder is_alpha b T rq (OrderExpr e o (Some n)) =
  match b with
  | MySQL =>
      rex is_alpha b T rq (EBinary e BIs (EKeyword KwNull)) ++ (match n with NLast => wss " ASC, " | NFirst => wss " DESC, " end) ++
      rorder is_alpha b T rq (OrderExpr e o None)
  | _ =>
      rorder is_alpha b T rq (OrderExpr e o None) ++
      (match n with NLast => wss " NULLS LAST" | NFirst => wss " NULLS FIRST" end)
  end.
Proof. exact nulls_ordering_form. Qed.
Print Assumptions C08_nulls_ordering_form.

Theorem C08_search_cycle_only_postgres :
  forall is_alpha T rq b rc search cycle ctes, b <> Postgres ->
  rwith is_alpha b T rq (WithClause rc search cycle ctes) = rwith is_alpha b T rq (WithClause rc None None ctes).
Proof. exact search_cycle_only_postgres. Qed.
Print Assumptions C08_search_cycle_only_postgres.
