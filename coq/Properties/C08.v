(* C08 — MySQL/Postgres statements carry every clause given, in grammar order; dialect-specific
   constructs appear only in their own dialect and in that dialect's form. *)
Require Import SQV.Model.Str SQV.Model.Escape SQV.Model.Value SQV.Model.Expr SQV.Model.Stmt SQV.Model.Writer
  SQV.Model.RenderExpr SQV.Model.RenderStmt SQV.Spec.ClauseOrder SQV.Proofs.ClauseProofs.
From Coq Require Import String.
Open Scope list_scope.

Theorem C08_select_order_mysql_postgres :
  forall b s, b <> SQLite -> no_window s = true -> respects (select_pos b) (sel_emitted s) = true.
Proof. exact select_order_mysql_postgres. Qed.
Print Assumptions C08_select_order_mysql_postgres.

Theorem C08_dml_order :
  forall b,
  respects (insert_pos b) (filter (dialect_has (insert_pos b)) ins_render_order) = true /\
  respects (update_pos b) (filter (dialect_has (update_pos b)) upd_render_order) = true /\
  respects (delete_pos b) (filter (dialect_has (delete_pos b)) del_render_order) = true.
Proof. intros b. split; [apply insert_order|split; [apply update_order|apply delete_order]]. Qed.
Print Assumptions C08_dml_order.

Theorem C08_mysql_renders_no_returning :
  forall is_alpha T rq i u d,
  ins_clause is_alpha MySQL T rq i KReturning = [] /\
  upd_clause is_alpha MySQL T rq u KReturning = [] /\
  upd_clause is_alpha MySQL T rq u KUpdFrom = [] /\
  del_clause is_alpha MySQL T rq d KReturning = [].
Proof. exact mysql_renders_no_returning. Qed.
Print Assumptions C08_mysql_renders_no_returning.

Theorem C08_update_join_only_mysql :
  forall is_alpha T rq b u, b <> MySQL -> upd_clause is_alpha b T rq u KUpdJoin = [].
Proof. exact only_mysql_renders_update_join. Qed.
Print Assumptions C08_update_join_only_mysql.

Theorem C08_index_hints_only_mysql : forall b hs, b <> MySQL -> rhints b hs = [].
Proof. exact index_hints_only_mysql. Qed.
Print Assumptions C08_index_hints_only_mysql.

Theorem C08_distinct_on_only_postgres : forall b cols, b <> Postgres -> rdistinct b (DDistinctOn cols) = [].
Proof. exact distinct_on_only_postgres. Qed.
Print Assumptions C08_distinct_on_only_postgres.

Theorem C08_table_sample_only_postgres : forall b smp, b <> Postgres -> rsample b smp = [].
Proof. exact table_sample_only_postgres. Qed.
Print Assumptions C08_table_sample_only_postgres.

Theorem C08_mysql_upsert_form :
  forall is_alpha T rq targets tw action aw,
  ronconflict is_alpha MySQL T rq (Some (OnConflict targets tw action aw)) =
  wss " ON DUPLICATE KEY" ++ roc_action is_alpha MySQL T rq action.
Proof. exact mysql_upsert_has_no_target_or_where. Qed.
Print Assumptions C08_mysql_upsert_form.

Theorem C08_nulls_ordering_form :
  forall is_alpha T rq b e o n,
  rorder is_alpha b T rq (OrderExpr e o (Some n)) =
  match b with
  | MySQL =>
      rex is_alpha b T rq (EBinary e BIs (EKeyword KwNull)) ++ (match n with NLast => wss " ASC, " | NFirst => wss " DESC, " end) ++
      rorder is_alpha b T rq (OrderExpr e o None)
  | _ =>
      rorder is_alpha b T rq (OrderExpr e o None) ++
      (match n with NLast => wss " NULLS LAST" | NFirst => wss " NULLS FIRST" end)
  end.
Proof. exact nulls_ordering_form. Qed.
Print Assumptions C08_nulls_ordering_form.

Theorem C08_search_cycle_only_postgres :
  forall is_alpha T rq b rc search cycle ctes, b <> Postgres ->
  rwith is_alpha b T rq (WithClause rc search cycle ctes) = rwith is_alpha b T rq (WithClause rc None None ctes).
Proof. exact search_cycle_only_postgres. Qed.
Print Assumptions C08_search_cycle_only_postgres.

(* At the level of the ENGINE'S TOKENS.  For every SELECT / INSERT / UPDATE / DELETE of the class query_plain
   (Proofs/StmtSafeProofs.v: no custom templates, no FIELD ordering, raw SQL atoms that lex on their own), every
   backend, every nesting depth and every table whose spellings lex: the engine's token stream of the SQL that
   build() returns is the concatenation, in render order, of the token streams of the statement's clauses - each
   clause lexed on its own, its placeholders numbered from where the clause starts (clause_starts); a clause that was
   not given contributes no token, and no token is read across the boundary of two clauses.  With the order theorems
   above (the render order respects the dialect's grammar positions) every given clause is found, once, at its
   position in the token stream.  A clause that starts with a fixed text (` WHERE `, ` ORDER BY `, ...) contributes
   the tokens of that text first (C08_clause_starts_with_its_keyword).  Not proved: that the tokens inside a clause
   are parenthesis-balanced (so that its keyword is the only one at depth 0); the clause reader of the check decides
   that on the implementation's output. *)
Require Import SQV.Spec.EngTok SQV.Spec.ScriptSafe SQV.Proofs.ExprSafeProofs SQV.Proofs.StmtSafeProofs
  SQV.Proofs.ClauseTokProofs.
Theorem C08_select_tokens_are_clause_tokens :
  forall (ftext : bool -> N -> str) is_alpha b T, spellings_lex b T -> forall fuel s,
  query_plain ftext b false (S fuel) (QSelect s) = true ->
  let rq := rquery is_alpha b T fuel in
  let cls := map (sel_clause is_alpha b T rq s) sel_render_order in
  exists tks, eng_tokens b (sqlc ftext b 0 (rquery is_alpha b T (S fuel) (QSelect s))) = Some (List.concat tks) /\
              Forall2 (fun cs tk => eng_tokens b (sqlc ftext b (fst cs) (snd cs)) = Some tk)
                      (combine (clause_starts 0 cls) cls) tks.
Proof. exact select_tokens_are_clause_tokens. Qed.
Print Assumptions C08_select_tokens_are_clause_tokens.

Theorem C08_insert_tokens_are_clause_tokens :
  forall (ftext : bool -> N -> str) is_alpha b T, spellings_lex b T -> forall fuel i,
  query_plain ftext b false (S fuel) (QInsert i) = true ->
  let rq := rquery is_alpha b T fuel in
  let cls := map (ins_clause is_alpha b T rq i) ins_render_order in
  exists tks, eng_tokens b (sqlc ftext b 0 (rquery is_alpha b T (S fuel) (QInsert i))) = Some (List.concat tks) /\
              Forall2 (fun cs tk => eng_tokens b (sqlc ftext b (fst cs) (snd cs)) = Some tk)
                      (combine (clause_starts 0 cls) cls) tks.
Proof. exact insert_tokens_are_clause_tokens. Qed.
Print Assumptions C08_insert_tokens_are_clause_tokens.

Theorem C08_update_tokens_are_clause_tokens :
  forall (ftext : bool -> N -> str) is_alpha b T, spellings_lex b T -> forall fuel u,
  query_plain ftext b false (S fuel) (QUpdate u) = true ->
  let rq := rquery is_alpha b T fuel in
  let cls := map (upd_clause is_alpha b T rq u) upd_render_order in
  exists tks, eng_tokens b (sqlc ftext b 0 (rquery is_alpha b T (S fuel) (QUpdate u))) = Some (List.concat tks) /\
              Forall2 (fun cs tk => eng_tokens b (sqlc ftext b (fst cs) (snd cs)) = Some tk)
                      (combine (clause_starts 0 cls) cls) tks.
Proof. exact update_tokens_are_clause_tokens. Qed.
Print Assumptions C08_update_tokens_are_clause_tokens.

Theorem C08_delete_tokens_are_clause_tokens :
  forall (ftext : bool -> N -> str) is_alpha b T, spellings_lex b T -> forall fuel d,
  query_plain ftext b false (S fuel) (QDelete d) = true ->
  let rq := rquery is_alpha b T fuel in
  let cls := map (del_clause is_alpha b T rq d) del_render_order in
  exists tks, eng_tokens b (sqlc ftext b 0 (rquery is_alpha b T (S fuel) (QDelete d))) = Some (List.concat tks) /\
              Forall2 (fun cs tk => eng_tokens b (sqlc ftext b (fst cs) (snd cs)) = Some tk)
                      (combine (clause_starts 0 cls) cls) tks.
Proof. exact delete_tokens_are_clause_tokens. Qed.
Print Assumptions C08_delete_tokens_are_clause_tokens.

Theorem C08_clause_starts_with_its_keyword :
  forall (ftext : bool -> N -> str) b kw rest c,
  sc_ok ftext b false (WS kw :: rest) = true ->
  exists tkw trest, eng_tokens b kw = Some tkw /\
                    eng_tokens b (sqlc ftext b c (WS kw :: rest)) = Some (tkw ++ trest).
Proof. exact clause_starts_with_its_keyword. Qed.
Print Assumptions C08_clause_starts_with_its_keyword.

Theorem C08_tokens_of_parts :
  forall (ftext : bool -> N -> str) b A B c, sc_ok ftext b false (A ++ B) = true ->
  exists ta tb, eng_tokens b (sqlc ftext b c (A ++ B)) = Some (ta ++ tb) /\
                eng_tokens b (sqlc ftext b c A) = Some ta /\
                eng_tokens b (sqlc ftext b (c + nholes A) B) = Some tb.
Proof. exact tokens_of_parts. Qed.
Print Assumptions C08_tokens_of_parts.
