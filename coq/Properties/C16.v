(* C16 — the SQL tokenizer is lossless and always terminates. *)
Require Import SQV.Model.Str SQV.Model.Token SQV.Proofs.TokenProofs SQV.Generated.Alpha.

(* for every classification function (char::is_alphabetic is a parameter) and every input:
   tokenizing terminates (fuel length+1 is never exhausted), is lossless, tokens are non-empty *)
Theorem C16_tokenize_lossless :
  forall (is_alpha : N -> bool) (s : str),
  exists ts, tokenize is_alpha s = Some ts /\ concat (map text ts) = s /\
             Forall (fun t => text t <> []) ts.
Proof. exact tokenize_lossless. Qed.
Print Assumptions C16_tokenize_lossless.

Theorem C16_next_none_only_at_end :
  forall (is_alpha : N -> bool) (s : str), next is_alpha s = None <-> s = [].
Proof. exact next_none_iff. Qed.
Print Assumptions C16_next_none_only_at_end.

Theorem C16_token_kind_by_first_char :
  forall (is_alpha : N -> bool) c s t r, next is_alpha (c :: s) = Some (t, r) ->
  kind t = kind_of_first is_alpha c /\ exists a, text t = c :: a.
Proof. exact next_kind. Qed.
Print Assumptions C16_token_kind_by_first_char.

(* quoted text with doubled / backslash-escaped delimiters is one Quoted token, whatever follows
   (as long as what follows does not double the closing delimiter) *)
Theorem C16_quoted_is_one_token :
  forall (is_alpha : N -> bool) start b rest,
  is_delim_start start = true -> is_alpha start = false ->
  body start b -> no_doubling start rest ->
  next is_alpha (start :: b ++ closer start :: rest)
  = Some (Quoted (start :: b ++ [closer start]), rest).
Proof. exact quoted_is_one_token. Qed.
Print Assumptions C16_quoted_is_one_token.

(* the side condition on the classifier holds for the toolchain's char::is_alphabetic
   (table regenerated from the toolchain on every run) *)
Theorem C16_rust_classifier_ok :
  forallb (fun d => negb (is_alpha_rust d)) [96; 91; 39; 34] = true.
Proof. vm_compute. reflexivity. Qed.
Print Assumptions C16_rust_classifier_ok.

Theorem C16_unquote_inverts_quote :
  forall start b k, is_delim_start start = true -> content start b k ->
  unquote (Quoted (start :: b ++ [closer start])) = Some k.
Proof. exact unquote_inverts_quote. Qed.
Print Assumptions C16_unquote_inverts_quote.
