(* C06 — WHERE/HAVING/ON mean the conjunction of the conditions that were added. *)
Require Import SQV.Model.Str SQV.Model.Value SQV.Model.Expr SQV.Model.Cond SQV.Model.Stmt SQV.Model.Build
  SQV.Spec.Logic3 SQV.Proofs.CondProofs.

(* for every valuation of the atoms in SQL's three-valued logic and every condition value (any
   nesting depth and width): the expression the renderer is given denotes the any/all/not meaning *)
Theorem C06_to_simple_expr_sound :
  forall (Q : Type) (rho : expr Q -> tv) (c : cond Q), eval3 rho (to_simple_expr c) = sem_cond rho c.
Proof. exact to_simple_expr_sound. Qed.
Print Assumptions C06_to_simple_expr_sound.

(* for every builder program Cond::any()/all() followed by any sequence of add / add_option(None) /
   not calls: the built condition means (NOT^parity) (OR | AND of the added members), including the
   single-member unwrap rule, empty groups (any = false, all = true) and optional members *)
Theorem C06_condition_build_sound :
  forall (rho : expr query -> tv) is_any ops,
  eval3 rho (to_simple_expr (build_cond is_any ops)) = prog_sem rho is_any ops.
Proof. exact condition_build_sound. Qed.
Print Assumptions C06_condition_build_sound.

(* for every history of cond_where / and_where (cond_having, ...) calls, starting from any holder:
   the holder denotes the AND of everything added *)
Theorem C06_holder_is_conjunction :
  forall (rho : expr query -> tv) (cs : list (cond query)) (h0 : holder query),
  sem_holder rho (fold_left holder_add cs h0) = and3 (sem_holder rho h0) (big_and (map (sem_cond rho) cs)).
Proof. exact holder_is_conjunction. Qed.
Print Assumptions C06_holder_is_conjunction.

(* a statement that was given no condition has no predicate at all, and only then *)
Theorem C06_no_condition_no_predicate :
  forall cs : list (cond query), fold_left holder_add cs HEmpty = HEmpty <-> cs = [].
Proof. exact holder_empty_iff. Qed.
Print Assumptions C06_no_condition_no_predicate.
