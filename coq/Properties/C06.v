(* C06 — WHERE/HAVING/ON mean the conjunction of the conditions that were added. *)
Require Import SQV.Model.Str SQV.Model.Value SQV.Model.Expr SQV.Model.Cond SQV.Model.Stmt SQV.Model.Build
  SQV.Spec.Logic3 SQV.Proofs.CondProofs.

(* for every valuation of the atoms in SQL's three-valued logic and every condition value (any
   nesting depth and width): the expression the renderer is given denotes the any/all/not meaning *)
Theorem C06_to_simple_expr_sound :
  forall (Q : Type) (rho : expr Q -> tv) (c : cond Q), eval3 rho (to_simple_expr c) = sem_cond rho c.
Proof. exact to_simple_expr_sound. Qed.
Print Assumptions C06_to_simple_expr_sound.

(* for every builder program Cond::any()/all() followed by any sequence of add / add_option(None) /
   not calls: the built condition means (NOT^parity) (OR | AND of the added members), including the
   single-member unwrap rule, empty groups (any = false, all = true) and optional members *)
Theorem C06_condition_build_sound :
  forall (rho : expr query -> tv) is_any ops,
  eval3 rho (to_simple_expr (build_cond is_any ops)) = prog_sem rho is_any ops.
Proof. exact condition_build_sound. Qed.
Print Assumptions C06_condition_build_sound.

(* for every history of cond_where / and_where (cond_having, ...) calls, starting from any holder on which these
   calls do not panic (empty, or filled by such calls; not one filled by the doc-hidden and_or_where):
   the holder denotes the AND of everything added *)
Theorem C06_holder_is_conjunction :
  forall (rho : expr query -> tv) (cs : list (cond query)) (h0 : holder query), no_chain h0 ->
  sem_holder rho (fold_left holder_add cs h0) = and3 (sem_holder rho h0) (big_and (map (sem_cond rho) cs)).
Proof. exact holder_is_conjunction. Qed.
Print Assumptions C06_holder_is_conjunction.

(* the doc-hidden and_or_where(LogicalChainOper::And(e)): every history of such calls denotes the AND of the
   members (the meaning of a chain, Spec/Logic3.v sem_chain, is SQL's reading of the flat text it is written as) *)
Theorem C06_and_chain_is_conjunction :
  forall (rho : expr query -> tv) (es : list (expr query)),
  sem_holder rho (fold_left (fun h e => holder_add_chain h false e) es HEmpty) = big_and (map (eval3 rho) es).
Proof. exact and_chain_is_conjunction. Qed.
Print Assumptions C06_and_chain_is_conjunction.

(* a statement that was given no condition has no predicate at all, and only then *)
Theorem C06_no_condition_no_predicate :
  forall cs : list (cond query), fold_left holder_add cs HEmpty = HEmpty <-> cs = [].
Proof. exact holder_empty_iff. Qed.
Print Assumptions C06_no_condition_no_predicate.

(* End to end inside Coq (Proofs/WhereLinkProofs.v): for EVERY condition tree whose leaf expressions are
   in the operator fragment (comparisons, arithmetic, LIKE .. ESCAPE, BETWEEN, NOT over primary operands), every backend, both
   settings of option-more-parentheses, the decision tables executed from the code on this run and every
   valuation of the atoms: the WHERE / HAVING / ON clause the renderer writes is the abstract rendering of
   to_simple_expr c; that token list has a parse under the dialect's levels; EVERY parse of it is the same
   tree, and the Kleene value of the tree so read is the specified any / all / not meaning of c. *)
Require Import SQV.Spec.PrattT SQV.Spec.Prec SQV.Spec.ParenRows SQV.Model.Escape SQV.Model.Writer SQV.Model.RenderExpr
  SQV.Model.RenderStmt SQV.Model.ExprTablesInst SQV.Proofs.PrattLinkProofs SQV.Proofs.RowsSafeProofs
  SQV.Proofs.WhereLinkProofs.
From Coq Require Import String.
Open Scope list_scope.
Theorem C06_written_condition_reads_as_specified :
  forall (Q : Type) b more (rho : Expr.expr Q -> tv) (c : cond Q) rest p rest',
  cond_frag Q b c = true ->
  stops (Expr.expr Q) sop (prec b) 0 rest ->
  P (Expr.expr Q) sop (prec b) (rmin b) (notp b) tern 0
    (abstract_rendering Q (tables_of more b) (to_simple_expr c) ++ rest) p rest' ->
  p = skel Q (to_simple_expr c) /\ rest' = rest /\ eval3 rho (unskel Q p) = sem_cond rho c.
Proof. intros Q b more rho. apply written_condition_reads_as_specified. apply all_rows_safe. Qed.
Print Assumptions C06_written_condition_reads_as_specified.

Theorem C06_written_condition_parses :
  forall (Q : Type) b more (c : cond Q) rest,
  cond_frag Q b c = true -> stops (Expr.expr Q) sop (prec b) 0 rest ->
  P (Expr.expr Q) sop (prec b) (rmin b) (notp b) tern 0
    (abstract_rendering Q (tables_of more b) (to_simple_expr c) ++ rest) (skel Q (to_simple_expr c)) rest.
Proof. intros Q b more. apply written_condition_parses. apply all_rows_safe. Qed.
Print Assumptions C06_written_condition_parses.

Theorem C06_where_script_is_abstract_rendering :
  forall is_alpha b T rq kw (c : cond query), cond_frag query b c = true ->
  rholder is_alpha b T rq kw (HCond c) =
  [WS (K " " ++ K kw ++ K " ")] ++
  flat_map (tok_script query rq is_alpha b T) (abstract_rendering query T (to_simple_expr c)).
Proof. exact where_script_is_abstract_rendering. Qed.
Print Assumptions C06_where_script_is_abstract_rendering.

(* non-vacuity: all(a = 1, any(b < c, not(all(d IS NULL)))) has fragment leaves on every backend *)
Example C06_cond_frag_inhabited :
  let col := fun n : N => @EColumn unit (CCol [n]) in
  let c := Cond false false
             [MExpr (EBinary (col 97%N) BEqual (EValue (V TInt (Some (PInt 1%Z)))));
              MCond (Cond false true
                [MExpr (EBinary (col 98%N) BSmallerThan (col 99%N));
                 MCond (Cond true false [MExpr (EBinary (col 100%N) BIs (EKeyword KwNull))])])] in
  forall b, cond_frag unit b c = true.
Proof. intros col c [| |]; reflexivity. Qed.

(* The same end-to-end statement with leaves over EVERY binary operator (custom and extension operators
   included), for every assignment lv0 of levels to the operators the dialect's table does not place. *)
Require Import SQV.Proofs.PrattLinkAnyProofs SQV.Proofs.WhereLinkAnyProofs.
Theorem C06_written_condition_reads_as_specified_any_operator :
  forall (Q : Type) b (lv0 : binop -> nat) more (rho : Expr.expr Q -> tv) (c : cond Q) rest p rest',
  cond_frag_any Q c = true ->
  stops (Expr.expr Q) sop (prec_any b lv0) 0 rest ->
  P (Expr.expr Q) sop (prec_any b lv0) (rmin_any b lv0) (notp b) tern 0
    (abstract_rendering Q (tables_of more b) (to_simple_expr c) ++ rest) p rest' ->
  p = skel Q (to_simple_expr c) /\ rest' = rest /\ eval3 rho (unskel Q p) = sem_cond rho c.
Proof. intros Q b lv0 more rho. apply written_condition_reads_as_specified_any. apply all_rows_safe. Qed.
Print Assumptions C06_written_condition_reads_as_specified_any_operator.

Theorem C06_written_condition_parses_any_operator :
  forall (Q : Type) b (lv0 : binop -> nat) more (c : cond Q) rest,
  cond_frag_any Q c = true -> stops (Expr.expr Q) sop (prec_any b lv0) 0 rest ->
  P (Expr.expr Q) sop (prec_any b lv0) (rmin_any b lv0) (notp b) tern 0
    (abstract_rendering Q (tables_of more b) (to_simple_expr c) ++ rest) (skel Q (to_simple_expr c)) rest.
Proof. intros Q b lv0 more. apply written_condition_parses_any. apply all_rows_safe. Qed.
Print Assumptions C06_written_condition_parses_any_operator.

(* The Chain form end to end (Proofs/ChainProofs.v): for every history of and_or_where(LogicalChainOper::And(e))
   calls whose members are operator trees over primary operands (any binary operator), every backend, both
   parenthesis options, the decision tables executed from the code on this run and every level for the operators
   the dialect's table does not place:  the WHERE script the renderer writes is, member by member, the image of
   chain_toks (a member between parentheses exactly where prepare_logical_chain_oper puts them, " AND " between
   members);  that token list parses;  EVERY parse of it is the left-nested conjunction of the members' own trees,
   and its Kleene value is the AND of the members. *)
Require Import SQV.Proofs.ChainProofs.
Theorem C06_and_chain_script :
  forall is_alpha b T rq kw (e : Expr.expr query) (r : list (Expr.expr query)),
  Forall (fun x => frag_any query x = true) (e :: r) ->
  rholder is_alpha b T rq kw (HChain (map (pair false) (e :: r))) =
  [WS (K " " ++ K kw ++ K " ")] ++
  flat_map (tok_script query rq is_alpha b T) (W query T (List.length (e :: r)) e) ++
  flat_map (fun x => [ws " AND "] ++ flat_map (tok_script query rq is_alpha b T) (W query T (List.length (e :: r)) x)) r.
Proof. exact and_chain_script. Qed.
Print Assumptions C06_and_chain_script.

Theorem C06_and_chain_reads_as_conjunction :
  forall (Q : Type) b (lv0 : binop -> nat) more (rho : Expr.expr Q -> tv) (e : Expr.expr Q) (r : list (Expr.expr Q)) rest p rest',
  Forall (fun x => frag_any Q x = true) (e :: r) ->
  stops (Expr.expr Q) sop (prec_any b lv0) 0 rest ->
  P (Expr.expr Q) sop (prec_any b lv0) (rmin_any b lv0) (notp b) tern 0
    (chain_toks Q (tables_of more b) (e :: r) ++ rest) p rest' ->
  p = chain_tree Q e r /\ rest' = rest /\ eval3 rho (unskel Q p) = big_and (map (eval3 rho) (e :: r)).
Proof. intros Q b lv0 more. apply and_chain_reads_as_conjunction. apply all_rows_safe. Qed.
Print Assumptions C06_and_chain_reads_as_conjunction.

Theorem C06_and_chain_parses_back :
  forall (Q : Type) b (lv0 : binop -> nat) more (e : Expr.expr Q) (r : list (Expr.expr Q)) rest,
  Forall (fun x => frag_any Q x = true) (e :: r) ->
  stops (Expr.expr Q) sop (prec_any b lv0) 0 rest ->
  P (Expr.expr Q) sop (prec_any b lv0) (rmin_any b lv0) (notp b) tern 0
    (chain_toks Q (tables_of more b) (e :: r) ++ rest) (chain_tree Q e r) rest.
Proof. intros Q b lv0 more. apply and_chain_parses_back. apply all_rows_safe. Qed.
Print Assumptions C06_and_chain_parses_back.

(* non-vacuity: x, a OR b, c = 1 + 2 as members: the second and third are written between parentheses *)
Example C06_chain_example :
  let col := fun n : N => @EColumn unit (CCol [n]) in
  let ms := [col 120%N; EBinary (col 97%N) BOr (col 98%N);
             EBinary (col 99%N) BEqual (EBinary (EValue (V TInt (Some (PInt 1%Z)))) BAdd (EValue (V TInt (Some (PInt 2%Z)))))] in
  forallb (frag_any unit) ms = true /\
  map (cparen unit (tables_of false SQLite) 3) ms = [false; true; true].
Proof. split; vm_compute; reflexivity. Qed.
