(* C13 - SQLite schema statements create exactly the declared schema.
   What Coq decides here: (a) every SQLite-supported abstract column type is written, for EVERY parameter
   value and both auto-increment flags, with a type name whose SQLite column affinity (the five ordered
   substring rules of datatype3.html 3.1, Spec/Affinity.v) is the affinity intended for it (table
   `intended`, part of the statement); the names are the ones Generated/ColTypes.v obtained by executing
   the code, and the parameter abstraction of that table agrees with every executed example;
   (b) the model renderer - tied byte-exactly to /repo on every run - writes CREATE TABLE as columns, then
   table-level indexes, then foreign keys, then checks, comma separated, and a SQLite column definition
   with PRIMARY KEY and AUTOINCREMENT last.  That the engine's catalogue then reports the declared
   schema is observed on the real engine by checks/c13.py. *)
Require Import SQV.Model.Str SQV.Model.Escape SQV.Model.Expr SQV.Model.Stmt SQV.Model.Writer SQV.Model.RenderExpr
  SQV.Model.RenderStmt SQV.Model.Schema SQV.Model.RenderDDL SQV.Generated.ColTypes SQV.Spec.Affinity
  SQV.Proofs.DDLProofs.
From Coq Require Import String.

Theorem C13_column_types_have_intended_affinity :
  forall (ct : coltype) (autoinc : bool) (name : str) (a : affinity),
    intended ct = Some a ->
    type_text SQLite autoinc (ct_shape ct) (ct_params ct) = Some name ->
    affinity_of name = a.
Proof. exact column_types_have_intended_affinity. Qed.
Print Assumptions C13_column_types_have_intended_affinity.

(* the same, stated on what the column type renderer writes *)
Theorem C13_rendered_type_has_intended_affinity :
  forall ct autoinc name a,
    intended ct = Some a -> rcoltype SQLite autoinc ct = [WS name] -> affinity_of name = a.
Proof. exact rendered_type_has_intended_affinity. Qed.
Print Assumptions C13_rendered_type_has_intended_affinity.

(* the intention table covers exactly the types SQLite renders (Custom apart: the caller's own text) *)
Theorem C13_supported_iff_intended :
  forall shape autoinc,
    In (2, shape, autoinc) (map (fun r : N * N * bool * option (template * option N * option N) => fst r) coltype_rows) ->
    shape <> 83 ->
    (coltype_row SQLite shape autoinc <> None <-> intended_by_shape shape <> None).
Proof. exact sqlite_supported_iff_intended. Qed.
Print Assumptions C13_supported_iff_intended.

(* the parameter positions of the generated table reproduce every executed example (incl. the panics) *)
Theorem C13_type_table_agrees_with_execution : forallb probe_ok coltype_probes = true.
Proof. exact probes_ok. Qed.
Print Assumptions C13_type_table_agrees_with_execution.

Theorem C13_create_table_elements :
  forall is_alpha b T rq c,
  rtable_create is_alpha b T rq c =
  rtable_create_head c ++ wss " ( " ++
  sep_by comma (map (rcolumn_def is_alpha b T rq) (tc_columns c) ++
                map (rtable_index_expression is_alpha b T rq) (tc_indexes c) ++
                map (fun f => rfk_create_internal b f MCreation) (tc_foreign_keys c) ++
                map (rcheck is_alpha b T rq) (tc_check c)) ++
  wss " )" ++ rtable_create_tail b c.
Proof. exact create_table_elements. Qed.
Print Assumptions C13_create_table_elements.

Theorem C13_sqlite_column_def_order :
  forall is_alpha T rq c,
  rcolumn_def is_alpha SQLite T rq c =
  [WId (cd_name c)] ++
  opt_script (cd_type c) (fun t => wss " " ++ rcoltype SQLite (has_autoinc c) t) ++
  flat_map (fun s => if is_pk s || is_autoinc s || is_comment s then []
                     else wss " " ++ rcolumn_spec is_alpha SQLite T rq s) (cd_spec c) ++
  (if existsb is_pk (cd_spec c) then wss " " ++ wss "PRIMARY KEY" else []) ++
  (if existsb is_autoinc (cd_spec c) then wss " " ++ [WS (K "AUTOINCREMENT")] else []).
Proof. exact sqlite_column_def_order. Qed.
Print Assumptions C13_sqlite_column_def_order.
