(* C01 — placeholders and bound values correspond one-to-one, in order. *)
Require Import SQV.Model.Str SQV.Model.Escape SQV.Model.Value SQV.Model.Writer SQV.Proofs.WriterProofs.

(* For EVERY script of writer operations (any interleaving of text writes and parameter pushes,
   hence every statement any renderer can produce), the parameterised output is the flattening of
   text pieces and holes where the holes are numbered 1..n ascending, each exactly once, n is the
   number of returned values, and the returned values are the pushed values in reading order.
   hole_text is `?` for MySQL/SQLite and `$k` for Postgres. *)
Theorem C01_push_param_invariant :
  forall (ftext : bool -> N -> str) b sc sql vals,
  emit_params ftext b sc = Ok (sql, vals) ->
  sql = flatten_params b (pieces ftext b sc) /\
  vals = vals_of sc /\
  holes (pieces ftext b sc) = map N.of_nat (seq 1 (length vals)).
Proof. exact push_param_invariant. Qed.
Print Assumptions C01_push_param_invariant.

Theorem C01_hole_text :
  forall n, hole_text MySQL n = [63] /\ hole_text SQLite n = [63] /\ hole_text Postgres n = 36 :: dec_of_N n.
Proof. intros n. repeat split. Qed.
Print Assumptions C01_hole_text.

(* The values a rendered expression pushes are the given ones: for EVERY expression tree without a
   custom template (templates choose values by placeholder: C11), every backend, every parenthesis
   table and both rendering paths, the values in the script are the tree's values in traversal
   order (expr_values: left operand before right, WHEN before THEN before ELSE, a subquery's values
   at the subquery's position) - none lost, duplicated or moved; with C01_push_param_invariant the
   returned collection is therefore exactly that traversal *)
Require Import SQV.Model.Expr SQV.Model.RenderExpr SQV.Spec.ExprValues SQV.Proofs.ExprValuesProofs.
Theorem C01_values_are_the_given_ones :
  forall Q (rq : Q -> script) is_alpha b T (e : expr Q), no_template e = true -> forall common,
  vals_of (rexpr Q rq is_alpha b T common e) = expr_values (fun q => vals_of (rq q)) e.
Proof. exact rendered_values_are_the_given_ones. Qed.
Print Assumptions C01_values_are_the_given_ones.

(* The same for EVERY expression tree, custom templates included: a template binds the values of the
   arguments its placeholders designate (template_values: the template loop of C11 run over the
   bare value lists), every other node as above. *)
Require Import SQV.Model.Stmt SQV.Model.RenderStmt SQV.Spec.StmtValues SQV.Proofs.StmtValuesProofs.
Theorem C01_expression_values_general :
  forall Q (rq : Q -> script) is_alpha b T (e : expr Q) common,
  vals_of (rexpr Q rq is_alpha b T common e)
  = expr_values_t (template_values is_alpha b) (fun q => vals_of (rq q)) e.
Proof. exact rendered_values_general. Qed.
Print Assumptions C01_expression_values_general.

(* Whole statements.  For EVERY query statement (SELECT / INSERT / UPDATE / DELETE / WITH, nested to
   any depth), every backend and every parenthesis table: the values the rendering pushes are the
   statement's values in the dialect's SQL reading order (Spec/StmtValues.v query_values, written
   without reference to text): each clause contributes the values of its expressions and its
   explicit values (LIMIT, OFFSET, VALUES rows, frame bounds), a nested statement contributes its
   own values where it is written, and nothing else contributes.  With C01_push_param_invariant the
   collection returned by build() is exactly this list. *)
Theorem C01_statement_values_are_the_given_ones :
  forall is_alpha b T fuel q,
  vals_of (rquery is_alpha b T fuel q) = query_values is_alpha b fuel q.
Proof. exact statement_values_are_the_given_ones. Qed.
Print Assumptions C01_statement_values_are_the_given_ones.

(* not vacuous, and the dialect differences are real: SELECT a FROM t WHERE a = 1 ORDER BY a + 2 NULLS LAST
   LIMIT 3 OFFSET 4 binds 1,2,3,4 on Postgres / SQLite and 1,2,2,3,4 on MySQL (the emulated sort key) *)
Definition c01_iv (z : Z) : value := V TInt (Some (PInt z)).
Definition c01_uv (z : Z) : value := V TBigUnsigned (Some (PInt z)).
Definition c01_sample : query :=
  QSelect (Select None [SelExpr (EColumn (CCol [97])) None None] [TPlain (TRTable [116])] []
    (HCond (Cond false false [MExpr (EBinary (EColumn (CCol [97])) BEqual (EValue (c01_iv 1)))])) [] HEmpty []
    [OrderExpr (EBinary (EColumn (CCol [97])) BAdd (EValue (c01_iv 2))) OAsc (Some NLast)]
    (Some (c01_uv 3)) (Some (c01_uv 4)) None None None None []).
Example C01_statement_values_sample :
  query_values (fun _ => false) Postgres 1 c01_sample = [c01_iv 1; c01_iv 2; c01_uv 3; c01_uv 4] /\
  query_values (fun _ => false) SQLite 1 c01_sample = [c01_iv 1; c01_iv 2; c01_uv 3; c01_uv 4] /\
  query_values (fun _ => false) MySQL 1 c01_sample = [c01_iv 1; c01_iv 2; c01_iv 2; c01_uv 3; c01_uv 4].
Proof. repeat apply conj; reflexivity. Qed.

(* The SQL TEXT as the engine reads it (Spec/EngTok.v: the statement lexer written from the engines' lexical rules,
   quoted text included).  For EVERY script whose pieces do not fuse at their seams - the decidable premise
   params_sep of Spec/EngScript.v, evaluated by the extracted model on every generated statement: each piece lexes
   alone, no token is read across a seam (Spec/EngBoundary.v), text pieces contain no placeholder token - the engine's
   token stream of the parameterised SQL contains exactly one placeholder token per returned value and no other:
   positional marks on MySQL / SQLite, $1 .. $n in ascending order on Postgres.  Rests on the seam theorem
   eng_tokens_app (Proofs/EngTokProofs.v): lexing is compositional wherever the last token of the left text may be
   followed by the first character of the right text. *)
Require Import SQV.Spec.EngLex SQV.Spec.EngTok SQV.Spec.EngBoundary SQV.Spec.EngScript SQV.Proofs.EngTokProofs
  SQV.Proofs.EngScriptProofs.
Theorem C01_engine_reads_the_placeholders :
  forall (ftext : bool -> N -> str) b sc sql vals,
  emit_params ftext b sc = Ok (sql, vals) -> params_sep ftext b sc = true ->
  exists ts, eng_tokens b sql = Some ts /\
             params_of ts = map (hole_no b) (map N.of_nat (seq 1 (length vals))).
Proof. exact engine_reads_the_placeholders. Qed.
Print Assumptions C01_engine_reads_the_placeholders.

Theorem C01_lexing_is_compositional_at_safe_seams :
  forall b s1 ts1 x tsx,
  eng_tokens b s1 = Some ts1 -> eng_tokens b x = Some tsx -> join_ok ts1 x = true ->
  eng_tokens b (s1 ++ x) = Some (ts1 ++ tsx).
Proof. exact eng_tokens_app. Qed.
Print Assumptions C01_lexing_is_compositional_at_safe_seams.

(* not vacuous: a SELECT with an equality and an IN list, as a script *)
From Coq Require Import String.
Open Scope string_scope.
Example C01_text_level_sample :
  let sc := [WS (K "SELECT "); WId [97]; WS (K " FROM "); WId [116]; WS (K " WHERE "); WId [97]; WS (K " = ");
             WVal (c01_iv 1); WS (K " AND "); WId [98]; WS (K " IN ("); WVal (c01_iv 2); WS (K ", "); WVal (c01_iv 3);
             WS (K ")")] in
  params_sep (fun _ _ => []) Postgres sc = true /\ params_sep (fun _ _ => []) MySQL sc = true /\
  inline_sep (fun _ _ => []) SQLite sc = true.
Proof. repeat apply conj; vm_compute; reflexivity. Qed.
Close Scope string_scope.

(* The premise holds for EVERY rendered expression.  sc_ok (Spec/ScriptSafe.v) is a local form of the premise -
   every writer token lexes alone and may be followed by the first character of the next non-empty one - which
   composes along the structure of the renderer; it implies params_sep (C01_local_safety_gives_the_premise).
   For every expression tree without custom templates whose raw SQL atoms lex on their own (expr_plain: Custom text,
   custom keywords, function and operator names; constants written as lexable literals), every backend, both rendering paths, every table whose
   spellings lex (spellings_lex), and sub-query renderings that are themselves locally safe: the script of the
   expression is locally safe, hence separable, hence C01_engine_reads_the_placeholders applies to its text
   (Proofs/ExprSafeProofs.v: induction over the expression renderer, each fixed text of the renderer checked for the
   three lexers by computation).  C01_generated_tables_spell_lexably: the spellings executed from the code on this
   run satisfy spellings_lex (finite check).  Not proved: the same for whole statements (rquery). *)
Require Import SQV.Model.ExprTablesInst SQV.Spec.ScriptSafe SQV.Proofs.ScriptSafeProofs SQV.Proofs.ExprSafeProofs
  SQV.Proofs.TablesLexProofs.
Theorem C01_local_safety_gives_the_premise :
  forall (ftext : bool -> N -> str) b sc, sc_ok ftext b false sc = true -> params_sep ftext b sc = true.
Proof. exact sc_ok_params_sep. Qed.
Print Assumptions C01_local_safety_gives_the_premise.

Theorem C01_rendered_expression_is_separable :
  forall (ftext : bool -> N -> str) Q (rq : Q -> script) is_alpha b T (e : expr Q) common,
  spellings_lex b T -> (forall q, sc_ok ftext b false (rq q) = true) -> expr_plain ftext Q b false (fun _ => true) e = true ->
  sc_ok ftext b false (rexpr Q rq is_alpha b T common e) = true /\
  params_sep ftext b (rexpr Q rq is_alpha b T common e) = true.
Proof. exact rendered_expression_is_separable. Qed.
Print Assumptions C01_rendered_expression_is_separable.

Theorem C01_generated_tables_spell_lexably :
  forall more b, spellings_lex b (tables_of more b).
Proof. exact generated_tables_spell_lexably. Qed.
Print Assumptions C01_generated_tables_spell_lexably.

(* The n-th hole is read as placeholder number n: the decimal text of a number reads back as that number *)
Theorem C01_hole_is_read_as_its_number :
  forall b n, eng_tokens b (hole_text b n) = Some [TkParam (hole_no b n)].
Proof. exact hole_lexes. Qed.
Print Assumptions C01_hole_is_read_as_its_number.

(* ... and for EVERY rendered STATEMENT.  query_plain (Proofs/StmtSafeProofs.v) is the decidable syntactic class of
   statements without custom templates and without the FIELD ordering (whose unspaced `=` the strict lexer fuses with
   the sign of a negative number), whose raw SQL atoms (Custom expressions, custom keywords, function and operator
   names, TABLESAMPLE texts) lex on their own, nested to the given depth.  For every such SELECT / INSERT /
   UPDATE / DELETE / WITH statement, every backend, every nesting depth and every table whose spellings lex, the
   rendered script is locally safe, hence separable: C01_engine_reads_the_placeholders applies to the SQL text that
   build() returns - the engine reads exactly one placeholder per bound value, numbered 1..n ascending on Postgres.
   (Induction over the statement renderer, clause by clause, with the knot over the nesting depth.) *)
Require Import SQV.Model.Stmt SQV.Model.RenderStmt SQV.Proofs.StmtSafeProofs.
Theorem C01_rendered_statement_is_separable :
  forall (ftext : bool -> N -> str) is_alpha b T fuel q, spellings_lex b T ->
  query_plain ftext b false fuel q = true -> params_sep ftext b (rquery is_alpha b T fuel q) = true.
Proof. exact rendered_statement_is_separable. Qed.
Print Assumptions C01_rendered_statement_is_separable.

Theorem C01_engine_reads_the_placeholders_of_every_plain_statement :
  forall (ftext : bool -> N -> str) is_alpha more b fuel q sql vals,
  query_plain ftext b false fuel q = true ->
  emit_params ftext b (rquery is_alpha b (tables_of more b) fuel q) = Ok (sql, vals) ->
  exists ts, eng_tokens b sql = Some ts /\
             params_of ts = map (hole_no b) (map N.of_nat (seq 1 (List.length vals))).
Proof.
  intros ftext is_alpha more b fuel q sql vals Hp He.
  apply (engine_reads_the_placeholders ftext b _ sql vals He).
  apply rendered_statement_is_separable; [apply generated_tables_spell_lexably|exact Hp].
Qed.
Print Assumptions C01_engine_reads_the_placeholders_of_every_plain_statement.

(* not vacuous: the sample statement of C01_statement_values_sample is plain *)
Example C01_sample_is_plain :
  query_plain (fun _ _ => []) Postgres false 1 c01_sample = true /\
  query_plain (fun _ _ => []) MySQL false 1 c01_sample = true.
Proof. split; vm_compute; reflexivity. Qed.
