(* C01 — placeholders and bound values correspond one-to-one, in order. *)
Require Import SQV.Model.Str SQV.Model.Escape SQV.Model.Value SQV.Model.Writer SQV.Proofs.WriterProofs.

(* For EVERY script of writer operations (any interleaving of text writes and parameter pushes,
   hence every statement any renderer can produce), the parameterised output is the flattening of
   text pieces and holes where the holes are numbered 1..n ascending, each exactly once, n is the
   number of returned values, and the returned values are the pushed values in reading order.
   hole_text is `?` for MySQL/SQLite and `$k` for Postgres. *)
Theorem C01_push_param_invariant :
  forall (ftext : bool -> N -> str) b sc sql vals,
  emit_params ftext b sc = Ok (sql, vals) ->
  sql = flatten_params b (pieces ftext b sc) /\
  vals = vals_of sc /\
  holes (pieces ftext b sc) = map N.of_nat (seq 1 (length vals)).
Proof. exact push_param_invariant. Qed.
Print Assumptions C01_push_param_invariant.

Theorem C01_hole_text :
  forall n, hole_text MySQL n = [63] /\ hole_text SQLite n = [63] /\ hole_text Postgres n = 36 :: dec_of_N n.
Proof. intros n. repeat split. Qed.
Print Assumptions C01_hole_text.

(* The values a rendered expression pushes are the given ones: for EVERY expression tree without a
   custom template (templates choose values by placeholder: C11), every backend, every parenthesis
   table and both rendering paths, the values in the script are the tree's values in traversal
   order (expr_values: left operand before right, WHEN before THEN before ELSE, a subquery's values
   at the subquery's position) - none lost, duplicated or moved; with C01_push_param_invariant the
   returned collection is therefore exactly that traversal *)
Require Import SQV.Model.Expr SQV.Model.RenderExpr SQV.Spec.ExprValues SQV.Proofs.ExprValuesProofs.
Theorem C01_values_are_the_given_ones :
  forall Q (rq : Q -> script) is_alpha b T (e : expr Q), no_template e = true -> forall common,
  vals_of (rexpr Q rq is_alpha b T common e) = expr_values (fun q => vals_of (rq q)) e.
Proof. exact rendered_values_are_the_given_ones. Qed.
Print Assumptions C01_values_are_the_given_ones.
