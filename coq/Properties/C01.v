(* C01 — placeholders and bound values correspond one-to-one, in order. *)
Require Import SQV.Model.Str SQV.Model.Escape SQV.Model.Value SQV.Model.Writer SQV.Proofs.WriterProofs.

(* For EVERY script of writer operations (any interleaving of text writes and parameter pushes,
   hence every statement any renderer can produce), the parameterised output is the flattening of
   text pieces and holes where the holes are numbered 1..n ascending, each exactly once, n is the
   number of returned values, and the returned values are the pushed values in reading order.
   hole_text is `?` for MySQL/SQLite and `$k` for Postgres. *)
Theorem C01_push_param_invariant :
  forall (ftext : bool -> N -> str) b sc sql vals,
  emit_params ftext b sc = Ok (sql, vals) ->
  sql = flatten_params b (pieces ftext b sc) /\
  vals = vals_of sc /\
  holes (pieces ftext b sc) = map N.of_nat (seq 1 (length vals)).
Proof. exact push_param_invariant. Qed.
Print Assumptions C01_push_param_invariant.

Theorem C01_hole_text :
  forall n, hole_text MySQL n = [63] /\ hole_text SQLite n = [63] /\ hole_text Postgres n = 36 :: dec_of_N n.
Proof. intros n. repeat split. Qed.
Print Assumptions C01_hole_text.
