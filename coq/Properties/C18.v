(* C18 -- Value equality and hashing are coherent (hashable-value).
   Pinned statements only.  veq is the match of `impl PartialEq for Value` in mod hashable_value with the
   arms regenerated from /repo/src/value.rs (Generated/ValueTypes.v: eq_arms, hash_arms, enum orders);
   hstream is the sequence of Hasher::write_* calls of `impl Hash for Value`, so that equal streams mean
   equal hashes for every Hasher.  wf_value: the payload has the shape its variant carries (the values
   that exist in Rust).  Float payloads are bit patterns: every NaN payload, both zeros are covered. *)
Require Import SQV.Model.Str SQV.Model.Value SQV.Model.ValueRow SQV.Model.FloatBits SQV.Model.ValueEq
  SQV.Generated.ValueTypes SQV.Generated.ValueTypesStatus SQV.Proofs.ValueConvProofs SQV.Proofs.ValueEqProofs
  SQV.Proofs.FloatBitsFlocq.
From Flocq Require Import IEEE754.Binary IEEE754.Bits.

Theorem C18_translation_complete : translation_ok = true.
Proof. exact translation_complete. Qed.
Print Assumptions C18_translation_complete.

(* reflexive, including every NaN payload and nested arrays *)
Theorem C18_veq_refl : forall v, wf_value v = true -> veq v v = true.
Proof. exact veq_refl. Qed.
Print Assumptions C18_veq_refl.

Theorem C18_veq_sym : forall a b, veq a b = veq b a.
Proof. exact veq_sym. Qed.
Print Assumptions C18_veq_sym.

Theorem C18_veq_trans : forall a b c, veq a b = true -> veq b c = true -> veq a c = true.
Proof. exact veq_trans. Qed.
Print Assumptions C18_veq_trans.

(* values of different variants are never equal; arrays of different element types neither *)
Theorem C18_veq_diff_variant_false : forall a b, variant_id a <> variant_id b -> veq a b = false.
Proof. exact veq_diff_variant_false. Qed.
Print Assumptions C18_veq_diff_variant_false.

Theorem C18_veq_diff_array_type_false : forall e e' l l', e <> e' -> veq (VArray e l) (VArray e' l') = false.
Proof. exact veq_diff_array_type_false. Qed.
Print Assumptions C18_veq_diff_array_type_false.

(* values with equal payloads are equal (same variant, same payload -- also when the payload is a NaN) *)
Theorem C18_veq_same_payload_true : forall t o, wf_value (V t o) = true -> veq (V t o) (V t o) = true.
Proof. intros t o. exact (veq_refl (V t o)). Qed.
Print Assumptions C18_veq_same_payload_true.

(* a NULL equals exactly the NULL of its own variant *)
Theorem C18_veq_null_iff : forall v t, veq v (V t None) = true <-> v = V t None.
Proof. exact veq_null_iff. Qed.
Print Assumptions C18_veq_null_iff.

(* equal values feed the same calls to the hasher: equal hashes with every Hasher *)
Theorem C18_veq_implies_same_hash_stream :
  forall a b, veq a b = true -> wf_value a = true -> wf_value b = true -> hstream a = hstream b.
Proof. exact veq_implies_same_hash_stream. Qed.
Print Assumptions C18_veq_implies_same_hash_stream.

(* the float comparison behind it: OrderedFloat equality is an equivalence that refines to IEEE == off NaN,
   and it determines the hashed word *)
Theorem C18_float_eq_hash32 : forall a b, of_eq32 a b = true -> of_hash32 a = of_hash32 b.
Proof. exact of_eq32_same_hash. Qed.
Print Assumptions C18_float_eq_hash32.

Theorem C18_float_eq_hash64 : forall a b, of_eq64 a b = true -> of_hash64 a = of_hash64 b.
Proof. exact of_eq64_same_hash. Qed.
Print Assumptions C18_float_eq_hash64.

(* ValueTuple: derived PartialEq / Eq / Hash *)
Theorem C18_teq_refl : forall x, wf_tuple x = true -> teq x x = true.
Proof. exact teq_refl. Qed.
Print Assumptions C18_teq_refl.

Theorem C18_teq_sym : forall x y, teq x y = teq y x.
Proof. exact teq_sym. Qed.
Print Assumptions C18_teq_sym.

Theorem C18_teq_trans : forall x y z, teq x y = true -> teq y z = true -> teq x z = true.
Proof. exact teq_trans. Qed.
Print Assumptions C18_teq_trans.

Theorem C18_teq_implies_same_hash_stream :
  forall x y, teq x y = true -> wf_tuple x = true -> wf_tuple y = true -> tstream x = tstream y.
Proof. exact teq_implies_same_hash_stream. Qed.
Print Assumptions C18_teq_implies_same_hash_stream.

Theorem C18_teq_many_is_not_one : forall a, teq (TMany [a]) (TOne a) = false.
Proof. exact teq_many_is_not_one. Qed.
Print Assumptions C18_teq_many_is_not_one.

(* The bit-level IEEE comparison used above is Flocq's: for all bit patterns in range, ieee_eq32/64 a b holds
   exactly when Bcompare on the decoded floats answers Some Eq, and is_nan32/64 is Flocq's is_nan.  These four
   statements (and only these) depend on the axioms Flocq imports with the real numbers; they are listed in
   coq/assumptions.allow. *)
Theorem C18_ieee_eq32_is_flocq_compare :
  forall a b, a < 4294967296 -> b < 4294967296 ->
  (ieee_eq32 a b = true <-> Bcompare 24 128 (b32_of_bits (Z.of_N a)) (b32_of_bits (Z.of_N b)) = Some Eq).
Proof. exact ieee_eq32_flocq. Qed.
Print Assumptions C18_ieee_eq32_is_flocq_compare.

Theorem C18_ieee_eq64_is_flocq_compare :
  forall a b, a < 18446744073709551616 -> b < 18446744073709551616 ->
  (ieee_eq64 a b = true <-> Bcompare 53 1024 (b64_of_bits (Z.of_N a)) (b64_of_bits (Z.of_N b)) = Some Eq).
Proof. exact ieee_eq64_flocq. Qed.
Print Assumptions C18_ieee_eq64_is_flocq_compare.

Theorem C18_is_nan32_is_flocq : forall a, is_nan32 a = is_nan 24 128 (b32_of_bits (Z.of_N a)).
Proof. exact is_nan32_flocq. Qed.
Print Assumptions C18_is_nan32_is_flocq.

Theorem C18_is_nan64_is_flocq : forall a, is_nan64 a = is_nan 53 1024 (b64_of_bits (Z.of_N a)).
Proof. exact is_nan64_flocq. Qed.
Print Assumptions C18_is_nan64_is_flocq.
