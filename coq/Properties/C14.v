(* C14 - MySQL and Postgres schema statements are complete and well-formed.
   What Coq decides here: every type name of the generated column type table (obtained by executing the
   code on every run) for MySQL and Postgres is a type the dialect defines (Spec/DialectTypes.v, written from
   the manuals) and decodes to the expected kind with the lengths / precisions as written and the
   unsigned-ness preserved - up to the explicit substitution lists (documented many-to-one rows) and the
   explicit lists of rows that are NOT types of the dialect (findings, proved to be undefined); the
   auto-increment forms; and the element structure of CREATE TABLE / the parameter abstraction of the table.
   The decoding is evaluated at the nine parameter vectors of param_points per parametric row.
   Completeness and well-formedness of whole statements is decided dynamically by the independent DDL
   reader of checks/c14.py on the implementation's output. *)
Require Import SQV.Model.Str SQV.Model.Escape SQV.Model.Expr SQV.Model.Stmt SQV.Model.Writer SQV.Model.RenderExpr
  SQV.Model.RenderStmt SQV.Model.Schema SQV.Model.RenderDDL SQV.Generated.ColTypes SQV.Spec.DialectTypes
  SQV.Proofs.DDLProofs.
From Coq Require Import String.

Theorem C14_types_are_defined :
  forall d shape autoinc t l1 l2 p,
    d = MySQL \/ d = Postgres ->
    coltype_row d shape autoinc = Some (t, l1, l2) ->
    structural shape = false ->
    In p param_points -> within l1 (fst p) && within l2 (snd p) = true ->
    let name := inst_template t p in
    if mem_N shape (undefined_rows d) && negb (autoinc && is_pg d) then decode_type d name = None
    else exists dt, decode_type d name = Some dt /\
         (if autoinc && is_pg d
          then exists k, serial_of shape = Some k /\ dtype_matches dt (k, [], false) p = true
          else exists e, expected d shape = Some e /\ dtype_matches dt e p = true).
Proof. exact types_are_defined. Qed.
Print Assumptions C14_types_are_defined.

(* outside the substitution lists the expected decoding is the faithful reading of the abstract type *)
Theorem C14_faithful_outside_substitutions :
  forall d shape, assoc_shape (substitutions d) shape = None -> expected d shape = natural shape.
Proof. exact faithful_outside_substitutions. Qed.
Print Assumptions C14_faithful_outside_substitutions.

(* auto-increment takes the dialect's form: MySQL a separate AUTO_INCREMENT keyword and an unchanged type;
   Postgres no keyword and the serial type of the same width, every other type being refused *)
Theorem C14_auto_increment_form :
  autoinc_keyword MySQL = K "AUTO_INCREMENT" /\ autoinc_keyword Postgres = [] /\
  type_text Postgres true 8 (0, 0) = Some (K "smallserial") /\ type_text Postgres true 9 (0, 0) = Some (K "serial") /\
  type_text Postgres true 10 (0, 0) = Some (K "bigserial") /\
  forallb (fun r : N * N * bool * option (template * option N * option N) =>
             match r with (bk, shape, autoinc, body) =>
               if (bk =? 1) && autoinc then
                 match body, serial_of shape with
                 | Some _, Some _ => true | None, None => true | _, _ => false
                 end
               else true
             end) coltype_rows = true /\
  forallb (fun shape => match coltype_row MySQL shape false, coltype_row MySQL shape true with
                        | Some (t1, _, _), Some (t2, _, _) =>
                            str_eqb (inst_template t1 (7, 3)) (inst_template t2 (7, 3))
                        | None, None => true
                        | _, _ => false
                        end)
          (map (fun r : N * N * bool * option (template * option N * option N) => snd (fst (fst r))) coltype_rows) = true.
Proof.
  destruct autoinc_keywords as [H1 [H2 _]]. destruct postgres_serial_names as [H3 [H4 H5]].
  destruct mysql_autoinc_same_type as [_ H7].
  split; [exact H1|]. split; [exact H2|]. split; [exact H3|]. split; [exact H4|]. split; [exact H5|].
  split; [exact postgres_autoinc_rows|exact H7].
Qed.
Print Assumptions C14_auto_increment_form.

Theorem C14_type_table_agrees_with_execution : forallb probe_ok coltype_probes = true.
Proof. exact probes_ok. Qed.
Print Assumptions C14_type_table_agrees_with_execution.

Theorem C14_create_table_elements :
  forall is_alpha b T rq c,
  rtable_create is_alpha b T rq c =
  rtable_create_head c ++ wss " ( " ++
  sep_by comma (map (rcolumn_def is_alpha b T rq) (tc_columns c) ++
                map (rtable_index_expression is_alpha b T rq) (tc_indexes c) ++
                map (fun f => rfk_create_internal b f MCreation) (tc_foreign_keys c) ++
                map (rcheck is_alpha b T rq) (tc_check c)) ++
  wss " )" ++ rtable_create_tail b c.
Proof. exact create_table_elements. Qed.
Print Assumptions C14_create_table_elements.
