(* C07 — on SQLite, a built statement does what the builder calls say.
   What Coq decides here: the rendering is the concatenation of exactly the clauses the builder was
   given (nothing dropped, nothing twice) and their order is the order SQLite's grammar requires.
   That the engine then behaves as the explicit rendering does is the engine run of checks/c07.py. *)
Require Import SQV.Model.Str SQV.Model.Escape SQV.Model.Stmt SQV.Model.Writer SQV.Model.RenderExpr
  SQV.Model.RenderStmt SQV.Spec.ClauseOrder SQV.Proofs.ClauseProofs.

Theorem C07_select_is_its_given_clauses :
  forall is_alpha b T rq s,
  rselect is_alpha b T rq s =
  flat_map (sel_clause is_alpha b T rq s) (filter (sel_present s) sel_render_order).
Proof. exact rselect_given_clauses. Qed.
Print Assumptions C07_select_is_its_given_clauses.

(* every SELECT outside the known class (named WINDOW clause, finding F6) and without a lock clause
   (SQLite has none; the backend renders nothing for it) is in SQLite's grammar order *)
Theorem C07_select_order_sqlite :
  forall s, no_window s = true -> no_lock s = true -> respects (select_pos SQLite) (sel_emitted s) = true.
Proof. exact select_order_sqlite. Qed.
Print Assumptions C07_select_order_sqlite.

Theorem C07_select_order_refuted_by_window :
  forall b, exists s, respects (select_pos b) (sel_emitted s) = false.
Proof. exact select_order_refuted_by_window. Qed.
Print Assumptions C07_select_order_refuted_by_window.

Theorem C07_dml_order_sqlite :
  respects (insert_pos SQLite) (filter (dialect_has (insert_pos SQLite)) ins_render_order) = true /\
  respects (update_pos SQLite) (filter (dialect_has (update_pos SQLite)) upd_render_order) = true /\
  respects (delete_pos SQLite) (filter (dialect_has (delete_pos SQLite)) del_render_order) = true.
Proof. split; [apply insert_order|split; [apply update_order|apply delete_order]]. Qed.
Print Assumptions C07_dml_order_sqlite.

(* SQLite's surface forms: what the SQLite writer omits or writes differently from the other dialects *)
Require Import SQV.Model.Value.
From Coq Require Import String.
Open Scope list_scope.
Theorem C07_sqlite_forms :
  forall is_alpha T rq,
  (forall l, rlock is_alpha SQLite T rq l = []) /\                         (* no locking clause *)
  (forall hs, rhints SQLite hs = []) /\                                    (* no index hints *)
  (forall cols, rdistinct SQLite (DDistinctOn cols) = []) /\               (* no DISTINCT ON *)
  rdistinct SQLite DDistinctRow = [] /\                                    (* no DISTINCTROW *)
  (forall smp, rsample SQLite smp = []) /\                                 (* no TABLESAMPLE *)
  (forall ut s, exists kw, runion SQLite rq (ut, s) = wss kw ++ rq (QSelect s)) /\   (* bare set-operation operands *)
  (forall row, rvalues_list SQLite [row] =
     wss "VALUES " ++ wss "(" ++ sep_by comma (map (fun v => [WVal v]) row) ++ wss ")") /\   (* VALUES (..), no ROW *)
  (forall e o n, rorder is_alpha SQLite T rq (OrderExpr e o (Some n)) =
     rorder is_alpha SQLite T rq (OrderExpr e o None) ++
     (match n with NLast => wss " NULLS LAST" | NFirst => wss " NULLS FIRST" end)).   (* native NULLS ordering *)
Proof.
  intros is_alpha T rq. repeat apply conj.
  - intros l. apply lock_clause_not_on_sqlite.
  - intros hs. apply index_hints_only_mysql. discriminate.
  - intros cols. apply distinct_on_only_postgres. discriminate.
  - apply distinctrow_only_mysql. discriminate.
  - intros smp. apply table_sample_only_postgres. discriminate.
  - intros ut s. destruct (set_operation_form rq SQLite ut s) as [kw H]. now exists kw.
  - intros row. now rewrite (values_row_prefix SQLite row).
  - intros e o n. now rewrite (nulls_ordering_form is_alpha T rq SQLite e o n).
Qed.
Print Assumptions C07_sqlite_forms.
