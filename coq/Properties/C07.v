(* C07 — on SQLite, a built statement does what the builder calls say.
   What Coq decides here: the rendering is the concatenation of exactly the clauses the builder was
   given (nothing dropped, nothing twice) and their order is the order SQLite's grammar requires.
   That the engine then behaves as the explicit rendering does is the engine run of checks/c07.py. *)
Require Import SQV.Model.Str SQV.Model.Escape SQV.Model.Stmt SQV.Model.Writer SQV.Model.RenderExpr
  SQV.Model.RenderStmt SQV.Spec.ClauseOrder SQV.Proofs.ClauseProofs.

Theorem C07_select_is_its_given_clauses :
  forall is_alpha b T rq s,
  rselect is_alpha b T rq s =
  flat_map (sel_clause is_alpha b T rq s) (filter (sel_present s) sel_render_order).
Proof. exact rselect_given_clauses. Qed.
Print Assumptions C07_select_is_its_given_clauses.

(* every SELECT outside the known class (named WINDOW clause, finding F6) and without a lock clause
   (SQLite has none; the backend renders nothing for it) is in SQLite's grammar order *)
Theorem C07_select_order_sqlite :
  forall s, no_window s = true -> no_lock s = true -> respects (select_pos SQLite) (sel_emitted s) = true.
Proof. exact select_order_sqlite. Qed.
Print Assumptions C07_select_order_sqlite.

Theorem C07_select_order_refuted_by_window :
  forall b, exists s, respects (select_pos b) (sel_emitted s) = false.
Proof. exact select_order_refuted_by_window. Qed.
Print Assumptions C07_select_order_refuted_by_window.

Theorem C07_dml_order_sqlite :
  respects (insert_pos SQLite) (filter (dialect_has (insert_pos SQLite)) ins_render_order) = true /\
  respects (update_pos SQLite) (filter (dialect_has (update_pos SQLite)) upd_render_order) = true /\
  respects (delete_pos SQLite) (filter (dialect_has (delete_pos SQLite)) del_render_order) = true.
Proof. split; [apply insert_order|split; [apply update_order|apply delete_order]]. Qed.
Print Assumptions C07_dml_order_sqlite.
