(* C07 — placeholder; theorems added below once proved (file kept compiling) *)
Require Import SQV.Model.Str.
Theorem C07_placeholder : True. Proof. exact I. Qed.
Print Assumptions C07_placeholder.
