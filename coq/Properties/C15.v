(* C15 -- take, clone and clear behave as value operations on builders.

   Generated/Takes.v is rewritten from the source text of /repo/src on every run (tools/takes.py): one record per
   statement type, and take / clear_* / reset_* / from_clear translated from their bodies.  World collects
   everything the translation does not look into (element types, Default values of foreign types, constants);
   every statement below holds for all Worlds.  The statements are written here by hand; if the code changes so
   that one of them stops being true of the regenerated definitions, this file stops compiling. *)
Require Import Coq.Lists.List Coq.Strings.String.
Require Import SQV.Generated.Takes SQV.Generated.TakesProps SQV.Proofs.TakesProofs.

(* ---- take() hands over the whole statement: fst (take s) = s ------------------------------------------- *)

Theorem C15_take_returns_all_state_SelectStatement :
  forall (W : World) (s : SelectStatement W), fst (SelectStatement_take W s) = s.
Proof. exact take_returns_all_state_SelectStatement. Qed.
Print Assumptions C15_take_returns_all_state_SelectStatement.

Theorem C15_take_returns_all_state_WindowStatement :
  forall (W : World) (s : WindowStatement W), fst (WindowStatement_take W s) = s.
Proof. exact take_returns_all_state_WindowStatement. Qed.
Print Assumptions C15_take_returns_all_state_WindowStatement.

Theorem C15_take_returns_all_state_ColumnDef :
  forall (W : World) (s : ColumnDef W), fst (ColumnDef_take W s) = s.
Proof. exact take_returns_all_state_ColumnDef. Qed.
Print Assumptions C15_take_returns_all_state_ColumnDef.

Theorem C15_take_returns_all_state_TableCreateStatement :
  forall (W : World) (s : TableCreateStatement W), fst (TableCreateStatement_take W s) = s.
Proof. exact take_returns_all_state_TableCreateStatement. Qed.
Print Assumptions C15_take_returns_all_state_TableCreateStatement.

Theorem C15_take_returns_all_state_TableAlterStatement :
  forall (W : World) (s : TableAlterStatement W), fst (TableAlterStatement_take W s) = s.
Proof. exact take_returns_all_state_TableAlterStatement. Qed.
Print Assumptions C15_take_returns_all_state_TableAlterStatement.

Theorem C15_take_returns_all_state_TableDropStatement :
  forall (W : World) (s : TableDropStatement W), fst (TableDropStatement_take W s) = s.
Proof. exact take_returns_all_state_TableDropStatement. Qed.
Print Assumptions C15_take_returns_all_state_TableDropStatement.

Theorem C15_take_returns_all_state_TableRenameStatement :
  forall (W : World) (s : TableRenameStatement W), fst (TableRenameStatement_take W s) = s.
Proof. exact take_returns_all_state_TableRenameStatement. Qed.
Print Assumptions C15_take_returns_all_state_TableRenameStatement.

Theorem C15_take_returns_all_state_TableTruncateStatement :
  forall (W : World) (s : TableTruncateStatement W), fst (TableTruncateStatement_take W s) = s.
Proof. exact take_returns_all_state_TableTruncateStatement. Qed.
Print Assumptions C15_take_returns_all_state_TableTruncateStatement.

Theorem C15_take_returns_all_state_IndexCreateStatement :
  forall (W : World) (s : IndexCreateStatement W), fst (IndexCreateStatement_take W s) = s.
Proof. exact take_returns_all_state_IndexCreateStatement. Qed.
Print Assumptions C15_take_returns_all_state_IndexCreateStatement.

Theorem C15_take_returns_all_state_TableIndex :
  forall (W : World) (s : TableIndex W), fst (TableIndex_take W s) = s.
Proof. exact take_returns_all_state_TableIndex. Qed.
Print Assumptions C15_take_returns_all_state_TableIndex.

Theorem C15_take_returns_all_state_ForeignKeyCreateStatement :
  forall (W : World) (s : ForeignKeyCreateStatement W), fst (ForeignKeyCreateStatement_take W s) = s.
Proof. exact take_returns_all_state_ForeignKeyCreateStatement. Qed.
Print Assumptions C15_take_returns_all_state_ForeignKeyCreateStatement.

Theorem C15_take_returns_all_state_TableForeignKey :
  forall (W : World) (s : TableForeignKey W), fst (TableForeignKey_take W s) = s.
Proof. exact take_returns_all_state_TableForeignKey. Qed.
Print Assumptions C15_take_returns_all_state_TableForeignKey.

(* whatever statement types the source contains today *)
Theorem C15_every_take_returns_all_state :
  forall W : World,
    Forall (fun t : Taker => forall s : tk_carrier t, fst (tk_take t s) = s) (all_takers W).
Proof. exact all_takers_return_all_state. Qed.
Print Assumptions C15_every_take_returns_all_state.

(* hence every observation (rendering on any backend, build(), comparisons) of the taken statement is the
   observation of the statement before the call *)
Theorem C15_taken_renders_identically :
  forall W : World,
    Forall (fun t : Taker => forall (Obs : Type) (render : tk_carrier t -> Obs) (s : tk_carrier t),
                render (fst (tk_take t s)) = render s) (all_takers W).
Proof. exact every_taken_statement_observes_identically. Qed.
Print Assumptions C15_taken_renders_identically.

(* ---- query statements: what take() leaves behind is a newly constructed statement ------------------------ *)

Theorem C15_take_leaves_default_SelectStatement :
  forall (W : World) (s : SelectStatement W), snd (SelectStatement_take W s) = SelectStatement_new W.
Proof. exact take_leaves_new_SelectStatement. Qed.
Print Assumptions C15_take_leaves_default_SelectStatement.

Theorem C15_take_leaves_default_WindowStatement :
  forall (W : World) (s : WindowStatement W), snd (WindowStatement_take W s) = WindowStatement_new W.
Proof. exact take_leaves_new_WindowStatement. Qed.
Print Assumptions C15_take_leaves_default_WindowStatement.

(* every statement type defined under src/query/ that has take() *)
Theorem C15_every_query_take_leaves_default :
  forall W : World,
    Forall (fun t : QueryTaker => forall s : qt_carrier t, snd (qt_take t s) = qt_new t) (query_takers W).
Proof. exact query_takers_leave_new. Qed.
Print Assumptions C15_every_query_take_leaves_default.

(* ---- schema statements: the fields take() deliberately copies are named, not hidden ----------------------- *)

Theorem C15_take_leaves_copied_fields_TableCreateStatement :
  forall (W : World) (s : TableCreateStatement W),
    snd (TableCreateStatement_take W s) =
    TableCreateStatement_with_temporary W (TableCreateStatement_temporary W s)
      (TableCreateStatement_with_if_not_exists W (TableCreateStatement_if_not_exists W s)
         (TableCreateStatement_new W)).
Proof. exact take_leaves_default_except_TableCreateStatement. Qed.
Print Assumptions C15_take_leaves_copied_fields_TableCreateStatement.

Theorem C15_take_leaves_copied_fields_TableDropStatement :
  forall (W : World) (s : TableDropStatement W),
    snd (TableDropStatement_take W s) =
    TableDropStatement_with_if_exists W (TableDropStatement_if_exists W s) (TableDropStatement_new W).
Proof. exact take_leaves_default_except_TableDropStatement. Qed.
Print Assumptions C15_take_leaves_copied_fields_TableDropStatement.

Theorem C15_take_leaves_copied_fields_IndexCreateStatement :
  forall (W : World) (s : IndexCreateStatement W),
    snd (IndexCreateStatement_take W s) =
    IndexCreateStatement_with_include_columns W (IndexCreateStatement_include_columns W s)
      (IndexCreateStatement_with_where W (IndexCreateStatement_where W s)
         (IndexCreateStatement_with_if_not_exists W (IndexCreateStatement_if_not_exists W s)
            (IndexCreateStatement_with_nulls_not_distinct W (IndexCreateStatement_nulls_not_distinct W s)
               (IndexCreateStatement_with_unique W (IndexCreateStatement_unique W s)
                  (IndexCreateStatement_with_primary W (IndexCreateStatement_primary W s)
                     (IndexCreateStatement_new W)))))).
Proof. exact take_leaves_default_except_IndexCreateStatement. Qed.
Print Assumptions C15_take_leaves_copied_fields_IndexCreateStatement.

Theorem C15_take_leaves_ColumnDef :
  forall (W : World) (s : ColumnDef W),
    ColumnDef_table W (snd (ColumnDef_take W s)) = None /\
    ColumnDef_types W (snd (ColumnDef_take W s)) = None /\
    ColumnDef_spec W (snd (ColumnDef_take W s)) = nil /\
    forall s' : ColumnDef W, ColumnDef_name W (snd (ColumnDef_take W s')) = ColumnDef_name W (snd (ColumnDef_take W s)).
Proof. exact columndef_take_leaves. Qed.
Print Assumptions C15_take_leaves_ColumnDef.

(* ---- clearing or resetting a clause is the record update of exactly that clause ---------------------------- *)

Theorem C15_clear_touches_only_its_clause_clear_selects :
  forall (W : World) (s : SelectStatement W),
    SelectStatement_clear_selects W s = SelectStatement_with_selects W nil s.
Proof. exact clear_touches_only_its_clause_SelectStatement_clear_selects. Qed.
Print Assumptions C15_clear_touches_only_its_clause_clear_selects.

Theorem C15_clear_touches_only_its_clause_from_clear :
  forall (W : World) (s : SelectStatement W),
    SelectStatement_from_clear W s = SelectStatement_with_from W nil s.
Proof. exact clear_touches_only_its_clause_SelectStatement_from_clear. Qed.
Print Assumptions C15_clear_touches_only_its_clause_from_clear.

Theorem C15_clear_touches_only_its_clause_reset_limit :
  forall (W : World) (s : SelectStatement W),
    SelectStatement_reset_limit W s = SelectStatement_with_limit W None s.
Proof. exact clear_touches_only_its_clause_SelectStatement_reset_limit. Qed.
Print Assumptions C15_clear_touches_only_its_clause_reset_limit.

Theorem C15_clear_touches_only_its_clause_reset_offset :
  forall (W : World) (s : SelectStatement W),
    SelectStatement_reset_offset W s = SelectStatement_with_offset W None s.
Proof. exact clear_touches_only_its_clause_SelectStatement_reset_offset. Qed.
Print Assumptions C15_clear_touches_only_its_clause_reset_offset.

Theorem C15_clear_touches_only_its_clause_clear_order_by :
  forall (W : World) (s : SelectStatement W),
    SelectStatement_clear_order_by W s = SelectStatement_with_orders W nil s.
Proof. exact clear_touches_only_its_clause_SelectStatement_clear_order_by. Qed.
Print Assumptions C15_clear_touches_only_its_clause_clear_order_by.

Theorem C15_clear_touches_only_its_clause_update_delete_window :
  forall W : World,
    (forall s : UpdateStatement W, UpdateStatement_clear_order_by W s = UpdateStatement_with_orders W nil s) /\
    (forall s : DeleteStatement W, DeleteStatement_clear_order_by W s = DeleteStatement_with_orders W nil s) /\
    (forall s : WindowStatement W, WindowStatement_clear_order_by W s = WindowStatement_with_order_by W nil s).
Proof.
  exact (fun W => conj (clear_touches_only_its_clause_UpdateStatement_clear_order_by W)
                   (conj (clear_touches_only_its_clause_DeleteStatement_clear_order_by W)
                         (clear_touches_only_its_clause_WindowStatement_clear_order_by W))).
Qed.
Print Assumptions C15_clear_touches_only_its_clause_update_delete_window.

(* the same, spelled out projection by projection on the smallest statement type *)
Theorem C15_window_clear_order_by_projections :
  forall (W : World) (s : WindowStatement W),
    WindowStatement_order_by W (WindowStatement_clear_order_by W s) = nil /\
    WindowStatement_partition_by W (WindowStatement_clear_order_by W s) = WindowStatement_partition_by W s /\
    WindowStatement_frame W (WindowStatement_clear_order_by W s) = WindowStatement_frame W s.
Proof. exact window_clear_order_by_projections. Qed.
Print Assumptions C15_window_clear_order_by_projections.

(* every clear_* / reset_* / *_clear method the source contains today *)
Theorem C15_every_clear_touches_only_its_clause :
  forall W : World,
    Forall (fun c : Clearer => forall s : cl_carrier c, cl_method c s = cl_spec c s) (all_clearers W).
Proof. exact all_clearers_touch_only_their_clause. Qed.
Print Assumptions C15_every_clear_touches_only_its_clause.

(* the aggregated statements are not vacuous: the generated lists contain the anchors of the property *)
Theorem C15_generated_lists_cover_the_anchors :
  forall W : World,
    In (mkQueryTaker "SelectStatement" (SelectStatement W) (SelectStatement_take W) (SelectStatement_new W)) (query_takers W) /\
    In (mkQueryTaker "WindowStatement" (WindowStatement W) (WindowStatement_take W) (WindowStatement_new W)) (query_takers W) /\
    In (mkTaker "ColumnDef" (ColumnDef W) (ColumnDef_take W)) (all_takers W) /\
    In (mkTaker "TableCreateStatement" (TableCreateStatement W) (TableCreateStatement_take W)) (all_takers W) /\
    In (mkTaker "IndexCreateStatement" (IndexCreateStatement W) (IndexCreateStatement_take W)) (all_takers W) /\
    In (mkTaker "ForeignKeyCreateStatement" (ForeignKeyCreateStatement W) (ForeignKeyCreateStatement_take W)) (all_takers W) /\
    In (mkClearer "SelectStatement::clear_order_by" (SelectStatement W) (SelectStatement_clear_order_by W)
                  (SelectStatement_clear_order_by_spec W)) (all_clearers W).
Proof. exact generated_lists_cover_the_anchors. Qed.
Print Assumptions C15_generated_lists_cover_the_anchors.

(* ---- clone: builders are values ------------------------------------------------------------------------ *)

(* For any state type, any set of builder calls and any meaning of a call: run h1, clone, continue with h2 on
   the source and with h3 on the clone -- each copy is the state of its own history only, and the untouched
   copy is observed exactly as at clone time.  Trivial for values; the substance is that the model IS
   immutable values, which the dynamic part of the check observes on the Rust objects. *)
Theorem C15_history_independence :
  forall (S Op : Type) (step : Op -> S -> S) (h1 h2 h3 : list Op) (s0 : S),
    let (src, cl) := clone S (run S Op step h1 s0) in
    run S Op step h2 src = run S Op step (h1 ++ h2) s0 /\
    run S Op step h3 cl = run S Op step (h1 ++ h3) s0 /\
    forall (Obs : Type) (observe : S -> Obs),
      observe cl = observe (run S Op step h1 s0) /\ observe src = observe (run S Op step h1 s0).
Proof. exact history_independence. Qed.
Print Assumptions C15_history_independence.
