(* C04 — identifiers are quoted so that they decode to exactly the supplied name. *)
Require Import SQV.Model.Str SQV.Model.Escape SQV.Model.Literal SQV.Spec.EngLex SQV.Proofs.LiteralProofs.

(* for every name, every quote character (backtick for MySQL, double quote for Postgres and
   SQLite) and whatever follows (not starting with the quote char): the engine's quoted-identifier
   lexer consumes exactly the prepared identifier and decodes exactly the name.  In particular
   no name can close its own quotes and continue as SQL. *)
Theorem C04_ident_roundtrip :
  forall q name rest, not_starting_with q rest ->
  lex_quoted_with q (iden_prepare q name ++ rest) = Some (name, rest).
Proof. exact ident_roundtrip. Qed.
Print Assumptions C04_ident_roundtrip.

Theorem C04_ident_roundtrip_backends :
  forall b name rest, not_starting_with (quote_char b) rest ->
  (match b with MySQL => mysql_lex_ident | Postgres => pg_lex_ident | SQLite => sqlite_lex_ident end)
    (iden_prepare (quote_char b) name ++ rest) = Some (name, rest).
Proof. intros b name rest H. destruct b; exact (ident_roundtrip _ name rest H). Qed.
Print Assumptions C04_ident_roundtrip_backends.
