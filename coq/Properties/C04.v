(* C04 — identifiers are quoted so that they decode to exactly the supplied name. *)
Require Import SQV.Model.Str SQV.Model.Escape SQV.Model.Literal SQV.Spec.EngLex SQV.Proofs.LiteralProofs.

(* for every name, every quote character (backtick for MySQL, double quote for Postgres and
   SQLite) and whatever follows (not starting with the quote char): the engine's quoted-identifier
   lexer consumes exactly the prepared identifier and decodes exactly the name.  In particular
   no name can close its own quotes and continue as SQL. *)
Theorem C04_ident_roundtrip :
  forall q name rest, not_starting_with q rest ->
  lex_quoted_with q (iden_prepare q name ++ rest) = Some (name, rest).
Proof. exact ident_roundtrip. Qed.
Print Assumptions C04_ident_roundtrip.

Theorem C04_ident_roundtrip_backends :
  forall b name rest, not_starting_with (quote_char b) rest ->
  (match b with MySQL => mysql_lex_ident | Postgres => pg_lex_ident | SQLite => sqlite_lex_ident end)
    (iden_prepare (quote_char b) name ++ rest) = Some (name, rest).
Proof. intros b name rest H. destruct b; exact (ident_roundtrip _ name rest H). Qed.
Print Assumptions C04_ident_roundtrip_backends.

(* In the context of a statement: a prepared identifier is exactly ONE quoted-identifier token of the engine's
   statement lexer (Spec/EngTok.v), decoding to the supplied name; by the seam theorem it stays one token between
   any texts that respect the seam conditions (in particular: what follows must not start with a quote character). *)
Require Import SQV.Spec.EngTok SQV.Spec.EngBoundary SQV.Proofs.EngTokProofs SQV.Proofs.EngLiteralTokProofs.
Theorem C04_identifier_is_one_statement_token :
  forall b name, eng_tokens b (iden_prepare (quote_char b) name) = Some [TkId name].
Proof. exact identifier_is_one_token. Qed.
Print Assumptions C04_identifier_is_one_statement_token.

Theorem C04_identifier_in_context :
  forall b name pre tpre post tpost,
  eng_tokens b pre = Some tpre -> eng_tokens b post = Some tpost ->
  join_ok tpre (iden_prepare (quote_char b) name ++ post) = true -> join_ok [TkId name] post = true ->
  eng_tokens b (pre ++ iden_prepare (quote_char b) name ++ post) = Some (tpre ++ TkId name :: tpost).
Proof. exact identifier_in_context. Qed.
Print Assumptions C04_identifier_in_context.
