(* C12 -- Rust values survive the trip through Value unchanged.
   Pinned statements only.  value_types is the table regenerated from /repo/src/value.rs on every run
   (Generated/ValueTypes.v); payloads are universally quantified: every integer, every float bit
   pattern including all NaNs, every string, every opaque payload.
   `is_value_eq eqv` ranges over the two implementations of `==` on Value (derived PartialEq without
   hashable-value, mod hashable_value with it): the Option<T> statements hold for both. *)
Require Import SQV.Model.Str SQV.Model.Value SQV.Model.ValueRow SQV.Model.ValueEq SQV.Model.ValueConv
  SQV.Generated.ValueTypes SQV.Generated.ValueTypesStatus SQV.Proofs.ValueConvProofs.

(* every conversion item of src/value.rs was understood by the translator *)
Theorem C12_translation_complete : translation_ok = true.
Proof. exact translation_complete. Qed.
Print Assumptions C12_translation_complete.

(* T::try_from(Value::from(x)) = Ok(x), for every row of the generated table *)
Theorem C12_roundtrip_all_types :
  forall r f t, In r value_types -> r_from r = Some f -> r_try r = Some t ->
  forall p, try_from_side t (from_side f p) = COk p.
Proof. exact roundtrip_all_types. Qed.
Print Assumptions C12_roundtrip_all_types.

(* the same for every type expression T, Option<T>, Vec<T>, Option<Vec<T>> over the table *)
Theorem C12_roundtrip_type_expressions :
  forall eqv c x v res, is_value_eq eqv -> In (ct_row c) value_types ->
  ct_from c x = Some v -> ct_try eqv c v = Some res -> res = COk x.
Proof. exact roundtrip_type_expressions. Qed.
Print Assumptions C12_roundtrip_type_expressions.

(* an absent optional becomes the NULL of the variant From<T> builds, and extracts as absent *)
Theorem C12_none_is_own_null :
  forall r f n, In r value_types -> r_from r = Some f -> r_null r = Some n ->
  from_option (from_side f) (null_of n) None = V (s_tag f) None
  /\ forall eqv t, is_value_eq eqv -> r_try r = Some t ->
       try_from_option eqv (try_from_side t) (null_of n) (from_option (from_side f) (null_of n) None) = COk None.
Proof. exact none_is_own_null. Qed.
Print Assumptions C12_none_is_own_null.

(* a present optional never extracts as absent *)
Theorem C12_some_never_none :
  forall eqv r f t n, is_value_eq eqv -> In r value_types -> r_from r = Some f -> r_try r = Some t -> r_null r = Some n ->
  forall p, try_from_option eqv (try_from_side t) (null_of n) (from_option (from_side f) (null_of n) (Some p)) <> COk None.
Proof. exact some_never_none. Qed.
Print Assumptions C12_some_never_none.

Theorem C12_option_roundtrip :
  forall eqv r f t n, is_value_eq eqv -> In r value_types -> r_from r = Some f -> r_try r = Some t -> r_null r = Some n ->
  forall o, try_from_option eqv (try_from_side t) (null_of n) (from_option (from_side f) (null_of n) o) = COk o.
Proof. exact option_roundtrip. Qed.
Print Assumptions C12_option_roundtrip.

(* extracting as a type of another variant fails: every (source row, target row) pair of the table whose
   variants differ, every payload *)
Theorem C12_mismatch_fails_all_pairs :
  forall r1 r2 f t, In r1 value_types -> In r2 value_types -> r_from r1 = Some f -> r_try r2 = Some t ->
  s_tag f <> s_tag t -> forall p, try_from_side t (from_side f p) = CErr.
Proof. exact mismatch_fails_all_pairs. Qed.
Print Assumptions C12_mismatch_fails_all_pairs.

(* more generally: any value of another variant (a NULL, an array, any payload) is refused *)
Theorem C12_mismatch_fails_any_value :
  forall t v, variant_of v <> Some (s_tag t) -> try_from_side t v = CErr.
Proof. exact mismatch_fails_value. Qed.
Print Assumptions C12_mismatch_fails_any_value.

Theorem C12_null_never_extracts_as_plain : forall t t', try_from_side t (V t' None) = CErr.
Proof. exact null_never_extracts. Qed.
Print Assumptions C12_null_never_extracts_as_plain.

Theorem C12_option_mismatch_fails :
  forall eqv t n, is_value_eq eqv -> n = s_tag t ->
  forall v, variant_of v <> Some (s_tag t) -> try_from_option eqv (try_from_side t) (null_of n) v = CErr.
Proof. exact option_mismatch_fails. Qed.
Print Assumptions C12_option_mismatch_fails.

(* a successful extraction determines the value: it is exactly the one From builds (no wrong value, ever) *)
Theorem C12_extract_only_own_values :
  forall t v p, try_from_side t v = COk p -> v = V (s_tag t) (Some p).
Proof. exact try_from_side_ok_inv. Qed.
Print Assumptions C12_extract_only_own_values.

(* rows that share a variant (String / &str / Cow<str>, Vec<u8> / &[u8], Uuid and its fmt wrappers):
   the same value in the other representation *)
Theorem C12_shared_variant_same_payload :
  forall r1 r2 f t, In r1 value_types -> In r2 value_types -> r_from r1 = Some f -> r_try r2 = Some t ->
  s_tag f = s_tag t -> forall p, try_from_side t (from_side f p) = COk p.
Proof. exact shared_variant_same_payload. Qed.
Print Assumptions C12_shared_variant_same_payload.

(* tuples of arity 1..12: into_value_tuple keeps arity and order (into_iter returns the components in
   order), and from_value_tuple of the same arity returns the components *)
Theorem C12_tuple_roundtrip :
  forall A (ts : list (value -> cres A)) xs vs, (1 <= length vs <= 12)%nat ->
  Forall3 (fun t x v => t v = COk x) ts xs vs ->
  exists t, into_value_tuple vs = Some t /\ tuple_into_iter t = vs /\ from_value_tuple ts t = Some (COk xs).
Proof. exact tuple_roundtrip. Qed.
Print Assumptions C12_tuple_roundtrip.

(* a tuple of another arity is refused (panic), never reinterpreted *)
Theorem C12_tuple_arity_mismatch_panics :
  forall A (ts : list (value -> cres A)) vs t, (1 <= length vs <= 12)%nat -> (1 <= length ts <= 12)%nat ->
  length ts <> length vs -> into_value_tuple vs = Some t -> from_value_tuple ts t = Some CPanic.
Proof. exact tuple_arity_mismatch_panics. Qed.
Print Assumptions C12_tuple_arity_mismatch_panics.

Theorem C12_as_null_keeps_variant :
  forall v, as_null_gen v = Some (as_null v) /\ same_variant v (as_null v) = true /\ is_null (as_null v) = true.
Proof. exact as_null_keeps_variant. Qed.
Print Assumptions C12_as_null_keeps_variant.

Theorem C12_dummy_keeps_variant :
  forall v, exists v', dummy_gen v = Some v' /\ same_variant v v' = true /\ is_null v' = false.
Proof. exact dummy_keeps_variant. Qed.
Print Assumptions C12_dummy_keeps_variant.

(* arrays: Vec<T> round-trips; extraction succeeds only on an array of T's own element type all of whose
   elements are non-NULL values of T's variant; any other value is refused *)
Theorem C12_array_roundtrip :
  forall f t a ps, s_tag f = s_tag t -> try_from_vec t a (from_vec f a ps) = COk ps.
Proof. exact vec_roundtrip. Qed.
Print Assumptions C12_array_roundtrip.

Theorem C12_array_element_type_checked :
  forall t a v l, try_from_vec t a v = COk l -> v = VArray a (Some (map (fun p => V (s_tag t) (Some p)) l)).
Proof. exact try_from_vec_ok_inv. Qed.
Print Assumptions C12_array_element_type_checked.

Theorem C12_array_mismatch_fails :
  forall t a v, (forall vs, v <> VArray a (Some vs)) -> try_from_vec t a v = CErr.
Proof. exact vec_mismatch_fails. Qed.
Print Assumptions C12_array_mismatch_fails.
