(* C09 — portable statements denote the same query on all three backends. *)
Require Import SQV.Model.Str SQV.Model.Escape SQV.Model.ExprTablesInst SQV.Spec.NullOrder SQV.Spec.Portable.
From Coq Require Import String List.
Import ListNotations.

(* MySQL's NULLS FIRST/LAST emulation (e IS NULL ASC|DESC, e ASC|DESC) orders any two nullable
   values exactly as the native clause does - as comparators, hence for every table content *)
Theorem C09_nulls_emulation_is_native :
  forall (A : Type) (cmp : A -> A -> comparison) nulls_last desc x y,
  emulated A cmp nulls_last desc x y = native A cmp nulls_last desc x y.
Proof. exact nulls_emulation_is_native. Qed.
Print Assumptions C09_nulls_emulation_is_native.

Theorem C09_ifnull_is_coalesce2 :
  forall (A : Type) (a b : option A), ifnull A a b = coalesce A [a; b].
Proof. exact ifnull_is_coalesce2. Qed.
Print Assumptions C09_ifnull_is_coalesce2.

Theorem C09_greatest_is_scalar_max :
  forall (A : Type) (maxA : A -> A -> A) l, mysql_greatest A maxA l = sqlite_scalar_max A maxA l.
Proof. exact greatest_is_scalar_max. Qed.
Print Assumptions C09_greatest_is_scalar_max.

(* re-checked against the code on every run: on the portable operators the three backends make
   identical parenthesis / associativity decisions and spell operators identically *)
Theorem C09_backends_agree_on_portable_operators :
  forall more,
  tables_agree_on_common (tables_of more MySQL) (tables_of more Postgres) = true /\
  tables_agree_on_common (tables_of more MySQL) (tables_of more SQLite) = true.
Proof. intros [|]; split; vm_compute; reflexivity. Qed.
Print Assumptions C09_backends_agree_on_portable_operators.

Theorem C09_function_names_differ_only_by_documented_substitutions :
  funcs_agree (tables_of false MySQL) (tables_of false Postgres) = true /\
  funcs_agree (tables_of false MySQL) (tables_of false SQLite) = true /\
  substituted_names (tables_of false MySQL) =
    [Some (K "IFNULL"); Some (K "GREATEST"); Some (K "LEAST"); Some (K "CHAR_LENGTH"); Some (K "RAND")] /\
  substituted_names (tables_of false Postgres) =
    [Some (K "COALESCE"); Some (K "GREATEST"); Some (K "LEAST"); Some (K "CHAR_LENGTH"); Some (K "RANDOM")] /\
  substituted_names (tables_of false SQLite) =
    [Some (K "IFNULL"); Some (K "MAX"); Some (K "MIN"); Some (K "LENGTH"); Some (K "RANDOM")].
Proof. repeat split; vm_compute; reflexivity. Qed.
Print Assumptions C09_function_names_differ_only_by_documented_substitutions.
