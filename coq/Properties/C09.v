(* C09 — portable statements denote the same query on all three backends. *)
Require Import SQV.Model.Str SQV.Model.Escape SQV.Model.ExprTablesInst SQV.Spec.NullOrder SQV.Spec.Portable.
From Coq Require Import String List.
Import ListNotations.

(* MySQL's NULLS FIRST/LAST emulation (e IS NULL ASC|DESC, e ASC|DESC) orders any two nullable
   values exactly as the native clause does - as comparators, hence for every table content *)
Theorem C09_nulls_emulation_is_native :
  forall (A : Type) (cmp : A -> A -> comparison) nulls_last desc x y,
  emulated A cmp nulls_last desc x y = native A cmp nulls_last desc x y.
Proof. exact nulls_emulation_is_native. Qed.
Print Assumptions C09_nulls_emulation_is_native.

Theorem C09_ifnull_is_coalesce2 :
  forall (A : Type) (a b : option A), ifnull A a b = coalesce A [a; b].
Proof. exact ifnull_is_coalesce2. Qed.
Print Assumptions C09_ifnull_is_coalesce2.

Theorem C09_greatest_is_scalar_max :
  forall (A : Type) (maxA : A -> A -> A) l, mysql_greatest A maxA l = sqlite_scalar_max A maxA l.
Proof. exact greatest_is_scalar_max. Qed.
Print Assumptions C09_greatest_is_scalar_max.

(* re-checked against the code on every run: on the portable operators the three backends make
   identical parenthesis / associativity decisions and spell operators identically *)
Theorem C09_backends_agree_on_portable_operators :
  forall more,
  tables_agree_on_common (tables_of more MySQL) (tables_of more Postgres) = true /\
  tables_agree_on_common (tables_of more MySQL) (tables_of more SQLite) = true.
Proof. intros [|]; split; vm_compute; reflexivity. Qed.
Print Assumptions C09_backends_agree_on_portable_operators.

Theorem C09_function_names_differ_only_by_documented_substitutions :
  funcs_agree (tables_of false MySQL) (tables_of false Postgres) = true /\
  funcs_agree (tables_of false MySQL) (tables_of false SQLite) = true /\
  substituted_names (tables_of false MySQL) =
    [Some (K "IFNULL"); Some (K "GREATEST"); Some (K "LEAST"); Some (K "CHAR_LENGTH"); Some (K "RAND")] /\
  substituted_names (tables_of false Postgres) =
    [Some (K "COALESCE"); Some (K "GREATEST"); Some (K "LEAST"); Some (K "CHAR_LENGTH"); Some (K "RANDOM")] /\
  substituted_names (tables_of false SQLite) =
    [Some (K "IFNULL"); Some (K "MAX"); Some (K "MIN"); Some (K "LENGTH"); Some (K "RANDOM")].
Proof. repeat split; vm_compute; reflexivity. Qed.
Print Assumptions C09_function_names_differ_only_by_documented_substitutions.

(* Expression level, unbounded: for EVERY portable expression tree (Proofs/PortableProofs.v: columns, values,
   tuples, keywords, constants, raw text, NOT, CASE, EXISTS / plain sub-queries, portable and custom-named
   functions, every operator of the common set incl. BETWEEN / LIKE .. ESCAPE / IN; not AsEnum, not value
   templates), any two backends and both settings of option-more-parentheses, with the decision tables
   executed from the code on this run: the two backends write the same script, token for token (same
   identifiers, same values in the same order, same keywords, same parentheses), provided they write the
   same script for the sub-queries it contains (pq).  The backends then differ only in how a token is spelled. *)
Require Import SQV.Model.Value SQV.Model.Expr SQV.Model.Writer SQV.Model.RenderExpr SQV.Proofs.PortableProofs SQV.Proofs.PortableTablesProofs.
Theorem C09_portable_expression_same_script :
  forall (Q : Type) (pq : Q -> bool) (rq1 rq2 : Q -> script), (forall q, pq q = true -> rq1 q = rq2 q) ->
  forall is_alpha more b1 b2 (e : Expr.expr Q) common, portable Q pq e = true ->
  rexpr Q rq1 is_alpha b1 (tables_of more b1) common e = rexpr Q rq2 is_alpha b2 (tables_of more b2) common e.
Proof.
  intros Q pq rq1 rq2 Hrq is_alpha more b1 b2 e common Hp.
  destruct (all_tables_agree more b1 b2) as [Ha Hf].
  now apply (portable_same_script Q pq).
Qed.
Print Assumptions C09_portable_expression_same_script.

(* non-vacuity: (a + 1) * b BETWEEN 2 AND c OR NOT (COALESCE(d, 'x') LIKE 'y%' ESCAPE '!') is portable *)
Example C09_portable_inhabited :
  let col := fun n : N => @EColumn unit (CCol [n]) in
  let i := fun z : Z => @EValue unit (V TInt (Some (PInt z))) in
  let s := fun c : N => @EValue unit (V TString (Some (PStr [c]))) in
  portable unit (fun _ => true)
    (EBinary
       (EBinary (EBinary (EBinary (col 97%N) BAdd (i 1%Z)) BMul (col 98%N)) BBetween (EBinary (i 2%Z) BAnd (col 99%N)))
       BOr
       (ENot (EBinary (EFunc FCoalesce [(false, col 100%N); (false, s 120%N)]) BLike
                      (EBinary (s 121%N) BEscape (s 33%N))))) = true.
Proof. reflexivity. Qed.

(* Statement level, unbounded nesting (Proofs/PortableStmtProofs.v): every portable SELECT - no DISTINCTROW /
   DISTINCT ON, index hints, TABLESAMPLE, set operation, NULLS FIRST/LAST, locking clause, WITH clause, VALUES
   table or FULL OUTER JOIN (the clauses whose surface form differs by dialect: C08), every expression portable,
   every sub-query in FROM / joins / expressions again a portable SELECT, nested at most n levels - is written
   as the same script, token for token, by any two backends, for both settings of option-more-parentheses and
   the decision tables executed from the code on this run. *)
Require Import SQV.Model.Cond SQV.Model.Stmt SQV.Model.RenderStmt SQV.Proofs.PortableStmtProofs.
Theorem C09_portable_query_same_script :
  forall is_alpha more b1 b2 n q, portable_query n q = true ->
  rquery is_alpha b1 (tables_of more b1) n q = rquery is_alpha b2 (tables_of more b2) n q.
Proof.
  intros is_alpha more b1 b2 n q Hq. destruct (all_tables_agree more b1 b2) as [Ha Hf].
  now apply portable_query_same_script.
Qed.
Print Assumptions C09_portable_query_same_script.

(* non-vacuity: SELECT a FROM (SELECT b FROM t) AS s WHERE a > 1 AND EXISTS (SELECT b FROM t) ORDER BY a ASC LIMIT 3 *)
Example C09_portable_query_inhabited :
  let col := fun n : N => @EColumn query (CCol [n]) in
  let inner := Select None [SelExpr (col 98%N) None None] [TPlain (TRTable [116%N])] [] HEmpty [] HEmpty [] []
                      None None None None None None [] in
  let outer := Select None [SelExpr (col 97%N) None None] [TSubQuery inner [115%N]] []
                 (HCond (Cond false false
                    [MExpr (EBinary (col 97%N) BGreaterThan (EValue (V TInt (Some (PInt 1%Z)))));
                     MExpr (ESubQuery (Some SqExists) (QSelect inner))]))
                 [] HEmpty [] [OrderExpr (col 97%N) OAsc None] (Some (V TBigUnsigned (Some (PInt 3%Z)))) None None None
                 None None [] in
  portable_query 2 (QSelect outer) = true.
Proof. reflexivity. Qed.
