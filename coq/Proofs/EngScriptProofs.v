(* C01 / C02 / C03 at the level of the SQL TEXT as the engine's lexer reads it.
   The script-level theorems (Proofs/WriterProofs.v) speak about pieces and holes; here they are carried
   to the engine's token stream, for every script that satisfies the decidable separability premise of
   Spec/EngScript.v (no token is read across a seam between two pieces). *)
Require Import SQV.Model.Str SQV.Model.Escape SQV.Model.Value SQV.Model.Literal SQV.Model.Writer
  SQV.Spec.EngLex SQV.Spec.EngTok SQV.Spec.EngBoundary SQV.Proofs.WriterProofs SQV.Spec.EngScript
  SQV.Proofs.EngTokProofs.
From Coq Require Import Lia.

Section S.
Variable ftext : bool -> N -> str.

Lemma flatten_params_texts b ps : flatten_params b ps = concat (texts_params b ps).
Proof. unfold flatten_params, texts_params. apply flat_map_concat_map. Qed.
Lemma flatten_inline_texts b vs ps : flatten_inline ftext b vs ps = concat (texts_inline ftext b vs ps).
Proof. unfold flatten_inline, texts_inline, hole_value. apply flat_map_concat_map. Qed.

Lemma params_of_app a c : params_of (a ++ c) = params_of a ++ params_of c.
Proof. apply flat_map_app. Qed.
Lemma no_param_params_of ts : has_param ts = false -> params_of ts = [].
Proof.
  induction ts as [|t ts IH]; [reflexivity|]. cbn [has_param existsb params_of flat_map].
  destruct t; cbn; try exact IH. discriminate.
Qed.

Lemma all2_params b ps : forall tss, all2 (piece_toks_ok b) ps tss = true ->
  params_of (concat tss) = map (hole_no b) (holes ps).
Proof.
  induction ps as [|p ps IH]; intros [|ts tss] H; try discriminate H; [reflexivity|].
  cbn [all2] in H. apply andb_prop in H as [Hp H]. cbn [concat]. rewrite params_of_app, (IH tss H).
  destruct p as [s|n]; cbn [piece_toks_ok] in Hp.
  - apply negb_true_iff in Hp. now rewrite (no_param_params_of ts Hp).
  - destruct ts as [|[| | | | |m| |] [|? ?]]; try discriminate Hp. apply N.eqb_eq in Hp. subst m. reflexivity.
Qed.

(* C01, text level: the engine reads exactly one placeholder per returned value, numbered 1..n ascending
   on Postgres, positional elsewhere - and nothing else in the text is a placeholder *)
Theorem engine_reads_the_placeholders b sc sql vals :
  emit_params ftext b sc = Ok (sql, vals) -> params_sep ftext b sc = true ->
  exists ts, eng_tokens b sql = Some ts /\
             params_of ts = map (hole_no b) (map N.of_nat (seq 1 (length vals))).
Proof.
  intros He Hs. destruct (push_param_invariant ftext b sc sql vals He) as (Esql & _ & Eholes).
  unfold params_sep in Hs.
  destruct (lex_texts b (texts_params b (pieces ftext b sc))) as [tss|] eqn:El; [|discriminate Hs].
  exists (concat tss). split.
  - rewrite Esql, flatten_params_texts. exact (proj1 (lex_texts_sound b _ tss El)).
  - rewrite (all2_params b _ tss Hs), Eholes. reflexivity.
Qed.

(* C02, text level: piece by piece, the engine's token stream of the inline text is that of the
   parameterised text with each placeholder token replaced by the tokens of the literal of its value *)
Inductive piece_rel (b : backend) (vals : list value) : piece -> list etok -> list etok -> Prop :=
| pr_text s ts : has_param ts = false -> piece_rel b vals (PText s) ts ts
| pr_hole n v ti : hole_value vals n = Some v ->
    eng_tokens b (value_to_string ftext b v) = Some ti ->
    piece_rel b vals (PHole n) [TkParam (hole_no b n)] ti.
Inductive pieces_rel (b : backend) (vals : list value) :
  list piece -> list (list etok) -> list (list etok) -> Prop :=
| prs_nil : pieces_rel b vals [] [] []
| prs_cons p ps tp ti tsp tsi : piece_rel b vals p tp ti -> pieces_rel b vals ps tsp tsi ->
    pieces_rel b vals (p :: ps) (tp :: tsp) (ti :: tsi).

Lemma pieces_rel_build b vals ps : forall tsp tsi,
  (forall n, In n (holes ps) -> hole_value vals n <> None) ->
  Forall2 (fun s ts => eng_tokens b s = Some ts) (texts_params b ps) tsp ->
  Forall2 (fun s ts => eng_tokens b s = Some ts) (texts_inline ftext b vals ps) tsi ->
  all2 (piece_toks_ok b) ps tsp = true -> pieces_rel b vals ps tsp tsi.
Proof.
  induction ps as [|p ps IH]; intros tsp tsi Hh Hp Hi Ha.
  - inversion Hp; inversion Hi; subst. constructor.
  - cbn [texts_params texts_inline map] in Hp, Hi. inversion Hp as [|? tp ? tsp' Hp1 Hp2]; subst.
    inversion Hi as [|? ti ? tsi' Hi1 Hi2]; subst. cbn [all2] in Ha. apply andb_prop in Ha as [Ha1 Ha2].
    constructor.
    + destruct p as [s|n]; cbn [piece_toks_ok] in Ha1.
      * rewrite Hp1 in Hi1. injection Hi1 as <-. constructor. now apply negb_true_iff in Ha1.
      * destruct tp as [|[| | | | |m| |] [|? ?]]; try discriminate Ha1. apply N.eqb_eq in Ha1. subst m.
        destruct (hole_value vals n) as [v|] eqn:Ev.
        -- now apply (pr_hole b vals n v ti).
        -- exfalso. apply (Hh n); [cbn; now left|exact Ev].
    + apply IH; try assumption. intros n Hin. apply Hh. cbn [holes flat_map]. apply in_or_app. now right.
Qed.

Theorem engine_reads_inline_as_params_substituted b sc inl sql vals :
  emit_inline ftext b sc = Ok inl -> emit_params ftext b sc = Ok (sql, vals) ->
  params_sep ftext b sc = true -> inline_sep ftext b sc = true ->
  exists tsp tsi, eng_tokens b sql = Some (concat tsp) /\ eng_tokens b inl = Some (concat tsi) /\
                  pieces_rel b vals (pieces ftext b sc) tsp tsi.
Proof.
  intros Hi Hp Hs1 Hs2.
  destruct (push_param_invariant ftext b sc sql vals Hp) as (Esql & Evals & Eholes).
  destruct (inline_is_params_substituted ftext b sc inl sql vals Hi Hp) as [Einl _].
  unfold params_sep in Hs1. unfold inline_sep in Hs2. rewrite <- Evals in Hs2.
  destruct (lex_texts b (texts_params b (pieces ftext b sc))) as [tsp|] eqn:El1; [|discriminate Hs1].
  destruct (lex_texts b (texts_inline ftext b vals (pieces ftext b sc))) as [tsi|] eqn:El2; [|discriminate Hs2].
  exists tsp, tsi. split; [|split].
  - rewrite Esql, flatten_params_texts. exact (proj1 (lex_texts_sound b _ tsp El1)).
  - rewrite Einl, flatten_inline_texts. exact (proj1 (lex_texts_sound b _ tsi El2)).
  - apply pieces_rel_build; [|exact (lex_texts_each b _ tsp El1)|exact (lex_texts_each b _ tsi El2)|exact Hs1].
    intros n Hin. rewrite Eholes in Hin. apply in_map_iff in Hin as [k [<- Hk]]. apply in_seq in Hk.
    unfold hole_value. intros Hn. apply nth_error_None in Hn. lia.
Qed.
End S.
