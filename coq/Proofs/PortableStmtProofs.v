(* C09 at statement level: portable SELECT statements, nested to any depth, are written as the same
   script by any two backends.

   Portable SELECT: no DISTINCTROW / DISTINCT ON, no index hints, no TABLESAMPLE, no set operation, no
   NULLS FIRST/LAST ordering, no locking clause, no WITH clause, no VALUES table, no FULL OUTER JOIN;
   every expression in it portable (Proofs/PortableProofs.v), every sub-query (in FROM, in joins, in
   expressions) again a portable SELECT.  The excluded clauses are exactly those where the dialects
   have different surface forms (Properties/C08.v lists them); their equivalence is the subject of the
   emulation lemmas (NULLS ordering) and of the execution oracle.

   portable_query n q: q is a portable SELECT whose sub-queries nest at most n levels deep.
   Theorem portable_query_same_script: for every n and q with portable_query n q, any two backends and
   tables that agree on the common set, rquery (the fuel-tied renderer, fuel = n) writes the same
   script on both. *)
Require Import SQV.Model.Str SQV.Model.Escape SQV.Model.Value SQV.Model.Expr SQV.Model.Cond SQV.Model.Stmt
  SQV.Model.Writer SQV.Model.RenderExpr SQV.Model.RenderStmt SQV.Model.ExprTablesInst
  SQV.Spec.ParenRows SQV.Spec.Portable SQV.Proofs.ExprValuesProofs SQV.Proofs.PortableProofs.
From Coq Require Import Lia String Bool.
Open Scope list_scope.

Section PS.
Variable pq : query -> bool.
Notation pe := (portable query pq).

Definition portable_order (o : orderexpr) : bool :=
  match o with OrderExpr e _ None => pe e | _ => false end.
Definition portable_window (w : windowstmt) : bool :=
  match w with Window pb ob _ => forallb pe pb && forallb portable_order ob end.
Definition portable_selexpr (se : selexpr) : bool :=
  match se with
  | SelExpr e _ win => pe e && match win with Some (WQuery w) => portable_window w | _ => true end
  end.
Definition portable_holder (h : holder query) : bool :=
  match h with
  | HEmpty => true
  | HChain ms => forallb (fun m : bool * expr query => pe (snd m)) ms
  | HCond c => pe (to_simple_expr c)
  end.
Definition portable_tref (t : tref) : bool :=
  match t with
  | TPlain _ => true
  | TSubQuery s _ => pq (QSelect s)
  | TValues _ _ => false
  | TFunc f args _ => portable_func f && forallb (fun a : bool * expr query => pe (snd a)) args
  end.
Definition portable_join (j : joinexpr) : bool :=
  match j with
  | Join jt t on _ =>
      match jt with JFull => false | _ => true end && portable_tref t &&
      match on with Some h => portable_holder h | None => true end
  end.
Definition portable_select (s : select) : bool :=
  match s with
  | Select distinct selects from joins where_ groups having unions orders limit offset lock window
           with_ sample hints =>
      match distinct with None | Some DAll | Some DDistinct => true | _ => false end &&
      forallb portable_selexpr selects && forallb portable_tref from && forallb portable_join joins &&
      portable_holder where_ && forallb pe groups && portable_holder having && is_nil unions &&
      forallb portable_order orders && match lock with None => true | _ => false end &&
      match window with Some (_, w) => portable_window w | None => true end &&
      match with_ with None => true | _ => false end &&
      match sample with None => true | _ => false end && is_nil hints
  end.

Variable is_alpha : N -> bool.
Variables b1 b2 : backend.
Variables T1 T2 : etables.
Variables rq1 rq2 : query -> script.
Hypothesis rq_agree : forall q, pq q = true -> rq1 q = rq2 q.
Hypothesis Hagree : tables_agree_on_common T1 T2 = true.
Hypothesis Hfuncs : funcs_agree T1 T2 = true.

Lemma rex_agree e : pe e = true -> rex is_alpha b1 T1 rq1 e = rex is_alpha b2 T2 rq2 e.
Proof. intros H. unfold rex. now apply (portable_same_script query pq rq1 rq2 rq_agree is_alpha b1 b2 T1 T2 Hagree Hfuncs). Qed.

Lemma map_rex_agree es : forallb pe es = true ->
  map (rex is_alpha b1 T1 rq1) es = map (rex is_alpha b2 T2 rq2) es.
Proof. intros H. rewrite forallb_forall in H. apply map_ext_in. intros e Hin. now apply rex_agree, H. Qed.

Lemma and_or_common o : ck_oper (oper_key (OBin (if o : bool then BOr else BAnd))) = true.
Proof. destruct o; reflexivity. Qed.

Lemma rchain_agree len ms : forall i, forallb (fun m : bool * expr query => pe (snd m)) ms = true ->
  rchain is_alpha b1 T1 rq1 len i ms = rchain is_alpha b2 T2 rq2 len i ms.
Proof.
  induction ms as [|[o e] ms IH]; intros i H; [reflexivity|]. cbn [forallb snd] in H.
  apply andb_prop in H as [He Hr]. cbn [rchain]. rewrite (IH _ Hr). f_equal.
  unfold rchain_member. rewrite (rex_agree _ He).
  now rewrite (drop_agree T1 T2 Hagree _ _ (portable_shape_key query pq e He) (and_or_common o)).
Qed.

Lemma rholder_agree kw h : portable_holder h = true ->
  rholder is_alpha b1 T1 rq1 kw h = rholder is_alpha b2 T2 rq2 kw h.
Proof.
  destruct h as [|ms|c]; [reflexivity| |]; cbn [portable_holder]; intros H; unfold rholder.
  - now rewrite (rchain_agree _ _ _ H).
  - now rewrite (rex_agree _ H).
Qed.

Lemma rorder_field_agree e vs : pe e = true ->
  rorder_field is_alpha b1 T1 rq1 e vs = rorder_field is_alpha b2 T2 rq2 e vs.
Proof. intros H. unfold rorder_field. now rewrite (rex_agree _ H). Qed.

Lemma rorder_agree o : portable_order o = true ->
  rorder is_alpha b1 T1 rq1 o = rorder is_alpha b2 T2 rq2 o.
Proof.
  destruct o as [e ord [n|]]; [discriminate|]. cbn [portable_order]. intros H. unfold rorder.
  rewrite (rex_agree _ H).
  destruct ord as [| |vs]; try rewrite (rorder_field_agree e vs H); destruct b1, b2; reflexivity.
Qed.

Lemma map_rorder_agree os : forallb portable_order os = true ->
  map (rorder is_alpha b1 T1 rq1) os = map (rorder is_alpha b2 T2 rq2) os.
Proof. intros H. rewrite forallb_forall in H. apply map_ext_in. intros o Hin. now apply rorder_agree, H. Qed.

Lemma rwindow_agree w : portable_window w = true ->
  rwindow is_alpha b1 T1 rq1 w = rwindow is_alpha b2 T2 rq2 w.
Proof.
  destruct w as [pb ob fr]. cbn [portable_window]. intros H. apply andb_prop in H as [Hp Ho].
  unfold rwindow. now rewrite (map_rex_agree _ Hp), (map_rorder_agree _ Ho).
Qed.

Lemma rselexpr_agree se : portable_selexpr se = true ->
  rselexpr is_alpha b1 T1 rq1 se = rselexpr is_alpha b2 T2 rq2 se.
Proof.
  destruct se as [e alias win]. cbn [portable_selexpr]. intros H. apply andb_prop in H as [He Hw].
  unfold rselexpr. rewrite (rex_agree _ He). destruct win as [[n|w]|]; try reflexivity.
  now rewrite (rwindow_agree _ Hw).
Qed.

Lemma rfunc_args_agree args : forallb (fun a : bool * expr query => pe (snd a)) args = true ->
  rfunc_args is_alpha b1 T1 rq1 args = rfunc_args is_alpha b2 T2 rq2 args.
Proof.
  intros H. unfold rfunc_args. f_equal. f_equal. f_equal. rewrite forallb_forall in H.
  apply map_ext_in. intros a Hin. now rewrite (rex_agree _ (H a Hin)).
Qed.

Lemma rtref_agree t : portable_tref t = true ->
  rtref is_alpha b1 T1 rq1 t = rtref is_alpha b2 T2 rq2 t.
Proof.
  destruct t as [p|s a|rows a|f args a]; cbn [portable_tref]; intros H.
  - reflexivity.
  - unfold rtref. now rewrite (rq_agree _ H).
  - discriminate.
  - apply andb_prop in H as [Hf Ha]. unfold rtref.
    now rewrite (func_agree T1 T2 Hfuncs f Hf), (rfunc_args_agree _ Ha).
Qed.

Lemma rjoin_agree j : portable_join j = true ->
  rjoin is_alpha b1 T1 rq1 j = rjoin is_alpha b2 T2 rq2 j.
Proof.
  destruct j as [jt t on lat]. cbn [portable_join]. intros H. apply andb_prop in H as [H Ho].
  apply andb_prop in H as [Hj Ht]. unfold rjoin. rewrite (rtref_agree _ Ht).
  assert (Ej : rjointype b1 jt = rjointype b2 jt) by (destruct jt; try reflexivity; discriminate Hj).
  rewrite Ej. destruct on as [h|]; [|reflexivity]. now rewrite (rholder_agree "ON" h Ho).
Qed.

Lemma sel_clause_agree s k : portable_select s = true ->
  sel_clause is_alpha b1 T1 rq1 s k = sel_clause is_alpha b2 T2 rq2 s k.
Proof.
  destruct s as [distinct selects from joins where_ groups having unions orders limit offset lock window
                 with_ sample hints].
  cbn [portable_select]. intros H.
  repeat match type of H with (_ && _ = true) => apply andb_prop in H as [H ?H] end.
  match goal with X : is_nil hints = true |- _ => destruct hints; [|discriminate X] end.
  match goal with X : is_nil unions = true |- _ => destruct unions; [|discriminate X] end.
  destruct sample; [discriminate|]. destruct with_; [discriminate|]. destruct lock; [discriminate|].
  destruct k; try reflexivity; cbn [sel_clause].
  - (* head *)
    assert (Es : map (rselexpr is_alpha b1 T1 rq1) selects = map (rselexpr is_alpha b2 T2 rq2) selects).
    { match goal with X : forallb portable_selexpr selects = true |- _ => rewrite forallb_forall in X;
        apply map_ext_in; intros se Hin; now apply rselexpr_agree, X end. }
    rewrite Es. destruct distinct as [[| | |cols]|]; try reflexivity; discriminate.
  - (* from *)
    assert (Ef : map (rtref is_alpha b1 T1 rq1) from = map (rtref is_alpha b2 T2 rq2) from).
    { match goal with X : forallb portable_tref from = true |- _ => rewrite forallb_forall in X;
        apply map_ext_in; intros t Hin; now apply rtref_agree, X end. }
    rewrite Ef. destruct from; [reflexivity|]. unfold rhints, rsample. destruct b1, b2; reflexivity.
  - (* joins *)
    apply flat_map_ext_Forall. rewrite Forall_forall. intros j Hin.
    match goal with X : forallb portable_join joins = true |- _ => rewrite forallb_forall in X;
      now rewrite (rjoin_agree j (X j Hin)) end.
  - now apply rholder_agree.
  - match goal with X : forallb pe groups = true |- _ => now rewrite (map_rex_agree _ X) end.
  - now apply rholder_agree.
  - unfold rorders. match goal with X : forallb portable_order orders = true |- _ => now rewrite (map_rorder_agree _ X) end.
  - destruct window as [[name w]|]; [|reflexivity].
    match goal with X : portable_window w = true |- _ => now rewrite (rwindow_agree _ X) end.
Qed.

Theorem portable_select_same_script s : portable_select s = true ->
  rselect is_alpha b1 T1 rq1 s = rselect is_alpha b2 T2 rq2 s.
Proof.
  intros H. unfold rselect. apply flat_map_ext_Forall. rewrite Forall_forall. intros k _.
  now apply sel_clause_agree.
Qed.
End PS.

(* nesting: a portable SELECT whose sub-queries nest at most n levels deep *)
Fixpoint portable_query (n : nat) (q : query) : bool :=
  match n with
  | O => false
  | S m => match q with QSelect s => portable_select (portable_query m) s | _ => false end
  end.

Theorem portable_query_same_script is_alpha b1 b2 T1 T2 :
  tables_agree_on_common T1 T2 = true -> funcs_agree T1 T2 = true ->
  forall n q, portable_query n q = true -> rquery is_alpha b1 T1 n q = rquery is_alpha b2 T2 n q.
Proof.
  intros Ha Hf. induction n as [|m IH]; intros q Hq; [discriminate|].
  cbn [portable_query] in Hq. destruct q as [s|i|u|d|w q']; try discriminate.
  cbn [rquery rquery_gen].
  now apply (portable_select_same_script (portable_query m) is_alpha b1 b2 T1 T2 _ _ IH Ha Hf).
Qed.
