(* the finite part of C09, re-proved whenever the tables regenerated from the code change: any two
   backends' executed decision tables agree on the common operator / shape / function set *)
Require Import SQV.Model.Str SQV.Model.Escape SQV.Model.ExprTablesInst SQV.Spec.Portable.

Lemma all_tables_agree more b1 b2 :
  tables_agree_on_common (tables_of more b1) (tables_of more b2) = true /\
  funcs_agree (tables_of more b1) (tables_of more b2) = true.
Proof. destruct more, b1, b2; split; vm_compute; reflexivity. Qed.
