(* C06 end to end inside Coq: the condition tree built by the builder calls, written by the renderer
   model, read back by the abstract grammar, denotes the conjunction / disjunction that was asked for.

   For every condition tree c (any depth, any negations) whose leaf expressions are in the operator
   fragment of Proofs/PrattLinkProofs.v (comparisons, arithmetic, NOT over primary operands):
   - to_simple_expr c is in the fragment, so the WHERE / HAVING / ON text the renderer writes is the
     abstract rendering of its skeleton (where_script_is_abstract_rendering);
   - every parse of that token list under the dialect's levels is that skeleton, and the Kleene value
     of the tree so read is sem_cond c: the AND of the members of an all group, the OR of the members
     of an any group, negated where not() was called (written_condition_reads_as_specified). *)
Require Import SQV.Spec.PrattT SQV.Proofs.PrattTProofs.
Require Import SQV.Model.Str SQV.Model.Escape SQV.Model.Value SQV.Model.Expr SQV.Model.Cond SQV.Model.Stmt
  SQV.Model.Writer SQV.Model.RenderExpr SQV.Model.RenderStmt SQV.Model.ExprTablesInst
  SQV.Spec.Prec SQV.Spec.ParenRows SQV.Spec.Logic3 SQV.Proofs.CondProofs SQV.Proofs.PrattLinkProofs.
From Coq Require Import Lia String Arith.
Open Scope list_scope.

Section W.
Variable Q : Type.
Variable b : backend.

Notation pexpr := (PrattT.expr (expr Q) sop).

Fixpoint cond_frag (c : cond Q) : bool :=
  match c with
  | Cond _ _ ms => forallb (fun m => match m with MCond c' => cond_frag c' | MExpr e => frag Q b e end) ms
  end.

Fixpoint unskel (p : pexpr) : expr Q :=
  match p with
  | PrattT.EA _ _ a => a
  | PrattT.EN _ _ x => ENot (unskel x)
  | PrattT.EB _ _ l o r => EBinary (unskel l) (match o with SBin o => o | SBetweenAnd => BAnd end) (unskel r)
  end.

Lemma unskel_skel_aux e :
  unskel (skel Q e) = e /\
  match e with EBinary lo _ hi => unskel (skel Q lo) = lo /\ unskel (skel Q hi) = hi | _ => True end.
Proof.
  induction e as [c|es|x IHx|f args|l IHl op r IHr|sop0 q|v|vs|cs|cs es|k|ty x IHx|whens els|v];
    (split; [|try exact I]); try reflexivity.
  - cbn [skel unskel]. now rewrite (proj1 IHx).
  - destruct IHl as [El _]. destruct IHr as [Er Eops].
    assert (Eb : skel Q (EBinary l op r) = PrattT.EB _ _ (skel Q l) (SBin op) (skel Q r) \/
                 exists lo hi, r = EBinary lo BAnd hi /\
                   skel Q (EBinary l op r) = PrattT.EB _ _ (skel Q l) (SBin op)
                                               (PrattT.EB _ _ (skel Q lo) SBetweenAnd (skel Q hi))).
    { cbn [skel]. destruct r as [| | | |lo rop hi| | | | | | | | |]; try (left; reflexivity).
      destruct rop; try (left; reflexivity). destruct (is_between op); [right; eauto|left; reflexivity]. }
    destruct Eb as [-> | (lo & hi & -> & ->)]; cbn [unskel].
    + now rewrite El, Er.
    + destruct Eops as [Elo Ehi]. now rewrite El, Elo, Ehi.
  - split; [apply IHl|apply IHr].
Qed.

Lemma unskel_skel e : unskel (skel Q e) = e.
Proof. exact (proj1 (unskel_skel_aux e)). Qed.

Lemma frag_op_and_or (is_any : bool) : frag_op b (if is_any then BOr else BAnd) = true.
Proof. destruct is_any, b; reflexivity. Qed.

Lemma frag_fold (is_any : bool) rest : forall first,
  frag Q b first = true -> forallb (frag Q b) rest = true ->
  frag Q b (fold_binop (if is_any then BOr else BAnd) first rest) = true.
Proof.
  unfold fold_binop. induction rest as [|x rest IH]; intros first Hf Hr; [exact Hf|].
  cbn [forallb] in Hr. apply andb_prop in Hr as [Hx Hr]. cbn [fold_left]. apply IH; [|exact Hr].
  cbn [frag]. rewrite frag_op_and_or, Hf, Hx.
  destruct is_any; reflexivity.
Qed.

Theorem cond_frag_sound : forall c : cond Q, cond_frag c = true -> frag Q b (to_simple_expr c) = true.
Proof.
  intros c. remember (cond_size Q c) as n eqn:Hn. revert c Hn.
  induction n as [n IHn] using lt_wf_ind. intros c Hn Hc.
  destruct c as [negate is_any ms]. cbn [cond_frag] in Hc.
  assert (Hm : forallb (frag Q b) (map (fun m => match m with MCond c' => to_simple_expr c' | MExpr e => e end) ms) = true).
  { rewrite forallb_forall in *. intros e Hin. apply in_map_iff in Hin as [m [<- Hin]].
    specialize (Hc m Hin). destruct m as [c'|e']; [|exact Hc].
    apply (IHn (cond_size Q c')); [|reflexivity|exact Hc].
    subst n. cbn [cond_size]. pose proof (member_size_le Q ms c' Hin). lia. }
  cbn [to_simple_expr].
  set (inner := map (fun m => match m with MCond c' => to_simple_expr c' | MExpr e => e end) ms) in *.
  assert (E : frag Q b (match inner with
                        | [] => EConstant (if is_any then false_value else true_value)
                        | first :: rest => fold_binop (if is_any then BOr else BAnd) first rest
                        end) = true).
  { destruct inner as [|first rest]; [reflexivity|].
    cbn [forallb] in Hm. apply andb_prop in Hm as [Hf Hr]. now apply frag_fold. }
  destruct negate; [cbn [frag]|]; exact E.
Qed.

Variable T : etables.
Hypothesis rows_safe : bad_rows b T = [].
Variable rho : expr Q -> tv.

Theorem written_condition_reads_as_specified (c : cond Q) rest p rest' :
  cond_frag c = true ->
  PrattT.stops (expr Q) sop (prec b) 0 rest ->
  PrattT.P (expr Q) sop (prec b) (rmin b) (notp b) (tern) 0
    (abstract_rendering Q T (to_simple_expr c) ++ rest) p rest' ->
  p = skel Q (to_simple_expr c) /\ rest' = rest /\ eval3 rho (unskel p) = sem_cond rho c.
Proof.
  intros Hc Hst Hp.
  pose proof (fragment_parses_back Q b T rows_safe (to_simple_expr c) rest (cond_frag_sound c Hc) Hst) as Hq.
  destruct (parse_unique _ _ _ _ _ _ _ _ _ _ _ _ Hp Hq) as [-> ->].
  repeat split. rewrite unskel_skel. apply to_simple_expr_sound.
Qed.

(* there is always such a parse: the statement above is not vacuous *)
Theorem written_condition_parses (c : cond Q) rest :
  cond_frag c = true -> PrattT.stops (expr Q) sop (prec b) 0 rest ->
  PrattT.P (expr Q) sop (prec b) (rmin b) (notp b) (tern) 0
    (abstract_rendering Q T (to_simple_expr c) ++ rest) (skel Q (to_simple_expr c)) rest.
Proof. intros Hc Hst. apply fragment_parses_back; [exact rows_safe|now apply cond_frag_sound|exact Hst]. Qed.
End W.

(* the WHERE / HAVING / ON clause the statement renderers write for a holder *)
Theorem where_script_is_abstract_rendering is_alpha b T rq kw (c : cond query) :
  cond_frag query b c = true ->
  rholder is_alpha b T rq kw (HCond c) =
  [WS (K " " ++ K kw ++ K " ")] ++
  flat_map (tok_script query rq is_alpha b T) (abstract_rendering query T (to_simple_expr c)).
Proof.
  intros Hc. unfold rholder, rex.
  now rewrite (rexpr_is_abstract_rendering query rq is_alpha b T _ (cond_frag_sound query b c Hc)).
Qed.
