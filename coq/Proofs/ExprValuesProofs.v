Require Import SQV.Model.Str SQV.Model.Escape SQV.Model.Value SQV.Model.Expr SQV.Model.Writer
  SQV.Model.RenderExpr SQV.Spec.ExprValues SQV.Proofs.WriterProofs.
From Coq Require Import Lia String.
Open Scope list_scope.

(* ---- a structural induction principle for the nested expression type ---- *)
Section ExprInd.
Variable Q : Type.
Variable P : expr Q -> Prop.
Hypothesis H_col : forall c, P (EColumn c).
Hypothesis H_tuple : forall es, Forall P es -> P (ETuple es).
Hypothesis H_not : forall x, P x -> P (ENot x).
Hypothesis H_func : forall f args, Forall (fun a : bool * expr Q => P (snd a)) args -> P (EFunc f args).
Hypothesis H_bin : forall l op r, P l -> P r -> P (EBinary l op r).
Hypothesis H_sq : forall op q, P (ESubQuery op q).
Hypothesis H_val : forall v, P (EValue v).
Hypothesis H_vals : forall vs, P (EValues vs).
Hypothesis H_cust : forall s, P (ECustom s).
Hypothesis H_custw : forall s es, Forall P es -> P (ECustomWith s es).
Hypothesis H_kw : forall k, P (EKeyword k).
Hypothesis H_asenum : forall ty x, P x -> P (EAsEnum ty x).
Hypothesis H_case : forall whens els,
  Forall (fun w : expr Q * expr Q => P (fst w) /\ P (snd w)) whens ->
  (match els with Some x => P x | None => True end) -> P (ECase whens els).
Hypothesis H_const : forall v, P (EConstant v).

Definition opt_P (f : forall e, P e) (o : option (expr Q)) :
  match o with Some x => P x | None => True end :=
  match o with Some x => f x | None => I end.

Fixpoint expr_ind' (e : expr Q) : P e :=
  match e with
  | EColumn c => H_col c
  | ETuple es => H_tuple es ((fix go (l : list (expr Q)) : Forall P l :=
                   match l with [] => Forall_nil _ | x :: t => Forall_cons _ (expr_ind' x) (go t) end) es)
  | ENot x => H_not x (expr_ind' x)
  | EFunc f args => H_func f args ((fix go (l : list (bool * expr Q)) : Forall (fun a => P (snd a)) l :=
                   match l with [] => Forall_nil _ | a :: t => Forall_cons _ (expr_ind' (snd a)) (go t) end) args)
  | EBinary l op r => H_bin l op r (expr_ind' l) (expr_ind' r)
  | ESubQuery op q => H_sq op q
  | EValue v => H_val v
  | EValues vs => H_vals vs
  | ECustom s => H_cust s
  | ECustomWith s es => H_custw s es ((fix go (l : list (expr Q)) : Forall P l :=
                   match l with [] => Forall_nil _ | x :: t => Forall_cons _ (expr_ind' x) (go t) end) es)
  | EKeyword k => H_kw k
  | EAsEnum ty x => H_asenum ty x (expr_ind' x)
  | ECase whens els =>
      H_case whens els
        ((fix go (l : list (expr Q * expr Q)) : Forall (fun w => P (fst w) /\ P (snd w)) l :=
            match l with
            | [] => Forall_nil _
            | w :: t => Forall_cons _ (conj (expr_ind' (fst w)) (expr_ind' (snd w))) (go t)
            end) whens)
        (opt_P expr_ind' els)
  | EConstant v => H_const v
  end.
End ExprInd.

(* ---- vals_of is a monoid morphism and ignores text ---- *)
Lemma vals_of_app a b : vals_of (a ++ b) = vals_of a ++ vals_of b.
Proof. apply flat_map_app. Qed.

Lemma vals_of_cons_ws s t : vals_of (WS s :: t) = vals_of t.
Proof. reflexivity. Qed.
Lemma vals_of_ws1 s : vals_of [WS s] = [].
Proof. reflexivity. Qed.

Lemma vals_of_sep_by sep l : vals_of sep = [] -> vals_of (sep_by sep l) = flat_map vals_of l.
Proof.
  intros Hs. induction l as [|x l IH]; [reflexivity|].
  destruct l as [|y l']; cbn [sep_by flat_map]; [now rewrite app_nil_r|].
  rewrite !vals_of_app, Hs. cbn [app]. cbn [sep_by flat_map] in IH. now rewrite IH.
Qed.

Lemma flat_map_singletons (vs : list value) :
  flat_map vals_of (map (fun v => [WVal v]) vs) = vs.
Proof. induction vs as [|v vs IH]; [reflexivity|]. cbn. now rewrite IH. Qed.

Lemma vals_of_flat_map {A} (f : A -> script) l :
  vals_of (flat_map f l) = flat_map (fun x => vals_of (f x)) l.
Proof. induction l as [|x l IH]; [reflexivity|]. cbn [flat_map]. now rewrite vals_of_app, IH. Qed.

Section V.
Variable Q : Type.
Variable rq : Q -> script.
Variable is_alpha : N -> bool.
Variable b : backend.
Variable T : etables.

Lemma vals_of_wrap p s : vals_of (wrap p s) = vals_of s.
Proof. unfold wrap. destruct p; [|reflexivity]. cbn [vals_of flat_map app]. rewrite vals_of_app. cbn. now rewrite app_nil_r. Qed.

Lemma vals_of_opt_text o : vals_of (opt_text o) = [].
Proof. destruct o; reflexivity. Qed.

Lemma vals_of_rbinop op : vals_of (rbinop T op) = [].
Proof. destruct op; try apply vals_of_opt_text; reflexivity. Qed.

Lemma vals_of_rfunc_name f : vals_of (rfunc_name T f) = [].
Proof. destruct f; try apply vals_of_opt_text; reflexivity. Qed.

Lemma vals_of_binary_expr l op r sl sr :
  vals_of (binary_expr Q T l op r sl sr) = vals_of sl ++ vals_of sr.
Proof.
  unfold binary_expr. rewrite !vals_of_app, !vals_of_wrap, vals_of_rbinop. reflexivity.
Qed.

Lemma vals_of_between_bounds op lo hi slo shi :
  vals_of (between_bounds Q T op lo hi slo shi) = vals_of slo ++ vals_of shi.
Proof. unfold between_bounds. rewrite !vals_of_app, !vals_of_wrap. reflexivity. Qed.

Lemma vals_of_rcolref c : vals_of (rcolref c) = [].
Proof. destruct c; reflexivity. Qed.
Lemma vals_of_rkeyword k : vals_of (rkeyword k) = [].
Proof. destruct k; reflexivity. Qed.

Lemma flat_map_ext_Forall {A B} (f g : A -> list B) l :
  Forall (fun x => f x = g x) l -> flat_map f l = flat_map g l.
Proof. induction 1 as [|x l H _ IH]; [reflexivity|]. cbn. now rewrite H, IH. Qed.

(* C01 (2), expression level: for every tree without custom templates, every backend, every
   parenthesis table and both rendering paths (with / without the Postgres cast override), the
   values pushed by the rendering are exactly the traversal's values, in its order: nothing is
   lost, duplicated or moved *)
Theorem rendered_values_are_the_given_ones :
  forall (e : expr Q), no_template e = true ->
  forall common, vals_of (rexpr Q rq is_alpha b T common e) = expr_values (fun q => vals_of (rq q)) e.
Proof.
  induction e as [c|es H|x IHe|f args H|l op r IHe1 IHe2|sop q|v|vs|cs|cs es H|k|ty x IHe|whens els H H0|v] using expr_ind';
    intros Hnt common; cbn [no_template] in Hnt.
  - cbn [rexpr expr_values]. apply vals_of_rcolref.
  - cbn [rexpr expr_values]. unfold ws. rewrite vals_of_cons_ws, vals_of_app, vals_of_ws1, app_nil_r.
    rewrite vals_of_sep_by by reflexivity.
    rewrite flat_map_concat_map, map_map, <- flat_map_concat_map.
    apply flat_map_ext_Forall. rewrite forallb_forall in Hnt.
    rewrite Forall_forall in *. intros x Hx. apply H; [exact Hx|now apply Hnt].
  - cbn [rexpr expr_values]. rewrite vals_of_app, vals_of_wrap. unfold ws. cbn [vals_of flat_map app]. now apply IHe.
  - cbn [rexpr expr_values]. rewrite !vals_of_app, vals_of_rfunc_name. unfold ws at 1 3. rewrite !vals_of_ws1.
    cbn [app]. rewrite app_nil_r. rewrite vals_of_sep_by by reflexivity.
    rewrite flat_map_concat_map, map_map, <- flat_map_concat_map.
    apply flat_map_ext_Forall. rewrite forallb_forall in Hnt.
    rewrite Forall_forall in *. intros a Ha. rewrite vals_of_app.
    destruct (fst a); cbn [vals_of flat_map app]; (apply H; [exact Ha|now apply Hnt]).
  - apply andb_prop in Hnt as [Hl Hr].
    cbn [rexpr expr_values]. destruct (is_empty_in Q op r) eqn:Eei.
    + (* the empty IN rewrite *)
      destruct op; rewrite vals_of_binary_expr; reflexivity.
    + rewrite vals_of_binary_expr, IHe1 by assumption. f_equal.
      destruct r as [| | | |lo rop hi| | | | | | | | |]; try (now apply IHe2).
      destruct rop; try (now apply IHe2).
      destruct (is_between op) eqn:Eb; [|now apply IHe2].
      (* bounds of BETWEEN: the same values as the inner AND expression *)
      rewrite vals_of_between_bounds. rewrite <- (IHe2 Hr false).
      cbn [rexpr]. change (is_empty_in Q BAnd hi) with false. cbv iota.
      rewrite vals_of_binary_expr. f_equal.
      destruct hi as [| | | |hl hop hh| | | | | | | | |]; try reflexivity. destruct hop; reflexivity.
  - cbn [rexpr expr_values]. rewrite !vals_of_app. unfold ws. rewrite !vals_of_ws1, app_nil_r. cbn [app].
    destruct sop; [rewrite vals_of_opt_text|]; reflexivity.
  - reflexivity.
  - cbn [rexpr expr_values]. unfold ws. rewrite vals_of_cons_ws, vals_of_app, vals_of_ws1, app_nil_r.
    rewrite vals_of_sep_by by reflexivity. apply flat_map_singletons.
  - reflexivity.
  - discriminate.
  - cbn [rexpr expr_values]. apply vals_of_rkeyword.
  - cbn [rexpr expr_values].
    destruct b, common; try (now apply IHe).
    destruct (ends_with_brackets ty); rewrite !vals_of_app; unfold ws; cbn [vals_of flat_map app]; rewrite app_nil_r; now apply IHe.
  - apply andb_prop in Hnt as [Hw He]. cbn [rexpr expr_values].
    rewrite !vals_of_app. unfold ws at 1 3. rewrite !vals_of_ws1. cbn [app]. rewrite app_nil_r. f_equal.
    + rewrite vals_of_flat_map.
      apply flat_map_ext_Forall. rewrite forallb_forall in Hw.
      rewrite Forall_forall in *. intros w Hin. specialize (H w Hin) as [H1 H2].
      specialize (Hw w Hin). apply andb_prop in Hw as [Hw1 Hw2].
      cbv beta. unfold ws. rewrite vals_of_cons_ws, vals_of_app, vals_of_cons_ws. now rewrite H1, H2.
    + destruct els as [x|]; [|reflexivity]. unfold ws. rewrite vals_of_cons_ws. now apply H0.
  - reflexivity.
Qed.
End V.
