Require Import SQV.Model.Str SQV.Model.Escape SQV.Model.Value SQV.Model.Expr SQV.Model.Writer
  SQV.Model.RenderExpr SQV.Spec.ExprValues SQV.Proofs.WriterProofs.
From Coq Require Import Lia.

(* ---- a structural induction principle for the nested expression type ---- *)
Section ExprInd.
Variable Q : Type.
Variable P : expr Q -> Prop.
Hypothesis H_col : forall c, P (EColumn c).
Hypothesis H_tuple : forall es, Forall P es -> P (ETuple es).
Hypothesis H_not : forall x, P x -> P (ENot x).
Hypothesis H_func : forall f args, Forall (fun a : bool * expr Q => P (snd a)) args -> P (EFunc f args).
Hypothesis H_bin : forall l op r, P l -> P r -> P (EBinary l op r).
Hypothesis H_sq : forall op q, P (ESubQuery op q).
Hypothesis H_val : forall v, P (EValue v).
Hypothesis H_vals : forall vs, P (EValues vs).
Hypothesis H_cust : forall s, P (ECustom s).
Hypothesis H_custw : forall s es, Forall P es -> P (ECustomWith s es).
Hypothesis H_kw : forall k, P (EKeyword k).
Hypothesis H_asenum : forall ty x, P x -> P (EAsEnum ty x).
Hypothesis H_case : forall whens els,
  Forall (fun w : expr Q * expr Q => P (fst w) /\ P (snd w)) whens ->
  (match els with Some x => P x | None => True end) -> P (ECase whens els).
Hypothesis H_const : forall v, P (EConstant v).

Definition opt_P (f : forall e, P e) (o : option (expr Q)) :
  match o with Some x => P x | None => True end :=
  match o with Some x => f x | None => I end.

Fixpoint expr_ind' (e : expr Q) : P e :=
  match e with
  | EColumn c => H_col c
  | ETuple es => H_tuple es ((fix go (l : list (expr Q)) : Forall P l :=
                   match l with [] => Forall_nil _ | x :: t => Forall_cons _ (expr_ind' x) (go t) end) es)
  | ENot x => H_not x (expr_ind' x)
  | EFunc f args => H_func f args ((fix go (l : list (bool * expr Q)) : Forall (fun a => P (snd a)) l :=
                   match l with [] => Forall_nil _ | a :: t => Forall_cons _ (expr_ind' (snd a)) (go t) end) args)
  | EBinary l op r => H_bin l op r (expr_ind' l) (expr_ind' r)
  | ESubQuery op q => H_sq op q
  | EValue v => H_val v
  | EValues vs => H_vals vs
  | ECustom s => H_cust s
  | ECustomWith s es => H_custw s es ((fix go (l : list (expr Q)) : Forall P l :=
                   match l with [] => Forall_nil _ | x :: t => Forall_cons _ (expr_ind' x) (go t) end) es)
  | EKeyword k => H_kw k
  | EAsEnum ty x => H_asenum ty x (expr_ind' x)
  | ECase whens els =>
      H_case whens els
        ((fix go (l : list (expr Q * expr Q)) : Forall (fun w => P (fst w) /\ P (snd w)) l :=
            match l with
            | [] => Forall_nil _
            | w :: t => Forall_cons _ (conj (expr_ind' (fst w)) (expr_ind' (snd w))) (go t)
            end) whens)
        (opt_P expr_ind' els)
  | EConstant v => H_const v
  end.
End ExprInd.

(* ---- vals_of is a monoid morphism and ignores text ---- *)
Lemma vals_of_app a b : vals_of (a ++ b) = vals_of a ++ vals_of b.
Proof. apply flat_map_app. Qed.

Lemma vals_of_sep_by sep l : vals_of sep = [] -> vals_of (sep_by sep l) = flat_map vals_of l.
Proof.
  intros Hs. induction l as [|x l IH]; [reflexivity|].
  destruct l as [|y l']; cbn [sep_by flat_map]; [now rewrite app_nil_r|].
  rewrite !vals_of_app, Hs. cbn [app]. cbn [sep_by flat_map] in IH. now rewrite IH.
Qed.

Section V.
Variable Q : Type.
Variable rq : Q -> script.
Variable is_alpha : N -> bool.
Variable b : backend.
Variable T : etables.

Lemma vals_of_wrap p s : vals_of (wrap p s) = vals_of s.
Proof. unfold wrap. destruct p; [|reflexivity]. cbn [vals_of flat_map app]. rewrite vals_of_app. cbn. now rewrite app_nil_r. Qed.

Lemma vals_of_opt_text o : vals_of (opt_text o) = [].
Proof. destruct o; reflexivity. Qed.

Lemma vals_of_rbinop op : vals_of (rbinop T op) = [].
Proof. destruct op; try apply vals_of_opt_text; reflexivity. Qed.

Lemma vals_of_rfunc_name f : vals_of (rfunc_name T f) = [].
Proof. destruct f; try apply vals_of_opt_text; reflexivity. Qed.

Lemma vals_of_binary_expr l op r sl sr :
  vals_of (binary_expr Q T l op r sl sr) = vals_of sl ++ vals_of sr.
Proof.
  unfold binary_expr. rewrite !vals_of_app, !vals_of_wrap, vals_of_rbinop. reflexivity.
Qed.

Lemma vals_of_between_bounds op lo hi slo shi :
  vals_of (between_bounds Q T op lo hi slo shi) = vals_of slo ++ vals_of shi.
Proof. unfold between_bounds. rewrite !vals_of_app, !vals_of_wrap. reflexivity. Qed.

Lemma vals_of_rcolref c : vals_of (rcolref c) = [].
Proof. destruct c; reflexivity. Qed.
Lemma vals_of_rkeyword k : vals_of (rkeyword k) = [].
Proof. destruct k; reflexivity. Qed.

Lemma flat_map_ext_Forall {A B} (f g : A -> list B) l :
  Forall (fun x => f x = g x) l -> flat_map f l = flat_map g l.
Proof. induction 1 as [|x l H _ IH]; [reflexivity|]. cbn. now rewrite H, IH. Qed.

Definition is_empty_in (op : binop) (r : expr Q) : bool :=
  match op, r with BIn, ETuple [] | BNotIn, ETuple [] => true | _, _ => false end.

Lemma rexpr_binary_nonempty common l op r : is_empty_in op r = false ->
  rexpr Q rq is_alpha b T common (EBinary l op r) =
  binary_expr Q T l op r (rexpr Q rq is_alpha b T false l)
    (match r with
     | EBinary lo BAnd hi =>
         if is_between op then between_bounds Q T op lo hi (rexpr Q rq is_alpha b T false lo) (rexpr Q rq is_alpha b T false hi)
         else rexpr Q rq is_alpha b T false r
     | _ => rexpr Q rq is_alpha b T false r
     end).
Proof.
  intros H. destruct op; try reflexivity; destruct r as [|[|? ?]| | | | | | | | | | | |]; try reflexivity; discriminate.
Qed.

Lemma expr_values_binary_nonempty qv l op r : is_empty_in op r = false ->
  expr_values qv (EBinary l op r) = expr_values qv l ++ expr_values qv r.
Proof.
  intros H. destruct op; try reflexivity; destruct r as [|[|? ?]| | | | | | | | | | | |]; try reflexivity; discriminate.
Qed.

(* C01 (2), expression level: for every tree without custom templates, every backend, every
   parenthesis table and both rendering paths (with / without the Postgres cast override), the
   values pushed by the rendering are exactly the traversal's values, in its order: nothing is
   lost, duplicated or moved *)
Theorem rendered_values_are_the_given_ones :
  forall (e : expr Q), no_template e = true ->
  forall common, vals_of (rexpr Q rq is_alpha b T common e) = expr_values (fun q => vals_of (rq q)) e.
Proof.
  induction e using expr_ind'; intros Hnt common; cbn [no_template] in Hnt.
  - cbn [rexpr expr_values]. apply vals_of_rcolref.
  - cbn [rexpr expr_values]. cbn [vals_of flat_map app]. fold (vals_of (sep_by [ws ", "] (map (rexpr Q rq is_alpha b T false) es) ++ [ws ")"])).
    rewrite vals_of_app, vals_of_sep_by by reflexivity. cbn [vals_of flat_map app]. rewrite app_nil_r.
    rewrite flat_map_concat_map, map_map, <- flat_map_concat_map.
    apply flat_map_ext_Forall. rewrite forallb_forall in Hnt.
    rewrite Forall_forall in *. intros x Hx. apply H; [exact Hx|now apply Hnt].
  - cbn [rexpr expr_values]. rewrite vals_of_app, vals_of_wrap. cbn [vals_of flat_map app]. now apply IHe.
  - cbn [rexpr expr_values]. rewrite !vals_of_app, vals_of_rfunc_name. cbn [app vals_of flat_map].
    rewrite app_nil_r. rewrite vals_of_sep_by by reflexivity.
    rewrite flat_map_concat_map, map_map, <- flat_map_concat_map.
    apply flat_map_ext_Forall. rewrite forallb_forall in Hnt.
    rewrite Forall_forall in *. intros a Ha. rewrite vals_of_app.
    replace (vals_of (if fst a then [ws "DISTINCT "] else [])) with (@nil value) by (destruct (fst a); reflexivity).
    cbn [app]. apply H; [exact Ha|now apply Hnt].
  - apply andb_prop in Hnt as [Hl Hr].
    destruct (is_empty_in op r) eqn:Eei.
    + (* the empty IN rewrite *)
      destruct op; try discriminate; destruct r as [|[|? ?]| | | | | | | | | | | |]; try discriminate;
        cbn [rexpr expr_values]; rewrite vals_of_binary_expr; reflexivity.
    + rewrite rexpr_binary_nonempty, expr_values_binary_nonempty by assumption.
      rewrite vals_of_binary_expr, IHe1 by assumption. f_equal.
      destruct r as [| | | |lo rop hi| | | | | | | | |]; try (now apply IHe2).
      destruct rop; try (now apply IHe2).
      destruct (is_between op) eqn:Eb; [|now apply IHe2].
      (* bounds of BETWEEN: the same values as the inner AND expression *)
      rewrite vals_of_between_bounds. rewrite <- (IHe2 Hr false).
      rewrite rexpr_binary_nonempty by (destruct hi as [|[|? ?]| | | | | | | | | | | |]; reflexivity).
      rewrite vals_of_binary_expr. f_equal.
      destruct hi as [| | | |hl hop hh| | | | | | | | |]; try reflexivity. destruct hop; reflexivity.
  - reflexivity.
  - reflexivity.
  - reflexivity.
  - reflexivity.
  - discriminate.
  - cbn [rexpr expr_values]. apply vals_of_rkeyword.
  - cbn [rexpr expr_values].
    destruct b, common; cbn [vals_of flat_map app]; try (now apply IHe).
    destruct (ends_with_brackets ty); rewrite !vals_of_app; cbn [vals_of flat_map app]; rewrite app_nil_r; now apply IHe.
  - apply andb_prop in Hnt as [Hw He]. cbn [rexpr expr_values].
    rewrite !vals_of_app. cbn [vals_of flat_map app]. rewrite app_nil_r. f_equal.
    + rewrite flat_map_concat_map.
      assert (Hf : forall l, vals_of (flat_map (fun w : expr Q * expr Q =>
                     [ws " WHEN ("] ++ rexpr Q rq is_alpha b T false (fst w) ++ [ws ") THEN "] ++
                     rexpr Q rq is_alpha b T false (snd w)) l)
                   = flat_map (fun w => vals_of (rexpr Q rq is_alpha b T false (fst w)) ++
                                        vals_of (rexpr Q rq is_alpha b T false (snd w))) l).
      { induction l as [|w l IHl]; [reflexivity|]. cbn [flat_map]. rewrite !vals_of_app, IHl.
        cbn [vals_of flat_map app]. now rewrite <- !app_assoc. }
      rewrite <- flat_map_concat_map, Hf.
      apply flat_map_ext_Forall. rewrite forallb_forall in Hw.
      rewrite Forall_forall in *. intros w Hin. specialize (H w Hin) as [H1 H2].
      specialize (Hw w Hin). apply andb_prop in Hw as [Hw1 Hw2]. now rewrite H1, H2.
    + destruct els as [x|]; [|reflexivity]. rewrite vals_of_app. cbn [vals_of flat_map app]. now apply H0.
  - reflexivity.
Qed.
End V.
