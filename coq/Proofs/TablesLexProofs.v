(* The operator, function and sub-query-operator spellings EXECUTED FROM THE CODE on this run
   (Generated/ExprTables.v) lex under the engine's statement lexer without a placeholder token:
   a finite check, for the three backends and both values of option-more-parentheses. *)
Require Import SQV.Model.Str SQV.Model.Escape SQV.Model.Writer SQV.Model.RenderExpr SQV.Model.ExprTablesInst
  SQV.Generated.ExprTables SQV.Generated.ExprTablesMore SQV.Spec.ScriptSafe SQV.Proofs.ExprSafeProofs.

Lemma generated_rows_lex :
  rows_lex MySQL binop_rows_my = true /\ rows_lex MySQL func_rows_my = true /\ rows_lex MySQL sqop_rows_my = true /\
  rows_lex Postgres binop_rows_pg = true /\ rows_lex Postgres func_rows_pg = true /\ rows_lex Postgres sqop_rows_pg = true /\
  rows_lex SQLite binop_rows_sl = true /\ rows_lex SQLite func_rows_sl = true /\ rows_lex SQLite sqop_rows_sl = true.
Proof. repeat split; vm_compute; reflexivity. Qed.

Theorem generated_tables_spell_lexably more b : spellings_lex b (tables_of more b).
Proof.
  destruct generated_rows_lex as (A1 & A2 & A3 & B1 & B2 & B3 & C1 & C2 & C3).
  destruct b, more; cbn [tables_of]; apply mk_tables_spellings_lex; assumption.
Qed.
