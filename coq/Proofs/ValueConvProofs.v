(* Proofs about the Value conversions (property C12). *)
Require Import SQV.Model.Str SQV.Model.Value SQV.Model.ValueRow SQV.Model.FloatBits SQV.Model.ValueEq
  SQV.Model.ValueConv SQV.Generated.ValueTypes SQV.Generated.ValueTypesStatus.
From Coq Require Import Lia.

(* the translator understood every conversion item of src/value.rs *)
Lemma translation_complete : translation_ok = true.
Proof. reflexivity. Qed.

(* ---- tags ---------------------------------------------------------------------------------- *)

Lemma vtag_eqb_refl : forall t, vtag_eqb t t = true.
Proof. intro t. unfold vtag_eqb. apply N.eqb_refl. Qed.

Lemma vtag_index_inj : forall a b, vtag_index a = vtag_index b -> a = b.
Proof. intros a b H. destruct a; destruct b; try reflexivity; vm_compute in H; discriminate H. Qed.

Lemma vtag_eqb_eq : forall a b, vtag_eqb a b = true <-> a = b.
Proof.
  intros a b. unfold vtag_eqb. rewrite N.eqb_eq. split.
  - apply vtag_index_inj.
  - intros ->. reflexivity.
Qed.

Lemma vtag_eqb_neq : forall a b, a <> b -> vtag_eqb a b = false.
Proof.
  intros a b H. destruct (vtag_eqb a b) eqn:E; [|reflexivity].
  apply vtag_eqb_eq in E. contradiction.
Qed.

Lemma vtag_eqb_sym : forall a b, vtag_eqb a b = vtag_eqb b a.
Proof. intros a b. unfold vtag_eqb. apply N.eqb_sym. Qed.

(* ---- what is required of a row; checked on the generated table by computation ----------------- *)

Definition opt_tag_agree (a b : option vtag) : bool :=
  match a, b with Some x, Some y => vtag_eqb x y | _, _ => true end.

Definition row_ok (r : vrow) : bool :=
  let ft := option_map s_tag (r_from r) in
  let tt := option_map s_tag (r_try r) in
  opt_tag_agree ft tt && opt_tag_agree (r_null r) ft && opt_tag_agree (r_null r) tt
  && opt_tag_agree (r_arr r) tt
  && match r_from r, r_try r with Some f, Some t => Bool.eqb (s_boxed f) (s_boxed t) | _, _ => true end.

Lemma table_ok : forallb row_ok value_types = true.
Proof. vm_compute. reflexivity. Qed.

Lemma row_ok_in : forall r, In r value_types -> row_ok r = true.
Proof. intros r H. exact (proj1 (forallb_forall row_ok value_types) table_ok r H). Qed.

Lemma row_from_try : forall r f t, In r value_types -> r_from r = Some f -> r_try r = Some t -> s_tag f = s_tag t.
Proof.
  intros r f t Hin Hf Ht. pose proof (row_ok_in r Hin) as H. unfold row_ok in H.
  rewrite Hf, Ht in H. cbn in H.
  repeat (apply andb_prop in H; destruct H as [H ?]).
  apply vtag_eqb_eq. exact H.
Qed.

Lemma row_null_from : forall r f n, In r value_types -> r_from r = Some f -> r_null r = Some n -> n = s_tag f.
Proof.
  intros r f n Hin Hf Hn. pose proof (row_ok_in r Hin) as H. unfold row_ok in H.
  rewrite Hf, Hn in H. cbn in H.
  repeat (apply andb_prop in H; destruct H as [H ?]).
  match goal with K : vtag_eqb n (s_tag f) = true |- _ => apply vtag_eqb_eq in K; exact K end.
Qed.

Lemma row_null_try : forall r t n, In r value_types -> r_try r = Some t -> r_null r = Some n -> n = s_tag t.
Proof.
  intros r t n Hin Ht Hn. pose proof (row_ok_in r Hin) as H. unfold row_ok in H.
  rewrite Ht, Hn in H. cbn in H.
  repeat (apply andb_prop in H; destruct H as [H ?]).
  match goal with K : vtag_eqb n (s_tag t) = true |- _ => apply vtag_eqb_eq in K; exact K end.
Qed.

Lemma row_arr_try : forall r t a, In r value_types -> r_try r = Some t -> r_arr r = Some a -> a = s_tag t.
Proof.
  intros r t a Hin Ht Ha. pose proof (row_ok_in r Hin) as H. unfold row_ok in H.
  rewrite Ht, Ha in H. cbn in H.
  repeat (apply andb_prop in H; destruct H as [H ?]).
  match goal with K : vtag_eqb a (s_tag t) = true |- _ => apply vtag_eqb_eq in K; exact K end.
Qed.

(* ---- scalar rows ----------------------------------------------------------------------------- *)

Lemma try_from_same_tag : forall f t p, s_tag f = s_tag t -> try_from_side t (from_side f p) = COk p.
Proof.
  intros f t p H. unfold try_from_side, from_side, apply_conv, box, unbox.
  rewrite H, vtag_eqb_refl. destruct (s_boxed f), (s_boxed t); reflexivity.
Qed.

Lemma roundtrip_all_types :
  forall r f t, In r value_types -> r_from r = Some f -> r_try r = Some t ->
  forall p, try_from_side t (from_side f p) = COk p.
Proof. intros r f t Hin Hf Ht p. apply try_from_same_tag. eapply row_from_try; eauto. Qed.

(* extraction succeeds on exactly the values From builds: it can never return anything else *)
Lemma try_from_side_ok_inv : forall t v p, try_from_side t v = COk p -> v = V (s_tag t) (Some p).
Proof.
  intros t v p H. unfold try_from_side in H. destruct v as [t' [x|] | e l]; try discriminate H.
  destruct (vtag_eqb t' (s_tag t)) eqn:E; [|discriminate H].
  apply vtag_eqb_eq in E. subst t'.
  unfold apply_conv, unbox in H. destruct (s_boxed t); inversion H; reflexivity.
Qed.

Lemma try_from_side_never_panics : forall t v, try_from_side t v <> CPanic.
Proof.
  intros t v. unfold try_from_side. destruct v as [t' [x|] | e l]; try discriminate.
  destruct (vtag_eqb t' (s_tag t)); discriminate.
Qed.

Lemma mismatch_fails_value :
  forall t v, variant_of v <> Some (s_tag t) -> try_from_side t v = CErr.
Proof.
  intros t v H. unfold try_from_side. destruct v as [t' [x|] | e l]; try reflexivity.
  cbn in H. rewrite vtag_eqb_neq; [reflexivity|]. intro E. apply H. rewrite E. reflexivity.
Qed.

Lemma null_never_extracts : forall t t', try_from_side t (V t' None) = CErr.
Proof. reflexivity. Qed.

Lemma mismatch_fails_all_pairs :
  forall r1 r2 f t, In r1 value_types -> In r2 value_types -> r_from r1 = Some f -> r_try r2 = Some t ->
  s_tag f <> s_tag t -> forall p, try_from_side t (from_side f p) = CErr.
Proof.
  intros r1 r2 f t _ _ _ _ Hne p. apply mismatch_fails_value. cbn. intro E. inversion E. contradiction.
Qed.

Lemma shared_variant_same_payload :
  forall r1 r2 f t, In r1 value_types -> In r2 value_types -> r_from r1 = Some f -> r_try r2 = Some t ->
  s_tag f = s_tag t -> forall p, try_from_side t (from_side f p) = COk p.
Proof. intros. apply try_from_same_tag. assumption. Qed.

(* ---- the two PartialEq implementations as a NULL test -------------------------------------------- *)

Definition is_value_eq (eqv : value -> value -> bool) : Prop := eqv = veq_derived \/ eqv = veq.

Lemma eq_arms_total : forall t, lookup_tag t eq_arms <> None.
Proof. intro t. destruct t; vm_compute; discriminate. Qed.

Lemma eq_array_arm_present : eq_array_arm = true.
Proof. reflexivity. Qed.

Lemma veq_with_null_scalar :
  forall kf arr v t, (forall t, kf t <> None) ->
  veq_with kf arr v (V t None) = true <-> v = V t None.
Proof.
  intros kf arr v t Hk. split.
  - destruct v as [t' p | e l]; cbn; [|discriminate].
    destruct (vtag_eqb t' t) eqn:E; [|discriminate].
    apply vtag_eqb_eq in E. subst t'.
    destruct (kf t) eqn:K; [|discriminate].
    destruct p; cbn; [discriminate|reflexivity].
  - intros ->. cbn. rewrite vtag_eqb_refl. destruct (kf t) eqn:K; [reflexivity|].
    exfalso. exact (Hk t K).
Qed.

Lemma veq_with_null_array :
  forall kf v e, veq_with kf true v (VArray e None) = true <-> v = VArray e None.
Proof.
  intros kf v e. split.
  - destruct v as [t' p | e' l]; cbn; [discriminate|].
    destruct (vtag_eqb e' e) eqn:E; [|discriminate].
    apply vtag_eqb_eq in E. subst e'.
    destruct l; [discriminate|reflexivity].
  - intros ->. cbn. rewrite vtag_eqb_refl. reflexivity.
Qed.

Lemma eqv_null_scalar : forall eqv, is_value_eq eqv -> forall v t, eqv v (V t None) = true <-> v = V t None.
Proof.
  intros eqv [-> | ->] v t.
  - apply veq_with_null_scalar. discriminate.
  - apply veq_with_null_scalar. apply eq_arms_total.
Qed.

Lemma eqv_null_array : forall eqv, is_value_eq eqv -> forall v e, eqv v (VArray e None) = true <-> v = VArray e None.
Proof.
  intros eqv [-> | ->] v e.
  - apply veq_with_null_array.
  - unfold veq. rewrite eq_array_arm_present. apply veq_with_null_array.
Qed.

Lemma eqv_null_false_scalar : forall eqv, is_value_eq eqv -> forall v t, v <> V t None -> eqv v (V t None) = false.
Proof.
  intros eqv H v t Hne. destruct (eqv v (V t None)) eqn:E; [|reflexivity].
  apply (eqv_null_scalar eqv H) in E. contradiction.
Qed.

Lemma eqv_null_false_array : forall eqv, is_value_eq eqv -> forall v e, v <> VArray e None -> eqv v (VArray e None) = false.
Proof.
  intros eqv H v e Hne. destruct (eqv v (VArray e None)) eqn:E; [|reflexivity].
  apply (eqv_null_array eqv H) in E. contradiction.
Qed.

(* ---- Option<T> -------------------------------------------------------------------------------------- *)

Lemma none_is_own_null :
  forall r f n, In r value_types -> r_from r = Some f -> r_null r = Some n ->
  from_option (from_side f) (null_of n) None = V (s_tag f) None
  /\ forall eqv t, is_value_eq eqv -> r_try r = Some t ->
       try_from_option eqv (try_from_side t) (null_of n) (from_option (from_side f) (null_of n) None) = COk None.
Proof.
  intros r f n Hin Hf Hn. pose proof (row_null_from r f n Hin Hf Hn) as ->. split; [reflexivity|].
  intros eqv t He Ht. unfold try_from_option, from_option, null_of.
  rewrite (proj2 (eqv_null_scalar eqv He _ _) eq_refl). reflexivity.
Qed.

Lemma option_some_roundtrip :
  forall eqv r f t n, is_value_eq eqv -> In r value_types -> r_from r = Some f -> r_try r = Some t -> r_null r = Some n ->
  forall p, try_from_option eqv (try_from_side t) (null_of n) (from_side f p) = COk (Some p).
Proof.
  intros eqv r f t n He Hin Hf Ht Hn p. unfold try_from_option, null_of.
  rewrite (eqv_null_false_scalar eqv He); [|unfold from_side; discriminate].
  rewrite (roundtrip_all_types r f t Hin Hf Ht). reflexivity.
Qed.

Lemma some_never_none :
  forall eqv r f t n, is_value_eq eqv -> In r value_types -> r_from r = Some f -> r_try r = Some t -> r_null r = Some n ->
  forall p, try_from_option eqv (try_from_side t) (null_of n) (from_option (from_side f) (null_of n) (Some p)) <> COk None.
Proof.
  intros eqv r f t n He Hin Hf Ht Hn p. cbn [from_option].
  rewrite (option_some_roundtrip eqv r f t n He Hin Hf Ht Hn). discriminate.
Qed.

Lemma option_roundtrip :
  forall eqv r f t n, is_value_eq eqv -> In r value_types -> r_from r = Some f -> r_try r = Some t -> r_null r = Some n ->
  forall o, try_from_option eqv (try_from_side t) (null_of n) (from_option (from_side f) (null_of n) o) = COk o.
Proof.
  intros eqv r f t n He Hin Hf Ht Hn [p|].
  - cbn [from_option]. apply (option_some_roundtrip eqv r f t n); assumption.
  - destruct (none_is_own_null r f n Hin Hf Hn) as [_ H]. apply H; assumption.
Qed.

(* Option<T> applied to another variant (NULL or not) fails; it never answers None or Some *)
Lemma option_mismatch_fails :
  forall eqv t n, is_value_eq eqv -> n = s_tag t ->
  forall v, variant_of v <> Some (s_tag t) -> try_from_option eqv (try_from_side t) (null_of n) v = CErr.
Proof.
  intros eqv t n He -> v Hv. unfold try_from_option, null_of.
  rewrite (eqv_null_false_scalar eqv He).
  - rewrite mismatch_fails_value by assumption. reflexivity.
  - intros ->. apply Hv. reflexivity.
Qed.

(* ---- Vec<T> -------------------------------------------------------------------------------------------- *)

Lemma unwrap_all_from : forall f t ps, s_tag f = s_tag t -> unwrap_all t (map (from_side f) ps) = COk ps.
Proof.
  intros f t ps H. induction ps as [|p ps IH]; [reflexivity|].
  cbn [map unwrap_all]. unfold unwrap_side. rewrite try_from_same_tag by assumption. cbn. rewrite IH. reflexivity.
Qed.

Lemma vec_roundtrip : forall f t a ps, s_tag f = s_tag t -> try_from_vec t a (from_vec f a ps) = COk ps.
Proof.
  intros f t a ps H. unfold try_from_vec, from_vec. rewrite vtag_eqb_refl. apply unwrap_all_from. assumption.
Qed.

Lemma unwrap_all_ok_inv : forall t vs l, unwrap_all t vs = COk l -> vs = map (fun p => V (s_tag t) (Some p)) l.
Proof.
  intros t vs. induction vs as [|v vs IH]; intros l H.
  - cbn in H. inversion H. reflexivity.
  - cbn [unwrap_all] in H. unfold unwrap_side in H.
    destruct (try_from_side t v) eqn:E; cbn in H; try discriminate H.
    destruct (unwrap_all t vs) eqn:E2; cbn in H; try discriminate H.
    inversion H. subst l. cbn [map]. rewrite (try_from_side_ok_inv _ _ _ E). rewrite (IH _ eq_refl). reflexivity.
Qed.

Lemma try_from_vec_ok_inv :
  forall t a v l, try_from_vec t a v = COk l -> v = VArray a (Some (map (fun p => V (s_tag t) (Some p)) l)).
Proof.
  intros t a v l H. unfold try_from_vec in H. destruct v as [t' p | e [vs|]]; try discriminate H.
  destruct (vtag_eqb a e) eqn:E; [|discriminate H].
  apply vtag_eqb_eq in E. subst e. rewrite (unwrap_all_ok_inv _ _ _ H). reflexivity.
Qed.

Lemma vec_mismatch_fails :
  forall t a v, (forall vs, v <> VArray a (Some vs)) -> try_from_vec t a v = CErr.
Proof.
  intros t a v H. unfold try_from_vec. destruct v as [t' p | e [vs|]]; try reflexivity.
  rewrite vtag_eqb_neq; [reflexivity|]. intros ->. exact (H vs eq_refl).
Qed.

Lemma option_vec_roundtrip :
  forall eqv f t a, is_value_eq eqv -> s_tag f = s_tag t ->
  forall o, try_from_option eqv (try_from_vec t a) (null_vec a) (from_option (from_vec f a) (null_vec a) o) = COk o.
Proof.
  intros eqv f t a He H [ps|]; unfold try_from_option, null_vec; cbn [from_option].
  - rewrite (eqv_null_false_array eqv He); [|unfold from_vec; discriminate].
    rewrite vec_roundtrip by assumption. reflexivity.
  - rewrite (proj2 (eqv_null_array eqv He _ _) eq_refl). reflexivity.
Qed.

(* ---- every type expression over the table ----------------------------------------------------------------- *)

Definition ct_row (c : ctype) : vrow := match c with CtPlain r | CtOpt r | CtVec r | CtOptVec r => r end.

Lemma has_vec_inv : forall r f t a, has_vec r = Some (f, t, a) ->
  r_from r = Some f /\ r_try r = Some t /\ r_arr r = Some a /\ r_notu8 r = true.
Proof.
  intros r f t a H. unfold has_vec in H.
  destruct (r_from r) as [f'|]; [|discriminate H].
  destruct (r_try r) as [t'|]; [|discriminate H].
  destruct (r_arr r) as [a'|]; [|discriminate H].
  destruct (r_notu8 r); [|discriminate H]. inversion H. subst. auto.
Qed.

Lemma roundtrip_type_expressions :
  forall eqv c x v res, is_value_eq eqv -> In (ct_row c) value_types ->
  ct_from c x = Some v -> ct_try eqv c v = Some res -> res = COk x.
Proof.
  intros eqv c x v res He Hin Hf Ht.
  destruct c as [r|r|r|r]; cbn [ct_row] in Hin; destruct x as [p|o|l|o]; cbn in Hf; try discriminate Hf.
  - (* T *)
    cbn in Ht. destruct (r_from r) as [f|] eqn:F; [|discriminate Hf]. destruct (r_try r) as [t|] eqn:T; [|discriminate Ht].
    cbn in Hf, Ht. inversion Hf. inversion Ht. subst.
    rewrite (roundtrip_all_types r f t Hin F T). reflexivity.
  - (* Option<T> *)
    cbn in Ht. destruct (r_from r) as [f|] eqn:F; [|discriminate Hf]. destruct (r_null r) as [n|] eqn:Nn; [|discriminate Hf].
    destruct (r_try r) as [t|] eqn:T; [|discriminate Ht].
    inversion Hf. inversion Ht. subst.
    rewrite (option_roundtrip eqv r f t n He Hin F T Nn). reflexivity.
  - (* Vec<T> *)
    cbn in Ht. destruct (has_vec r) as [[[f t] a]|] eqn:Hv; [|discriminate Hf].
    cbn in Hf, Ht. inversion Hf. inversion Ht. subst.
    destruct (has_vec_inv _ _ _ _ Hv) as (F & T & _ & _).
    rewrite vec_roundtrip; [reflexivity|]. eapply row_from_try; eauto.
  - (* Option<Vec<T>> *)
    cbn in Ht. destruct (has_vec r) as [[[f t] a]|] eqn:Hv; [|discriminate Hf].
    cbn in Hf, Ht. inversion Hf. inversion Ht. subst.
    destruct (has_vec_inv _ _ _ _ Hv) as (F & T & _ & _).
    rewrite option_vec_roundtrip; [reflexivity|assumption|]. eapply row_from_try; eauto.
Qed.

(* ---- tuples --------------------------------------------------------------------------------------------- *)

Inductive Forall3 {A B C} (P : A -> B -> C -> Prop) : list A -> list B -> list C -> Prop :=
| F3_nil : Forall3 P [] [] []
| F3_cons : forall a b c la lb lc, P a b c -> Forall3 P la lb lc -> Forall3 P (a :: la) (b :: lb) (c :: lc).

Lemma Forall3_length : forall A B C (P : A -> B -> C -> Prop) la lb lc,
  Forall3 P la lb lc -> length la = length lc /\ length lb = length lc.
Proof. intros A B C P la lb lc H. induction H; cbn; [auto|]. destruct IHForall3. auto. Qed.

Lemma unwrap_each_ok : forall A (ts : list (value -> cres A)) xs vs,
  Forall3 (fun t x v => t v = COk x) ts xs vs -> unwrap_each ts vs = COk xs.
Proof.
  intros A ts xs vs H. induction H as [|t x v ts xs vs Hh Ht IH]; [reflexivity|].
  cbn [unwrap_each]. rewrite Hh. cbn. rewrite IH. reflexivity.
Qed.

Lemma from_table_many : forall n, (4 <= n <= 12)%nat -> lookup_N (N.of_nat n) from_tuple_table = Some KMany.
Proof.
  intros n H. do 13 (destruct n as [|n]; [try lia; try reflexivity|]). lia.
Qed.
Lemma into_table_many : forall n, (4 <= n <= 12)%nat -> lookup_N (N.of_nat n) into_tuple_table = Some KMany.
Proof.
  intros n H. do 13 (destruct n as [|n]; [try lia; try reflexivity|]). lia.
Qed.

(* what IntoValueTuple builds for each arity, and what FromValueTuple of the same arity does with it *)
Lemma into_value_tuple_spec : forall vs, (1 <= length vs <= 12)%nat ->
  exists t, into_value_tuple vs = Some t /\ tuple_into_iter t = vs
            /\ forall A (ts : list (value -> cres A)), length ts = length vs ->
                 from_value_tuple ts t = Some (unwrap_each ts vs).
Proof.
  intros vs H.
  destruct vs as [|v1 [|v2 [|v3 [|v4 vs]]]]; cbn [length] in H; try lia.
  - exists (TOne v1). split; [reflexivity|]. split; [reflexivity|].
    intros A ts Hl. unfold from_value_tuple. rewrite Hl. reflexivity.
  - exists (TTwo v1 v2). split; [reflexivity|]. split; [reflexivity|].
    intros A ts Hl. unfold from_value_tuple. rewrite Hl. reflexivity.
  - exists (TThree v1 v2 v3). split; [reflexivity|]. split; [reflexivity|].
    intros A ts Hl. unfold from_value_tuple. rewrite Hl. reflexivity.
  - set (l := v1 :: v2 :: v3 :: v4 :: vs) in *.
    assert (Hn : (4 <= length l <= 12)%nat) by (subst l; cbn [length]; lia).
    exists (TMany l). split.
    + unfold into_value_tuple. rewrite (into_table_many _ Hn). reflexivity.
    + split; [reflexivity|]. intros A ts Hl. unfold from_value_tuple. rewrite Hl.
      rewrite (from_table_many _ Hn). rewrite Nat.eqb_refl. reflexivity.
Qed.

Lemma tuple_roundtrip :
  forall A (ts : list (value -> cres A)) xs vs, (1 <= length vs <= 12)%nat ->
  Forall3 (fun t x v => t v = COk x) ts xs vs ->
  exists t, into_value_tuple vs = Some t /\ tuple_into_iter t = vs /\ from_value_tuple ts t = Some (COk xs).
Proof.
  intros A ts xs vs Hn H. destruct (into_value_tuple_spec vs Hn) as (t & Hi & Hit & Hf).
  exists t. split; [assumption|]. split; [assumption|].
  rewrite Hf; [|apply (Forall3_length _ _ _ _ _ _ _ H)].
  rewrite (unwrap_each_ok _ _ _ _ H). reflexivity.
Qed.

Lemma tuple_arity_mismatch_panics :
  forall A (ts : list (value -> cres A)) vs t, (1 <= length vs <= 12)%nat -> (1 <= length ts <= 12)%nat ->
  length ts <> length vs -> into_value_tuple vs = Some t -> from_value_tuple ts t = Some CPanic.
Proof.
  intros A ts vs t Hv Ht Hne Hi.
  assert (Hshape : match vs with
                   | [a] => t = TOne a | [a; b] => t = TTwo a b | [a; b; c] => t = TThree a b c
                   | _ => t = TMany vs end).
  { destruct vs as [|v1 [|v2 [|v3 [|v4 vs]]]]; cbn [length] in Hv; try lia;
      try (cbn in Hi; inversion Hi; reflexivity).
    set (l := v1 :: v2 :: v3 :: v4 :: vs) in *.
    assert (Hn : (4 <= length l <= 12)%nat) by (subst l; cbn [length]; lia).
    unfold into_value_tuple in Hi. rewrite (into_table_many _ Hn) in Hi. cbn in Hi. inversion Hi. reflexivity. }
  unfold from_value_tuple.
  destruct ts as [|t1 [|t2 [|t3 [|t4 ts]]]]; cbn [length] in Ht, Hne; try lia.
  - cbn. destruct vs as [|v1 [|v2 [|v3 [|v4 vs]]]]; cbn [length] in Hv, Hne; try lia; subst t; reflexivity.
  - cbn. destruct vs as [|v1 [|v2 [|v3 [|v4 vs]]]]; cbn [length] in Hv, Hne; try lia; subst t; reflexivity.
  - cbn. destruct vs as [|v1 [|v2 [|v3 [|v4 vs]]]]; cbn [length] in Hv, Hne; try lia; subst t; reflexivity.
  - set (l := t1 :: t2 :: t3 :: t4 :: ts) in *.
    assert (Hn : (4 <= length l <= 12)%nat) by (subst l; cbn [length]; lia).
    rewrite (from_table_many _ Hn).
    destruct vs as [|v1 [|v2 [|v3 [|v4 vs]]]]; cbn [length] in Hv; try lia; subst t; try reflexivity.
    destruct (Nat.eqb (length (v1 :: v2 :: v3 :: v4 :: vs)) (length l)) eqn:E; [|reflexivity].
    apply Nat.eqb_eq in E. subst l. cbn [length] in *. lia.
Qed.

(* ---- as_null / dummy_value -------------------------------------------------------------------------- *)

Lemma as_null_arms_identity : forall t, lookup_tag t as_null_arms = Some t.
Proof. intro t. destruct t; reflexivity. Qed.

Lemma dummy_arms_identity : forall t, option_map fst (lookup_tag t dummy_arms) = Some t.
Proof. intro t. destruct t; reflexivity. Qed.

Lemma as_null_keeps_variant :
  forall v, as_null_gen v = Some (as_null v) /\ same_variant v (as_null v) = true /\ is_null (as_null v) = true.
Proof.
  intros [t p | e l]; unfold as_null_gen.
  - rewrite as_null_arms_identity. cbn [option_map as_null same_variant is_null]. rewrite vtag_eqb_refl. auto.
  - change as_null_array_arm with true. cbn [as_null same_variant is_null]. rewrite vtag_eqb_refl. auto.
Qed.

Lemma dummy_keeps_variant :
  forall v, exists v', dummy_gen v = Some v' /\ same_variant v v' = true /\ is_null v' = false.
Proof.
  intros [t p | e l]; unfold dummy_gen.
  - pose proof (dummy_arms_identity t) as H. destruct (lookup_tag t dummy_arms) as [[t' k]|]; [|discriminate H].
    cbn [option_map fst] in H. inversion H. subst t'. eexists. split; [reflexivity|].
    cbn [same_variant is_null]. rewrite vtag_eqb_refl. auto.
  - change dummy_array_arm with true. eexists. split; [reflexivity|].
    cbn [same_variant is_null]. rewrite vtag_eqb_refl. auto.
Qed.

(* ---- non-vacuity: the hypotheses of the statements above are satisfiable on the generated table ------ *)

Definition row_named (s : str) : option vrow := find_row s value_types.

Example ex_row_i32 :
  match row_named [105; 51; 50] with
  | Some r => match has_vec r, r_null r with Some _, Some _ => true | _, _ => false end
  | None => false
  end = true.
Proof. vm_compute. reflexivity. Qed.

Example ex_rows_with_both_sides :
  length (filter (fun r => match r_from r, r_try r with Some _, Some _ => true | _, _ => false end) value_types) <> 0%nat.
Proof. vm_compute. discriminate. Qed.

(* there are pairs of rows with different variants, and pairs of distinct rows sharing a variant *)
Example ex_mismatch_pair_exists :
  existsb (fun r1 => existsb (fun r2 =>
     match r_from r1, r_try r2 with Some f, Some t => negb (vtag_eqb (s_tag f) (s_tag t)) | _, _ => false end)
     value_types) value_types = true.
Proof. vm_compute. reflexivity. Qed.

Example ex_shared_variant_pair_exists :
  existsb (fun r1 => existsb (fun r2 =>
     negb (str_eqb (r_name r1) (r_name r2)) &&
     match r_from r1, r_try r2 with Some f, Some t => vtag_eqb (s_tag f) (s_tag t) | _, _ => false end)
     value_types) value_types = true.
Proof. vm_compute. reflexivity. Qed.

Example ex_tuple_roundtrip_hyp :
  Forall3 (fun t x v => t v = COk x)
          [try_from_side (mk_side TInt false CvId); try_from_side (mk_side TString true CvId)]
          [PInt 7; PStr [97]]
          [V TInt (Some (PInt 7)); V TString (Some (PStr [97]))].
Proof. repeat constructor. Qed.

Example ex_value_eq_inhabited : is_value_eq veq_derived /\ is_value_eq veq.
Proof. split; [left|right]; reflexivity. Qed.
