(* C03 for the Json arm and for arrays of text / byte-string elements.

   value_to_string writes a Json value through write_string_quoted (text = serde_json's rendering,
   an external formatter) and an array as  ARRAY [lit,lit,...]  with each element written by
   value_to_string.  For every non-empty list of strings (byte strings) the executable array oracle
   that checks the implementation's output (Spec/LitArrayOracle.v, Spec/LitOracle.v decode_list over
   the engine's literal lexer) decodes the written element list back to exactly the elements. *)
Require Import SQV.Model.Str SQV.Model.Escape SQV.Model.Value SQV.Model.Literal SQV.Model.Writer
  SQV.Spec.EngLex SQV.Spec.LitOracle SQV.Spec.LitArrayOracle SQV.Proofs.LiteralProofs.
From Coq Require Import Lia String.
Open Scope list_scope.

(* the comma-separated element list, as value_to_string's inner loop writes it *)
Fixpoint join_lits (ls : list str) : str :=
  match ls with
  | [] => []
  | [x] => x
  | x :: t => x ++ K "," ++ join_lits t
  end.

Lemma join_lits_cons x y t : join_lits (x :: y :: t) = x ++ K "," ++ join_lits (y :: t).
Proof. reflexivity. Qed.
Lemma strip_sep X : strip_prefix array_sep (K "," ++ X) = Some X.
Proof. reflexivity. Qed.

Section Gen.
Variable A : Type.
Variable lexer : str -> option (A * str).
Variable write : A -> str.
Variable ok : A -> Prop.
(* the literal of an element, followed by anything that does not start with a quote, lexes back to it *)
Hypothesis roundtrip : forall x rest, ok x -> not_starting_with 39 rest -> lexer (write x ++ rest) = Some (x, rest).

Lemma decode_join xs : forall fuel rest, xs <> [] -> Forall ok xs -> (List.length xs <= fuel)%nat ->
  decode_list lexer array_sep fuel (join_lits (map write xs) ++ 93 :: rest) = Some (xs, 93 :: rest).
Proof.
  induction xs as [|x xs IH]; intros fuel rest Hne Hok Hf; [contradiction|].
  destruct fuel as [|f]; [cbn in Hf; lia|].
  inversion Hok as [|? ? Hx Hxs]; subst.
  destruct xs as [|y ys].
  - cbn [map join_lits decode_list]. rewrite (roundtrip x (93 :: rest) Hx) by (cbn; discriminate).
    cbn [is_nil array_sep]. cbn. reflexivity.
  - change (map write (x :: y :: ys)) with (write x :: map write (y :: ys)).
    change (map write (y :: ys)) with (write y :: map write ys).
    rewrite join_lits_cons. rewrite <- !app_assoc. cbn [decode_list].
    rewrite (roundtrip x _ Hx) by (cbn; discriminate).
    change (is_nil array_sep) with false. cbv iota.
    rewrite strip_sep.
    change (write y :: map write ys) with (map write (y :: ys)).
    rewrite (IH f rest) by (try discriminate; try assumption; cbn in Hf |- *; lia). reflexivity.
Qed.
End Gen.

(* arrays of strings: the elements written between ARRAY [ and ] decode to exactly the given strings *)
Theorem string_array_roundtrip b (ss : list str) pre rest : ss <> [] -> Forall (nul_ok b) ss ->
  decode_string_array_at b pre (pre ++ array_open ++ join_lits (map (write_string_quoted b) ss) ++ 93 :: rest)
  = Some (ss, 93 :: rest).
Proof.
  intros Hne Hok. unfold decode_string_array_at.
  assert (Hp : forall p s, strip_prefix p (p ++ s) = Some s).
  { induction p as [|c p IHp]; intros s; [reflexivity|]. cbn. rewrite N.eqb_refl. apply IHp. }
  rewrite app_assoc. rewrite Hp.
  apply decode_join with (ok := nul_ok b); try assumption.
  - intros x r Hx Hr. change (eng_lex_string b) with (lex_string b). now apply string_literal_roundtrip.
  - assert (Hl : forall l : list str, (List.length l <= List.length (join_lits (map (write_string_quoted b) l)) + 1)%nat).
    { induction l as [|x l IHl]; [cbn; lia|]. destruct l as [|y l]; [cbn; lia|].
      change (map (write_string_quoted b) (x :: y :: l)) with
        (write_string_quoted b x :: map (write_string_quoted b) (y :: l)).
      change (map (write_string_quoted b) (y :: l)) with (write_string_quoted b y :: map (write_string_quoted b) l) in *.
      rewrite join_lits_cons, !app_length. change (List.length (K ",")) with 1%nat.
      cbn [List.length] in IHl |- *. lia. }
    rewrite app_length.
    specialize (Hl ss). lia.
Qed.

(* the Json arm: the literal decodes to the text the external formatter produced *)
Theorem json_literal_roundtrip (ftext : bool -> N -> str) b oid text rest : nul_ok b text -> not_starting_with 39 rest ->
  lex_string b (value_to_string ftext b (V TJson (Some (POpaque oid text))) ++ rest) = Some (text, rest).
Proof. intros Hn Hr. cbn [value_to_string]. now apply string_literal_roundtrip. Qed.

(* an array of strings as value_to_string writes it *)
Theorem string_array_value_roundtrip (ftext : bool -> N -> str) b (ss : list str) pre rest :
  ss <> [] -> Forall (nul_ok b) ss ->
  decode_string_array_at b pre
    (pre ++ value_to_string ftext b (VArray TString (Some (map (fun s => V TString (Some (PStr s))) ss))) ++ rest)
  = Some (ss, 93 :: rest).
Proof.
  intros Hne Hok.
  set (mk := fun s : str => V TString (Some (PStr s))).
  assert (G : forall l : list str,
    (fix go (l : list value) : str :=
       match l with
       | [] => []
       | [x] => value_to_string ftext b x
       | x :: t => value_to_string ftext b x ++ K "," ++ go t
       end) (map mk l) = join_lits (map (write_string_quoted b) l)).
  { induction l as [|x l IHl]; [reflexivity|]. destruct l as [|y l]; [reflexivity|].
    change (map mk (x :: y :: l)) with (mk x :: map mk (y :: l)).
    change (map (write_string_quoted b) (x :: y :: l)) with
      (write_string_quoted b x :: write_string_quoted b y :: map (write_string_quoted b) l).
    rewrite join_lits_cons.
    change (map mk (y :: l)) with (mk y :: map mk l) at 1.
    cbv beta iota fix. fold (map mk (y :: l)).
    change (write_string_quoted b y :: map (write_string_quoted b) l) with (map (write_string_quoted b) (y :: l)).
    rewrite <- IHl. reflexivity. }
  assert (E : value_to_string ftext b (VArray TString (Some (map mk ss)))
              = array_open ++ join_lits (map (write_string_quoted b) ss) ++ [93]).
  { destruct ss as [|s0 ss0]; [contradiction|]. rewrite <- (G (s0 :: ss0)). reflexivity. }
  rewrite E. rewrite <- !app_assoc. cbn [app]. now apply string_array_roundtrip.
Qed.

(* arrays of byte strings *)
Theorem bytes_array_roundtrip b (bss : list (list N)) pre rest : bss <> [] -> Forall is_bytes bss ->
  decode_bytes_array_at b pre (pre ++ array_open ++ join_lits (map (write_bytes b) bss) ++ 93 :: rest)
  = Some (bss, 93 :: rest).
Proof.
  intros Hne Hok. unfold decode_bytes_array_at.
  assert (Hp : forall p s, strip_prefix p (p ++ s) = Some s).
  { induction p as [|c p IHp]; intros s; [reflexivity|]. cbn. rewrite N.eqb_refl. apply IHp. }
  rewrite app_assoc. rewrite Hp.
  apply decode_join with (ok := is_bytes); try assumption.
  - intros x r Hx Hr. change (eng_lex_bytes b) with (lex_bytes b). now apply bytes_literal_roundtrip.
  - assert (Hl : forall l : list (list N), (List.length l <= List.length (join_lits (map (write_bytes b) l)) + 1)%nat).
    { induction l as [|x l IHl]; [cbn; lia|]. destruct l as [|y l]; [cbn; lia|].
      change (map (write_bytes b) (x :: y :: l)) with (write_bytes b x :: map (write_bytes b) (y :: l)).
      change (map (write_bytes b) (y :: l)) with (write_bytes b y :: map (write_bytes b) l) in *.
      rewrite join_lits_cons, !app_length. change (List.length (K ",")) with 1%nat.
      cbn [List.length] in IHl |- *. lia. }
    rewrite app_length. specialize (Hl bss). lia.
Qed.

(* an array of chars as value_to_string writes it: every element is the string literal of its one character *)
Theorem char_array_value_roundtrip (ftext : bool -> N -> str) b (cs : list N) pre rest :
  cs <> [] -> Forall (fun c => nul_ok b [c]) cs ->
  decode_string_array_at b pre
    (pre ++ value_to_string ftext b (VArray TChar (Some (map (fun c => V TChar (Some (PChar c))) cs))) ++ rest)
  = Some (map (fun c => [c]) cs, 93 :: rest).
Proof.
  intros Hne Hok.
  set (mk := fun c : N => V TChar (Some (PChar c))).
  set (one := fun c : N => [c]).
  assert (G : forall l : list N,
    (fix go (l : list value) : str :=
       match l with
       | [] => []
       | [x] => value_to_string ftext b x
       | x :: t => value_to_string ftext b x ++ K "," ++ go t
       end) (map mk l) = join_lits (map (write_string_quoted b) (map one l))).
  { induction l as [|x l IHl]; [reflexivity|]. destruct l as [|y l]; [reflexivity|].
    change (map mk (x :: y :: l)) with (mk x :: map mk (y :: l)).
    change (map (write_string_quoted b) (map one (x :: y :: l))) with
      (write_string_quoted b (one x) :: write_string_quoted b (one y) :: map (write_string_quoted b) (map one l)).
    rewrite join_lits_cons.
    change (map mk (y :: l)) with (mk y :: map mk l) at 1.
    cbv beta iota fix. fold (map mk (y :: l)).
    change (write_string_quoted b (one y) :: map (write_string_quoted b) (map one l))
      with (map (write_string_quoted b) (map one (y :: l))).
    rewrite <- IHl. reflexivity. }
  assert (E : value_to_string ftext b (VArray TChar (Some (map mk cs)))
              = array_open ++ join_lits (map (write_string_quoted b) (map one cs)) ++ [93]).
  { destruct cs as [|c0 cs0]; [contradiction|]. rewrite <- (G (c0 :: cs0)). reflexivity. }
  rewrite E. rewrite <- !app_assoc. cbn [app]. apply string_array_roundtrip.
  - destruct cs; [contradiction|discriminate].
  - rewrite Forall_forall in *. intros s Hin. apply in_map_iff in Hin as [c [<- Hc]]. now apply Hok.
Qed.
