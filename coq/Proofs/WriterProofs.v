(* Writer-level theorems (C01, C02): for EVERY script, i.e. every interleaving of text writes and
   parameter pushes that a renderer can produce. *)
Require Import SQV.Model.Str SQV.Model.Escape SQV.Model.Value SQV.Model.Literal SQV.Model.Writer.
From Coq Require Import Lia.

Section W.
Variable ftext : bool -> N -> str.
Notation value_to_string := (value_to_string ftext).
Notation emit_params_tok := (emit_params_tok ftext).

(* the values pushed by a script, in reading order *)
Definition vals_of (sc : script) : list value :=
  flat_map (fun t => match t with WVal v => [v] | _ => [] end) sc.

(* an abstract view of the parameterised output: text pieces and numbered holes *)
Inductive piece := PText (s : str) | PHole (n : N).

Definition pieces_tok (b : backend) (st : N * list piece) (t : wtok) : N * list piece :=
  let (c, ps) := st in
  match t with
  | WS s | WCust s => (c, ps ++ [PText s])
  | WId s => (c, ps ++ [PText (iden_prepare (quote_char b) s)])
  | WVal _ => (c + 1, ps ++ [PHole (c + 1)])
  | WConst v => (c, ps ++ [PText (value_to_string b v)])
  | WPanic => (c, ps)
  end.
Definition pieces (b : backend) (sc : script) : list piece :=
  snd (fold_left (pieces_tok b) sc (0, [])).

Definition hole_text (b : backend) (n : N) : str :=
  let (ph, numbered) := placeholder b in ph ++ (if numbered then dec_of_N n else []).
Definition flatten_params (b : backend) (ps : list piece) : str :=
  flat_map (fun p => match p with PText s => s | PHole n => hole_text b n end) ps.
Definition flatten_inline (b : backend) (vs : list value) (ps : list piece) : str :=
  flat_map (fun p => match p with
                     | PText s => s
                     | PHole n => match nth_error vs (N.to_nat (n - 1)) with
                                  | Some v => value_to_string b v
                                  | None => []
                                  end
                     end) ps.
Definition holes (ps : list piece) : list N :=
  flat_map (fun p => match p with PHole n => [n] | PText _ => [] end) ps.

(* ---- the invariant of SqlWriterValues ---- *)
Lemma flatten_params_app b a c : flatten_params b (a ++ c) = flatten_params b a ++ flatten_params b c.
Proof. apply flat_map_app. Qed.
Lemma holes_app a c : holes (a ++ c) = holes a ++ holes c.
Proof. apply flat_map_app. Qed.
Lemma flatten_inline_app b vs a c :
  flatten_inline b vs (a ++ c) = flatten_inline b vs a ++ flatten_inline b vs c.
Proof. apply flat_map_app. Qed.

Definition Inv (b : backend) (w : swv) (st : N * list piece) : Prop :=
  sw_counter w = fst st /\ sw_sql w = flatten_params b (snd st) /\
  fst st = N.of_nat (length (sw_values w)).

Definition tok_vals (t : wtok) : list value := match t with WVal v => [v] | _ => [] end.

Lemma step_inv_text b w c ps s : Inv b w (c, ps) ->
  Inv b (write_str w s) (c, ps ++ [PText s]) /\
  sw_values (write_str w s) = sw_values w ++ [] /\
  holes (ps ++ [PText s]) = holes ps ++ [].
Proof.
  intros (Hc & Hs & Hl). cbn [fst snd] in *. unfold Inv. cbn [fst snd write_str sw_counter sw_sql sw_values].
  rewrite flatten_params_app, holes_app, !app_nil_r. cbn. rewrite app_nil_r, Hs. auto.
Qed.

Lemma step_inv b w st t : Inv b w st ->
  Inv b (emit_params_tok b w t) (pieces_tok b st t) /\
  sw_values (emit_params_tok b w t) = sw_values w ++ tok_vals t /\
  holes (snd (pieces_tok b st t)) = holes (snd st) ++ map (fun _ => fst st + 1) (tok_vals t).
Proof.
  destruct st as [c ps]. intros HI.
  destruct t as [s|s|v|v|s|]; cbn [Writer.emit_params_tok pieces_tok tok_vals map fst snd].
  - now apply step_inv_text.
  - now apply step_inv_text.
  - destruct HI as (Hc & Hs & Hl). cbn [fst snd] in *.
    assert (E : push_param b w v =
                {| sw_counter := c + 1; sw_sql := sw_sql w ++ hole_text b (c + 1);
                   sw_values := sw_values w ++ [v] |}).
    { unfold push_param, hole_text. rewrite Hc. destruct (placeholder b). reflexivity. }
    rewrite E. unfold Inv. cbn [fst snd sw_counter sw_sql sw_values].
    rewrite flatten_params_app, holes_app, app_length. cbn [flatten_params flat_map holes length].
    rewrite !app_nil_r, Hs.
    split; [split; [reflexivity|split; [reflexivity|lia]]|split; reflexivity].
  - now apply step_inv_text.
  - now apply step_inv_text.
  - rewrite !app_nil_r. auto.
Qed.

Lemma fold_inv b sc : forall w st, Inv b w st ->
  let w' := fold_left (emit_params_tok b) sc w in
  let st' := fold_left (pieces_tok b) sc st in
  Inv b w' st' /\ sw_values w' = sw_values w ++ vals_of sc /\
  holes (snd st') = holes (snd st) ++ map (fun i => fst st + N.of_nat i) (seq 1 (length (vals_of sc))).
Proof.
  induction sc as [|t sc IH]; intros w st HI; cbn [fold_left].
  - cbn. rewrite !app_nil_r. auto.
  - destruct (step_inv b w st t HI) as (HI' & Hv & Hh).
    destruct (IH _ _ HI') as (I1 & I2 & I3). cbn zeta.
    split; [exact I1|]. split.
    + rewrite I2, Hv. change (vals_of (t :: sc)) with (tok_vals t ++ vals_of sc). now rewrite app_assoc.
    + rewrite I3, Hh. change (vals_of (t :: sc)) with (tok_vals t ++ vals_of sc).
      rewrite <- app_assoc. f_equal.
      assert (Ef : fst (pieces_tok b st t) = fst st + N.of_nat (length (tok_vals t))).
      { destruct st as [c ps]. destruct t; cbn; lia. }
      rewrite Ef, app_length.
      destruct t as [s|s|v|v|s|]; cbn [tok_vals length map app Nat.add];
        try (apply map_ext; intros i; lia).
      cbn [seq map]. f_equal; try lia.
      rewrite <- (seq_shift (length (vals_of sc)) 1), map_map. apply map_ext. intros i. lia.
Qed.

(* C01 (1): after any script, the parameterised SQL is the flattening of the pieces, its holes are
   numbered 1..n ascending, each used once, n = number of returned values, and the values are the
   script's values in reading order *)
Theorem push_param_invariant b sc sql vals :
  emit_params ftext b sc = Ok (sql, vals) ->
  sql = flatten_params b (pieces b sc) /\
  vals = vals_of sc /\
  holes (pieces b sc) = map N.of_nat (seq 1 (length vals)).
Proof.
  unfold emit_params. destruct (has_panic sc); [discriminate|]. intros [= <- <-].
  assert (HI : Inv b {| sw_counter := 0; sw_sql := []; sw_values := [] |} (0, [])).
  { unfold Inv. cbn. auto. }
  destruct (fold_inv b sc _ _ HI) as ((_ & H2 & _) & H3 & H5). cbn in H3, H5.
  unfold pieces. split; [exact H2|]. split; [exact H3|].
  rewrite H5, H3. apply map_ext. intros i. lia.
Qed.

(* ---- inline = parameterised with the holes filled by the backend's literals ---- *)
Lemma inline_fold b sc : forall c ps (vs0 : list value),
  c = N.of_nat (length vs0) ->
  flatten_inline b (vs0 ++ vals_of sc) (snd (fold_left (pieces_tok b) sc (c, ps)))
  = flatten_inline b (vs0 ++ vals_of sc) ps ++ flat_map (emit_inline_tok ftext b) sc.
Proof.
  induction sc as [|t sc IH]; intros c ps vs0 Hc; cbn [fold_left].
  - cbn [snd flat_map]. symmetry. apply app_nil_r.
  - destruct t as [s|s|v|v|s|]; cbn [pieces_tok];
      change (vals_of (?x :: sc)) with (tok_vals x ++ vals_of sc); cbn [tok_vals app flat_map].
    + rewrite (IH c _ vs0 Hc), flatten_inline_app. cbn. now rewrite app_nil_r, <- app_assoc.
    + rewrite (IH c _ vs0 Hc), flatten_inline_app. cbn. now rewrite app_nil_r, <- app_assoc.
    + change (vs0 ++ v :: vals_of sc) with (vs0 ++ [v] ++ vals_of sc). rewrite app_assoc.
      rewrite (IH (c + 1) _ (vs0 ++ [v])) by (rewrite app_length; cbn; lia).
      rewrite flatten_inline_app. cbn [flatten_inline flat_map].
      replace (N.to_nat (c + 1 - 1)) with (length vs0) by lia.
      rewrite <- (app_assoc vs0 [v]). rewrite nth_error_app2 by lia. rewrite Nat.sub_diag. cbn.
      rewrite app_nil_r, <- !app_assoc. reflexivity.
    + rewrite (IH c _ vs0 Hc), flatten_inline_app. cbn. now rewrite app_nil_r, <- app_assoc.
    + rewrite (IH c _ vs0 Hc), flatten_inline_app. cbn. now rewrite app_nil_r, <- app_assoc.
    + rewrite (IH c _ vs0 Hc). reflexivity.
Qed.

(* C02 (1): for every script, the inline text is the parameterised text with the i-th hole replaced
   by the backend's literal of the i-th returned value; the two modes cannot differ in anything else *)
Theorem inline_is_params_substituted b sc inl sql vals :
  emit_inline ftext b sc = Ok inl -> emit_params ftext b sc = Ok (sql, vals) ->
  inl = flatten_inline b vals (pieces b sc) /\ sql = flatten_params b (pieces b sc).
Proof.
  intros Hi Hp. destruct (push_param_invariant b sc sql vals Hp) as (Hs & Hv & _).
  split; [|exact Hs].
  unfold emit_inline in Hi. destruct (has_panic sc); [discriminate|]. injection Hi as <-.
  subst vals. pose proof (inline_fold b sc 0 [] [] eq_refl) as H. cbn in H. unfold pieces. now rewrite H.
Qed.

(* both modes panic on exactly the same scripts *)
Theorem modes_panic_together b sc :
  emit_inline ftext b sc = Panic <-> emit_params ftext b sc = Panic.
Proof. unfold emit_inline, emit_params. destruct (has_panic sc); split; congruence. Qed.
End W.

(* non-vacuity *)
Example invariant_example :
  let ft := fun (_ : bool) (_ : N) => @nil N in
  emit_params ft Postgres [WS [97]; WVal (V TInt (Some (PInt 5%Z))); WS [32]; WVal (V TBool None)]
  = Ok ([97; 36; 49; 32; 36; 50], [V TInt (Some (PInt 5%Z)); V TBool None]).
Proof. reflexivity. Qed.
