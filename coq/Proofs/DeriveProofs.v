(* Proofs about the derive model (Model/Derive.v): C19. *)
Require Import SQV.Model.Str SQV.Model.Escape SQV.Model.Literal SQV.Model.Derive.
From Coq Require Import Lia.
Open Scope list_scope.
Open Scope N_scope.

(* ---------------------------------------------------------------------------------------------- *)
(* char classes *)

Ltac charcase :=
  unfold is_ascii_alphanumeric, is_ascii_alphabetic, is_lowercase, is_uppercase, is_dec_digit,
         ascii_lower, ascii_upper, UNDERSCORE in *;
  repeat match goal with
         | |- context [?a <=? ?b] => destruct (N.leb_spec a b)
         | |- context [?a =? ?b] => destruct (N.eqb_spec a b)
         | H : context [?a <=? ?b] |- _ => destruct (N.leb_spec a b)
         | H : context [?a =? ?b] |- _ => destruct (N.eqb_spec a b)
         end; cbn [andb orb negb] in *; try congruence; try lia.

Definition is_iden_char (c : N) : bool := (c =? UNDERSCORE) || is_ascii_alphanumeric c.
Definition is_snake_char (c : N) : bool := is_lowercase c || is_dec_digit c || (c =? UNDERSCORE).

Lemma iden_char_not_quote c : is_iden_char c = true -> c <> 96 /\ c <> 34.
Proof. unfold is_iden_char. charcase. Qed.

Lemma iden_char_not_brace c : is_iden_char c = true -> (c =? 123) || (c =? 125) = false.
Proof. unfold is_iden_char. charcase. Qed.

Lemma lower_alnum_is_snake c : is_ascii_alphanumeric c = true -> is_snake_char (ascii_lower c) = true.
Proof. unfold is_snake_char. charcase. Qed.

Lemma lower_alnum_is_alnum c : is_ascii_alphanumeric c = true -> is_ascii_alphanumeric (ascii_lower c) = true.
Proof. charcase. Qed.

Lemma lower_not_upper c : is_uppercase (ascii_lower c) = false.
Proof. charcase. Qed.

Lemma lower_alnum_not_underscore c : is_ascii_alphanumeric c = true -> (ascii_lower c =? UNDERSCORE) = false.
Proof. charcase. Qed.

Lemma alnum_not_underscore c : is_ascii_alphanumeric c = true -> (c =? UNDERSCORE) = false.
Proof. charcase. Qed.

Lemma ascii_lower_idem c : ascii_lower (ascii_lower c) = ascii_lower c.
Proof. charcase. Qed.

Lemma underscore_not_alnum : is_ascii_alphanumeric UNDERSCORE = false.
Proof. reflexivity. Qed.

Lemma snake_char_is_iden_char c : is_snake_char c = true -> is_iden_char c = true.
Proof. unfold is_snake_char, is_iden_char. charcase. Qed.

Lemma lower_of_letter_or_us c :
  is_ascii_alphabetic c = true -> (ascii_lower c =? UNDERSCORE) || is_ascii_alphabetic (ascii_lower c) = true.
Proof. charcase. Qed.

(* ---------------------------------------------------------------------------------------------- *)
(* (a) the generated fast path is the general quoting *)

Lemma replace_char_absent q r s : Forall (fun c => c <> q) s -> replace_char q r s = s.
Proof.
  induction 1 as [|c s Hc _ IH]; [reflexivity|].
  unfold replace_char in *. cbn [flat_map]. rewrite IH.
  destruct (N.eqb_spec c q); [contradiction|reflexivity].
Qed.

Lemma valid_iden_chars name :
  must_be_valid_iden name = true -> Forall (fun c => is_iden_char c = true) name.
Proof.
  unfold must_be_valid_iden. intros H. apply andb_true_iff in H as [_ H].
  rewrite forallb_forall in H. apply Forall_forall. exact H.
Qed.

(* a byte that may serve as the right quote: ASCII and not an identifier char *)
Definition is_quote_byte (r : N) : bool := (r <? 128) && negb (is_iden_char r).

Lemma fast_path_is_general_quoting name q :
  must_be_valid_iden name = true -> is_quote_byte (q_right q) = true ->
  fast_prepare q name = general_prepare q name.
Proof.
  intros Hv Hq. unfold fast_prepare, general_prepare, general_quoted.
  rewrite replace_char_absent; [reflexivity|].
  eapply Forall_impl; [|apply valid_iden_chars; exact Hv].
  intros c Hc ->. unfold is_quote_byte in Hq. rewrite Hc in Hq.
  rewrite andb_false_r in Hq. discriminate.
Qed.

(* the bundled backends: backtick, double quote; and brackets *)
Lemma quote_bytes_examples :
  is_quote_byte 96 = true /\ is_quote_byte 34 = true /\ is_quote_byte 93 = true /\ is_quote_byte 91 = true.
Proof. repeat split; reflexivity. Qed.

(* with left = right the general path is iden_prepare of Model/Literal.v (C04) *)
Lemma general_prepare_sym q name : general_prepare (sym_quote q) name = iden_prepare q name.
Proof. reflexivity. Qed.

(* the hypothesis on the right quote is needed: a quote byte that is an identifier char would not be
   doubled by the fast path *)
Lemma fast_path_needs_non_iden_quote :
  must_be_valid_iden [97; 95] = true
  /\ fast_prepare (sym_quote 95) [97; 95] <> general_prepare (sym_quote 95) [97; 95].
Proof. split; [reflexivity|discriminate]. Qed.

Lemma variant_is_valid_arm tn var :
  variant_is_valid tn var = true ->
  exists s, variant_arm tn var = Some (NLit s) /\ must_be_valid_iden s = true.
Proof.
  unfold variant_is_valid, variant_arm. destruct (variant_new var) as [a|]; [|discriminate].
  cbn [option_map]. destruct a as [[n|m|]|]; cbn [variant_valid write_variant_name]; try discriminate;
    intros H; eexists; split; try reflexivity; exact H.
Qed.

(* whenever the derive emits the fast `prepare`, the name of every value is a valid iden *)
Lemma fast_prepare_names_valid menv t v name :
  has_fast_prepare t = true -> unquoted menv t v = Some name -> must_be_valid_iden name = true.
Proof.
  destruct t as [ident attrs vs|ident attrs|a ident fs]; cbn [has_fast_prepare]; [| |discriminate].
  - destruct v as [|i inner]; cbn [unquoted]; [discriminate|].
    destruct (get_table_name ident attrs) as [tn|]; [|discriminate].
    intros Hall. destruct (nth_error vs i) as [var|] eqn:Hn; [|discriminate].
    rewrite forallb_forall in Hall. specialize (Hall var (nth_error_In _ _ Hn)).
    destruct (variant_is_valid_arm tn var Hall) as (s & -> & Hs).
    intros [= <-]. exact Hs.
  - destruct v as [|i inner]; cbn [unquoted]; [|discriminate].
    destruct (get_table_name ident attrs) as [tn|]; [|discriminate].
    intros Hv [= <-]. exact Hv.
Qed.

Theorem derived_prepare_is_general menv t v q :
  is_quote_byte (q_right q) = true ->
  derived_prepare menv q t v = option_map (general_prepare q) (unquoted menv t v).
Proof.
  intros Hq. unfold derived_prepare. destruct (unquoted menv t v) as [name|] eqn:Hu; [|reflexivity].
  cbn [option_map]. destruct (has_fast_prepare t) eqn:Hf; [|reflexivity].
  f_equal. apply fast_path_is_general_quoting; [|exact Hq].
  eapply fast_prepare_names_valid; eassumption.
Qed.

(* ---------------------------------------------------------------------------------------------- *)
(* heck::transform as a list of words *)

(* the segments emitted by word_loop, in order *)
Fixpoint word_segs (w seg : str) (mode : word_mode) : list str :=
  match w with
  | [] => []
  | c :: rest =>
      if c =? UNDERSCORE then word_segs rest (if is_nil seg then [] else seg ++ [c]) mode
      else
        match rest with
        | [] => [seg ++ [c]]
        | next :: _ =>
            let next_mode := if is_lowercase c then Lowercase
                             else if is_uppercase c then Uppercase else mode in
            if (next =? UNDERSCORE) || (is_mode_lower next_mode && is_uppercase next) then
              (seg ++ [c]) :: word_segs rest [] Boundary
            else if is_mode_upper mode && is_uppercase c && is_lowercase next then
              seg :: word_segs rest [c] Boundary
            else word_segs rest (seg ++ [c]) next_mode
        end
  end.

Definition emit_all (ww : str -> str) (bd : str) (st : bool * str) (ws : list str) : bool * str :=
  fold_left (fun st w => (false, emit ww bd (fst st) (snd st) w)) ws st.

Lemma word_loop_segs ww bd w : forall seg mode first out,
  word_loop ww bd w seg mode first out = emit_all ww bd (first, out) (word_segs w seg mode).
Proof.
  induction w as [|c rest IH]; intros seg mode first out; [reflexivity|].
  cbn [word_loop word_segs].
  destruct (c =? UNDERSCORE); [apply IH|].
  destruct rest as [|next r]; [reflexivity|].
  cbv zeta.
  destruct ((next =? UNDERSCORE) || _).
  - rewrite IH. reflexivity.
  - destruct (is_mode_upper mode && is_uppercase c && is_lowercase next).
    + rewrite IH. reflexivity.
    + apply IH.
Qed.

(* the words heck finds in a string *)
Definition heck_words (s : str) : list str :=
  flat_map (fun w => word_segs w [] Boundary) (get_iterator s).

Lemma emit_all_app ww bd st a b : emit_all ww bd st (a ++ b) = emit_all ww bd (emit_all ww bd st a) b.
Proof. unfold emit_all. apply fold_left_app. Qed.

Lemma transform_words ww bd s :
  transform ww bd s = snd (emit_all ww bd (true, []) (heck_words s)).
Proof.
  unfold transform, heck_words. generalize (true, @nil N) as st.
  induction (get_iterator s) as [|w ws IH]; intros st; [reflexivity|].
  cbn [fold_left flat_map]. rewrite emit_all_app, IH, word_loop_segs.
  destruct st; reflexivity.
Qed.

Lemma emit_all_nonfirst ww bd out ws :
  emit_all ww bd (false, out) ws = (false, out ++ flat_map (fun w => bd ++ ww w) ws).
Proof.
  revert out. induction ws as [|w ws IH]; intros out; cbn [emit_all fold_left flat_map].
  - now rewrite app_nil_r.
  - unfold emit_all in IH. cbn [fst snd]. rewrite IH. unfold emit. cbn [fst snd].
    now rewrite <- !app_assoc.
Qed.

Lemma emit_all_join ww bd ws :
  snd (emit_all ww bd (true, []) ws) = join_with bd (map ww ws).
Proof.
  destruct ws as [|w ws]; [reflexivity|].
  cbn [emit_all fold_left fst snd map join_with].
  change (fold_left _ ws ?st) with (emit_all ww bd st ws).
  rewrite emit_all_nonfirst. cbn [snd]. unfold emit. cbn [app].
  f_equal. clear w. induction ws as [|x xs IH]; [reflexivity|].
  cbn [flat_map map]. now rewrite IH.
Qed.

Theorem snake_case_words s :
  snake_case s = join_with [UNDERSCORE] (map lowercase (heck_words s)).
Proof. unfold snake_case. now rewrite transform_words, emit_all_join. Qed.

Theorem pascal_case_words s :
  pascal_case s = concat (map capitalize (heck_words s)).
Proof.
  unfold pascal_case. rewrite transform_words, emit_all_join.
  destruct (heck_words s) as [|w ws]; [reflexivity|].
  cbn [map join_with concat]. f_equal.
Qed.

(* ---------------------------------------------------------------------------------------------- *)
(* facts about the words *)

Lemma split_on_nonempty p s : split_on p s <> [].
Proof.
  destruct s as [|c t]; cbn [split_on]; [discriminate|].
  destruct (p c); [discriminate|]. destruct (split_on p t); discriminate.
Qed.

Lemma split_on_concat p s : concat (split_on p s) = filter (fun c => negb (p c)) s.
Proof.
  induction s as [|c t IH]; [reflexivity|].
  cbn [split_on filter]. destruct (p c); cbn [negb concat app]; [exact IH|].
  destruct (split_on p t) as [|w ws] eqn:E; [now apply split_on_nonempty in E|].
  cbn [concat] in *. now rewrite <- IH.
Qed.

Lemma split_on_pieces p s : Forall (Forall (fun c => p c = false)) (split_on p s).
Proof.
  induction s as [|c t IH]; cbn [split_on]; [repeat constructor|].
  destruct (p c) eqn:E; [constructor; [constructor|exact IH]|].
  destruct (split_on p t) as [|w ws]; [repeat constructor; exact E|].
  inversion IH; subst. constructor; [constructor; assumption|assumption].
Qed.

Definition alnum_word (w : str) : Prop := Forall (fun c => is_ascii_alphanumeric c = true) w.

Lemma get_iterator_pieces s : Forall alnum_word (get_iterator s).
Proof.
  unfold get_iterator. eapply Forall_impl; [|apply split_on_pieces].
  intros w Hw. eapply Forall_impl; [|exact Hw]. cbv beta. intros c Hc.
  now apply negb_false_iff in Hc.
Qed.

(* on a word without underscores the segments are a partition of seg ++ w *)
Lemma word_segs_concat w : forall seg mode,
  alnum_word w -> (w <> [] \/ seg = []) -> concat (word_segs w seg mode) = seg ++ w.
Proof.
  induction w as [|c rest IH]; intros seg mode Hw Hne.
  - destruct Hne as [Hne| ->]; [congruence|reflexivity].
  - inversion Hw as [|? ? Hc Hrest]; subst. cbn [word_segs].
    rewrite (alnum_not_underscore c Hc).
    destruct rest as [|next r]; [cbn [concat]; now rewrite app_nil_r|].
    cbv zeta.
    destruct ((next =? UNDERSCORE) || _).
    + cbn [concat]. rewrite IH; [|assumption|left; discriminate]. cbn [app]. now rewrite <- app_assoc.
    + destruct (is_mode_upper mode && is_uppercase c && is_lowercase next).
      * cbn [concat]. rewrite IH; [|assumption|left; discriminate]. reflexivity.
      * rewrite IH; [|assumption|left; discriminate]. now rewrite <- app_assoc.
Qed.

(* no empty segment is emitted (the acronym boundary fires only in mode Uppercase, which implies
   that the current segment holds an uppercase letter) *)
Lemma word_segs_nonempty w : forall seg mode,
  alnum_word w -> (mode = Uppercase -> seg <> []) -> Forall (fun x => x <> []) (word_segs w seg mode).
Proof.
  induction w as [|c rest IH]; intros seg mode Hw Hinv; [constructor|].
  inversion Hw as [|? ? Hc Hrest]; subst. cbn [word_segs].
  rewrite (alnum_not_underscore c Hc).
  destruct rest as [|next r]; [constructor; [|constructor]; now destruct seg|].
  cbv zeta.
  destruct ((next =? UNDERSCORE) || _).
  - constructor; [now destruct seg|]. apply IH; [assumption|discriminate].
  - destruct (is_mode_upper mode && is_uppercase c && is_lowercase next) eqn:E.
    + constructor.
      * apply Hinv. destruct mode; cbn in E; try discriminate; reflexivity.
      * apply IH; [assumption|discriminate].
    + apply IH; [assumption|]. intros _. now destruct seg.
Qed.

Theorem heck_words_concat s : concat (heck_words s) = filter is_ascii_alphanumeric s.
Proof.
  unfold heck_words.
  assert (H : forall ws, Forall alnum_word ws ->
             concat (flat_map (fun w => word_segs w [] Boundary) ws) = concat ws).
  { induction 1 as [|w ws Hw _ IH]; [reflexivity|].
    cbn [flat_map concat]. rewrite concat_app, IH, word_segs_concat; auto. }
  rewrite H by apply get_iterator_pieces.
  unfold get_iterator. rewrite split_on_concat.
  apply filter_ext. intros c. now rewrite negb_involutive.
Qed.

Theorem heck_words_nonempty s : Forall (fun w => w <> []) (heck_words s).
Proof.
  unfold heck_words. apply Forall_flat_map. eapply Forall_impl; [|apply get_iterator_pieces].
  intros w Hw. apply word_segs_nonempty; [exact Hw|discriminate].
Qed.

Lemma Forall_concat_inv {A} (P : A -> Prop) (ls : list (list A)) :
  Forall P (concat ls) -> Forall (Forall P) ls.
Proof.
  induction ls as [|l ls IH]; [constructor|]. cbn [concat]. intros H.
  apply Forall_app in H as [H1 H2]. constructor; auto.
Qed.

Theorem heck_words_alnum s : Forall alnum_word (heck_words s).
Proof.
  apply Forall_concat_inv. rewrite heck_words_concat.
  apply Forall_forall. intros c Hc. now apply filter_In in Hc.
Qed.

(* ---------------------------------------------------------------------------------------------- *)
(* (c) snake_case facts *)

Lemma join_with_Forall (P : N -> Prop) sep ws :
  Forall P sep -> Forall (Forall P) ws -> Forall P (join_with sep ws).
Proof.
  intros Hsep Hws. destruct Hws as [|w ws Hw Hws]; [constructor|].
  cbn [join_with]. apply Forall_app. split; [exact Hw|].
  induction Hws as [|x xs Hx _ IH]; [constructor|].
  cbn [flat_map]. rewrite !Forall_app. auto.
Qed.

Theorem snake_case_alphabet s : Forall (fun c => is_snake_char c = true) (snake_case s).
Proof.
  rewrite snake_case_words. apply join_with_Forall.
  - repeat constructor.
  - apply Forall_map. eapply Forall_impl; [|apply heck_words_alnum].
    intros w Hw. unfold lowercase. apply Forall_map. eapply Forall_impl; [|exact Hw].
    intros c Hc. now apply lower_alnum_is_snake.
Qed.

Lemma filter_join_underscore ws :
  Forall alnum_word ws -> filter is_ascii_alphanumeric (join_with [UNDERSCORE] ws) = concat ws.
Proof.
  assert (Hf : forall w, alnum_word w -> filter is_ascii_alphanumeric w = w).
  { induction 1 as [|c w Hc _ IH]; [reflexivity|]. cbn [filter]. now rewrite Hc, IH. }
  intros H. destruct H as [|w ws Hw Hws]; [reflexivity|].
  cbn [join_with concat]. rewrite filter_app, (Hf w Hw). f_equal.
  induction Hws as [|x xs Hx _ IH]; [reflexivity|].
  cbn [flat_map concat]. rewrite filter_app, IH. cbn [app filter].
  rewrite underscore_not_alnum. now rewrite (Hf x Hx).
Qed.

Lemma lowercase_alnum_word w : alnum_word w -> alnum_word (lowercase w).
Proof.
  intros Hw. unfold lowercase. apply Forall_map. eapply Forall_impl; [|exact Hw].
  intros c Hc. now apply lower_alnum_is_alnum.
Qed.

(* snake_case keeps exactly the letters and digits of the input, in order, lowercased: it only
   removes separators and inserts underscores *)
Theorem snake_case_preserves_alnum s :
  filter is_ascii_alphanumeric (snake_case s) = lowercase (filter is_ascii_alphanumeric s).
Proof.
  rewrite snake_case_words, filter_join_underscore.
  - rewrite <- heck_words_concat. unfold lowercase. now rewrite concat_map.
  - apply Forall_map. eapply Forall_impl; [|apply heck_words_alnum]. apply lowercase_alnum_word.
Qed.

(* idempotence *)

Lemma split_on_join (p : N -> bool) sep ws :
  p sep = true -> Forall (Forall (fun c => p c = false)) ws -> ws <> [] ->
  split_on p (join_with [sep] ws) = ws.
Proof.
  intros Hsep Hws Hne.
  assert (Hw : forall w rest, Forall (fun c => p c = false) w ->
             split_on p (w ++ sep :: rest) = w :: split_on p rest).
  { induction 1 as [|c w Hc _ IH]; cbn [app split_on]; [now rewrite Hsep|].
    now rewrite Hc, IH. }
  assert (Hl : forall w, Forall (fun c => p c = false) w -> split_on p w = [w]).
  { induction 1 as [|c w Hc _ IH]; cbn [split_on]; [reflexivity|]. now rewrite Hc, IH. }
  destruct Hws as [|w ws Hw1 Hws]; [congruence|]. clear Hne.
  cbn [join_with]. revert w Hw1. induction Hws as [|x xs Hx _ IH]; intros w Hw1.
  - cbn [flat_map]. rewrite app_nil_r. now apply Hl.
  - cbn [flat_map app]. rewrite Hw by assumption. f_equal. now apply IH.
Qed.

(* a word that holds no uppercase letter (and no underscore) is one segment *)
Lemma word_segs_no_upper w : forall seg mode,
  alnum_word w -> Forall (fun c => is_uppercase c = false) w -> w <> [] ->
  word_segs w seg mode = [seg ++ w].
Proof.
  induction w as [|c rest IH]; intros seg mode Hw Hu Hne; [congruence|].
  inversion Hw as [|? ? Hc Hrest]; subst. inversion Hu as [|? ? Huc Hurest]; subst.
  cbn [word_segs]. rewrite (alnum_not_underscore c Hc).
  destruct rest as [|next r]; [reflexivity|].
  inversion Hrest as [|? ? Hn _]; subst. inversion Hurest as [|? ? Hun _]; subst.
  cbv zeta. rewrite (alnum_not_underscore next Hn), Hun, Huc.
  rewrite andb_false_r, andb_false_r. cbn [orb andb].
  rewrite IH; [|assumption|assumption|discriminate]. now rewrite <- app_assoc.
Qed.

Lemma lowercase_idem w : lowercase (lowercase w) = lowercase w.
Proof. unfold lowercase. rewrite map_map. apply map_ext. intros; apply ascii_lower_idem. Qed.

Lemma lowercase_nonempty w : w <> [] -> lowercase w <> [].
Proof. now destruct w. Qed.

Lemma word_segs_of_lowercase_words ws :
  Forall alnum_word ws -> Forall (fun w => w <> []) ws ->
  flat_map (fun w => word_segs w [] Boundary) (map lowercase ws) = map lowercase ws.
Proof.
  intros Hal. induction Hal as [|w ws Hw Hws IH]; intros Hne; [reflexivity|].
  inversion Hne; subst. cbn [map flat_map].
  rewrite IH by assumption.
  rewrite word_segs_no_upper; [reflexivity| | |].
  - now apply lowercase_alnum_word.
  - unfold lowercase. apply Forall_map. apply Forall_forall. intros; apply lower_not_upper.
  - now apply lowercase_nonempty.
Qed.

Theorem heck_words_of_snake ws :
  Forall alnum_word ws -> Forall (fun w => w <> []) ws ->
  heck_words (join_with [UNDERSCORE] (map lowercase ws)) = map lowercase ws.
Proof.
  intros Hal Hne. unfold heck_words, get_iterator.
  destruct ws as [|w0 ws0]; [reflexivity|].
  rewrite split_on_join.
  - now apply word_segs_of_lowercase_words.
  - reflexivity.
  - apply Forall_map. eapply Forall_impl; [|exact Hal]. intros w Hw.
    eapply Forall_impl; [|apply lowercase_alnum_word; exact Hw].
    cbv beta. intros c Hc. now rewrite Hc.
  - discriminate.
Qed.

Theorem snake_case_idempotent s : snake_case (snake_case s) = snake_case s.
Proof.
  rewrite (snake_case_words s).
  rewrite snake_case_words, heck_words_of_snake.
  - rewrite map_map. f_equal. apply map_ext. intros; apply lowercase_idem.
  - apply heck_words_alnum.
  - apply heck_words_nonempty.
Qed.

(* ---------------------------------------------------------------------------------------------- *)
(* (d) which snake_case names are valid idens *)

(* the first letter-or-digit of s, if any, is a letter *)
Definition first_alnum_is_letter (s : str) : Prop :=
  match filter is_ascii_alphanumeric s with
  | c :: _ => is_ascii_alphabetic c = true
  | [] => True
  end.

Lemma lower_head_valid c :
  is_ascii_alphanumeric c = true ->
  (ascii_lower c =? UNDERSCORE) || is_ascii_alphabetic (ascii_lower c) = is_ascii_alphabetic c.
Proof. charcase. Qed.

Lemma snake_case_all_iden_chars s :
  forallb (fun c => (c =? UNDERSCORE) || is_ascii_alphanumeric c) (snake_case s) = true.
Proof.
  apply forallb_forall. intros c Hc.
  pose proof (snake_case_alphabet s) as H. rewrite Forall_forall in H.
  apply snake_char_is_iden_char. now apply H.
Qed.

Theorem snake_case_valid_iden_iff s :
  must_be_valid_iden (snake_case s) = true <-> first_alnum_is_letter s.
Proof.
  unfold must_be_valid_iden, first_alnum_is_letter.
  rewrite snake_case_all_iden_chars, andb_true_r.
  rewrite <- heck_words_concat, snake_case_words.
  pose proof (heck_words_nonempty s) as Hne. pose proof (heck_words_alnum s) as Hal.
  destruct (heck_words s) as [|w ws]; [cbn; tauto|].
  inversion Hne as [|? ? Hw _]; subst. inversion Hal as [|? ? Hwa _]; subst.
  destruct w as [|c w]; [congruence|]. inversion Hwa as [|? ? Hc _]; subst.
  cbn [map lowercase join_with app firstn concat forallb].
  rewrite (lower_head_valid c Hc), andb_true_r. tauto.
Qed.

Corollary snake_names_take_fast_path s :
  first_alnum_is_letter s -> must_be_valid_iden (snake_case s) = true.
Proof. apply snake_case_valid_iden_iff. Qed.

(* ASCII Rust identifiers: XID_Start or underscore, then XID_Continue *)
Definition rust_ident (s : str) : Prop :=
  match s with
  | c :: t => ((c =? UNDERSCORE) || is_ascii_alphabetic c = true)
              /\ Forall (fun x => is_iden_char x = true) t /\ s <> [UNDERSCORE]
  | [] => False
  end.

Lemma letter_first_is_letter c t : is_ascii_alphabetic c = true -> first_alnum_is_letter (c :: t).
Proof.
  intros H. unfold first_alnum_is_letter. cbn [filter].
  unfold is_ascii_alphanumeric. rewrite H. exact H.
Qed.

(* an un-renamed variant (not `Table`) whose name, without a raw prefix, has a letter as its first
   letter-or-digit is valid *)
Theorem unrenamed_variant_valid tn ident :
  str_eqb ident TABLE = false -> first_alnum_is_letter (unraw ident) ->
  variant_valid tn ident None = true.
Proof.
  intros Ht Hf. cbn [variant_valid]. unfold table_or_snake_case. rewrite Ht.
  now apply snake_names_take_fast_path.
Qed.

(* ---------------------------------------------------------------------------------------------- *)
(* (b) the naming function against the documented naming *)

Definition spec_table_name (type_name : str) (type_rename : option str) : str :=
  match type_rename with Some r => r | None => snake_case (unraw type_name) end.

Definition spec_variant_name (type_name : str) (type_rename : option str)
           (variant_name : str) (variant_rename : option str) : str :=
  match variant_rename with
  | Some r => r
  | None => if str_eqb variant_name TABLE then spec_table_name type_name type_rename
            else snake_case (unraw variant_name)
  end.

Lemma get_table_name_spec ident attrs crename :
  parsed_attr attrs = Some (option_map Rename crename) ->
  get_table_name ident attrs = Some (spec_table_name ident crename).
Proof. unfold get_table_name. intros ->. now destruct crename. Qed.

Theorem derived_variant_name_spec menv ident attrs vs i var inner crename vrename :
  parsed_attr attrs = Some (option_map Rename crename) ->
  nth_error vs i = Some var ->
  variant_new var = Some (option_map Rename vrename) ->
  unquoted menv (DEnum ident attrs vs) (VVariant i inner)
    = Some (spec_variant_name ident crename (v_ident var) vrename)
  /\ as_str menv (DEnum ident attrs vs) (VVariant i inner)
    = Some (spec_variant_name ident crename (v_ident var) vrename).
Proof.
  intros Hc Hn Hv. cbn [unquoted as_str].
  rewrite (get_table_name_spec ident attrs crename Hc), Hn.
  unfold variant_arm. rewrite Hv. now destruct vrename.
Qed.

Theorem derived_method_name menv ident attrs vs i var inner crename m :
  parsed_attr attrs = Some (option_map Rename crename) ->
  nth_error vs i = Some var ->
  variant_new var = Some (Some (Method m)) ->
  unquoted menv (DEnum ident attrs vs) (VVariant i inner) = Some (menv ident m).
Proof.
  intros Hc Hn Hv. cbn [unquoted].
  rewrite (get_table_name_spec ident attrs crename Hc), Hn.
  unfold variant_arm. now rewrite Hv.
Qed.

Theorem derived_flatten_name menv ident attrs vs i var t' v' crename :
  parsed_attr attrs = Some (option_map Rename crename) ->
  nth_error vs i = Some var ->
  variant_new var = Some (Some Flatten) ->
  unquoted menv (DEnum ident attrs vs) (VVariant i (Some (t', v'))) = unquoted menv t' v'.
Proof.
  intros Hc Hn Hv. cbn [unquoted].
  rewrite (get_table_name_spec ident attrs crename Hc), Hn.
  unfold variant_arm. now rewrite Hv.
Qed.

Theorem derived_unit_struct_name menv ident attrs crename :
  parsed_attr attrs = Some (option_map Rename crename) ->
  unquoted menv (DUnit ident attrs) VUnit = Some (spec_table_name ident crename)
  /\ as_str menv (DUnit ident attrs) VUnit = Some (spec_table_name ident crename).
Proof.
  intros Hc. cbn [unquoted as_str]. now rewrite (get_table_name_spec ident attrs crename Hc).
Qed.

(* which attribute counts: the first one; in a list form the last item *)
Theorem parsed_attr_first_wins :
  parsed_attr [] = Some None
  /\ (forall r rest, parsed_attr (MIdenEq r :: rest) = Some (Some (Rename r)))
  /\ (forall m rest, parsed_attr (MMethodEq m :: rest) = Some (Some (Method m)))
  /\ (forall items it rest, parsed_attr (MIdenList (items ++ [it]) :: rest) = Some (Some (attr_of_nested it))).
Proof.
  repeat split; try reflexivity. intros items it rest.
  unfold parsed_attr, find_attr. cbn [hd_error attr_of_meta].
  rewrite map_app. cbn [map]. now rewrite last_last.
Qed.

Theorem enum_def_naming a ident fs :
  enum_def_name a ident = or_default (ed_prefix a) [] ++ unraw ident ++ or_default (ed_suffix a) DEFAULT_SUFFIX
  /\ enum_def_variants fs = TABLE :: map (fun f => pascal_case (unraw f)) fs
  /\ (forall menv inner, unquoted menv (DEnumDef a ident fs) (VVariant 0 inner)
        = Some (match ed_table_name a with Some t => t | None => snake_case (unraw ident) end))
  /\ (forall menv inner k, unquoted menv (DEnumDef a ident fs) (VVariant (S k) inner)
        = option_map unraw (nth_error fs k))
  /\ (forall menv v, as_str menv (DEnumDef a ident fs) v = unquoted menv (DEnumDef a ident fs) v).
Proof. repeat split; try reflexivity; try (intros menv v; now destruct v). Qed.

(* pascal_case keeps exactly the letters and digits of the input *)
Lemma capitalize_alnum w : alnum_word w ->
  filter is_ascii_alphanumeric (capitalize w) = capitalize w.
Proof.
  intros Hw. destruct Hw as [|c w Hc Hw]; [reflexivity|].
  cbn [capitalize filter].
  replace (is_ascii_alphanumeric (ascii_upper c)) with true by (symmetry; revert Hc; charcase).
  f_equal. pose proof (lowercase_alnum_word w Hw) as H.
  induction H as [|x xs Hx _ IH]; [reflexivity|]. cbn [filter]. now rewrite Hx, IH.
Qed.

Theorem pascal_case_alnum s : Forall (fun c => is_ascii_alphanumeric c = true) (pascal_case s).
Proof.
  rewrite pascal_case_words.
  pose proof (heck_words_alnum s) as H.
  induction H as [|w ws Hw _ IH]; [constructor|].
  cbn [map concat]. apply Forall_app. split; [|exact IH].
  rewrite <- (capitalize_alnum w Hw). apply Forall_forall. intros c Hc. now apply filter_In in Hc.
Qed.

(* ---------------------------------------------------------------------------------------------- *)
(* word boundaries as a property of the position alone.
   heck decides boundaries with a running mode that is reset at every boundary and with one char of
   lookahead; the words it finds are nevertheless determined position by position from the text of
   the run (maximal sequence of ASCII letters and digits): a word starts at c, with `pre` before it
   and `post` after it in the run, iff c is an uppercase letter and either the last letter before c
   is lowercase, or it is uppercase and the char after c is a lowercase letter. *)

Definition upd_mode (m : word_mode) (c : N) : word_mode :=
  if is_lowercase c then Lowercase else if is_uppercase c then Uppercase else m.

(* the case of the last letter of pre (Boundary: no letter) *)
Definition last_cased (pre : str) : word_mode := fold_left upd_mode pre Boundary.

Definition word_starts_at (pre : str) (c : N) (post : str) : bool :=
  negb (is_nil pre) && is_uppercase c &&
  (is_mode_lower (last_cased pre)
   || (is_mode_upper (last_cased pre) && match post with n :: _ => is_lowercase n | [] => false end)).

(* cut the run  pre ++ c :: rest  (cur = the word being collected, it ends just before c) *)
Fixpoint cut_words (pre : str) (c : N) (rest : str) (cur : str) : list str :=
  let cut := word_starts_at pre c rest in
  let cur' := if cut then [c] else cur ++ [c] in
  (if cut then [cur] else []) ++
  match rest with
  | [] => [cur']
  | n :: rest' => cut_words (pre ++ [c]) n rest' cur'
  end.

Definition run_words (w : str) : list str :=
  match w with [] => [] | c :: rest => cut_words [] c rest [] end.

Lemma last_cased_snoc pre c : last_cased (pre ++ [c]) = upd_mode (last_cased pre) c.
Proof. unfold last_cased. now rewrite fold_left_app. Qed.

Lemma lower_not_upper_excl c : is_lowercase c = true -> is_uppercase c = false.
Proof. charcase. Qed.

(* relation between heck's running state at c and the position-wise reading *)
Definition st_normal (pre : str) (c : N) (seg : str) (mode : word_mode) : Prop :=
  (pre = [] -> seg = [] /\ mode = Boundary) /\ (pre <> [] -> seg <> []) /\
  (mode = last_cased pre \/ (mode = Boundary /\ last_cased pre = Uppercase /\ is_lowercase c = true)) /\
  is_mode_lower (last_cased pre) && is_uppercase c = false.

Definition st_pending (pre : str) (c : N) (cur : str) : Prop :=
  pre <> [] /\ last_cased pre = Lowercase /\ is_uppercase c = true /\ cur <> [].

Lemma snoc_nonempty {A} (l : list A) x : l ++ [x] <> [].
Proof. now destruct l. Qed.

Lemma st_normal_intro pre c seg mode :
  pre <> [] -> seg <> [] ->
  (mode = last_cased pre \/ (mode = Boundary /\ last_cased pre = Uppercase /\ is_lowercase c = true)) ->
  is_mode_lower (last_cased pre) && is_uppercase c = false ->
  st_normal pre c seg mode.
Proof.
  intros H1 H2 H3 H4. unfold st_normal.
  split; [intros; congruence|]. split; [intros _; exact H2|]. split; assumption.
Qed.

Lemma word_segs_step c next r seg mode :
  (c =? UNDERSCORE) = false ->
  word_segs (c :: next :: r) seg mode =
    if (next =? UNDERSCORE)
       || (is_mode_lower (if is_lowercase c then Lowercase else if is_uppercase c then Uppercase else mode)
           && is_uppercase next)
    then (seg ++ [c]) :: word_segs (next :: r) [] Boundary
    else if is_mode_upper mode && is_uppercase c && is_lowercase next
         then seg :: word_segs (next :: r) [c] Boundary
         else word_segs (next :: r) (seg ++ [c])
                        (if is_lowercase c then Lowercase else if is_uppercase c then Uppercase else mode).
Proof. intros H. cbn [word_segs]. rewrite H. reflexivity. Qed.

Lemma cut_words_step pre c n r cur :
  cut_words pre c (n :: r) cur =
    (if word_starts_at pre c (n :: r) then [cur] else []) ++
    cut_words (pre ++ [c]) n r (if word_starts_at pre c (n :: r) then [c] else cur ++ [c]).
Proof. reflexivity. Qed.

Lemma word_segs_cut_words_gen rest : forall c pre seg mode,
  alnum_word (c :: rest) ->
  (st_normal pre c seg mode -> word_segs (c :: rest) seg mode = cut_words pre c rest seg)
  /\ (st_pending pre c seg -> seg :: word_segs (c :: rest) [] Boundary = cut_words pre c rest seg).
Proof.
  induction rest as [|next rest' IH]; intros c pre seg mode Hw;
    inversion Hw as [|? ? Hc Hrest]; subst.
  - (* c is the last char *)
    split.
    + intros (Hp0 & Hp1 & Hm & HnoL).
      cbn [word_segs cut_words]. rewrite (alnum_not_underscore c Hc).
      unfold word_starts_at. rewrite andb_false_r, orb_false_r.
      replace (negb (is_nil pre) && is_uppercase c && is_mode_lower (last_cased pre)) with false; [reflexivity|].
      symmetry. rewrite <- andb_assoc, (andb_comm (is_uppercase c)), HnoL. apply andb_false_r.
    + intros (Hp & Hl & Hu & Hcur).
      cbn [word_segs cut_words]. rewrite (alnum_not_underscore c Hc).
      unfold word_starts_at. rewrite Hl, Hu. destruct pre; [congruence|]. reflexivity.
  - inversion Hrest as [|? ? Hn Hrest']; subst.
    assert (Hw' : alnum_word (next :: rest')) by exact Hrest.
    split.
    + intros (Hp0 & Hp1 & Hm & HnoL).
      rewrite (word_segs_step c next rest' seg mode (alnum_not_underscore c Hc)).
      rewrite (alnum_not_underscore next Hn). cbn [orb].
      (* the running mode agrees with the absolute one where it matters *)
      assert (Hnm : is_mode_lower (if is_lowercase c then Lowercase else if is_uppercase c then Uppercase else mode)
                    = is_mode_lower (last_cased (pre ++ [c]))).
      { rewrite last_cased_snoc. unfold upd_mode.
        destruct (is_lowercase c) eqn:El; [reflexivity|]. destruct (is_uppercase c); [reflexivity|].
        destruct Hm as [->|(_ & _ & Habs)]; [reflexivity|congruence]. }
      rewrite Hnm.
      destruct (is_mode_lower (last_cased (pre ++ [c])) && is_uppercase next) eqn:E1.
      * (* boundary after c: the position-wise reading cuts at next *)
        apply andb_true_iff in E1 as [E1a E1b].
        rewrite cut_words_step.
        assert (Hcut : word_starts_at pre c (next :: rest') = false).
        { unfold word_starts_at.
          assert (is_lowercase next = false) by (revert E1b; clear; charcase).
          rewrite H, andb_false_r, orb_false_r.
          rewrite <- andb_assoc, (andb_comm (is_uppercase c)), HnoL. apply andb_false_r. }
        rewrite Hcut. cbn [app].
        destruct (IH next (pre ++ [c]) (seg ++ [c]) Boundary Hw') as [_ IHp].
        apply IHp. repeat split.
        -- apply snoc_nonempty.
        -- destruct (last_cased (pre ++ [c])); cbn in E1a; congruence.
        -- exact E1b.
        -- apply snoc_nonempty.
      * destruct (is_mode_upper mode && is_uppercase c && is_lowercase next) eqn:E2.
        -- (* boundary before c *)
           apply andb_true_iff in E2 as [E2ab E2c]. apply andb_true_iff in E2ab as [E2a E2b].
           assert (Hmode : mode = Uppercase) by (destruct mode; cbn in E2a; congruence).
           assert (Hlc : last_cased pre = Uppercase).
           { destruct Hm as [<-|(Hb & _)]; [exact Hmode|congruence]. }
           assert (Hpre : pre <> []).
           { intros ->. destruct (Hp0 eq_refl) as [_ Hb]. congruence. }
           rewrite cut_words_step.
           assert (Hcut : word_starts_at pre c (next :: rest') = true).
           { unfold word_starts_at. rewrite Hlc, E2b, E2c. destruct pre; [congruence|reflexivity]. }
           rewrite Hcut. cbn [app]. f_equal.
           destruct (IH next (pre ++ [c]) [c] Boundary Hw') as [IHn _].
           apply IHn. apply st_normal_intro.
           ++ apply snoc_nonempty.
           ++ discriminate.
           ++ right. repeat split; [|exact E2c]. rewrite last_cased_snoc. unfold upd_mode.
              rewrite E2b. destruct (is_lowercase c) eqn:El; [|reflexivity].
              apply lower_not_upper_excl in El. congruence.
           ++ rewrite last_cased_snoc. unfold upd_mode. rewrite E2b.
              destruct (is_lowercase c) eqn:El; [|reflexivity].
              apply lower_not_upper_excl in El. congruence.
        -- (* no boundary *)
           rewrite cut_words_step.
           assert (Hcut : word_starts_at pre c (next :: rest') = false).
           { unfold word_starts_at.
             destruct pre as [|p0 pre0]; [reflexivity|]. cbn [is_nil negb andb].
             destruct (is_uppercase c) eqn:Eu; [|reflexivity]. cbn [andb].
             rewrite andb_comm in HnoL. cbn [andb] in HnoL. rewrite HnoL. cbn [orb].
             destruct Hm as [Hm|(_ & _ & Hl)].
             - rewrite <- Hm. rewrite <- Hm in *. rewrite andb_true_r in E2. exact E2.
             - apply lower_not_upper_excl in Hl. congruence. }
           rewrite Hcut. cbn [app].
           destruct (IH next (pre ++ [c]) (seg ++ [c])
                        (if is_lowercase c then Lowercase else if is_uppercase c then Uppercase else mode) Hw')
             as [IHn _].
           apply IHn. apply st_normal_intro.
           ++ apply snoc_nonempty.
           ++ apply snoc_nonempty.
           ++ left. rewrite last_cased_snoc. unfold upd_mode.
              destruct (is_lowercase c) eqn:El; [reflexivity|]. destruct (is_uppercase c); [reflexivity|].
              destruct Hm as [->|(_ & _ & Habs)]; [reflexivity|congruence].
           ++ exact E1.
    + intros (Hp & Hl & Hu & Hcur).
      rewrite (word_segs_step c next rest' [] Boundary (alnum_not_underscore c Hc)).
      rewrite (alnum_not_underscore next Hn). cbn [orb is_mode_upper andb].
      assert (Hlow : is_lowercase c = false).
      { destruct (is_lowercase c) eqn:El; [|reflexivity]. apply lower_not_upper_excl in El. congruence. }
      rewrite Hlow, Hu. cbn [is_mode_lower andb app].
      rewrite cut_words_step.
      assert (Hcut : word_starts_at pre c (next :: rest') = true).
      { unfold word_starts_at. rewrite Hl, Hu. destruct pre; [congruence|reflexivity]. }
      rewrite Hcut. cbn [app]. f_equal.
      destruct (IH next (pre ++ [c]) [c] Uppercase Hw') as [IHn _].
      apply IHn. apply st_normal_intro.
      * apply snoc_nonempty.
      * discriminate.
      * left. rewrite last_cased_snoc. unfold upd_mode. now rewrite Hlow, Hu.
      * rewrite last_cased_snoc. unfold upd_mode. now rewrite Hlow, Hu.
Qed.

Theorem word_segs_run_words w : alnum_word w -> word_segs w [] Boundary = run_words w.
Proof.
  intros Hw. destruct w as [|c rest]; [reflexivity|].
  destruct (word_segs_cut_words_gen rest c [] [] Boundary Hw) as [H _].
  apply H. unfold st_normal. repeat split; try tauto; try congruence.
Qed.

Theorem heck_words_position_wise s :
  heck_words s = flat_map run_words (get_iterator s).
Proof.
  unfold heck_words. pose proof (get_iterator_pieces s) as H.
  induction H as [|w ws Hw _ IH]; [reflexivity|].
  cbn [flat_map]. now rewrite IH, word_segs_run_words.
Qed.
