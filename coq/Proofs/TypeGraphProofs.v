(* The auto-trait checker evaluated on the graphs generated from /repo (Generated/TypeGraph*.v).
   Finite computations closed by vm_compute, lifted to AutoImpl / SendSync by the generic theorems
   of Proofs/AutoTraitProofs.v.  *)
From Coq Require Import String List Bool Arith.
Require Import SQV.Spec.AutoTrait SQV.Proofs.AutoTraitProofs.
Require SQV.Generated.TypeGraph SQV.Generated.TypeGraphNoTS.
Import ListNotations.

Module TS := SQV.Generated.TypeGraph.
Module NoTS := SQV.Generated.TypeGraphNoTS.

(* ---- with feature thread-safe --------------------------------------------------------------- *)
Definition ts_V : verdicts := Eval vm_compute in solve TS.graph.

Lemma ts_V_eq : solve TS.graph = ts_V.
Proof. vm_compute. reflexivity. Qed.

Lemma ts_stable : stable TS.graph (solve TS.graph).
Proof. rewrite ts_V_eq. vm_compute. reflexivity. Qed.

Lemma ts_all_public_types_send_sync : Forall (SendSync TS.graph) TS.scope.
Proof.
  apply Forall_forall. intros n Hin.
  apply both_send_sync with (S := solve TS.graph); [exact ts_stable|].
  rewrite ts_V_eq.
  assert (H : forallb (both ts_V) TS.scope = true) by (vm_compute; reflexivity).
  rewrite forallb_forall in H. apply H. exact Hin.
Qed.

Lemma ts_in_scope : forall n, mem n TS.scope = true -> SendSync TS.graph n.
Proof.
  intros n Hm. pose proof ts_all_public_types_send_sync as HF. rewrite Forall_forall in HF.
  apply HF. apply mem_In. exact Hm.
Qed.

Lemma ts_named_types_send_sync :
  SendSync TS.graph TS.n_SelectStatement /\ SendSync TS.graph TS.n_InsertStatement /\
  SendSync TS.graph TS.n_UpdateStatement /\ SendSync TS.graph TS.n_DeleteStatement /\
  SendSync TS.graph TS.n_WithQuery /\
  SendSync TS.graph TS.n_TableCreateStatement /\ SendSync TS.graph TS.n_TableAlterStatement /\
  SendSync TS.graph TS.n_IndexCreateStatement /\ SendSync TS.graph TS.n_ForeignKeyCreateStatement /\
  SendSync TS.graph TS.n_SimpleExpr /\ SendSync TS.graph TS.n_Expr /\ SendSync TS.graph TS.n_Condition /\
  SendSync TS.graph TS.n_Value /\ SendSync TS.graph TS.n_DynIden /\ SendSync TS.graph TS.n_Alias /\
  SendSync TS.graph TS.n_ColumnRef /\ SendSync TS.graph TS.n_TableRef.
Proof. repeat split; apply ts_in_scope; vm_compute; reflexivity. Qed.

(* ---- without it ------------------------------------------------------------------------------- *)
Definition nots_V : verdicts := Eval vm_compute in solve NoTS.graph.
Definition nots_R : list nat :=
  Eval vm_compute in reach_iter NoTS.graph (length NoTS.graph) [NoTS.n_DynIden].

Lemma nots_V_eq : solve NoTS.graph = nots_V.
Proof. vm_compute. reflexivity. Qed.

Lemma nots_R_eq : reach_iter NoTS.graph (length NoTS.graph) [NoTS.n_DynIden] = nots_R.
Proof. vm_compute. reflexivity. Qed.

Lemma nots_reach_refuted :
  forall n, In n NoTS.scope -> reaches NoTS.graph n NoTS.n_DynIden = true -> ~ SendSync NoTS.graph n.
Proof.
  intros n Hin Hr. apply not_both_refuted. rewrite nots_V_eq.
  rewrite reaches_def, nots_R_eq in Hr.
  assert (H : forallb (fun m => implb (mem m nots_R) (negb (both nots_V m))) NoTS.scope = true)
    by (vm_compute; reflexivity).
  rewrite forallb_forall in H. specialize (H n Hin). rewrite Hr in H. cbn [implb] in H.
  apply negb_true_iff in H. exact H.
Qed.

Lemma nots_rejects : forall n r, lookup nots_V n r = false -> ~ AutoImpl NoTS.graph n r.
Proof. intros n r H. apply checker_rejects. rewrite nots_V_eq. exact H. Qed.

Lemma nots_not_both : forall n, both nots_V n = false -> ~ SendSync NoTS.graph n.
Proof. intros n H. apply not_both_refuted. rewrite nots_V_eq. exact H. Qed.

Lemma nots_refuted :
  ~ AutoImpl NoTS.graph NoTS.n_DynIden Send /\
  ~ AutoImpl NoTS.graph NoTS.n_DynIden Sync /\
  (forall n, In n NoTS.scope -> reaches NoTS.graph n NoTS.n_DynIden = true -> ~ SendSync NoTS.graph n) /\
  ~ SendSync NoTS.graph NoTS.n_SelectStatement /\ ~ SendSync NoTS.graph NoTS.n_InsertStatement /\
  ~ SendSync NoTS.graph NoTS.n_UpdateStatement /\ ~ SendSync NoTS.graph NoTS.n_DeleteStatement /\
  ~ SendSync NoTS.graph NoTS.n_TableCreateStatement /\
  ~ SendSync NoTS.graph NoTS.n_SimpleExpr /\ ~ SendSync NoTS.graph NoTS.n_Condition.
Proof.
  split; [apply nots_rejects; vm_compute; reflexivity|].
  split; [apply nots_rejects; vm_compute; reflexivity|].
  split; [exact nots_reach_refuted|].
  repeat split; apply nots_not_both; vm_compute; reflexivity.
Qed.

(* the refutation is not vacuous: the statement types do reach DynIden, and a type that does not
   (Value) stays Send + Sync without the feature *)
Example nots_select_reaches_dyniden :
  In NoTS.n_SelectStatement NoTS.scope /\ reaches NoTS.graph NoTS.n_SelectStatement NoTS.n_DynIden = true.
Proof.
  split.
  - apply mem_In. vm_compute. reflexivity.
  - rewrite reaches_def, nots_R_eq. vm_compute. reflexivity.
Qed.

Example nots_value_still_send_sync : SendSync NoTS.graph NoTS.n_Value.
Proof.
  apply both_send_sync with (S := solve NoTS.graph).
  - unfold stable. rewrite nots_V_eq. vm_compute. reflexivity.
  - rewrite nots_V_eq. vm_compute. reflexivity.
Qed.
