Require Import SQV.Model.Str SQV.Model.Escape SQV.Model.Value SQV.Model.Token SQV.Model.Writer
  SQV.Model.RenderExpr SQV.Spec.Template.
From Coq Require Import Lia.

Lemma str_eqb_eq (a b : str) : str_eqb a b = true -> a = b.
Proof.
  revert b. induction a as [|x a IH]; intros [|y b] H; cbn in H; try discriminate; [reflexivity|].
  apply andb_prop in H as [Hx Hr]. apply N.eqb_eq in Hx. subst. f_equal. now apply IH.
Qed.

Lemma nth_default_nth_error {A} (d : A) l n v : nth_error l n = Some v -> nth_default d l n = v.
Proof. unfold nth_default. now intros ->. Qed.

(* C11 (1): for every well-formed template (as a token stream) and every value list in which all
   designated values exist, the CustomWithExpr loop emits exactly the interpretation of the
   segmentation: text tokens unchanged and in place, each placeholder replaced by the rendering of
   the value it designates, a doubled mark by one mark *)
Theorem custom_loop_spec mark numbered toks segs : Seg mark numbered toks segs ->
  forall (rs : list script) count out,
  interp [WCust mark] (fun s => [WCust s]) rs segs count = Some out ->
  custom_loop rs mark numbered toks count = out.
Proof.
  induction 1 as [|m1 m2 rest s H1 H2 HS IH|m d n rest s Hn Hm Hp HS IH|m rest s Hn Hm Hnext HS IH|t rest s Ht HS IH];
    intros rs count out; cbn [interp].
  - intros [= <-]. reflexivity.
  - destruct (interp _ _ rs s count) as [o|] eqn:E; cbn [option_map]; [|intros; discriminate].
    intros [= <-]. cbn [custom_loop]. rewrite H1, H2. rewrite (IH rs count o E).
    assert (Em : m2 = mark) by now apply str_eqb_eq.
    now rewrite Em.
  - destruct (n =? 0) eqn:E0; cbv beta iota; [intros; discriminate|].
    destruct (@nth_error (list wtok) rs (N.to_nat (n - 1))) as [v|] eqn:Ev; [|intros; discriminate].
    destruct (interp _ _ rs s count) as [o|] eqn:E; cbn [option_map]; [|intros; discriminate].
    intros [= <-]. subst numbered. cbn [custom_loop]. rewrite Hm, Hp, E0.
    rewrite (nth_default_nth_error _ _ _ _ Ev). rewrite (IH rs count o E). reflexivity.
  - destruct (@nth_error (list wtok) rs count) as [v|] eqn:Ev; [|intros; discriminate].
    destruct (interp _ _ rs s (S count)) as [o|] eqn:E; cbn [option_map]; [|intros; discriminate].
    intros [= <-]. subst numbered. cbn [custom_loop]. rewrite Hm.
    rewrite (nth_default_nth_error _ _ _ _ Ev).
    destruct rest as [|t' rest']; [now rewrite (IH rs (S count) o E)|].
    destruct t' as [q|u|sp|p]; try (now rewrite (IH rs (S count) o E)).
    cbn in Hnext. rewrite Hnext. now rewrite (IH rs (S count) o E).
  - destruct (interp _ _ rs s count) as [o|] eqn:E; cbn [option_map]; [|intros; discriminate].
    intros [= <-]. cbn [custom_loop].
    destruct t as [q|u|sp|p]; cbn [text]; try (now rewrite (IH rs count o E)).
    cbn in Ht. rewrite Ht. now rewrite (IH rs count o E).
Qed.

(* non-vacuity: a template with a quoted mark, a doubled mark and two numbered placeholders *)
Example seg_example :
  let toks := [Quoted [39; 36; 39]; Space [32]; Punct [36]; Unquoted [50]; Space [32]; Punct [36]; Punct [36];
               Punct [36]; Unquoted [49]] in
  Seg [36] true toks [SText [39; 36; 39]; SText [32]; SNum 2; SText [32]; SLitMark; SNum 1].
Proof.
  cbn. apply seg_text; [reflexivity|]. apply seg_text; [reflexivity|].
  apply seg_num; [reflexivity|reflexivity|reflexivity|].
  apply seg_text; [reflexivity|]. apply seg_lit; [reflexivity|reflexivity|].
  apply seg_num; [reflexivity|reflexivity|reflexivity|]. constructor.
Qed.

(* ---- inject_parameters: same statement, without the doubled-mark form ---- *)
Require Import SQV.Model.Inject.

Inductive ISeg (mark : str) (numbered : bool) : list token -> list seg -> Prop :=
| iseg_nil : ISeg mark numbered [] []
| iseg_num m d n rest s : numbered = true -> str_eqb m mark = true -> parse_usize d = Some n ->
    ISeg mark numbered rest s -> ISeg mark numbered (Punct m :: Unquoted d :: rest) (SNum n :: s)
| iseg_pos m rest s : numbered = false -> str_eqb m mark = true ->
    ISeg mark numbered rest s -> ISeg mark numbered (Punct m :: rest) (SPos :: s)
| iseg_text t rest s : is_mark mark t = false ->
    ISeg mark numbered rest s -> ISeg mark numbered (t :: rest) (SText (text t) :: s).

Theorem inject_loop_spec ftext b toks segs :
  ISeg (fst (placeholder b)) (snd (placeholder b)) toks segs ->
  forall params count out,
  interp (fst (placeholder b)) (fun s => s) (map (value_to_string ftext b) params) segs count = Some out ->
  inject_loop ftext b params toks count = Ok out.
Proof.
  induction 1 as [|m d n rest s Hn Hm Hp HS IH|m rest s Hn Hm HS IH|t rest s Ht HS IH];
    intros params count out; cbn [interp].
  - intros [= <-]. reflexivity.
  - destruct (n =? 0) eqn:E0; [intros; discriminate|].
    rewrite nth_error_map.
    destruct (nth_error params (N.to_nat (n - 1))) as [v|] eqn:Ev; cbn [option_map]; [|intros; discriminate].
    destruct (interp _ _ _ s count) as [o|] eqn:E; cbn [option_map]; [|intros; discriminate].
    intros [= <-]. cbn [inject_loop].
    destruct (placeholder b) as [ph numbered] eqn:Eph. cbn [fst snd] in *. subst numbered.
    rewrite Hm. cbn [andb negb]. rewrite Hp, E0, Ev. rewrite (IH params count o E). reflexivity.
  - rewrite nth_error_map.
    destruct (nth_error params count) as [v|] eqn:Ev; cbn [option_map]; [|intros; discriminate].
    destruct (interp _ _ _ s (S count)) as [o|] eqn:E; cbn [option_map]; [|intros; discriminate].
    intros [= <-]. cbn [inject_loop].
    destruct (placeholder b) as [ph numbered] eqn:Eph. cbn [fst snd] in *. subst numbered.
    rewrite Hm. cbn [andb negb]. rewrite Ev. rewrite (IH params (S count) o E). reflexivity.
  - destruct (interp _ _ _ s count) as [o|] eqn:E; cbn [option_map]; [|intros; discriminate].
    intros [= <-]. cbn [inject_loop].
    destruct (placeholder b) as [ph numbered] eqn:Eph. cbn [fst snd] in *.
    destruct t as [q|u|sp|p]; cbn [text]; try (rewrite (IH params count o E); reflexivity).
    cbn in Ht. rewrite Ht. cbn [andb]. rewrite (IH params count o E). reflexivity.
Qed.
