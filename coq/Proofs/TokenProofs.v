Require Import SQV.Model.Str SQV.Model.Token.
From Coq Require Import Lia.

Section P.
Variable is_alpha : N -> bool.
Notation scan_unquoted := (scan_unquoted is_alpha).
Notation scan_punct := (scan_punct is_alpha).
Notation next := (next is_alpha).
Notation tokenize := (tokenize is_alpha).
Notation tokenize_fuel := (tokenize_fuel is_alpha).
Notation is_alphanumeric := (is_alphanumeric is_alpha).

(* every scanner returns a split of its input *)
Lemma span_split p s : fst (span p s) ++ snd (span p s) = s.
Proof.
  induction s as [|c t IH]; [reflexivity|]. cbn [span].
  destruct (p c); [|reflexivity]. destruct (span p t) as [a r]. cbn in *. now rewrite IH.
Qed.

Lemma unquoted_split first s : fst (scan_unquoted first s) ++ snd (scan_unquoted first s) = s.
Proof.
  revert first; induction s as [|c t IH]; intros first; [reflexivity|]. cbn [Token.scan_unquoted].
  destruct (is_alphanumeric c).
  - specialize (IH false). destruct (scan_unquoted false t) as [a r]. cbn in *. now rewrite IH.
  - destruct (negb first && is_identifier c); [|reflexivity].
    specialize (IH first). destruct (scan_unquoted first t) as [a r]. cbn in *. now rewrite IH.
Qed.

Lemma quoted_split_aux n : forall s, (length s <= n)%nat -> forall first escape start,
  fst (scan_quoted first escape start s) ++ snd (scan_quoted first escape start s) = s.
Proof.
  induction n as [|n IH]; intros s Hn first escape start.
  - destruct s; [reflexivity|cbn in Hn; lia].
  - destruct s as [|c t]; [reflexivity|]. cbn [scan_quoted]. cbn [length] in Hn.
    destruct (first && is_delim_start c).
    + specialize (IH t ltac:(lia) false escape c).
      destruct (scan_quoted false escape c t) as [a r]. cbn in *. now rewrite IH.
    + destruct (negb first && negb escape && is_delim_end_for start c).
      * destruct t as [|d t']; [reflexivity|]. cbn [length] in Hn.
        destruct (is_escape_for start d); [|reflexivity].
        specialize (IH t' ltac:(lia) first escape start).
        destruct (scan_quoted first escape start t') as [a r]. cbn in *. now rewrite IH.
      * destruct (negb first); [|reflexivity].
        specialize (IH t ltac:(lia) first (negb escape && is_escape_char c) start).
        destruct (scan_quoted first (negb escape && is_escape_char c) start t) as [a r].
        cbn in *. now rewrite IH.
Qed.

Lemma quoted_split first escape start s :
  fst (scan_quoted first escape start s) ++ snd (scan_quoted first escape start s) = s.
Proof. eapply quoted_split_aux; reflexivity. Qed.

Lemma punct_split s : fst (scan_punct s) ++ snd (scan_punct s) = s.
Proof.
  destruct s as [|c t]; [reflexivity|]. cbn [Token.scan_punct].
  destruct (negb (is_space c) && negb (is_alphanumeric c)); reflexivity.
Qed.

Lemma is_nil_false {A} (l : list A) : negb (is_nil l) = true -> l <> [].
Proof. destruct l; cbn; congruence. Qed.

(* next returns a non-empty token and the rest, and text ++ rest = input *)
Lemma next_spec s t r : next s = Some (t, r) -> text t ++ r = s /\ text t <> [].
Proof.
  unfold Token.next, scan_space.
  pose proof (span_split is_space s) as H1.
  destruct (span is_space s) as [a1 r1]. cbn [fst snd] in H1.
  destruct (negb (is_nil a1)) eqn:E1.
  { intros [= <- <-]. split; [exact H1|now apply is_nil_false]. }
  pose proof (unquoted_split true s) as H2.
  destruct (scan_unquoted true s) as [a2 r2]. cbn [fst snd] in H2.
  destruct (negb (is_nil a2)) eqn:E2.
  { intros [= <- <-]. split; [exact H2|now apply is_nil_false]. }
  pose proof (quoted_split true false 32 s) as H3.
  destruct (scan_quoted true false 32 s) as [a3 r3]. cbn [fst snd] in H3.
  destruct (negb (is_nil a3)) eqn:E3.
  { intros [= <- <-]. split; [exact H3|now apply is_nil_false]. }
  pose proof (punct_split s) as H4.
  destruct (scan_punct s) as [a4 r4]. cbn [fst snd] in H4.
  destruct (negb (is_nil a4)) eqn:E4.
  { intros [= <- <-]. split; [exact H4|now apply is_nil_false]. }
  discriminate.
Qed.

(* one of the four scanners always succeeds on a non-empty input: Iterator::next only
   returns None at the end of input *)
Lemma next_none_iff s : next s = None <-> s = [].
Proof.
  split.
  - destruct s as [|c t]; [reflexivity|]. unfold Token.next, scan_space. cbn [span].
    destruct (is_space c) eqn:Es.
    { destruct (span is_space t); cbn; discriminate. }
    cbn [is_nil negb]. cbn [Token.scan_unquoted].
    destruct (is_alphanumeric c) eqn:Ea.
    { destruct (scan_unquoted false t); cbn; discriminate. }
    cbn [negb andb is_nil]. cbn [scan_quoted andb].
    destruct (is_delim_start c) eqn:Ed.
    { destruct (scan_quoted false false c t); cbn; discriminate. }
    cbn [negb andb is_nil]. cbn [Token.scan_punct]. rewrite Es. fold is_alphanumeric. rewrite Ea.
    cbn. discriminate.
  - intros ->. reflexivity.
Qed.

Lemma tokenize_fuel_spec fuel : forall s, (length s < fuel)%nat ->
  exists ts, tokenize_fuel fuel s = Some ts /\ concat (map text ts) = s /\ Forall (fun t => text t <> []) ts.
Proof.
  induction fuel as [|f IH]; intros s Hl; [lia|]. cbn [Token.tokenize_fuel].
  destruct (next s) as [[t r]|] eqn:En.
  - destruct (next_spec _ _ _ En) as [Hs Hne].
    assert (Hr : (length r < f)%nat).
    { rewrite <- Hs, app_length in Hl. destruct (text t); [congruence|cbn in Hl; lia]. }
    destruct (IH r Hr) as [ts [-> [Hc Hf]]].
    exists (t :: ts). split; [reflexivity|]. split; [cbn; now rewrite Hc|now constructor].
  - apply next_none_iff in En. subst s. exists []. repeat split; constructor.
Qed.

(* C16 (1): total (the out-of-fuel branch is unreachable), lossless, non-empty tokens *)
Theorem tokenize_lossless s :
  exists ts, tokenize s = Some ts /\ concat (map text ts) = s /\ Forall (fun t => text t <> []) ts.
Proof. apply tokenize_fuel_spec. lia. Qed.

(* more fuel never changes the result: the fuel is not an observable of the model *)
Lemma tokenize_fuel_mono f : forall s ts, tokenize_fuel f s = Some ts -> forall f', (f <= f')%nat ->
  tokenize_fuel f' s = Some ts.
Proof.
  induction f as [|f IH]; intros s ts H f' Hle; [discriminate|].
  destruct f' as [|f']; [lia|]. cbn [Token.tokenize_fuel] in *.
  destruct (next s) as [[t r]|]; [|exact H].
  destruct (tokenize_fuel f r) as [ts'|] eqn:E; [|discriminate].
  rewrite (IH _ _ E f') by lia. exact H.
Qed.

(* C16 (2): the kind of a token is determined by its first character *)
Definition kind_of_first (c : N) : N :=
  if is_space c then 0 else if is_alphanumeric c then 1 else if is_delim_start c then 2 else 3.
Definition kind (t : token) : N :=
  match t with Space _ => 0 | Unquoted _ => 1 | Quoted _ => 2 | Punct _ => 3 end.

Lemma next_kind c s t r : next (c :: s) = Some (t, r) -> kind t = kind_of_first c /\ exists a, text t = c :: a.
Proof.
  unfold Token.next, scan_space, kind_of_first. cbn [span].
  destruct (is_space c) eqn:Es.
  { destruct (span is_space s). cbn. intros [= <- <-]. split; [reflexivity|eexists; reflexivity]. }
  cbn [is_nil negb]. cbn [Token.scan_unquoted]. fold is_alphanumeric.
  destruct (is_alphanumeric c) eqn:Ea.
  { destruct (scan_unquoted false s). cbn. intros [= <- <-]. split; [reflexivity|eexists; reflexivity]. }
  cbn [negb andb is_nil]. cbn [scan_quoted andb].
  destruct (is_delim_start c) eqn:Ed.
  { destruct (scan_quoted false false c s). cbn. intros [= <- <-]. split; [reflexivity|eexists; reflexivity]. }
  cbn [negb andb is_nil]. cbn [Token.scan_punct]. rewrite Es. fold is_alphanumeric. rewrite Ea.
  cbn. intros [= <- <-]. split; [reflexivity|eexists; reflexivity].
Qed.

(* C16 (3): well-formed quoted text is one token.
   body items: a plain char (neither the closing delimiter nor a backslash), a doubled
   delimiter (backtick, single or double quote), or a backslash followed by any char. *)
Inductive body (start : N) : str -> Prop :=
| body_nil : body start []
| body_plain c b : is_delim_end_for start c = false -> is_escape_char c = false ->
    body start b -> body start (c :: b)
| body_doubled c d b : is_delim_end_for start c = true -> is_escape_for start d = true ->
    body start b -> body start (c :: d :: b)
| body_escaped c b : body start b -> body start (92 :: c :: b).

Definition closer (start : N) : N := if start =? 91 then 93 else start.

Lemma delim_start_cases start : is_delim_start start = true ->
  start = 96 \/ start = 91 \/ start = 39 \/ start = 34.
Proof using.
  clear is_alpha. unfold is_delim_start. rewrite !orb_true_iff, !N.eqb_eq. tauto.
Qed.

Lemma closer_ends start : is_delim_start start = true -> is_delim_end_for start (closer start) = true.
Proof. intros H. destruct (delim_start_cases _ H) as [->|[->|[->| ->]]]; reflexivity. Qed.

Lemma backslash_not_end start : is_delim_start start = true -> is_delim_end_for start 92 = false.
Proof. intros H. destruct (delim_start_cases _ H) as [->|[->|[->| ->]]]; reflexivity. Qed.

Definition no_doubling (start : N) (rest : str) : Prop :=
  match rest with [] => True | d :: _ => is_escape_for start d = false end.

Lemma scan_quoted_body start b : body start b -> forall rest,
  is_delim_start start = true -> no_doubling start rest ->
  scan_quoted false false start (b ++ closer start :: rest) = (b ++ [closer start], rest).
Proof.
  induction 1 as [|c b Hc He Hb IH|c d b Hc Hd Hb IH|c b Hb IH]; intros rest Hs Hr.
  - cbn [app scan_quoted andb negb]. rewrite (closer_ends _ Hs).
    destruct rest as [|d rest']; [reflexivity|]. cbn in Hr. rewrite Hr. reflexivity.
  - cbn [app scan_quoted andb negb]. rewrite Hc, He. rewrite (IH rest Hs Hr). reflexivity.
  - cbn [app scan_quoted andb negb]. rewrite Hc, Hd. rewrite (IH rest Hs Hr). reflexivity.
  - cbn [app scan_quoted andb negb].
    rewrite (backslash_not_end _ Hs). change (is_escape_char 92) with true. cbn [andb negb].
    (* the escaped char: escape = true, so the delimiter test is skipped *)
    destruct (b ++ closer start :: rest) as [|x t] eqn:Eb; [destruct b; discriminate|].
    rewrite <- Eb. rewrite (IH rest Hs Hr). reflexivity.
Qed.

Theorem quoted_is_one_token start b rest :
  is_delim_start start = true -> is_alpha start = false ->
  body start b -> no_doubling start rest ->
  next (start :: b ++ closer start :: rest) = Some (Quoted (start :: b ++ [closer start]), rest).
Proof.
  intros Hs Hal Hb Hr. unfold Token.next, scan_space. cbn [span].
  assert (Esp : is_space start = false /\ is_ascii_digit start = false).
  { destruct (delim_start_cases _ Hs) as [->|[->|[->| ->]]]; split; reflexivity. }
  destruct Esp as [Esp Edg].
  rewrite Esp. cbn [is_nil negb]. cbn [Token.scan_unquoted].
  unfold Token.is_alphanumeric. rewrite Hal, Edg.
  cbn [orb negb andb is_nil]. cbn [scan_quoted andb]. rewrite Hs.
  rewrite (scan_quoted_body start b Hb rest Hs Hr). reflexivity.
Qed.

(* unterminated quotes: everything up to the end of input is one token (still lossless) *)
Lemma scan_quoted_unterminated start b : is_delim_start start = true -> body start b ->
  scan_quoted false false start b = (b, []).
Proof.
  intros Hs. induction 1 as [|c b Hc He Hb IH|c d b Hc Hd Hb IH|c b Hb IH].
  - reflexivity.
  - cbn [scan_quoted andb negb]. rewrite Hc, He, IH. reflexivity.
  - cbn [scan_quoted andb negb]. rewrite Hc, Hd, IH. reflexivity.
  - cbn [scan_quoted andb negb].
    rewrite (backslash_not_end _ Hs). change (is_escape_char 92) with true. cbn [andb negb]. rewrite IH. reflexivity.
Qed.

(* C16 (4): unquote of a well-formed quoted token: doubled delimiters collapse to one,
   everything else (backslashes included) is kept *)
Inductive content (start : N) : str -> str -> Prop :=
| content_nil : content start [] []
| content_plain c b k : is_delim_end_for start c = false -> is_escape_char c = false ->
    content start b k -> content start (c :: b) (c :: k)
| content_doubled c d b k : is_delim_end_for start c = true -> is_escape_for start d = true ->
    content start b k -> content start (c :: d :: b) (c :: k)
| content_escaped c b k : content start b k -> content start (92 :: c :: b) (92 :: c :: k).

Lemma content_body start b k : content start b k -> body start b.
Proof. induction 1; eauto using body. Qed.

Lemma unquote_loop_content start b k : content start b k -> forall rest,
  is_delim_start start = true -> no_doubling start rest ->
  unquote_loop false false start (b ++ closer start :: rest) = k.
Proof.
  induction 1 as [|c b k Hc He Hb IH|c d b k Hc Hd Hb IH|c b k Hb IH]; intros rest Hs Hr.
  - cbn [app unquote_loop andb negb]. rewrite (closer_ends _ Hs).
    destruct rest as [|d rest']; [reflexivity|]. cbn in Hr. rewrite Hr. reflexivity.
  - cbn [app unquote_loop andb negb]. rewrite Hc, He. rewrite (IH rest Hs Hr). reflexivity.
  - cbn [app unquote_loop andb negb]. rewrite Hc, Hd. rewrite (IH rest Hs Hr). reflexivity.
  - cbn [app unquote_loop andb negb].
    rewrite (backslash_not_end _ Hs). change (is_escape_char 92) with true. cbn [andb negb].
    destruct (b ++ closer start :: rest) as [|x t] eqn:Eb; [destruct b; discriminate|].
    rewrite <- Eb. rewrite (IH rest Hs Hr). reflexivity.
Qed.

Theorem unquote_inverts_quote start b k :
  is_delim_start start = true -> content start b k ->
  unquote (Quoted (start :: b ++ [closer start])) = Some k.
Proof.
  intros Hs Hc. cbn [unquote unquote_loop andb]. rewrite Hs.
  rewrite (unquote_loop_content start b k Hc [] Hs I). reflexivity.
Qed.

End P.

(* non-vacuity: a concrete body satisfies the hypotheses, under a concrete classifier *)
Example quoted_example :
  let is_alpha := fun c => ((65 <=? c) && (c <=? 90)) || ((97 <=? c) && (c <=? 122)) in
  next is_alpha [39; 97; 39; 39; 63; 92; 39; 39; 32; 63]
  = Some (Quoted [39; 97; 39; 39; 63; 92; 39; 39], [32; 63]).
Proof. reflexivity. Qed.
Example body_example : body 39 [97; 39; 39; 63; 92; 39].
Proof.
  apply body_plain; [reflexivity|reflexivity|].
  apply body_doubled; [reflexivity|reflexivity|].
  apply body_plain; [reflexivity|reflexivity|].
  apply body_escaped. apply body_nil.
Qed.
