(* C01 (3): the values a rendered STATEMENT pushes are the statement's values in SQL reading order
   (Spec/StmtValues.v) - for every statement, custom templates included, every backend, every
   parenthesis table and every nesting depth. *)
Require Import SQV.Model.Str SQV.Model.Escape SQV.Model.Value SQV.Model.Literal SQV.Model.Expr SQV.Model.Cond
  SQV.Model.Stmt SQV.Model.Token SQV.Model.Writer SQV.Model.RenderExpr SQV.Model.RenderStmt
  SQV.Spec.ExprValues SQV.Spec.StmtValues SQV.Proofs.WriterProofs SQV.Proofs.ExprValuesProofs.
From Coq Require Import Lia String.
Open Scope list_scope.

Lemma vals_of_map_WVal vs : vals_of (map WVal vs) = vs.
Proof. unfold vals_of. induction vs as [|v vs IH]; [reflexivity|]. cbn. now rewrite IH. Qed.

Definition bare (r : script) : script := map WVal (vals_of r).

Lemma vals_of_nth_bare rs i :
  vals_of (nth_default [WPanic] rs i) = vals_of (nth_default [WPanic] (map bare rs) i).
Proof.
  unfold nth_default. revert i. induction rs as [|r rs IH]; intros i.
  - destruct i; reflexivity.
  - destruct i as [|i]; cbn [map nth_error].
    + unfold bare. now rewrite vals_of_map_WVal.
    + apply IH.
Qed.

(* the template loop's values depend on the arguments only through their values *)
Lemma custom_loop_vals rs mark numbered : forall n toks count, (List.length toks <= n)%nat ->
  vals_of (custom_loop rs mark numbered toks count) = vals_of (custom_loop (map bare rs) mark numbered toks count).
Proof.
  induction n as [|n IH]; intros toks count Hn.
  - destruct toks; [reflexivity|cbn in Hn; lia].
  - destruct toks as [|t rest]; [reflexivity|]. cbn [List.length] in Hn.
    assert (Hr : forall c, vals_of (custom_loop rs mark numbered rest c)
                          = vals_of (custom_loop (map bare rs) mark numbered rest c)).
    { intros c. apply IH. lia. }
    assert (Hpos : vals_of (nth_default [WPanic] rs count ++ custom_loop rs mark numbered rest (S count))
                 = vals_of (nth_default [WPanic] (map bare rs) count ++ custom_loop (map bare rs) mark numbered rest (S count))).
    { rewrite !vals_of_app, Hr. now rewrite vals_of_nth_bare. }
    cbn [custom_loop]. destruct t as [tok|tok|tok|m].
    1-3: (cbn [vals_of flat_map app]; apply Hr).
    destruct (str_eqb m mark).
    2:{ cbn [vals_of flat_map app]. apply Hr. }
    destruct rest as [|t2 rest']; [exact Hpos|].
    assert (Hr' : forall c, vals_of (custom_loop rs mark numbered rest' c)
                           = vals_of (custom_loop (map bare rs) mark numbered rest' c)).
    { intros c. apply IH. cbn [List.length] in Hn. lia. }
    destruct t2 as [tok|tok|tok|m2]; try exact Hpos.
    + destruct numbered; [|exact Hpos].
      rewrite !vals_of_app, Hr'. f_equal.
      destruct (parse_usize tok) as [num|]; [|reflexivity].
      destruct (num =? 0)%N; [reflexivity|]. apply vals_of_nth_bare.
    + destruct (str_eqb m2 mark); [|exact Hpos]. cbn [vals_of flat_map app]. apply Hr'.
Qed.

Section E.
Variable Q : Type.
Variable rq : Q -> script.
Variable is_alpha : N -> bool.
Variable b : backend.
Variable T : etables.

Notation evt := (expr_values_t (template_values is_alpha b) (fun q => vals_of (rq q))).

(* expression level, every tree (templates included) *)
Theorem rendered_values_general :
  forall (e : expr Q) common, vals_of (rexpr Q rq is_alpha b T common e) = evt e.
Proof.
  induction e as [c|es H|x IHe|f args H|l op r IHe1 IHe2|sop q|v|vs|cs|cs es H|k|ty x IHe|whens els H H0|v] using expr_ind';
    intros common.
  - cbn [rexpr expr_values_t]. apply vals_of_rcolref.
  - cbn [rexpr expr_values_t]. unfold ws. rewrite vals_of_cons_ws, vals_of_app, vals_of_ws1, app_nil_r.
    rewrite vals_of_sep_by by reflexivity.
    rewrite flat_map_concat_map, map_map, <- flat_map_concat_map.
    apply flat_map_ext_Forall. rewrite Forall_forall in *. intros x Hx. now apply H.
  - cbn [rexpr expr_values_t]. rewrite vals_of_app, vals_of_wrap. unfold ws. cbn [vals_of flat_map app]. now apply IHe.
  - cbn [rexpr expr_values_t]. rewrite !vals_of_app, vals_of_rfunc_name. unfold ws at 1 3. rewrite !vals_of_ws1.
    cbn [app]. rewrite app_nil_r. rewrite vals_of_sep_by by reflexivity.
    rewrite flat_map_concat_map, map_map, <- flat_map_concat_map.
    apply flat_map_ext_Forall. rewrite Forall_forall in *. intros a Ha. rewrite vals_of_app.
    destruct (fst a); cbn [vals_of flat_map app]; now apply H.
  - cbn [rexpr expr_values_t]. destruct (is_empty_in Q op r) eqn:Eei.
    + destruct op; rewrite vals_of_binary_expr; reflexivity.
    + rewrite vals_of_binary_expr, IHe1. f_equal.
      destruct r as [| | | |lo rop hi| | | | | | | | |]; try (now apply IHe2).
      destruct rop; try (now apply IHe2).
      destruct (is_between op) eqn:Eb; [|now apply IHe2].
      rewrite vals_of_between_bounds. rewrite <- (IHe2 false).
      cbn [rexpr]. change (is_empty_in Q BAnd hi) with false. cbv iota.
      rewrite vals_of_binary_expr. f_equal.
      destruct hi as [| | | |hl hop hh| | | | | | | | |]; try reflexivity. destruct hop; reflexivity.
  - cbn [rexpr expr_values_t]. rewrite !vals_of_app. unfold ws. rewrite !vals_of_ws1, app_nil_r. cbn [app].
    destruct sop; [rewrite vals_of_opt_text|]; reflexivity.
  - reflexivity.
  - cbn [rexpr expr_values_t]. unfold ws. rewrite vals_of_cons_ws, vals_of_app, vals_of_ws1, app_nil_r.
    rewrite vals_of_sep_by by reflexivity. apply flat_map_singletons.
  - reflexivity.
  - (* a template: the loop's values depend on the arguments' values only *)
    cbn [rexpr expr_values_t]. unfold template_values at 1. destruct (placeholder b) as [mark numbered].
    destruct (tokenize is_alpha cs) as [toks|]; [|reflexivity].
    rewrite (custom_loop_vals _ mark numbered (List.length toks) toks 0 (le_n _)).
    do 2 f_equal. rewrite !map_map. apply map_ext_Forall.
    rewrite Forall_forall in *. intros x Hx. unfold bare. now rewrite H.
  - cbn [rexpr expr_values_t]. apply vals_of_rkeyword.
  - cbn [rexpr expr_values_t].
    destruct b, common; try (now apply IHe).
    destruct (ends_with_brackets ty); rewrite !vals_of_app; unfold ws; cbn [vals_of flat_map app]; rewrite app_nil_r; now apply IHe.
  - cbn [rexpr expr_values_t].
    rewrite !vals_of_app. unfold ws at 1 3. rewrite !vals_of_ws1. cbn [app]. rewrite app_nil_r. f_equal.
    + rewrite vals_of_flat_map.
      apply flat_map_ext_Forall.
      rewrite Forall_forall in *. intros w Hin. specialize (H w Hin) as [H1 H2].
      cbv beta. unfold ws. rewrite vals_of_cons_ws, vals_of_app, vals_of_cons_ws. now rewrite H1, H2.
    + destruct els as [x|]; [|reflexivity]. unfold ws. rewrite vals_of_cons_ws. now apply H0.
  - reflexivity.
Qed.

(* on template-free trees this is the traversal of C01_values_are_the_given_ones *)
Lemma evt_no_template (e : expr Q) : no_template e = true -> evt e = expr_values (fun q => vals_of (rq q)) e.
Proof.
  intros H. rewrite <- (rendered_values_general e false). now apply rendered_values_are_the_given_ones.
Qed.
End E.


Lemma expr_values_t_ext Q tv (f g : Q -> list value) : (forall q, f q = g q) ->
  forall e : expr Q, expr_values_t tv f e = expr_values_t tv g e.
Proof.
  intros Hfg.
  induction e as [c|es H|x IHe|fn args H|l op r IHe1 IHe2|sop q|v|vs|cs|cs es H|k|ty x IHe|whens els H H0|v] using expr_ind';
    cbn [expr_values_t]; try reflexivity; try assumption.
  - apply flat_map_ext_Forall. exact H.
  - apply flat_map_ext_Forall. exact H.
  - now rewrite IHe1, IHe2.
  - apply Hfg.
  - f_equal. apply map_ext_Forall. exact H.
  - f_equal.
    + apply flat_map_ext_Forall. rewrite Forall_forall in *. intros w Hw. destruct (H w Hw) as [H1 H2]. now rewrite H1, H2.
    + destruct els; [exact H0|reflexivity].
Qed.

(* ---- rewriting vals_of through scripts ---- *)
Lemma vals_nil : vals_of [] = []. Proof. reflexivity. Qed.
Lemma vals_cons_WS s t : vals_of (WS s :: t) = vals_of t. Proof. reflexivity. Qed.
Lemma vals_cons_ws s t : vals_of (ws s :: t) = vals_of t. Proof. reflexivity. Qed.
Lemma vals_cons_WId s t : vals_of (WId s :: t) = vals_of t. Proof. reflexivity. Qed.
Lemma vals_cons_WConst v t : vals_of (WConst v :: t) = vals_of t. Proof. reflexivity. Qed.
Lemma vals_cons_WCust s t : vals_of (WCust s :: t) = vals_of t. Proof. reflexivity. Qed.
Lemma vals_cons_WPanic t : vals_of (WPanic :: t) = vals_of t. Proof. reflexivity. Qed.
Lemma vals_cons_WVal v t : vals_of (WVal v :: t) = v :: vals_of t. Proof. reflexivity. Qed.
Lemma vals_wss s : vals_of (wss s) = []. Proof. reflexivity. Qed.
Lemma vals_comma : vals_of comma = []. Proof. reflexivity. Qed.
#[global] Hint Rewrite vals_of_app vals_nil vals_cons_WS vals_cons_ws vals_cons_WId vals_cons_WConst vals_cons_WCust
  vals_cons_WPanic vals_cons_WVal vals_wss vals_comma app_nil_r app_nil_l : vals.

Lemma vals_sep_map {A} (f : A -> script) l :
  vals_of (sep_by comma (map f l)) = flat_map (fun x => vals_of (f x)) l.
Proof.
  rewrite vals_of_sep_by by reflexivity. now rewrite flat_map_concat_map, map_map, <- flat_map_concat_map.
Qed.
Lemma vals_sep_map' {A} sep (f : A -> script) l : vals_of sep = [] ->
  vals_of (sep_by sep (map f l)) = flat_map (fun x => vals_of (f x)) l.
Proof.
  intros H. rewrite vals_of_sep_by by exact H. now rewrite flat_map_concat_map, map_map, <- flat_map_concat_map.
Qed.
Lemma flat_map_nil_fn {A B} (l : list A) : flat_map (fun _ : A => @nil B) l = [].
Proof. induction l; [reflexivity|assumption]. Qed.

Ltac vs := autorewrite with vals.

Section S.
Variable is_alpha : N -> bool.
Variable T : etables.
Variable rq : query -> script.

Variable qv : query -> list value.
Hypothesis Hq : forall q, vals_of (rq q) = qv q.
Notation ev b := (expr_values_t (template_values is_alpha b) qv).

Lemma vals_rex b e : vals_of (rex is_alpha b T rq e) = (ev b) e.
Proof. unfold rex. rewrite rendered_values_general. apply expr_values_t_ext. exact Hq. Qed.

Lemma vals_rchain b len ms : forall i,
  vals_of (rchain is_alpha b T rq len i ms) = flat_map (fun m => (ev b) (snd m)) ms.
Proof.
  induction ms as [|[o e] ms IH]; intros i; cbn [rchain flat_map snd]; [reflexivity|].
  unfold rchain_member. rewrite !vals_of_app, vals_of_wrap, IH, vals_rex.
  destruct (Nat.ltb 0 i); [destruct o|]; reflexivity.
Qed.

Lemma vals_rholder b kw h : vals_of (rholder is_alpha b T rq kw h) = holder_values (ev b) h.
Proof. destruct h; cbn [rholder holder_values]; vs; [reflexivity|apply vals_rchain|apply vals_rex]. Qed.

Lemma vals_rtplain t : vals_of (rtplain t) = [].
Proof. destruct t; reflexivity. Qed.

Lemma vals_rvalues_list b rows : vals_of (rvalues_list b rows) = List.concat rows.
Proof.
  unfold rvalues_list. vs. rewrite vals_sep_map. rewrite flat_map_concat_map. f_equal.
  rewrite <- (map_id rows) at 2. apply map_ext. intros row. vs. rewrite vals_sep_map.
  assert (E : flat_map (fun x : value => vals_of [WVal x]) row = row).
  { induction row as [|v row IH]; [reflexivity|]. cbn [flat_map]. vs. cbn [app]. now rewrite IH. }
  rewrite E. destruct b; reflexivity.
Qed.

Lemma vals_rfunc_args b args :
  vals_of (rfunc_args is_alpha b T rq args) = flat_map (fun a : bool * expr query => (ev b) (snd a)) args.
Proof.
  unfold rfunc_args. vs. rewrite vals_sep_map. apply flat_map_ext. intros a. vs.
  rewrite vals_rex. destruct (fst a); reflexivity.
Qed.

Lemma vals_rtref b t : vals_of (rtref is_alpha b T rq t) = tref_values (ev b) qv t.
Proof.
  destruct t; cbn [rtref tref_values]; vs.
  - apply vals_rtplain.
  - apply Hq.
  - apply vals_rvalues_list.
  - rewrite vals_of_rfunc_name. apply vals_rfunc_args.
Qed.

Lemma ev_is_null b e : (ev b) (EBinary e BIs (EKeyword KwNull)) = (ev b) e.
Proof. cbn [expr_values_t]. change (is_empty_in query BIs (EKeyword KwNull)) with false. cbv iota. apply app_nil_r. Qed.

Lemma vals_rorder_field b e vs : vals_of (rorder_field is_alpha b T rq e vs) = flat_map (fun _ => (ev b) e) vs.
Proof.
  unfold rorder_field. vs. generalize 0%N. induction vs as [|v l IH]; intros i; [reflexivity|].
  vs. rewrite vals_rex. cbn [flat_map]. f_equal. apply IH.
Qed.

Lemma vals_rorder b oe : vals_of (rorder is_alpha b T rq oe) = order_values b (ev b) oe.
Proof.
  destruct oe as [e o n]. cbn [rorder order_values].
  destruct b, n as [[|]|], o; vs; rewrite ?vals_rex, ?vals_rorder_field, ?ev_is_null; reflexivity.
Qed.

Lemma vals_rorders b os : vals_of (rorders is_alpha b T rq os) = flat_map (order_values b (ev b)) os.
Proof.
  destruct os as [|o os]; [reflexivity|]. unfold rorders. vs. rewrite vals_sep_map.
  apply flat_map_ext. intros a. apply vals_rorder.
Qed.

Lemma vals_rframe f : vals_of (rframe f) = frame_values f.
Proof. destruct f; reflexivity. Qed.

Lemma vals_rwindow b w : vals_of (rwindow is_alpha b T rq w) = window_values b (ev b) w.
Proof.
  destruct w as [pb ob fr]. cbn [rwindow window_values]. vs. f_equal; [|f_equal].
  - destruct pb as [|p pb]; [reflexivity|]. vs. rewrite vals_sep_map. apply flat_map_ext. intros a. apply vals_rex.
  - destruct ob as [|o ob]; [reflexivity|]. vs. rewrite vals_sep_map. apply flat_map_ext. intros a. apply vals_rorder.
  - destruct fr as [[[ft st] en]|]; [|reflexivity]. destruct ft, en as [e|]; vs; now rewrite !vals_rframe.
Qed.

Lemma vals_rselexpr b se : vals_of (rselexpr is_alpha b T rq se) = selexpr_values b (ev b) se.
Proof.
  destruct se as [e alias win]. cbn [rselexpr selexpr_values].
  destruct alias, win as [[n|w]|]; vs; rewrite vals_rex, ?vals_rwindow, ?app_nil_r; reflexivity.
Qed.

Lemma vals_rjointype b j : vals_of (rjointype b j) = [].
Proof. destruct j; try reflexivity. destruct b; reflexivity. Qed.

Lemma vals_rjoin b j : vals_of (rjoin is_alpha b T rq j) = join_values (ev b) qv j.
Proof.
  destruct j as [jt t on lateral]. cbn [rjoin join_values].
  destruct lateral, on; vs; rewrite vals_rjointype, vals_rtref, ?vals_rholder, ?app_nil_r; reflexivity.
Qed.

Lemma vals_rdistinct b d : vals_of (rdistinct b d) = [].
Proof.
  destruct d; try reflexivity; destruct b; try reflexivity.
  cbn [rdistinct]. vs. rewrite vals_sep_map. rewrite (flat_map_ext _ (fun _ => [])); [apply flat_map_nil_fn|].
  intros c. apply vals_of_rcolref.
Qed.

Lemma vals_rhints b hs : vals_of (rhints b hs) = [].
Proof.
  destruct b, hs as [|h hs]; try reflexivity. unfold rhints. vs.
  rewrite vals_sep_map' by reflexivity. rewrite (flat_map_ext _ (fun _ => [])); [apply flat_map_nil_fn|].
  intros [[ht sc] n]. cbn [fst snd]. destruct ht, sc; reflexivity.
Qed.

Lemma vals_rsample b s : vals_of (rsample b s) = [].
Proof. destruct b, s as [[[m p] r]|]; try reflexivity. destruct m, r; reflexivity. Qed.

Lemma vals_runion b u : vals_of (runion b rq u) = qv (QSelect (snd u)).
Proof. unfold runion. destruct b; vs; apply Hq. Qed.

Lemma vals_rlock b l : vals_of (rlock is_alpha b T rq l) = lock_values b (ev b) qv (Some l).
Proof.
  destruct l as [lt tables beh]. unfold rlock, lock_values. destruct b; try reflexivity.
  all: destruct lt, beh as [[|]|], tables as [|t ts]; vs; try reflexivity.
  all: rewrite vals_sep_map; apply flat_map_ext; intros a; apply vals_rtref.
Qed.

Lemma vals_rcte b c : vals_of (rcte b rq c) = match c with Cte _ _ q _ => qv q end.
Proof.
  destruct c as [name cols q mat]. cbn [rcte].
  assert (E1 : forall cs : list str, flat_map (fun c : str => vals_of [WId c]) cs = []).
  { intros cs. apply flat_map_nil_fn. }
  destruct b, mat as [[|]|], cols as [|c cols]; vs; rewrite ?vals_sep_map, ?E1, Hq; reflexivity.
Qed.

Lemma vals_rwith b w : vals_of (rwith is_alpha b T rq w) = with_values b (ev b) qv w.
Proof.
  destruct w as [recursive search cycle ctes]. cbn [rwith with_values].
  assert (E : forall l, vals_of (sep_by comma (map (rcte b rq) l))
              = flat_map (fun c : cte => match c with Cte _ _ q _ => qv q end) l).
  { intros l. rewrite vals_sep_map. apply flat_map_ext. intros a. apply vals_rcte. }
  destruct ctes as [|c ctes]; cbv iota; [|rewrite <- (E (c :: ctes)); generalize (c :: ctes); intros l].
  all: destruct recursive, b; vs; try reflexivity.
  all: destruct search as [[[br e] al]|], cycle as [[[e2 s1] s2]|]; try destruct br; vs; rewrite ?vals_rex; reflexivity.
Qed.

Lemma vals_rwith_opt b w : vals_of (rwith_opt is_alpha b T rq w) = with_opt_values b (ev b) qv w.
Proof. destruct w; [apply vals_rwith|reflexivity]. Qed.

Lemma vals_rlimit kw v : vals_of (rlimit kw v) = opt_value v.
Proof. destruct v; reflexivity. Qed.

(* ---- whole statements ---- *)
Lemma vals_rselect b s : vals_of (rselect is_alpha b T rq s) = select_values b (ev b) qv s.
Proof.
  destruct s as [distinct selects from joins where_ groups having unions orders limit offset lock window with_ sample hints].
  unfold rselect, sel_render_order. cbn [flat_map sel_clause select_values]. vs.
  rewrite vals_rwith_opt, !vals_rholder, vals_rorders, !vals_rlimit.
  repeat f_equal.
  - destruct distinct as [d|]; vs; rewrite ?vals_rdistinct; cbn [app];
      (rewrite vals_sep_map; apply flat_map_ext; intros a; apply vals_rselexpr).
  - destruct from as [|f from]; [reflexivity|]. vs. rewrite vals_rhints, vals_rsample, !app_nil_r.
    rewrite vals_sep_map. apply flat_map_ext. intros a. apply vals_rtref.
  - rewrite vals_of_flat_map. apply flat_map_ext. intros j. vs. apply vals_rjoin.
  - destruct groups as [|g groups]; [reflexivity|]. vs. rewrite vals_sep_map. apply flat_map_ext. intros a. apply vals_rex.
  - rewrite vals_of_flat_map. apply flat_map_ext. intros u. apply vals_runion.
  - destruct lock as [l|]; [|destruct b; reflexivity]. vs. apply vals_rlock.
  - destruct window as [[n w]|]; [|reflexivity]. vs. apply vals_rwindow.
Qed.

Lemma vals_rreturning b r : vals_of (rreturning is_alpha b T rq r) = returning_values b (ev b) r.
Proof.
  destruct b, r as [[|cs|es]|]; try reflexivity; unfold rreturning, returning_values; vs; rewrite vals_sep_map.
  all: try (rewrite (flat_map_ext _ (fun _ => [])); [apply flat_map_nil_fn|]; intros c; apply vals_of_rcolref).
  all: apply flat_map_ext; intros a; apply vals_rex.
Qed.

Lemma vals_rexcluded b c : vals_of (rexcluded b c) = [].
Proof. destruct b; reflexivity. Qed.

Lemma vals_roc_action b a :
  vals_of (roc_action is_alpha b T rq a) =
  match a with
  | Some (OCUpdate ups) => flat_map (fun u => match u with OCUpColumn _ => [] | OCUpExpr _ e => ev b e end) ups
  | _ => []
  end.
Proof.
  destruct a as [[pks|ups]|]; [|destruct b|reflexivity].
  - destruct b; try reflexivity. destruct pks as [|p pks]; [reflexivity|]. unfold roc_action. vs.
    rewrite vals_sep_map. apply flat_map_nil_fn.
  - unfold roc_action. vs. rewrite vals_sep_map. apply flat_map_ext. intros [c|c e]; cbn [roc_update]; vs; [reflexivity|apply vals_rex].
  - unfold roc_action. vs. rewrite vals_sep_map. apply flat_map_ext. intros [c|c e]; cbn [roc_update]; vs; [reflexivity|apply vals_rex].
  - unfold roc_action. vs. rewrite vals_sep_map. apply flat_map_ext. intros [c|c e]; cbn [roc_update]; vs; [reflexivity|apply vals_rex].
Qed.

Lemma vals_ronconflict b o : vals_of (ronconflict is_alpha b T rq o) = onconflict_values b (ev b) o.
Proof.
  destruct o as [[targets twhere action awhere]|]; [|reflexivity]. cbn [ronconflict onconflict_values].
  assert (Et : forall l, vals_of (sep_by comma (map (fun t => match t with OCColumn c => [WId c]
                                                               | OCExpr e => rex is_alpha b T rq e end) l))
               = flat_map (fun t => match t with OCColumn _ => [] | OCExpr e => ev b e end) l).
  { intros l. rewrite vals_sep_map. apply flat_map_ext. intros [c|e]; [reflexivity|apply vals_rex]. }
  destruct b; vs; rewrite vals_roc_action, ?vals_rholder; try reflexivity.
  all: destruct targets as [|t ts]; vs; [reflexivity|]; rewrite Et, <- ?app_assoc; reflexivity.
Qed.

Lemma vals_rdefault_rows b n : vals_of (rdefault_rows b n) = [].
Proof.
  destruct b; try reflexivity; unfold rdefault_rows; vs.
  all: induction (N.to_nat n) as [|k IH]; [reflexivity|]; cbn [repeat sep_by]; destruct k; [reflexivity|]; vs; exact IH.
Qed.

Lemma vals_rinsert b i : vals_of (rinsert is_alpha b T rq i) = insert_values b (ev b) qv i.
Proof.
  destruct i as [replace table columns source on_conflict returning default_values with_].
  unfold rinsert, ins_render_order. cbn [flat_map ins_clause insert_values]. vs.
  rewrite vals_rwith_opt, vals_ronconflict, vals_rreturning.
  assert (Ec : forall cs : list str, vals_of (sep_by comma (map (fun c => [WId c]) cs)) = []).
  { intros cs. rewrite vals_sep_map. apply flat_map_nil_fn. }
  assert (Er : forall rows : list (list (expr query)),
             vals_of (sep_by comma (map (fun row : list (expr query) =>
                                        wss "(" ++ sep_by comma (map (rex is_alpha b T rq) row) ++ wss ")") rows))
             = flat_map (evs (ev b)) rows).
  { intros rows. rewrite vals_sep_map. apply flat_map_ext. intros row. vs. rewrite vals_sep_map.
    apply flat_map_ext. intros a. apply vals_rex. }
  repeat f_equal.
  - destruct replace, table as [t|]; vs; rewrite ?vals_rtref; reflexivity.
  - destruct default_values as [n|], columns as [|c cs], source as [[rows|s]|]; vs;
      rewrite ?Ec, ?Er, ?vals_rdefault_rows, ?Hq; reflexivity.
Qed.

Lemma vals_rupdate b u : vals_of (rupdate is_alpha b T rq u) = update_values b (ev b) qv u.
Proof.
  destruct u as [table from values where_ orders limit returning with_].
  unfold rupdate, upd_render_order. cbn [flat_map upd_clause update_values]. vs.
  rewrite vals_rwith_opt, vals_rreturning, vals_rorders, vals_rlimit.
  assert (Ef : forall l, vals_of (sep_by comma (map (rtref is_alpha b T rq) l)) = flat_map (tref_values (ev b) qv) l).
  { intros l. rewrite vals_sep_map. apply flat_map_ext. intros a. apply vals_rtref. }
  repeat f_equal.
  - destruct table; vs; [apply vals_rtref|reflexivity].
  - destruct b, from as [|f0 from]; try reflexivity. vs. now rewrite vals_rtref, vals_rholder.
  - rewrite vals_sep_map. apply flat_map_ext. intros [c e]. cbn [fst snd]. vs. rewrite vals_rex.
    repeat match goal with |- context [match ?x with _ => _ end] => destruct x end; reflexivity.
  - destruct b, from as [|f0 from]; try reflexivity; vs; apply Ef.
  - destruct b, from as [|f0 from]; try reflexivity; apply vals_rholder.
Qed.

Lemma vals_rdelete b d : vals_of (rdelete is_alpha b T rq d) = delete_values b (ev b) qv d.
Proof.
  destruct d as [table where_ orders limit returning with_].
  unfold rdelete, del_render_order. cbn [flat_map del_clause delete_values]. vs.
  rewrite vals_rwith_opt, vals_rreturning, vals_rorders, vals_rlimit, vals_rholder.
  repeat f_equal. destruct table; vs; [apply vals_rtref|reflexivity].
Qed.

Theorem rquery_gen_values b q :
  vals_of (rquery_gen is_alpha b T rq q) = query_values_gen b (ev b) qv q.
Proof.
  destruct q as [s|i|u|d|w q']; cbn [rquery_gen query_values_gen].
  - apply vals_rselect.
  - apply vals_rinsert.
  - apply vals_rupdate.
  - apply vals_rdelete.
  - vs. now rewrite vals_rwith, Hq.
Qed.
End S.

(* every statement, every nesting depth: the values pushed by the rendering are the statement's
   values in the dialect's reading order; the parenthesis tables T play no role *)
Theorem statement_values_are_the_given_ones is_alpha b T : forall fuel q,
  vals_of (rquery is_alpha b T fuel q) = query_values is_alpha b fuel q.
Proof.
  induction fuel as [|n IH]; intros q; [reflexivity|].
  cbn [rquery query_values]. apply rquery_gen_values. exact IH.
Qed.
