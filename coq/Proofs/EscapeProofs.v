Require Import SQV.Model.Str SQV.Model.Escape.
From Coq Require Import Lia.

Lemma replace_char_app c r a b : replace_char c r (a ++ b) = replace_char c r a ++ replace_char c r b.
Proof. unfold replace_char. apply flat_map_app. Qed.

Lemma replace_char_cons c r x s :
  replace_char c r (x :: s) = (if N.eqb x c then r else [x]) ++ replace_char c r s.
Proof. reflexivity. Qed.

Lemma escape_default_app a b : escape_default (a ++ b) = escape_default a ++ escape_default b.
Proof. unfold escape_default. now rewrite !replace_char_app. Qed.

Lemma escape_default_single c : escape_default [c] = esc_char c.
Proof.
  unfold escape_default, esc_char, replace_char.
  cbn [flat_map app].
  destruct (N.eqb_spec c 92) as [->|H92]; [reflexivity|].
  cbn [flat_map app].
  destruct (N.eqb_spec c 34) as [->|H34]; [reflexivity|].
  cbn [flat_map app].
  destruct (N.eqb_spec c 39) as [->|H39]; [reflexivity|].
  cbn [flat_map app].
  destruct (N.eqb_spec c 0) as [->|H0]; [reflexivity|].
  cbn [flat_map app].
  destruct (N.eqb_spec c 8) as [->|H8]; [reflexivity|].
  cbn [flat_map app].
  destruct (N.eqb_spec c 9) as [->|H9]; [reflexivity|].
  cbn [flat_map app].
  destruct (N.eqb_spec c 10) as [->|H10]; [reflexivity|].
  cbn [flat_map app].
  destruct (N.eqb_spec c 13) as [->|H13]; reflexivity.
Qed.

(* the order argument of the replace chain, packaged: the chain is a per-character map *)
Lemma escape_chain_is_flat_map s : escape_default s = flat_map esc_char s.
Proof.
  induction s as [|c s IH]; [reflexivity|].
  change (c :: s) with ([c] ++ s).
  rewrite escape_default_app, escape_default_single, IH. reflexivity.
Qed.

Lemma unescape_esc_char c rest :
  unescape_loop false (esc_char c ++ rest) = c :: unescape_loop false rest.
Proof.
  unfold esc_char.
  repeat match goal with
  | |- context [N.eqb c ?k] => destruct (N.eqb_spec c k) as [->|?]; [reflexivity|]
  end.
  cbn [app unescape_loop negb andb].
  destruct (N.eqb_spec c 92) as [->|_]; [congruence|reflexivity].
Qed.

Lemma unescape_escape_default s : unescape_default (escape_default s) = s.
Proof.
  unfold unescape_default. rewrite escape_chain_is_flat_map.
  induction s as [|c s IH]; [reflexivity|].
  cbn [flat_map]. rewrite unescape_esc_char, IH. reflexivity.
Qed.

(* SQLite: replace("''","'") after replace('\'', "''") *)
Lemma replace2_cons_ne a b r x t : x <> a -> replace2 a b r (x :: t) = x :: replace2 a b r t.
Proof.
  intros Hx. destruct t as [|y t']; [reflexivity|].
  change (replace2 a b r (x :: y :: t')) with
    (if N.eqb x a && N.eqb y b then r ++ replace2 a b r t' else x :: replace2 a b r (y :: t')).
  destruct (N.eqb_spec x a); [contradiction|reflexivity].
Qed.

Lemma unescape_escape_sqlite s : unescape_sqlite (escape_sqlite s) = s.
Proof.
  unfold unescape_sqlite, escape_sqlite.
  induction s as [|c s IH]; [reflexivity|].
  rewrite replace_char_cons.
  destruct (N.eqb_spec c 39) as [->|Hc].
  - change ([39; 39] ++ replace_char 39 [39; 39] s) with (39 :: 39 :: replace_char 39 [39; 39] s).
    change (replace2 39 39 [39] (39 :: 39 :: ?x)) with ([39] ++ replace2 39 39 [39] x).
    cbn [replace2 N.eqb Pos.eqb andb app]. rewrite IH. reflexivity.
  - cbn [app]. rewrite replace2_cons_ne by assumption. now rewrite IH.
Qed.

Theorem unescape_escape b s : unescape_string b (escape_string b s) = s.
Proof.
  destruct b; cbn [unescape_string escape_string];
    auto using unescape_escape_default, unescape_escape_sqlite.
Qed.

(* sanity: the converse is false, and the hypotheses-free theorem is non-trivial *)
Example escape_example : escape_default [97; 39; 92; 26; 10] = [97; 92; 39; 92; 92; 26; 92; 110].
Proof. reflexivity. Qed.
Example converse_false : escape_default (unescape_default [92; 97]) <> [92; 97].
Proof. cbv. congruence. Qed.
