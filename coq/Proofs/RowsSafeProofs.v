(* The finite check behind C05 (and, through it, C06): every row of the decision tables executed from
   the code on this run is parenthesised or safe to leave bare.  Re-proved whenever the regenerated
   tables change. *)
Require Import SQV.Model.Str SQV.Model.Escape SQV.Model.ExprTablesInst SQV.Spec.Prec SQV.Spec.ParenRows.
From Coq Require Import List.
Import ListNotations.

Lemma all_rows_safe : forall b more, bad_rows b (tables_of more b) = [].
Proof. intros [| |] [|]; vm_compute; reflexivity. Qed.
