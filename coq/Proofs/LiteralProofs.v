Require Import SQV.Model.Str SQV.Model.Escape SQV.Model.Literal SQV.Spec.EngLex SQV.Proofs.EscapeProofs.
From Coq Require Import Lia.

Definition no_nul (s : str) : Prop := Forall (fun c => c <> 0) s.
Definition not_starting_with (q : N) (rest : str) : Prop :=
  match rest with [] => True | c :: _ => c <> q end.

(* ---------------- quote doubling (SQLite strings, identifiers of all engines) ---------------- *)
Lemma lex_doubling_roundtrip q s rest : not_starting_with q rest ->
  lex_doubling q (replace_char q [q; q] s ++ q :: rest) = Some (s, rest).
Proof.
  intros Hr. induction s as [|c s IH].
  - cbn [replace_char flat_map app lex_doubling]. rewrite N.eqb_refl.
    destruct rest as [|d rest']; [reflexivity|]. cbn in Hr.
    destruct (N.eqb_spec d q); [contradiction|reflexivity].
  - rewrite replace_char_cons. destruct (N.eqb_spec c q) as [->|Hc].
    + cbn [app lex_doubling]. rewrite !N.eqb_refl. rewrite IH. reflexivity.
    + cbn [app lex_doubling]. destruct (N.eqb_spec c q); [contradiction|]. rewrite IH. reflexivity.
Qed.

Theorem ident_roundtrip q name rest : not_starting_with q rest ->
  lex_quoted_with q (iden_prepare q name ++ rest) = Some (name, rest).
Proof.
  intros Hr. unfold iden_prepare, iden_quoted, lex_quoted_with. cbn [app]. rewrite N.eqb_refl.
  rewrite <- app_assoc. cbn [app]. now apply lex_doubling_roundtrip.
Qed.

Theorem sqlite_string_roundtrip s rest : not_starting_with 39 rest ->
  sqlite_lex_string (write_string_quoted SQLite s ++ rest) = Some (s, rest).
Proof.
  intros Hr. unfold write_string_quoted, sqlite_lex_string, lex_quoted_with.
  cbn [escape_string escape_sqlite app N.eqb Pos.eqb].
  rewrite <- app_assoc. cbn [app]. now apply lex_doubling_roundtrip.
Qed.

(* ---------------- MySQL ---------------- *)
Lemma mysql_body_esc_char c more :
  mysql_lex_body false (esc_char c ++ more) = push c (mysql_lex_body false more).
Proof.
  unfold esc_char.
  repeat match goal with
  | |- context [N.eqb c ?k] => destruct (N.eqb_spec c k) as [->|?]; [reflexivity|]
  end.
  cbn [app mysql_lex_body].
  destruct (N.eqb_spec c 92); [contradiction|]. destruct (N.eqb_spec c 39); [contradiction|].
  reflexivity.
Qed.

Theorem mysql_string_roundtrip s rest : not_starting_with 39 rest ->
  mysql_lex_string (write_string_quoted MySQL s ++ rest) = Some (s, rest).
Proof.
  intros Hr. unfold write_string_quoted, mysql_lex_string.
  cbn [escape_string app N.eqb Pos.eqb]. rewrite escape_chain_is_flat_map.
  rewrite <- app_assoc. cbn [app].
  induction s as [|c s IH].
  - cbn [flat_map app mysql_lex_body N.eqb Pos.eqb].
    destruct rest as [|d rest']; [reflexivity|]. cbn in Hr.
    destruct (N.eqb_spec d 39); [contradiction|reflexivity].
  - cbn [flat_map]. rewrite <- app_assoc, mysql_body_esc_char, IH. reflexivity.
Qed.

Theorem mysql_comment_roundtrip s rest : not_starting_with 39 rest ->
  mysql_lex_string (mysql_comment_lit s ++ rest) = Some (s, rest).
Proof. exact (mysql_string_roundtrip s rest). Qed.

Theorem mysql_enum_label_roundtrip s rest : not_starting_with 39 rest ->
  mysql_lex_string (mysql_enum_label s ++ rest) = Some (s, rest).
Proof. exact (mysql_string_roundtrip s rest). Qed.

(* ---------------- Postgres ---------------- *)
Lemma esc_char_no_backslash_iff c : has_backslash (esc_char c) = false -> esc_char c = [c] /\ c <> 39.
Proof.
  unfold esc_char.
  repeat match goal with
  | |- context [N.eqb c ?k] => destruct (N.eqb_spec c k) as [->|?]; [cbn; discriminate|]
  end.
  intros _. split; [reflexivity|assumption].
Qed.

Lemma has_backslash_app a b : has_backslash (a ++ b) = has_backslash a || has_backslash b.
Proof. unfold has_backslash. apply existsb_app. Qed.

(* no backslash in the escaped text: every char was left alone and none is a quote *)
Lemma pg_std_body s rest : has_backslash (flat_map esc_char s) = false ->
  not_starting_with 39 rest ->
  lex_doubling 39 (flat_map esc_char s ++ 39 :: rest) = Some (s, rest).
Proof.
  intros Hb Hr. induction s as [|c s IH].
  - cbn [flat_map app lex_doubling N.eqb Pos.eqb].
    destruct rest as [|d rest']; [reflexivity|]. cbn in Hr.
    destruct (N.eqb_spec d 39); [contradiction|reflexivity].
  - cbn [flat_map] in *. rewrite has_backslash_app in Hb. apply orb_false_iff in Hb as [H1 H2].
    destruct (esc_char_no_backslash_iff c H1) as [-> Hq].
    cbn [app lex_doubling]. destruct (N.eqb_spec c 39); [contradiction|].
    rewrite (IH H2). reflexivity.
Qed.

Lemma pg_e_body_esc_char c more : c <> 0 ->
  pg_e_body PNorm (esc_char c ++ more) = push c (pg_e_body PNorm more).
Proof.
  intros Hz. unfold esc_char.
  repeat match goal with
  | |- context [N.eqb c ?k] => destruct (N.eqb_spec c k) as [->|?]; [try reflexivity; try contradiction|]
  end.
  cbn [app pg_e_body]. unfold pg_norm_step.
  destruct (N.eqb_spec c 92); [contradiction|]. destruct (N.eqb_spec c 39); [contradiction|].
  reflexivity.
Qed.

Lemma pg_e_body_roundtrip s rest : no_nul s -> not_starting_with 39 rest ->
  pg_e_body PNorm (flat_map esc_char s ++ 39 :: rest) = Some (s, rest).
Proof.
  intros Hn Hr. induction Hn as [|c s Hc Hs IH].
  - cbn [flat_map app pg_e_body pg_norm_step N.eqb Pos.eqb emit].
    destruct rest as [|d rest']; [reflexivity|]. cbn in Hr. cbn [pg_e_body].
    destruct (N.eqb_spec d 39); [contradiction|reflexivity].
  - cbn [flat_map]. rewrite <- app_assoc, pg_e_body_esc_char by assumption. rewrite IH. reflexivity.
Qed.

Theorem pg_string_roundtrip s rest : no_nul s -> not_starting_with 39 rest ->
  pg_lex_string (write_string_quoted Postgres s ++ rest) = Some (s, rest).
Proof.
  intros Hn Hr. unfold write_string_quoted. cbn [escape_string]. rewrite escape_chain_is_flat_map.
  destruct (has_backslash (flat_map esc_char s)) eqn:Hb.
  - unfold pg_lex_string. cbn [app N.eqb Pos.eqb orb]. rewrite <- app_assoc. cbn [app].
    now apply pg_e_body_roundtrip.
  - unfold pg_lex_string. cbn [app N.eqb Pos.eqb]. rewrite <- app_assoc. cbn [app].
    now apply pg_std_body.
Qed.

(* what Postgres does with the NUL escape the code writes: E'\0' decodes to the NUL character,
   which the server rejects; recorded so that the no_nul guard is not silent *)
Example pg_nul_is_octal_escape : pg_lex_string (write_string_quoted Postgres [0] ++ []) = Some ([0], []).
Proof. reflexivity. Qed.
(* ... and a digit following it would be swallowed by the octal escape *)
Example pg_nul_then_digit_is_wrong :
  pg_lex_string (write_string_quoted Postgres [0; 49; 50] ++ []) = Some ([10], []).
Proof. reflexivity. Qed.

(* ---------------- all backends at once ---------------- *)
Definition lex_string (b : backend) : str -> option (str * str) :=
  match b with MySQL => mysql_lex_string | Postgres => pg_lex_string | SQLite => sqlite_lex_string end.
Definition nul_ok (b : backend) (s : str) : Prop :=
  match b with MySQL => True | _ => no_nul s end.

Theorem string_literal_roundtrip b s rest : nul_ok b s -> not_starting_with 39 rest ->
  lex_string b (write_string_quoted b s ++ rest) = Some (s, rest).
Proof.
  destruct b; cbn [nul_ok lex_string]; intros Hn Hr.
  - now apply mysql_string_roundtrip.
  - now apply pg_string_roundtrip.
  - now apply sqlite_string_roundtrip.
Qed.

Theorem char_literal_roundtrip b c rest : nul_ok b [c] -> not_starting_with 39 rest ->
  lex_string b (write_char_quoted b c ++ rest) = Some ([c], rest).
Proof. apply string_literal_roundtrip. Qed.

(* ---------------- bytes ---------------- *)
Definition is_bytes (bs : list N) : Prop := Forall (fun x => x < 256) bs.

Lemma hex_val_digit_upper d : d < 16 -> hex_val (hex_digit_upper d) = Some d.
Proof.
  intros H. assert (E : In d [0;1;2;3;4;5;6;7;8;9;10;11;12;13;14;15]).
  { cbn. lia. }
  cbn in E. repeat (destruct E as [<-|E]; [reflexivity|]). contradiction.
Qed.

Lemma hex_pairs_roundtrip bs : is_bytes bs -> hex_pairs (flat_map hex_byte_upper bs) = Some bs.
Proof.
  induction 1 as [|x bs Hx Hb IH]; [reflexivity|].
  cbn [flat_map hex_byte_upper app hex_pairs].
  rewrite !hex_val_digit_upper, IH.
  - f_equal. f_equal. pose proof (N.div_mod x 16). lia.
  - apply N.mod_lt. lia.
  - apply N.div_lt_upper_bound; lia.
Qed.

Lemma hex_digit_not_quote d : d < 16 -> hex_digit_upper d <> 39.
Proof. unfold hex_digit_upper. destruct (d <? 10); lia. Qed.

Lemma span_hex bs rest : is_bytes bs ->
  span (fun c => negb (c =? 39)) (flat_map hex_byte_upper bs ++ 39 :: rest)
  = (flat_map hex_byte_upper bs, 39 :: rest).
Proof.
  induction 1 as [|x bs Hx Hb IH]; [reflexivity|].
  cbn [flat_map hex_byte_upper app span].
  assert (H1 : hex_digit_upper (x / 16) <> 39) by (apply hex_digit_not_quote, N.div_lt_upper_bound; lia).
  assert (H2 : hex_digit_upper (x mod 16) <> 39) by (apply hex_digit_not_quote, N.mod_lt; lia).
  destruct (N.eqb_spec (hex_digit_upper (x / 16)) 39); [contradiction|].
  destruct (N.eqb_spec (hex_digit_upper (x mod 16)) 39); [contradiction|].
  cbn [negb]. rewrite IH. reflexivity.
Qed.

Theorem hex_literal_roundtrip b bs rest : b <> Postgres -> is_bytes bs ->
  lex_hex_literal (write_bytes b bs ++ rest) = Some (bs, rest).
Proof.
  intros Hb Hbs. assert (E : write_bytes b bs = 120 :: 39 :: flat_map hex_byte_upper bs ++ [39]).
  { destruct b; [reflexivity|contradiction|reflexivity]. }
  rewrite E. unfold lex_hex_literal. cbn [app N.eqb Pos.eqb orb andb].
  rewrite <- app_assoc. cbn [app]. rewrite (span_hex bs rest Hbs).
  rewrite (hex_pairs_roundtrip bs Hbs). reflexivity.
Qed.

Lemma lex_doubling_hex bs rest : is_bytes bs -> not_starting_with 39 rest ->
  lex_doubling 39 (flat_map hex_byte_upper bs ++ 39 :: rest) = Some (flat_map hex_byte_upper bs, rest).
Proof.
  intros Hbs Hr. induction Hbs as [|x bs Hx Hb IH].
  - cbn [flat_map app lex_doubling N.eqb Pos.eqb].
    destruct rest as [|d rest']; [reflexivity|]. cbn in Hr.
    destruct (N.eqb_spec d 39); [contradiction|reflexivity].
  - cbn [flat_map hex_byte_upper app lex_doubling].
    assert (H1 : hex_digit_upper (x / 16) <> 39) by (apply hex_digit_not_quote, N.div_lt_upper_bound; lia).
    assert (H2 : hex_digit_upper (x mod 16) <> 39) by (apply hex_digit_not_quote, N.mod_lt; lia).
    destruct (N.eqb_spec (hex_digit_upper (x / 16)) 39); [contradiction|].
    destruct (N.eqb_spec (hex_digit_upper (x mod 16)) 39); [contradiction|].
    rewrite IH. reflexivity.
Qed.

Theorem pg_bytea_roundtrip bs rest : is_bytes bs -> not_starting_with 39 rest ->
  pg_lex_bytea (write_bytes Postgres bs ++ rest) = Some (bs, rest).
Proof.
  intros Hbs Hr. unfold pg_lex_bytea, write_bytes, pg_lex_string. cbn [app N.eqb Pos.eqb].
  change (lex_doubling 39 (92 :: 120 :: (flat_map hex_byte_upper bs ++ [39]) ++ rest))
    with (push 92 (push 120 (lex_doubling 39 ((flat_map hex_byte_upper bs ++ [39]) ++ rest)))).
  rewrite <- app_assoc. cbn [app]. rewrite (lex_doubling_hex bs rest Hbs Hr).
  cbn [push pg_bytea_in N.eqb Pos.eqb andb]. rewrite (hex_pairs_roundtrip bs Hbs). reflexivity.
Qed.

Definition lex_bytes (b : backend) : str -> option (list N * str) :=
  match b with Postgres => pg_lex_bytea | _ => lex_hex_literal end.

Theorem bytes_literal_roundtrip b bs rest : is_bytes bs -> not_starting_with 39 rest ->
  lex_bytes b (write_bytes b bs ++ rest) = Some (bs, rest).
Proof.
  intros Hbs Hr. destruct b; cbn [lex_bytes].
  - apply hex_literal_roundtrip; [discriminate|assumption].
  - now apply pg_bytea_roundtrip.
  - apply hex_literal_roundtrip; [discriminate|assumption].
Qed.

(* non-vacuity / sanity *)
Example pg_backslash_example :
  write_string_quoted Postgres [97; 92; 39] = [69; 39; 97; 92; 92; 92; 39; 39].
Proof. reflexivity. Qed.
Example mysql_z_example : mysql_lex_string [39; 92; 122; 39] = Some ([122], []).
Proof. reflexivity. Qed.
