(* The engine lexer (Spec/EngTok.v) is compositional at safe seams (Spec/EngBoundary.v):
   if s1 and x each lex alone and the last token of s1 may be followed by the first character of x,
   then s1 ++ x lexes to the concatenation of the two token lists.  Everything here is about the
   engine-side specification only. *)
Require Import SQV.Model.Str SQV.Model.Escape SQV.Spec.EngLex SQV.Spec.EngTok SQV.Spec.EngBoundary.
From Coq Require Import Lia.

Definition starts_not (p : N -> bool) (x : str) : Prop :=
  match x with [] => True | f :: _ => p f = false end.

(* ---------- span ---------- *)
Lemma span_ext p s : forall a r x, span p s = (a, r) ->
  (r = [] -> starts_not p x) -> span p (s ++ x) = (a, r ++ x).
Proof.
  induction s as [|c s IH]; intros a r x H Hx.
  - cbn in H. injection H as <- <-. cbn [app]. destruct x as [|f x]; [reflexivity|].
    cbn [span]. cbn in Hx. rewrite (Hx eq_refl). reflexivity.
  - cbn [app span] in H |- *. destruct (p c) eqn:Ec.
    + destruct (span p s) as [a' r'] eqn:Es. injection H as <- <-.
      rewrite (IH a' r' x eq_refl Hx). reflexivity.
    + injection H as <- <-. reflexivity.
Qed.

Lemma span_length p s : (length (snd (span p s)) <= length s)%nat.
Proof.
  induction s as [|c s IH]; [cbn; lia|]. cbn [span]. destruct (p c); [|cbn; lia].
  destruct (span p s) as [a r]. cbn [snd length] in *. lia.
Qed.

Lemma span_all p w x : forallb p w = true ->
  span p (w ++ x) = (w ++ fst (span p x), snd (span p x)).
Proof.
  induction w as [|c w IH]; intros H; cbn [app].
  - destruct (span p x); reflexivity.
  - cbn [forallb] in H. apply andb_prop in H as [Hc Hw]. cbn [span]. rewrite Hc, (IH Hw).
    reflexivity.
Qed.

Lemma span_fst_all p s : forallb p (fst (span p s)) = true.
Proof.
  induction s as [|c s IH]; [reflexivity|]. cbn [span]. destruct (p c) eqn:E; [|reflexivity].
  destruct (span p s) as [a r]. cbn [fst forallb] in *. now rewrite E, IH.
Qed.

Lemma span_snd_head p s : starts_not p (snd (span p s)).
Proof.
  induction s as [|c s IH]; [exact I|]. cbn [span]. destruct (p c) eqn:E.
  - destruct (span p s) as [a r]. exact IH.
  - cbn. exact E.
Qed.

(* ---------- quote-doubling bodies ---------- *)
Lemma push_some {A} c (r : option (str * A)) v x :
  push c r = Some (v, x) -> exists v', r = Some (v', x) /\ v = c :: v'.
Proof. destruct r as [[o y]|]; cbn; intros H; [|discriminate]. injection H as <- <-. eauto. Qed.

Lemma lex_doubling_ext_n q n : forall s, (length s <= n)%nat -> forall v r x,
  lex_doubling q s = Some (v, r) -> (r = [] -> starts_not (fun f => f =? q) x) ->
  lex_doubling q (s ++ x) = Some (v, r ++ x).
Proof.
  induction n as [|n IH]; intros s Hn v r x H Hx.
  - destruct s; [discriminate H|cbn in Hn; lia].
  - destruct s as [|c t]; [discriminate H|]. cbn [app lex_doubling] in H |- *.
    destruct (c =? q) eqn:Ec.
    + destruct t as [|d t'].
      * injection H as <- <-. cbn [app]. destruct x as [|f x]; [reflexivity|].
        cbn in Hx. rewrite (Hx eq_refl). reflexivity.
      * cbn [app]. destruct (d =? q) eqn:Ed.
        -- apply push_some in H as (v' & H & ->).
           rewrite (IH t' ltac:(cbn in Hn; lia) v' r x H Hx). reflexivity.
        -- injection H as <- <-. reflexivity.
    + apply push_some in H as (v' & H & ->).
      rewrite (IH t ltac:(cbn in Hn; lia) v' r x H Hx). reflexivity.
Qed.
Lemma lex_doubling_ext q s v r x :
  lex_doubling q s = Some (v, r) -> (r = [] -> starts_not (fun f => f =? q) x) ->
  lex_doubling q (s ++ x) = Some (v, r ++ x).
Proof. apply (lex_doubling_ext_n q (length s)); lia. Qed.

(* ---------- MySQL bodies ---------- *)
Lemma mysql_body_ext_n n : forall s, (length s <= n)%nat -> forall esc v r x,
  mysql_lex_body esc s = Some (v, r) -> (r = [] -> starts_not (fun f => f =? 39) x) ->
  mysql_lex_body esc (s ++ x) = Some (v, r ++ x).
Proof.
  induction n as [|n IH]; intros s Hn esc v r x H Hx.
  - destruct s; [destruct esc; discriminate H|cbn in Hn; lia].
  - destruct s as [|c t]; [destruct esc; discriminate H|]. cbn [app mysql_lex_body] in H |- *.
    assert (Ht : (length t <= n)%nat) by (cbn in Hn; lia).
    destruct esc.
    + destruct (mysql_lex_body false t) as [[o r0]|] eqn:E; [|discriminate H].
      injection H as <- <-. rewrite (IH t Ht false o r0 x E Hx). reflexivity.
    + destruct (c =? 92) eqn:E92; [exact (IH t Ht true v r x H Hx)|].
      destruct (c =? 39) eqn:E39.
      * destruct t as [|d t'].
        -- injection H as <- <-. cbn [app]. destruct x as [|f x]; [reflexivity|].
           cbn in Hx. rewrite (Hx eq_refl). reflexivity.
        -- cbn [app]. destruct (d =? 39) eqn:Ed.
           ++ apply push_some in H as (v' & H & ->).
              rewrite (IH t' ltac:(cbn in Ht; lia) false v' r x H Hx). reflexivity.
           ++ injection H as <- <-. reflexivity.
      * apply push_some in H as (v' & H & ->). rewrite (IH t Ht false v' r x H Hx). reflexivity.
Qed.
Lemma mysql_body_ext s esc v r x :
  mysql_lex_body esc s = Some (v, r) -> (r = [] -> starts_not (fun f => f =? 39) x) ->
  mysql_lex_body esc (s ++ x) = Some (v, r ++ x).
Proof. apply (mysql_body_ext_n (length s)); lia. Qed.

Lemma mysql_body_q_ext_n q n : forall s, (length s <= n)%nat -> forall esc v r x,
  mysql_lex_body_q q esc s = Some (v, r) -> (r = [] -> starts_not (fun f => f =? q) x) ->
  mysql_lex_body_q q esc (s ++ x) = Some (v, r ++ x).
Proof.
  induction n as [|n IH]; intros s Hn esc v r x H Hx.
  - destruct s; [destruct esc; discriminate H|cbn in Hn; lia].
  - destruct s as [|c t]; [destruct esc; discriminate H|]. cbn [app mysql_lex_body_q] in H |- *.
    assert (Ht : (length t <= n)%nat) by (cbn in Hn; lia).
    destruct esc.
    + destruct (mysql_lex_body_q q false t) as [[o r0]|] eqn:E; [|discriminate H].
      injection H as <- <-. rewrite (IH t Ht false o r0 x E Hx). reflexivity.
    + destruct (c =? 92) eqn:E92; [exact (IH t Ht true v r x H Hx)|].
      destruct (c =? q) eqn:Eq.
      * destruct t as [|d t'].
        -- injection H as <- <-. cbn [app]. destruct x as [|f x]; [reflexivity|].
           cbn in Hx. rewrite (Hx eq_refl). reflexivity.
        -- cbn [app]. destruct (d =? q) eqn:Ed.
           ++ apply push_some in H as (v' & H & ->).
              rewrite (IH t' ltac:(cbn in Ht; lia) false v' r x H Hx). reflexivity.
           ++ injection H as <- <-. reflexivity.
      * apply push_some in H as (v' & H & ->). rewrite (IH t Ht false v' r x H Hx). reflexivity.
Qed.
Lemma mysql_body_q_ext q s esc v r x :
  mysql_lex_body_q q esc s = Some (v, r) -> (r = [] -> starts_not (fun f => f =? q) x) ->
  mysql_lex_body_q q esc (s ++ x) = Some (v, r ++ x).
Proof. apply (mysql_body_q_ext_n q (length s)); lia. Qed.

(* ---------- Postgres E'..' bodies ---------- *)
Lemma emit_some o (r0 : option (str * str)) v x :
  emit o r0 = Some (v, x) -> exists v', r0 = Some (v', x) /\ emit o (Some (v', x)) = Some (v, x).
Proof.
  destruct o as [c|]; cbn [emit].
  - intros H. apply push_some in H as (v' & -> & ->). eexists; split; reflexivity.
  - intros ->. eexists; split; reflexivity.
Qed.

Lemma pg_e_body_ext s : forall st v r x,
  pg_e_body st s = Some (v, r) -> (r = [] -> starts_not (fun f => f =? 39) x) ->
  pg_e_body st (s ++ x) = Some (v, r ++ x).
Proof.
  induction s as [|c t IH]; intros st v r x H Hx.
  - cbn [pg_e_body] in H. destruct st; try discriminate H. injection H as <- <-. cbn [app].
    destruct x as [|f x]; [reflexivity|]. cbn in Hx. cbn [pg_e_body]. rewrite (Hx eq_refl). reflexivity.
  - cbn [app].
    assert (P : forall a st', push a (pg_e_body st' t) = Some (v, r) ->
                push a (pg_e_body st' (t ++ x)) = Some (v, r ++ x)).
    { intros a st' H'. apply push_some in H' as (v' & H' & ->). now rewrite (IH st' v' r x H' Hx). }
    assert (E : forall o st', emit o (pg_e_body st' t) = Some (v, r) ->
                emit o (pg_e_body st' (t ++ x)) = Some (v, r ++ x)).
    { intros o st' H'. destruct o as [a|]; cbn [emit] in *; [now apply P|exact (IH st' v r x H' Hx)]. }
    assert (PE : forall a o st', push a (emit o (pg_e_body st' t)) = Some (v, r) ->
                push a (emit o (pg_e_body st' (t ++ x))) = Some (v, r ++ x)).
    { intros a o st' H'. apply push_some in H' as (v' & H' & ->).
      destruct o as [a'|]; cbn [emit] in *.
      - apply push_some in H' as (v'' & H' & ->). now rewrite (IH st' v'' r x H' Hx).
      - now rewrite (IH st' v' r x H' Hx). }
    destruct st; cbn [pg_e_body] in H |- *.
    + destruct (pg_norm_step c) as [o st']. now apply E.
    + repeat match goal with
      | H : (if ?b then _ else _) = Some _ |- _ => destruct b
      end; try (now apply P); try (exact (IH _ v r x H Hx)).
      destruct (oct_val c); [exact (IH _ v r x H Hx)|now apply P].
    + destruct k as [|k']; destruct (oct_val c) as [d|];
        try (destruct (pg_norm_step c) as [o st']; now apply PE); exact (IH _ v r x H Hx).
    + destruct k as [|k']; destruct (hex_val c) as [d|];
        try (destruct (pg_norm_step c) as [o st']; now apply PE); exact (IH _ v r x H Hx).
    + destruct k as [|k'].
      * destruct (pg_norm_step c) as [o st']. now apply PE.
      * destruct (hex_val c) as [d|]; [exact (IH _ v r x H Hx)|discriminate H].
    + destruct (c =? 39); [now apply P|]. injection H as <- <-. reflexivity.
Qed.

(* ---------- numbers ---------- *)
Definition frac (r1 : str) : str * str :=
  match r1 with
  | d :: t => if d =? 46 then let (f, r) := span is_digit t in (46 :: f, r) else ([], r1)
  | [] => ([], r1)
  end.
Definition expo (r2 : str) : str * str :=
  match r2 with
  | e :: t =>
      if (e =? 101) || (e =? 69) then
        match t with
        | sg :: t' =>
            if (sg =? 43) || (sg =? 45) then
              let (ds, r) := span is_digit t' in
              if is_nil ds then ([], r2) else (e :: sg :: ds, r)
            else
              let (ds, r) := span is_digit t in
              if is_nil ds then ([], r2) else (e :: ds, r)
        | [] => ([], r2)
        end
      else ([], r2)
  | [] => ([], r2)
  end.
Lemma lex_number_eq s : lex_number s =
  let (ip, r1) := span is_digit s in let (fp, r2) := frac r1 in let (ep, r3) := expo r2 in
  (ip ++ fp ++ ep, r3).
Proof. reflexivity. Qed.

Lemma word_not_digit f : is_word_char f = false -> is_digit f = false.
Proof. unfold is_word_char. intros H. apply orb_false_iff in H as [H _]. apply orb_false_iff in H as [_ H]. exact H. Qed.
Lemma word_not_e f : is_word_char f = false -> (f =? 101) || (f =? 69) = false.
Proof.
  intros H. destruct (N.eqb_spec f 101) as [->|]; [discriminate H|].
  destruct (N.eqb_spec f 69) as [->|]; [discriminate H|]. reflexivity.
Qed.

Lemma expo_ext r2 ep r3 x : r2 <> [] -> expo r2 = (ep, r3) -> starts_with_word_char r3 = false ->
  (r3 = [] -> starts_not is_digit x) -> expo (r2 ++ x) = (ep, r3 ++ x).
Proof.
  intros Hne H Hw Hx. destruct r2 as [|e t]; [contradiction|]. cbn [app]. unfold expo in *.
  destruct ((e =? 101) || (e =? 69)) eqn:Ee.
  - assert (Hwe : is_word_char e = true).
    { apply orb_prop in Ee as [Ee|Ee]; apply N.eqb_eq in Ee; subst e; reflexivity. }
    destruct t as [|sg t'].
    + injection H as <- <-. cbn in Hw. rewrite Hwe in Hw. discriminate Hw.
    + cbn [app]. destruct ((sg =? 43) || (sg =? 45)).
      * destruct (span is_digit t') as [ds r] eqn:Es. destruct (is_nil ds) eqn:En.
        -- injection H as <- <-. cbn in Hw. rewrite Hwe in Hw. discriminate Hw.
        -- injection H as <- <-. rewrite (span_ext _ _ _ _ x Es Hx), En. reflexivity.
      * destruct (span is_digit (sg :: t')) as [ds r] eqn:Es. destruct (is_nil ds) eqn:En.
        -- injection H as <- <-. cbn in Hw. rewrite Hwe in Hw. discriminate Hw.
        -- injection H as <- <-. change (sg :: t' ++ x) with ((sg :: t') ++ x).
           rewrite (span_ext _ _ _ _ x Es Hx), En. reflexivity.
  - injection H as <- <-. reflexivity.
Qed.

Lemma expo_nil_follow x : starts_not is_word_char x -> expo x = ([], x).
Proof.
  destruct x as [|f x]; [reflexivity|]. cbn. intros H. unfold expo. now rewrite (word_not_e f H).
Qed.

Lemma lex_number_ext s n r x : lex_number s = (n, r) -> starts_with_word_char r = false ->
  (r = [] -> starts_not is_word_char x /\ starts_not (fun f => f =? 46) x) ->
  lex_number (s ++ x) = (n, r ++ x).
Proof.
  rewrite !lex_number_eq. intros H Hw Hx.
  assert (Hd : r = [] -> starts_not is_digit x).
  { intros Hr. destruct (Hx Hr) as [H1 _]. destruct x as [|f x]; [exact I|]. cbn in *. now apply word_not_digit. }
  destruct (span is_digit s) as [ip r1] eqn:E1.
  destruct r1 as [|d t1].
  - (* the integer part reaches the end *)
    cbn [frac expo] in H. injection H as <- <-. destruct (Hx eq_refl) as [Hxw Hxd].
    rewrite (span_ext _ _ _ _ x E1 (fun _ => Hd eq_refl)). cbn [app].
    destruct x as [|f x]; [reflexivity|]. cbn in Hxw, Hxd. cbn [frac]. rewrite Hxd.
    rewrite (expo_nil_follow (f :: x) Hxw). reflexivity.
  - rewrite (span_ext _ _ _ _ x E1 ltac:(discriminate)). cbn [app frac] in H |- *.
    destruct (d =? 46) eqn:Ed.
    + destruct (span is_digit t1) as [f r2] eqn:E2. destruct r2 as [|e t2].
      * cbn [expo] in H. injection H as <- <-. destruct (Hx eq_refl) as [Hxw Hxd].
        rewrite (span_ext _ _ _ _ x E2 (fun _ => Hd eq_refl)). cbn [app].
        rewrite (expo_nil_follow x Hxw). reflexivity.
      * rewrite (span_ext _ _ _ _ x E2 ltac:(discriminate)).
        destruct (expo (e :: t2)) as [ep r3] eqn:E3. injection H as <- <-.
        rewrite (expo_ext (e :: t2) ep r3 x ltac:(discriminate) E3 Hw Hd). reflexivity.
    + destruct (expo (d :: t1)) as [ep r3] eqn:E3. injection H as <- <-.
      change (d :: t1 ++ x) with ((d :: t1) ++ x).
      rewrite (expo_ext (d :: t1) ep r3 x ltac:(discriminate) E3 Hw Hd). reflexivity.
Qed.

(* ---------- whole literal lexers ---------- *)
Lemma quote_ne f c : is_quote f = false -> is_quote c = true -> (f =? c) = false.
Proof.
  intros Hf Hc. destruct (N.eqb_spec f c) as [->|]; [|reflexivity]. rewrite Hc in Hf. discriminate.
Qed.

Lemma lex_quoted_with_ext q s v r x : lex_quoted_with q s = Some (v, r) ->
  (r = [] -> starts_not (fun f => f =? q) x) -> lex_quoted_with q (s ++ x) = Some (v, r ++ x).
Proof.
  destruct s as [|c t]; [discriminate|]. cbn [app lex_quoted_with]. destruct (c =? q); [|discriminate].
  apply lex_doubling_ext.
Qed.

Lemma mysql_lex_string_ext s v r x : mysql_lex_string s = Some (v, r) ->
  (r = [] -> starts_not (fun f => f =? 39) x) -> mysql_lex_string (s ++ x) = Some (v, r ++ x).
Proof.
  destruct s as [|c t]; [discriminate|]. cbn [app mysql_lex_string]. destruct (c =? 39); [|discriminate].
  apply mysql_body_ext.
Qed.

Lemma pg_lex_string_ext s v r x : pg_lex_string s = Some (v, r) ->
  (r = [] -> starts_not (fun f => f =? 39) x) -> pg_lex_string (s ++ x) = Some (v, r ++ x).
Proof.
  destruct s as [|c t]; [discriminate|]. cbn [app pg_lex_string]. destruct (c =? 39); [apply lex_doubling_ext|].
  destruct ((c =? 69) || (c =? 101)); [|discriminate].
  destruct t as [|q t']; [discriminate|]. cbn [app]. destruct (q =? 39); [|discriminate].
  apply pg_e_body_ext.
Qed.

Lemma lex_hex_literal_ext s v r x : lex_hex_literal s = Some (v, r) ->
  lex_hex_literal (s ++ x) = Some (v, r ++ x).
Proof.
  destruct s as [|c [|q t]]; try discriminate. cbn [app lex_hex_literal].
  destruct (((c =? 120) || (c =? 88)) && (q =? 39)); [|discriminate].
  destruct (span (fun c0 => negb (c0 =? 39)) t) as [body r0] eqn:Es.
  destruct r0 as [|z rest]; [discriminate|]. intros H.
  rewrite (span_ext _ _ _ _ x Es ltac:(discriminate)). cbn [app].
  destruct (hex_pairs body); [|discriminate]. injection H as <- <-. reflexivity.
Qed.

(* ---------- one token ---------- *)
Lemma is_quote_quote_of b : is_quote (quote_of b) = true.
Proof. destruct b; reflexivity. Qed.

Lemma word_start_char c : is_word_start c = true -> is_word_char c = true.
Proof. intros H. unfold is_word_char. now rewrite H. Qed.
Lemma digit_char c : is_digit c = true -> is_word_char c = true.
Proof. intros H. unfold is_word_char. rewrite H. now rewrite orb_true_r. Qed.

Lemma swc_app r f x : (r = [] -> is_word_char f = false) ->
  starts_with_word_char (r ++ f :: x) = starts_with_word_char r.
Proof. destruct r as [|c r]; [|reflexivity]. intros H. cbn. now rewrite (H eq_refl). Qed.

Lemma next_etok_ext_2 b c q s'' t r f x :
  next_etok b (c :: q :: s'') = Some (t, r) ->
  (r = [] -> follow_char_ok t f = true) ->
  next_etok b ((c :: q :: s'') ++ f :: x) = Some (t, r ++ f :: x).
Proof.
  intros H Hx. cbn [app]. unfold next_etok in H |- *. cbv beta iota in H |- *.
  change (c :: q :: s'' ++ f :: x) with ((c :: q :: s'') ++ (f :: x)).
  change (q :: s'' ++ f :: x) with ((q :: s'') ++ (f :: x)).
  set (S := c :: q :: s'') in *. set (T := q :: s'') in *.
  destruct (c =? quote_of b) eqn:E1.
  { destruct (lex_quoted_with c S) as [[n r0]|] eqn:E; [|discriminate H].
    injection H as <- <-. rewrite (lex_quoted_with_ext _ _ _ _ (f :: x) E); [reflexivity|].
    intros Hr. specialize (Hx Hr). cbn in Hx |- *. apply negb_true_iff in Hx.
    apply N.eqb_eq in E1. subst c. apply quote_ne; [exact Hx|apply is_quote_quote_of]. }
  assert (Q39 : forall v, (r = [] -> follow_char_ok (TkStr v) f = true) -> r = [] ->
                starts_not (fun f0 => f0 =? 39) (f :: x)).
  { intros v Hv Hr. specialize (Hv Hr). cbn in Hv |- *. apply negb_true_iff in Hv.
    now apply quote_ne. }
  destruct (c =? 39) eqn:E2.
  { destruct b.
    - destruct (mysql_lex_string S) as [[v r0]|] eqn:E; [|discriminate H]. injection H as <- <-.
      rewrite (mysql_lex_string_ext _ _ _ (f :: x) E (Q39 v Hx)). reflexivity.
    - destruct (pg_lex_string S) as [[v r0]|] eqn:E; [|discriminate H]. injection H as <- <-.
      rewrite (pg_lex_string_ext _ _ _ (f :: x) E (Q39 v Hx)). reflexivity.
    - destruct (sqlite_lex_string S) as [[v r0]|] eqn:E; [|discriminate H]. injection H as <- <-.
      unfold sqlite_lex_string in *.
      rewrite (lex_quoted_with_ext _ _ _ _ (f :: x) E (Q39 v Hx)). reflexivity. }
  destruct (c =? 34) eqn:E3.
  { destruct (mysql_lex_body_q 34 false T) as [[v r0]|] eqn:E; [|discriminate H]. injection H as <- <-.
    rewrite (mysql_body_q_ext _ _ _ _ _ (f :: x) E); [reflexivity|].
    intros Hr. specialize (Hx Hr). cbn in Hx |- *. apply negb_true_iff in Hx. now apply quote_ne. }
  destruct (c =? 96) eqn:E4; [discriminate H|].
  destruct (((c =? 120) || (c =? 88)) && (q =? 39)) eqn:E5.
  { destruct b; try discriminate H;
      (destruct (lex_hex_literal S) as [[v r0]|] eqn:E; [|discriminate H]; injection H as <- <-;
       rewrite (lex_hex_literal_ext _ _ _ (f :: x) E); reflexivity). }
  destruct (((c =? 69) || (c =? 101)) && (q =? 39)) eqn:E6.
  { destruct b; try discriminate H.
    destruct (pg_lex_string S) as [[v r0]|] eqn:E; [|discriminate H]. injection H as <- <-.
    rewrite (pg_lex_string_ext _ _ _ (f :: x) E (Q39 v Hx)). reflexivity. }
  destruct (is_word_start c) eqn:E7.
  { destruct (span is_word_char S) as [w r0] eqn:E. injection H as <- <-.
    rewrite (span_ext _ _ _ _ (f :: x) E); [reflexivity|].
    intros Hr. specialize (Hx Hr). cbn in Hx |- *. apply andb_prop in Hx as [Hx _].
    now apply negb_true_iff in Hx. }
  destruct (is_digit c || (c =? 46) && is_digit q) eqn:E8.
  { destruct (lex_number S) as [n r0] eqn:E. destruct (starts_with_word_char r0) eqn:Ew; [discriminate H|].
    injection H as <- <-.
    assert (Hf : r0 = [] -> is_word_char f = false /\ (f =? 46) = false).
    { intros Hr. specialize (Hx Hr). cbn in Hx. apply andb_prop in Hx as [H1 H2].
      split; now apply negb_true_iff. }
    rewrite (lex_number_ext _ _ _ (f :: x) E Ew).
    - rewrite swc_app, Ew; [reflexivity|]. intros Hr. now destruct (Hf Hr).
    - intros Hr. destruct (Hf Hr). split; assumption. }
  destruct (c =? 63) eqn:E9.
  { destruct b; try discriminate H; injection H as <- <-; reflexivity. }
  destruct (c =? 36) eqn:E10.
  { destruct b; try discriminate H.
    destruct (span is_digit T) as [ds r0] eqn:E. destruct (is_nil ds) eqn:En; [discriminate H|].
    destruct (starts_with_word_char r0) eqn:Ew; [discriminate H|]. injection H as <- <-.
    assert (Hf : r0 = [] -> is_word_char f = false).
    { intros Hr. specialize (Hx Hr). cbn in Hx. now apply negb_true_iff in Hx. }
    rewrite (span_ext _ _ _ _ (f :: x) E).
    - rewrite En, swc_app, Ew; [reflexivity|exact Hf].
    - intros Hr. cbn. apply word_not_digit. now apply Hf. }
  destruct (is_op_char c) eqn:E11.
  { destruct (span is_op_char S) as [o r0] eqn:E. destruct (has_comment_start o) eqn:Ec; [discriminate H|].
    injection H as <- <-. rewrite (span_ext _ _ _ _ (f :: x) E).
    - rewrite Ec. reflexivity.
    - intros Hr. specialize (Hx Hr). cbn in Hx |- *. now apply negb_true_iff in Hx. }
  destruct (is_punct c) eqn:E12; [|discriminate H].
  injection H as <- <-. reflexivity.
Qed.

Lemma next_etok_ext_1 b c t r f x :
  next_etok b [c] = Some (t, r) ->
  (r = [] -> follow_char_ok t f = true) ->
  next_etok b ([c] ++ f :: x) = Some (t, r ++ f :: x).
Proof.
  intros H Hx. cbn [app]. unfold next_etok in H |- *. cbv beta iota in H |- *.
  rewrite !andb_false_r, ?orb_false_r in H.
  destruct (c =? quote_of b) eqn:E1.
  { cbn [lex_quoted_with lex_doubling] in H. destruct (c =? c); discriminate H. }
  destruct (c =? 39) eqn:E2.
  { destruct b; cbn [mysql_lex_string mysql_lex_body pg_lex_string lex_doubling sqlite_lex_string lex_quoted_with] in H;
      rewrite ?E2 in H; discriminate H. }
  destruct (c =? 34) eqn:E3; [discriminate H|].
  destruct (c =? 96) eqn:E4; [discriminate H|].
  destruct (is_word_start c) eqn:E7.
  { cbn [span] in H. rewrite (word_start_char c E7) in H. injection H as <- <-.
    specialize (Hx eq_refl). cbn in Hx. apply andb_prop in Hx as [Hw H39].
    apply negb_true_iff in Hw, H39. rewrite H39, !andb_false_r.
    change (c :: f :: x) with ([c] ++ f :: x).
    rewrite (span_ext is_word_char [c] [c] [] (f :: x)); [reflexivity| |intros _; exact Hw].
    cbn [span]. now rewrite (word_start_char c E7). }
  rewrite ?andb_false_r in H.
  assert (X5 : ((c =? 120) || (c =? 88)) = false).
  { destruct (N.eqb_spec c 120) as [->|]; [discriminate E7|]. destruct (N.eqb_spec c 88) as [->|]; [discriminate E7|]. reflexivity. }
  assert (X6 : ((c =? 69) || (c =? 101)) = false).
  { destruct (N.eqb_spec c 69) as [->|]; [discriminate E7|]. destruct (N.eqb_spec c 101) as [->|]; [discriminate E7|]. reflexivity. }
  rewrite X5, X6. cbn [andb].
  destruct (is_digit c) eqn:E8.
  { cbn [orb]. assert (L : lex_number [c] = ([c], [])).
    { rewrite lex_number_eq. cbn [span]. rewrite E8. reflexivity. }
    rewrite L in H. cbn [starts_with_word_char] in H. injection H as <- <-.
    specialize (Hx eq_refl). cbn in Hx. apply andb_prop in Hx as [Hw H46]. apply negb_true_iff in Hw, H46.
    change (c :: f :: x) with ([c] ++ f :: x).
    rewrite (lex_number_ext [c] [c] [] (f :: x) L eq_refl); [|intros _; split; [exact Hw|exact H46]].
    cbn [app starts_with_word_char]. rewrite Hw. reflexivity. }
  cbn [orb] in H |- *.
  destruct ((c =? 46) && is_digit f) eqn:E8'.
  { exfalso. apply andb_prop in E8' as [Ec Ef]. apply N.eqb_eq in Ec. subst c. cbn in H.
    injection H as <- <-. specialize (Hx eq_refl). cbn in Hx. rewrite Ef in Hx. discriminate Hx. }
  destruct (c =? 63) eqn:E9.
  { destruct b; try discriminate H; injection H as <- <-; reflexivity. }
  destruct (c =? 36) eqn:E10.
  { destruct b; discriminate H. }
  destruct (is_op_char c) eqn:E11.
  { cbn [span] in H. rewrite E11 in H.
    destruct (has_comment_start [c]) eqn:Ec; [discriminate H|]. injection H as <- <-.
    specialize (Hx eq_refl). cbn in Hx. apply negb_true_iff in Hx.
    change (c :: f :: x) with ([c] ++ f :: x).
    rewrite (span_ext is_op_char [c] [c] [] (f :: x)); [rewrite Ec; reflexivity| |intros _; exact Hx].
    cbn [span]. now rewrite E11. }
  destruct (is_punct c) eqn:E12; [|discriminate H].
  injection H as <- <-. reflexivity.
Qed.

Theorem next_etok_ext b s t r x : next_etok b s = Some (t, r) ->
  (r = [] -> follow_ok t x = true) -> next_etok b (s ++ x) = Some (t, r ++ x).
Proof.
  intros H Hx. destruct x as [|f x]; [now rewrite !app_nil_r|].
  destruct s as [|c [|q s'']]; [discriminate H| |].
  - now apply next_etok_ext_1.
  - now apply next_etok_ext_2.
Qed.

(* ---------- the token stream ---------- *)
Lemma span_split_len p s : (length (fst (span p s)) + length (snd (span p s)) = length s)%nat.
Proof.
  induction s as [|c s IH]; [reflexivity|]. cbn [span]. destruct (p c); [|reflexivity].
  destruct (span p s) as [a r]. cbn [fst snd length] in *. lia.
Qed.

Lemma span_cat p s : fst (span p s) ++ snd (span p s) = s.
Proof.
  induction s as [|c s IH]; [reflexivity|]. cbn [span]. destruct (p c); [|reflexivity].
  destruct (span p s) as [a r]. cbn [fst snd app] in *. now rewrite IH.
Qed.

(* a successful run does not depend on the fuel *)
Lemma eng_tokens_fuel_any b f : forall s ts, eng_tokens_fuel f b s = Some ts ->
  forall f', (length s < f')%nat -> eng_tokens_fuel f' b s = Some ts.
Proof.
  induction f as [|f IH]; intros s ts H f' Hf; [discriminate H|].
  destruct f' as [|f']; [lia|]. cbn [eng_tokens_fuel] in H |- *.
  pose proof (span_split_len is_ws s) as Hl.
  destruct (span is_ws s) as [w s'] eqn:Es. cbn [fst snd] in Hl.
  destruct s' as [|c s'']; [exact H|].
  destruct (next_etok b (c :: s'')) as [[t r]|]; [|discriminate H].
  destruct (Nat.ltb (length r) (length (c :: s''))) eqn:El; [|discriminate H].
  destruct (eng_tokens_fuel f b r) as [ts'|] eqn:Er; [|discriminate H].
  apply Nat.ltb_lt in El. rewrite (IH r ts' Er f'); [exact H|lia].
Qed.

Lemma eng_tokens_of_fuel b f s ts : eng_tokens_fuel f b s = Some ts -> eng_tokens b s = Some ts.
Proof. intros H. apply (eng_tokens_fuel_any b f s ts H). lia. Qed.

Lemma eng_tokens_blank b w x : forallb is_ws w = true -> eng_tokens b (w ++ x) = eng_tokens b x.
Proof.
  intros Hw. unfold eng_tokens. rewrite app_length.
  cbn [eng_tokens_fuel]. rewrite (span_all is_ws w x Hw).
  destruct (span is_ws x) as [wx x'] eqn:Ex. cbn [fst snd].
  destruct x' as [|c x'']; [reflexivity|].
  destruct (next_etok b (c :: x'')) as [[t r]|] eqn:En; [|reflexivity].
  destruct (Nat.ltb (length r) (length (c :: x''))) eqn:El; [|reflexivity].
  pose proof (span_split_len is_ws x) as Hl. rewrite Ex in Hl. cbn [fst snd] in Hl.
  apply Nat.ltb_lt in El.
  destruct (eng_tokens_fuel (length x) b r) as [ts'|] eqn:Er.
  - rewrite (eng_tokens_fuel_any b _ r ts' Er); [reflexivity|]. cbn [length] in *. lia.
  - destruct (eng_tokens_fuel (length w + length x) b r) as [ts'|] eqn:Er'; [|reflexivity].
    rewrite (eng_tokens_fuel_any b _ r ts' Er' (length x)) in Er; [discriminate Er|]. cbn [length] in *. lia.
Qed.

(* the seam lemma *)
Lemma eng_tokens_app_fuel b f : forall s1 ts1, eng_tokens_fuel f b s1 = Some ts1 ->
  forall x tsx, eng_tokens b x = Some tsx -> join_ok ts1 x = true ->
  eng_tokens b (s1 ++ x) = Some (ts1 ++ tsx).
Proof.
  induction f as [|f IH]; intros s1 ts1 H x tsx Hxs Hj; [discriminate H|].
  cbn [eng_tokens_fuel] in H.
  pose proof (span_split_len is_ws s1) as Hl. pose proof (span_fst_all is_ws s1) as Hw.
  pose proof (span_cat is_ws s1) as Hs.
  destruct (span is_ws s1) as [w s'] eqn:Es. cbn [fst snd] in *. subst s1.
  destruct s' as [|c s''].
  - injection H as <-. rewrite app_nil_r, (eng_tokens_blank b w x Hw). exact Hxs.
  - destruct (next_etok b (c :: s'')) as [[t r]|] eqn:En; [|discriminate H].
    destruct (Nat.ltb (length r) (length (c :: s''))) eqn:El; [|discriminate H].
    destruct (eng_tokens_fuel f b r) as [ts'|] eqn:Er; [|discriminate H]. injection H as <-.
    rewrite <- app_assoc, (eng_tokens_blank b w _ Hw).
    assert (Hnext : next_etok b ((c :: s'') ++ x) = Some (t, r ++ x)).
    { apply next_etok_ext; [exact En|]. intros Hr. subst r.
      destruct f as [|f0]; [discriminate Er|]. cbn in Er. injection Er as <-. exact Hj. }
    assert (Hrest : eng_tokens b (r ++ x) = Some (ts' ++ tsx)).
    { apply (IH r ts' Er x tsx Hxs). destruct ts' as [|t' ts'']; [reflexivity|].
      cbn [join_ok] in Hj |- *. exact Hj. }
    apply (eng_tokens_of_fuel b (S (S (length (r ++ x))))).
    remember (S (length (r ++ x))) as f1 eqn:Ef1.
    cbn [eng_tokens_fuel]. cbn [app span].
    assert (Hc : is_ws c = false).
    { pose proof (span_snd_head is_ws (w ++ c :: s'')) as Hh. rewrite Es in Hh. exact Hh. }
    rewrite Hc. change (c :: s'' ++ x) with ((c :: s'') ++ x). rewrite Hnext.
    apply Nat.ltb_lt in El.
    replace (Nat.ltb (length (r ++ x)) (length ((c :: s'') ++ x))) with true
      by (symmetry; apply Nat.ltb_lt; rewrite !app_length; lia).
    subst f1. unfold eng_tokens in Hrest. rewrite Hrest. reflexivity.
Qed.

Theorem eng_tokens_app b s1 ts1 x tsx :
  eng_tokens b s1 = Some ts1 -> eng_tokens b x = Some tsx -> join_ok ts1 x = true ->
  eng_tokens b (s1 ++ x) = Some (ts1 ++ tsx).
Proof. intros H. exact (eng_tokens_app_fuel b _ s1 ts1 H x tsx). Qed.

(* ---------- lists of texts ---------- *)
Lemma rstrip_spec s core bl : rstrip s = (core, bl) -> core ++ bl = s /\ forallb is_ws bl = true.
Proof.
  unfold rstrip. pose proof (span_cat is_ws (rev s)) as Hc. pose proof (span_fst_all is_ws (rev s)) as Hw.
  destruct (span is_ws (rev s)) as [b0 c0]. cbn [fst snd] in *. intros H. injection H as <- <-. split.
  - rewrite <- rev_app_distr, Hc. apply rev_involutive.
  - rewrite forallb_forall in *. intros c Hin. apply Hw. now apply in_rev.
Qed.

Lemma eng_tokens_nil b : eng_tokens b [] = Some [].
Proof. reflexivity. Qed.

Theorem lex_texts_sound b texts : forall tss, lex_texts b texts = Some tss ->
  eng_tokens b (concat texts) = Some (concat tss) /\ length tss = length texts.
Proof.
  induction texts as [|s rest IH]; intros tss H.
  - injection H as <-. split; reflexivity.
  - cbn [lex_texts] in H. destruct (rstrip s) as [core bl] eqn:Er.
    destruct (eng_tokens b core) as [ts|] eqn:Ec; [|discriminate H].
    destruct (lex_texts b rest) as [tss'|] eqn:El; [|discriminate H].
    destruct (join_ok ts (bl ++ concat rest)) eqn:Ej; [|discriminate H]. injection H as <-.
    destruct (IH tss' eq_refl) as [IH1 IH2]. destruct (rstrip_spec s core bl Er) as [Hs Hb].
    split; [|cbn [length]; now rewrite IH2].
    cbn [concat]. rewrite <- Hs, <- app_assoc.
    apply eng_tokens_app; [exact Ec| |exact Ej].
    rewrite (eng_tokens_blank b bl _ Hb). exact IH1.
Qed.

(* the token list of the i-th text is the token stream of that text alone *)
Lemma lex_texts_each b texts : forall tss, lex_texts b texts = Some tss ->
  Forall2 (fun s ts => eng_tokens b s = Some ts) texts tss.
Proof.
  induction texts as [|s rest IH]; intros tss H.
  - injection H as <-. constructor.
  - cbn [lex_texts] in H. destruct (rstrip s) as [core bl] eqn:Er.
    destruct (eng_tokens b core) as [ts|] eqn:Ec; [|discriminate H].
    destruct (lex_texts b rest) as [tss'|] eqn:El; [|discriminate H].
    destruct (join_ok ts (bl ++ concat rest)); [|discriminate H]. injection H as <-.
    constructor; [|now apply IH].
    destruct (rstrip_spec s core bl Er) as [Hs Hb]. rewrite <- Hs.
    rewrite <- (app_nil_r ts). apply eng_tokens_app; [exact Ec| |].
    + rewrite <- (app_nil_r bl). rewrite (eng_tokens_blank b bl [] Hb). reflexivity.
    + destruct bl as [|w bl']; [destruct ts; reflexivity|].
      cbn [forallb] in Hb. apply andb_prop in Hb as [Hw _].
      destruct ts as [|t0 ts0]; [reflexivity|]. cbn [join_ok]. cbn [app follow_ok].
      generalize (last (t0 :: ts0) (TkPunct 0)). intros t.
      unfold is_ws in Hw.
      repeat match type of Hw with
      | (_ || _) = true => apply orb_prop in Hw as [Hw|Hw]
      end; apply N.eqb_eq in Hw; subst w; destruct t as [| | | | | | |c]; try reflexivity;
        cbn; destruct (c =? 46); reflexivity.
Qed.
