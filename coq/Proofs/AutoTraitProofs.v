(* Soundness and completeness of the auto-trait checker of Spec/AutoTrait.v, for every graph. *)
From Coq Require Import String List Bool Arith Lia.
Require Import SQV.Spec.AutoTrait.
Import ListNotations.

(* induction principle for the nested type [ty] *)
Section TyInd.
  Variable Q : ty -> Prop.
  Hypothesis HLeaf : forall l, Q (TLeaf l).
  Hypothesis HNode : forall n, Q (TNode n).
  Hypothesis HRc : forall t, Q t -> Q (TRc t).
  Hypothesis HArc : forall t, Q t -> Q (TArc t).
  Hypothesis HOwn : forall c ts, Forall Q ts -> Q (TOwn c ts).
  Hypothesis HCell : forall t, Q t -> Q (TCell t).
  Hypothesis HRef : forall t, Q t -> Q (TRef t).
  Hypothesis HMutRef : forall t, Q t -> Q (TMutRef t).
  Hypothesis HMutex : forall t, Q t -> Q (TMutex t).
  Hypothesis HRwLock : forall t, Q t -> Q (TRwLock t).
  Hypothesis HRawPtr : forall t, Q t -> Q (TRawPtr t).

  Fixpoint ty_ind' (t : ty) : Q t :=
    match t with
    | TLeaf l => HLeaf l
    | TNode n => HNode n
    | TRc a => HRc a (ty_ind' a)
    | TArc a => HArc a (ty_ind' a)
    | TOwn c ts => HOwn c ts ((fix all (l : list ty) : Forall Q l :=
                                 match l with
                                 | [] => Forall_nil Q
                                 | x :: l' => Forall_cons x (ty_ind' x) (all l')
                                 end) ts)
    | TCell a => HCell a (ty_ind' a)
    | TRef a => HRef a (ty_ind' a)
    | TMutRef a => HMutRef a (ty_ind' a)
    | TMutex a => HMutex a (ty_ind' a)
    | TRwLock a => HRwLock a (ty_ind' a)
    | TRawPtr a => HRawPtr a (ty_ind' a)
    end.
End TyInd.

(* the rule set is monotone in the assumption about the crate's own types *)
Lemma sat_mono : forall (P Q : nat -> tr -> Prop),
  (forall n r, P n r -> Q n r) -> forall t r, sat P t r -> sat Q t r.
Proof.
  intros P Q HPQ t.
  induction t as [l|n|t IH|t IH|c ts IH|t IH|t IH|t IH|t IH|t IH|t IH] using ty_ind'; intros r H;
    cbn [sat] in *; auto.
  - destruct H as [H1 H2]; split; auto.
  - induction IH as [|x l Hx Hl IHl]; [exact I|].
    destruct H as [H1 H2]. split; [apply Hx; exact H1 | apply IHl; exact H2].
  - destruct r; auto.
  - destruct r; auto. destruct H as [H1 H2]; split; auto.
Qed.

(* the boolean rule set reflects the propositional one *)
Lemma ok_ty_sat : forall (S : nat -> tr -> bool) t r,
  ok_ty S t r = true <-> sat (fun n q => S n q = true) t r.
Proof.
  intros S t.
  induction t as [l|n|t IH|t IH|c ts IH|t IH|t IH|t IH|t IH|t IH|t IH] using ty_ind'; intros r;
    cbn [sat ok_ty]; try tauto.
  - split; [discriminate | tauto].
  - rewrite andb_true_iff, (IH Send), (IH Sync). tauto.
  - induction IH as [|x l Hx Hl IHl]; [tauto|].
    rewrite andb_true_iff, (Hx r), IHl. tauto.
  - destruct r; [apply IH | split; [discriminate | tauto]].
  - apply IH.
  - apply IH.
  - apply IH.
  - destruct r; [apply IH|]. rewrite andb_true_iff, (IH Send), (IH Sync). tauto.
  - split; [discriminate | tauto].
Qed.

(* ---------------------------------------------------------------------------------------------
   AutoImpl is a fixed point of the rule, and the greatest one.  *)
Lemma step_mono : forall G (P Q : nat -> tr -> Prop),
  (forall n r, P n r -> Q n r) -> forall n r, step G P n r -> step G Q n r.
Proof.
  intros G P Q HPQ n r [Hlt Hf]. split; [exact Hlt|].
  intros f Hin. eapply sat_mono; [exact HPQ | apply Hf; exact Hin].
Qed.

Lemma AutoImpl_invariant : forall G, invariant G (AutoImpl G).
Proof.
  intros G n r [P [Hinv HP]].
  eapply step_mono; [| apply Hinv; exact HP].
  intros m q HPm. exists P. split; assumption.
Qed.

Lemma AutoImpl_greatest : forall G P, invariant G P -> forall n r, P n r -> AutoImpl G n r.
Proof. intros G P Hinv n r HP. exists P. split; assumption. Qed.

Lemma AutoImpl_unfold : forall G n r, AutoImpl G n r <-> step G (AutoImpl G) n r.
Proof.
  intros G n r. split.
  - apply AutoImpl_invariant.
  - intros H. exists (step G (AutoImpl G)). split; [|exact H].
    intros m q Hm. eapply step_mono; [| exact Hm]. apply AutoImpl_invariant.
Qed.

(* ---------------------------------------------------------------------------------------------
   lookup / refine  *)
Lemma lookup_refine : forall G S n r,
  lookup (refine G S) n r = (n <? length G) && ok_node G S n r.
Proof.
  intros G S n r. unfold lookup, refine.
  destruct (Nat.ltb_spec n (length G)) as [Hlt|Hge].
  - assert (E : nth_error (seq 0 (length G)) n = Some n).
    { rewrite nth_error_nth' with (d := 0) by (rewrite seq_length; exact Hlt).
      rewrite seq_nth by exact Hlt. reflexivity. }
    rewrite (map_nth_error _ n _ E). destruct r; reflexivity.
  - replace (nth_error _ n) with (@None (bool * bool)); [reflexivity|].
    symmetry. apply nth_error_None. rewrite map_length, seq_length. exact Hge.
Qed.

Lemma lookup_init : forall G n r, n < length G -> lookup (init G) n r = true.
Proof.
  intros G n r Hlt. unfold lookup, init.
  destruct (nth_error G n) as [x|] eqn:E.
  - rewrite (map_nth_error _ n G E). destruct r; reflexivity.
  - apply nth_error_None in E. lia.
Qed.

(* ---------------------------------------------------------------------------------------------
   Soundness: a stable verdict table is a self-justifying set.  *)
Theorem checker_sound : forall (G : graph) (S : verdicts),
  stable G S -> forall n r, lookup S n r = true -> AutoImpl G n r.
Proof.
  intros G S Hst n r Hn.
  apply AutoImpl_greatest with (P := fun m q => lookup S m q = true); [|exact Hn].
  intros m q Hm. unfold stable in Hst.
  rewrite <- Hst in Hm. rewrite lookup_refine in Hm.
  apply andb_true_iff in Hm. destruct Hm as [Hlt Hok].
  apply Nat.ltb_lt in Hlt. split; [exact Hlt|].
  unfold ok_node in Hok. apply andb_true_iff in Hok. destruct Hok as [_ Hall].
  rewrite forallb_forall in Hall.
  intros f Hin. apply ok_ty_sat. apply Hall. exact Hin.
Qed.

(* Completeness: no iteration deletes a pair that belongs to a self-justifying set.  *)
Lemma refine_keeps : forall G S (P : nat -> tr -> Prop),
  invariant G P ->
  (forall n r, P n r -> lookup S n r = true) ->
  forall n r, P n r -> lookup (refine G S) n r = true.
Proof.
  intros G S P Hinv Hsub n r HP.
  rewrite lookup_refine. destruct (Hinv n r HP) as [Hlt Hf].
  apply andb_true_iff. split; [apply Nat.ltb_lt; exact Hlt|].
  unfold ok_node. apply andb_true_iff. split; [apply Hsub; exact HP|].
  apply forallb_forall. intros f Hin. apply ok_ty_sat.
  eapply sat_mono; [| apply Hf; exact Hin]. exact Hsub.
Qed.

Lemma iter_keeps : forall G (P : nat -> tr -> Prop), invariant G P ->
  forall k S, (forall n r, P n r -> lookup S n r = true) ->
  forall n r, P n r -> lookup (iter G k S) n r = true.
Proof.
  intros G P Hinv k. induction k as [|k IH]; intros S Hsub n r HP; cbn [iter].
  - apply Hsub; exact HP.
  - apply IH; [|exact HP]. intros m q Hm. eapply refine_keeps; eauto.
Qed.

Theorem checker_complete : forall (G : graph) n r,
  AutoImpl G n r -> lookup (solve G) n r = true.
Proof.
  intros G n r [P [Hinv HP]]. unfold solve.
  apply iter_keeps with (P := P); [exact Hinv | | exact HP].
  intros m q Hm. apply lookup_init. destruct (Hinv m q Hm) as [Hlt _]. exact Hlt.
Qed.

Corollary checker_rejects : forall (G : graph) n r,
  lookup (solve G) n r = false -> ~ AutoImpl G n r.
Proof.
  intros G n r Hf Ha. apply checker_complete in Ha. rewrite Ha in Hf. discriminate.
Qed.

(* When the computed table is stable (checked by evaluation on a concrete graph) it decides AutoImpl. *)
Corollary checker_decides : forall (G : graph), stable G (solve G) ->
  forall n r, lookup (solve G) n r = true <-> AutoImpl G n r.
Proof.
  intros G Hst n r. split; [apply checker_sound; exact Hst | apply checker_complete].
Qed.

Corollary both_send_sync : forall (G : graph) (S : verdicts), stable G S ->
  forall n, both S n = true -> SendSync G n.
Proof.
  intros G S Hst n Hb. unfold both in Hb. apply andb_true_iff in Hb. destruct Hb as [H1 H2].
  split; eapply checker_sound; eauto.
Qed.

Corollary not_both_refuted : forall (G : graph) n, both (solve G) n = false -> ~ SendSync G n.
Proof.
  intros G n Hb [H1 H2]. apply checker_complete in H1. apply checker_complete in H2.
  unfold both in Hb. rewrite H1, H2 in Hb. discriminate.
Qed.

Lemma reaches_def : forall G n t, reaches G n t = mem n (reach_iter G (length G) [t]).
Proof. reflexivity. Qed.

Lemma mem_In : forall n l, mem n l = true -> In n l.
Proof.
  intros n l H. unfold mem in H. apply existsb_exists in H. destruct H as [x [Hin Heq]].
  apply Nat.eqb_eq in Heq. subst x. exact Hin.
Qed.

(* ---------------------------------------------------------------------------------------------
   The hypotheses are satisfiable and the rules bite: small examples.
   node 0 = struct A { next: Option<Box<A>>, name: String }   (recursive, fine)
   node 1 = struct B { a: A, rc: Rc<u8> }                      (neither)
   node 2 = struct C { c: Cell<u8> }                           (Send, not Sync)
   node 3 = struct D { d: Arc<C> }                             (neither: Arc needs both)
   node 4 = struct E { r: &C }                                 (neither: shared ref needs Sync)  *)
Definition ex_graph : graph :=
  [ [TOwn "Option" [TOwn "Box" [TNode 0]]; TLeaf (LPrim "String")];
    [TNode 0; TRc (TLeaf (LPrim "u8"))];
    [TCell (TLeaf (LPrim "u8"))];
    [TArc (TNode 2)];
    [TRef (TNode 2)] ].

Example ex_stable : stable ex_graph (solve ex_graph).
Proof. vm_compute. reflexivity. Qed.

Example ex_verdicts :
  solve ex_graph = [(true, true); (false, false); (true, false); (false, false); (false, false)].
Proof. vm_compute. reflexivity. Qed.

Example ex_recursive_ok : SendSync ex_graph 0.
Proof. apply both_send_sync with (S := solve ex_graph); [exact ex_stable | vm_compute; reflexivity]. Qed.

Example ex_rc_refuted : ~ AutoImpl ex_graph 1 Send.
Proof. apply checker_rejects. vm_compute. reflexivity. Qed.

Example ex_cell_send_not_sync : AutoImpl ex_graph 2 Send /\ ~ AutoImpl ex_graph 2 Sync.
Proof.
  split.
  - apply checker_sound with (S := solve ex_graph); [exact ex_stable | vm_compute; reflexivity].
  - apply checker_rejects. vm_compute. reflexivity.
Qed.

Example ex_reaches : reaches ex_graph 3 2 = true /\ reaches ex_graph 0 2 = false.
Proof. vm_compute. split; reflexivity. Qed.
