(* Bridge between the bit-level float comparisons of Model/FloatBits.v and Flocq 4.1 (IEEE754.Binary, IEEE754.Bits):
   for every bit pattern in range, ieee_eq32/64 is exactly `Bcompare (bXX_of_bits a) (bXX_of_bits b) = Some Eq` and
   is_nan32/64 is Flocq's is_nan.  So the float cases of C18 do not rest on a home-made notion of IEEE equality.
   Importing Flocq brings the standard library's axioms for the real numbers and classical logic into the
   assumptions of these two theorems (and only these): they are listed in coq/assumptions.allow. *)
From Flocq Require Import IEEE754.Binary IEEE754.Bits.
From Coq Require Import ZArith NArith Lia SpecFloat Bool.
Require Import SQV.Model.Str SQV.Model.FloatBits.
Local Open Scope N_scope.

Definition sf_nan (f : spec_float) : bool := match f with S754_nan => true | _ => false end.

Lemma is_nan_via_SF : forall prec emax (f : binary_float prec emax), is_nan prec emax f = sf_nan (B2SF prec emax f).
Proof. intros prec emax [s|s|s p H|s m e H]; reflexivity. Qed.

Lemma SFcompare_refl : forall x, sf_nan x = false -> SFcompare x x = Some Eq.
Proof.
  intros [s|s| |s m e] H; try discriminate H; cbn.
  - reflexivity.
  - destruct s; reflexivity.
  - rewrite Z.compare_refl, Pos.compare_cont_refl. destruct s; reflexivity.
Qed.

Lemma CompOpp_Eq : forall c, CompOpp c = Eq -> c = Eq.
Proof. intros [| |]; cbn; congruence. Qed.

Lemma SFcompare_eq_inv : forall x y, SFcompare x y = Some Eq ->
  match x, y with
  | S754_zero _, S754_zero _ => True
  | S754_infinity s1, S754_infinity s2 => s1 = s2
  | S754_finite s1 m1 e1, S754_finite s2 m2 e2 => s1 = s2 /\ m1 = m2 /\ e1 = e2
  | _, _ => False
  end.
Proof.
  intros [s1|s1| |s1 m1 e1] [s2|s2| |s2 m2 e2]; cbn; intro H; try discriminate H; try exact I;
    try (destruct s1; discriminate H); try (destruct s2; discriminate H).
  - destruct s1, s2; try discriminate H; reflexivity.
  - destruct s1, s2; try discriminate H; (split; [reflexivity|]);
      destruct (e1 ?= e2)%Z eqn:E; try discriminate H; apply Z.compare_eq in E;
      (split; [|exact E]); apply Pos.compare_eq; unfold Pos.compare;
      destruct (Pos.compare_cont Eq m1 m2); try discriminate H; reflexivity.
Qed.


(* ---- binary32 ---- *)
Definition sign32 (a : N) : bool := 2147483648 <=? a.

Definition sf32 (a : N) : spec_float :=
  let s := sign32 a in
  let e := f32_exp a in
  let m := f32_frac a in
  if e =? 0 then match m with N0 => S754_zero s | Npos p => S754_finite s p (-149) end
  else if e =? 255 then match m with N0 => S754_infinity s | Npos _ => S754_nan end
  else match m + 8388608 with Npos p => S754_finite s p (Z.of_N e - 150) | N0 => S754_nan end.

Lemma aux32 : forall a, B2SF 24 128 (b32_of_bits (Z.of_N a)) = sf32 a.
Proof.
  intro a. unfold b32_of_bits, binary_float_of_bits. rewrite B2SF_FF2B.
  unfold binary_float_of_bits_aux, split_bits, sf32, sign32, f32_exp, f32_frac.
  change (Zpower 2 23) with 8388608%Z. change (Zpower 2 8) with 256%Z.
  change (8388608 * 256)%Z with (Z.of_N 2147483648).
  replace (Z.of_N a mod 8388608)%Z with (Z.of_N (a mod 8388608)) by (rewrite N2Z.inj_mod; reflexivity).
  replace ((Z.of_N a / 8388608) mod 256)%Z with (Z.of_N ((a / 8388608) mod 256))
    by (rewrite N2Z.inj_mod, N2Z.inj_div; reflexivity).
  replace (Zle_bool (Z.of_N 2147483648) (Z.of_N a)) with (2147483648 <=? a).
  2:{ unfold Zle_bool. destruct (N.leb_spec 2147483648 a) as [H|H]; symmetry.
      - apply Z.leb_le. lia. - apply Z.leb_gt. lia. }
  set (e := (a / 8388608) mod 256). set (m := a mod 8388608). set (s := 2147483648 <=? a).
  assert (Hm : m < 8388608) by (apply N.mod_lt; discriminate).
  destruct e as [|pe] eqn:Ee.
  - change (Zeq_bool (Z.of_N 0) 0) with true. cbv iota. change (emin (23 + 1) (2 ^ (8 - 1))) with (-149)%Z.
    change (0 =? 0) with true. cbv iota. destruct m; reflexivity.
  - change (Zeq_bool (Z.of_N (N.pos pe)) 0) with false. cbv iota.
    change (256 - 1)%Z with 255%Z. change (emin (23 + 1) (2 ^ (8 - 1))) with (-149)%Z.
    destruct (N.eqb_spec (N.pos pe) 255) as [He'|He'].
    + rewrite He'. change (Zeq_bool (Z.of_N 255) 255) with true. change (255 =? 0) with false. change (255 =? 255) with true.
      cbv iota. destruct m; reflexivity.
    + replace (Zeq_bool (Z.of_N (N.pos pe)) 255) with false.
      2:{ symmetry. destruct (Zeq_bool (Z.of_N (N.pos pe)) 255) eqn:E; [|reflexivity]. apply Zeq_bool_eq in E. lia. }
      replace (Z.of_N m + 8388608)%Z with (Z.of_N (m + 8388608)) by lia.
      replace (N.pos pe =? 0) with false by reflexivity.
      replace (N.pos pe =? 255) with false by (symmetry; apply N.eqb_neq; exact He').
      destruct (m + 8388608) eqn:E; [lia|]. cbn [Z.of_N FF2SF]. f_equal. lia.
Qed.

Lemma flocq_compare32 : forall a b,
  Bcompare 24 128 (b32_of_bits (Z.of_N a)) (b32_of_bits (Z.of_N b)) = SFcompare (sf32 a) (sf32 b).
Proof.
  intros a b. unfold Bcompare, BinarySingleNaN.Bcompare. rewrite !B2SF_B2BSN, !aux32. reflexivity.
Qed.


Lemma flocq_is_nan32 : forall a, is_nan 24 128 (b32_of_bits (Z.of_N a)) = is_nan32 a.
Proof.
  intro a. rewrite is_nan_via_SF, aux32.
  unfold sf32, is_nan32. destruct (f32_exp a =? 0) eqn:E0.
  - apply N.eqb_eq in E0. rewrite E0. destruct (f32_frac a); reflexivity.
  - destruct (f32_exp a =? 255) eqn:E1.
    + destruct (f32_frac a); reflexivity.
    + destruct (f32_frac a + 8388608) eqn:E; [lia|]. reflexivity.
Qed.

Lemma sf_nan_sf32 : forall a, sf_nan (sf32 a) = is_nan32 a.
Proof. intro a. rewrite <- flocq_is_nan32, is_nan_via_SF, aux32. reflexivity. Qed.

Lemma frac32_lt : forall a, f32_frac a < 8388608.
Proof. intro a. unfold f32_frac. apply N.mod_lt. discriminate. Qed.
Lemma exp32_lt : forall a, f32_exp a < 256.
Proof. intro a. unfold f32_exp. apply N.mod_lt. discriminate. Qed.

Lemma recon32 : forall a, a < 4294967296 ->
  a = (if sign32 a then 2147483648 else 0) + f32_exp a * 8388608 + f32_frac a.
Proof.
  intros a Ha. unfold sign32, f32_exp, f32_frac.
  pose proof (N.div_mod a 8388608 ltac:(discriminate)) as D1.
  pose proof (N.mod_lt a 8388608 ltac:(discriminate)) as M1.
  set (q := a / 8388608) in *. set (m := a mod 8388608) in *.
  pose proof (N.div_mod q 256 ltac:(discriminate)) as D2.
  pose proof (N.mod_lt q 256 ltac:(discriminate)) as M2.
  set (h := q / 256) in *. set (e := q mod 256) in *.
  assert (h < 2) by lia.
  destruct (N.leb_spec 2147483648 a); lia.
Qed.

Lemma fields32_eq : forall a b, a < 4294967296 -> b < 4294967296 ->
  sign32 a = sign32 b -> f32_exp a = f32_exp b -> f32_frac a = f32_frac b -> a = b.
Proof.
  intros a b Ha Hb S E M. rewrite (recon32 a Ha), (recon32 b Hb), S, E, M. reflexivity.
Qed.

Lemma zero32_cases : forall a, a < 4294967296 -> is_zero32 a = true -> a = 0 \/ a = 2147483648.
Proof.
  intros a Ha H. unfold is_zero32 in H. apply N.eqb_eq in H.
  pose proof (N.div_mod a 2147483648 ltac:(discriminate)) as D. rewrite H in D.
  assert (a / 2147483648 < 2) by (apply N.div_lt_upper_bound; [discriminate|lia]).
  lia.
Qed.




(* the shape of sf32 a in terms of the bit fields *)
Lemma sf32_inv : forall a,
  match sf32 a with
  | S754_zero s => s = sign32 a /\ f32_exp a = 0 /\ f32_frac a = 0
  | S754_infinity s => s = sign32 a /\ f32_exp a = 255 /\ f32_frac a = 0
  | S754_nan => is_nan32 a = true
  | S754_finite s p z =>
      s = sign32 a /\ f32_exp a <> 255 /\
      ((f32_exp a = 0 /\ f32_frac a = N.pos p /\ z = (-149)%Z)
       \/ (f32_exp a <> 0 /\ f32_frac a + 8388608 = N.pos p /\ z = (Z.of_N (f32_exp a) - 150)%Z))
  end.
Proof.
  intro a. pose proof (sf_nan_sf32 a) as Hn. unfold sf32 in *.
  destruct (N.eqb_spec (f32_exp a) 0) as [E0|E0].
  - destruct (f32_frac a) eqn:M.
    + auto.
    + split; [reflexivity|]. split; [rewrite E0; discriminate|]. left. auto.
  - destruct (N.eqb_spec (f32_exp a) 255) as [E1|E1].
    + destruct (f32_frac a) eqn:M.
      * auto.
      * cbn in Hn. symmetry. exact Hn.
    + destruct (f32_frac a + 8388608) eqn:M; [lia|].
      split; [reflexivity|]. split; [exact E1|]. right. auto.
Qed.

Lemma not_nan32_of_exp : forall a, f32_exp a <> 255 -> is_nan32 a = false.
Proof. intros a H. unfold is_nan32. apply N.eqb_neq in H. rewrite H. reflexivity. Qed.

Theorem ieee_eq32_flocq : forall a b, a < 4294967296 -> b < 4294967296 ->
  (ieee_eq32 a b = true <-> Bcompare 24 128 (b32_of_bits (Z.of_N a)) (b32_of_bits (Z.of_N b)) = Some Eq).
Proof.
  intros a b Ha Hb. rewrite flocq_compare32. split.
  - intro H. unfold ieee_eq32 in H. apply andb_prop in H. destruct H as [H Hc].
    apply andb_prop in H. destruct H as [Na Nb]. apply negb_true_iff in Na. apply negb_true_iff in Nb.
    apply orb_prop in Hc. destruct Hc as [E|Z].
    + apply N.eqb_eq in E. subst b. apply SFcompare_refl. rewrite sf_nan_sf32. exact Na.
    + apply andb_prop in Z. destruct Z as [Za Zb].
      destruct (zero32_cases a Ha Za) as [-> | ->], (zero32_cases b Hb Zb) as [-> | ->]; vm_compute; reflexivity.
  - intro H. apply SFcompare_eq_inv in H.
    pose proof (sf32_inv a) as Ia. pose proof (sf32_inv b) as Ib.
    destruct (sf32 a) as [s1|s1| |s1 m1 e1], (sf32 b) as [s2|s2| |s2 m2 e2]; try contradiction.
    + (* zeros *)
      destruct Ia as (_ & Ea & Ma). destruct Ib as (_ & Eb & Mb).
      assert (Za : is_zero32 a = true).
      { unfold is_zero32. apply N.eqb_eq. rewrite (recon32 a Ha), Ea, Ma. destruct (sign32 a); reflexivity. }
      assert (Zb : is_zero32 b = true).
      { unfold is_zero32. apply N.eqb_eq. rewrite (recon32 b Hb), Eb, Mb. destruct (sign32 b); reflexivity. }
      unfold ieee_eq32. rewrite Za, Zb.
      rewrite (not_nan32_of_exp a) by (rewrite Ea; discriminate).
      rewrite (not_nan32_of_exp b) by (rewrite Eb; discriminate).
      cbn. apply orb_true_r.
    + (* infinities of the same sign *)
      destruct Ia as (Sa & Ea & Ma). destruct Ib as (Sb & Eb & Mb).
      assert (a = b) by (apply fields32_eq; congruence). subst b.
      assert (Nn : is_nan32 a = false) by (unfold is_nan32; rewrite Ma; apply andb_false_r).
      unfold ieee_eq32. rewrite Nn, (N.eqb_refl a). reflexivity.
    + (* finite: same sign, mantissa, exponent *)
      destruct H as (Hs & Hm & He). subst s2 m2 e2.
      destruct Ia as (Sa & Xa & Ca). destruct Ib as (Sb & Xb & Cb).
      pose proof (frac32_lt a). pose proof (frac32_lt b). pose proof (exp32_lt a). pose proof (exp32_lt b).
      assert (a = b).
      { apply fields32_eq; try assumption; try congruence;
          destruct Ca as [(Ea & Ma & Za) | (Ea & Ma & Za)], Cb as [(Eb & Mb & Zb) | (Eb & Mb & Zb)]; lia. }
      subst b. unfold ieee_eq32. rewrite (not_nan32_of_exp a Xa), N.eqb_refl. reflexivity.
Qed.

Theorem is_nan32_flocq : forall a, is_nan32 a = is_nan 24 128 (b32_of_bits (Z.of_N a)).
Proof. intro a. symmetry. apply flocq_is_nan32. Qed.

(* ---- binary64 ---- *)
Definition sign64 (a : N) : bool := 9223372036854775808 <=? a.

Definition sf64 (a : N) : spec_float :=
  let s := sign64 a in
  let e := f64_exp a in
  let m := f64_frac a in
  if e =? 0 then match m with N0 => S754_zero s | Npos p => S754_finite s p (-1074) end
  else if e =? 2047 then match m with N0 => S754_infinity s | Npos _ => S754_nan end
  else match m + 4503599627370496 with Npos p => S754_finite s p (Z.of_N e - 1075) | N0 => S754_nan end.

Lemma aux64 : forall a, B2SF 53 1024 (b64_of_bits (Z.of_N a)) = sf64 a.
Proof.
  intro a. unfold b64_of_bits, binary_float_of_bits. rewrite B2SF_FF2B.
  unfold binary_float_of_bits_aux, split_bits, sf64, sign64, f64_exp, f64_frac.
  change (Zpower 2 52) with 4503599627370496%Z. change (Zpower 2 11) with 2048%Z.
  change (4503599627370496 * 2048)%Z with (Z.of_N 9223372036854775808).
  replace (Z.of_N a mod 4503599627370496)%Z with (Z.of_N (a mod 4503599627370496)) by (rewrite N2Z.inj_mod; reflexivity).
  replace ((Z.of_N a / 4503599627370496) mod 2048)%Z with (Z.of_N ((a / 4503599627370496) mod 2048))
    by (rewrite N2Z.inj_mod, N2Z.inj_div; reflexivity).
  replace (Zle_bool (Z.of_N 9223372036854775808) (Z.of_N a)) with (9223372036854775808 <=? a).
  2:{ unfold Zle_bool. destruct (N.leb_spec 9223372036854775808 a) as [H|H]; symmetry.
      - apply Z.leb_le. lia. - apply Z.leb_gt. lia. }
  set (e := (a / 4503599627370496) mod 2048). set (m := a mod 4503599627370496). set (s := 9223372036854775808 <=? a).
  assert (Hm : m < 4503599627370496) by (apply N.mod_lt; discriminate).
  destruct e as [|pe] eqn:Ee.
  - change (Zeq_bool (Z.of_N 0) 0) with true. cbv iota. change (emin (52 + 1) (2 ^ (11 - 1))) with (-1074)%Z.
    change (0 =? 0) with true. cbv iota. destruct m; reflexivity.
  - change (Zeq_bool (Z.of_N (N.pos pe)) 0) with false. cbv iota.
    change (2048 - 1)%Z with 2047%Z. change (emin (52 + 1) (2 ^ (11 - 1))) with (-1074)%Z.
    destruct (N.eqb_spec (N.pos pe) 2047) as [He'|He'].
    + rewrite He'. change (Zeq_bool (Z.of_N 2047) 2047) with true. change (2047 =? 0) with false. change (2047 =? 2047) with true.
      cbv iota. destruct m; reflexivity.
    + replace (Zeq_bool (Z.of_N (N.pos pe)) 2047) with false.
      2:{ symmetry. destruct (Zeq_bool (Z.of_N (N.pos pe)) 2047) eqn:E; [|reflexivity]. apply Zeq_bool_eq in E. lia. }
      replace (Z.of_N m + 4503599627370496)%Z with (Z.of_N (m + 4503599627370496)) by lia.
      replace (N.pos pe =? 0) with false by reflexivity.
      replace (N.pos pe =? 2047) with false by (symmetry; apply N.eqb_neq; exact He').
      destruct (m + 4503599627370496) eqn:E; [lia|]. cbn [Z.of_N FF2SF]. f_equal. lia.
Qed.

Lemma flocq_compare64 : forall a b,
  Bcompare 53 1024 (b64_of_bits (Z.of_N a)) (b64_of_bits (Z.of_N b)) = SFcompare (sf64 a) (sf64 b).
Proof.
  intros a b. unfold Bcompare, BinarySingleNaN.Bcompare. rewrite !B2SF_B2BSN, !aux64. reflexivity.
Qed.


Lemma flocq_is_nan64 : forall a, is_nan 53 1024 (b64_of_bits (Z.of_N a)) = is_nan64 a.
Proof.
  intro a. rewrite is_nan_via_SF, aux64.
  unfold sf64, is_nan64. destruct (f64_exp a =? 0) eqn:E0.
  - apply N.eqb_eq in E0. rewrite E0. destruct (f64_frac a); reflexivity.
  - destruct (f64_exp a =? 2047) eqn:E1.
    + destruct (f64_frac a); reflexivity.
    + destruct (f64_frac a + 4503599627370496) eqn:E; [lia|]. reflexivity.
Qed.

Lemma sf_nan_sf64 : forall a, sf_nan (sf64 a) = is_nan64 a.
Proof. intro a. rewrite <- flocq_is_nan64, is_nan_via_SF, aux64. reflexivity. Qed.

Lemma frac64_lt : forall a, f64_frac a < 4503599627370496.
Proof. intro a. unfold f64_frac. apply N.mod_lt. discriminate. Qed.
Lemma exp64_lt : forall a, f64_exp a < 2048.
Proof. intro a. unfold f64_exp. apply N.mod_lt. discriminate. Qed.

Lemma recon64 : forall a, a < 18446744073709551616 ->
  a = (if sign64 a then 9223372036854775808 else 0) + f64_exp a * 4503599627370496 + f64_frac a.
Proof.
  intros a Ha. unfold sign64, f64_exp, f64_frac.
  pose proof (N.div_mod a 4503599627370496 ltac:(discriminate)) as D1.
  pose proof (N.mod_lt a 4503599627370496 ltac:(discriminate)) as M1.
  set (q := a / 4503599627370496) in *. set (m := a mod 4503599627370496) in *.
  pose proof (N.div_mod q 2048 ltac:(discriminate)) as D2.
  pose proof (N.mod_lt q 2048 ltac:(discriminate)) as M2.
  set (h := q / 2048) in *. set (e := q mod 2048) in *.
  assert (h < 2) by lia.
  destruct (N.leb_spec 9223372036854775808 a); lia.
Qed.

Lemma fields64_eq : forall a b, a < 18446744073709551616 -> b < 18446744073709551616 ->
  sign64 a = sign64 b -> f64_exp a = f64_exp b -> f64_frac a = f64_frac b -> a = b.
Proof.
  intros a b Ha Hb S E M. rewrite (recon64 a Ha), (recon64 b Hb), S, E, M. reflexivity.
Qed.

Lemma zero64_cases : forall a, a < 18446744073709551616 -> is_zero64 a = true -> a = 0 \/ a = 9223372036854775808.
Proof.
  intros a Ha H. unfold is_zero64 in H. apply N.eqb_eq in H.
  pose proof (N.div_mod a 9223372036854775808 ltac:(discriminate)) as D. rewrite H in D.
  assert (a / 9223372036854775808 < 2) by (apply N.div_lt_upper_bound; [discriminate|lia]).
  lia.
Qed.




(* the shape of sf64 a in terms of the bit fields *)
Lemma sf64_inv : forall a,
  match sf64 a with
  | S754_zero s => s = sign64 a /\ f64_exp a = 0 /\ f64_frac a = 0
  | S754_infinity s => s = sign64 a /\ f64_exp a = 2047 /\ f64_frac a = 0
  | S754_nan => is_nan64 a = true
  | S754_finite s p z =>
      s = sign64 a /\ f64_exp a <> 2047 /\
      ((f64_exp a = 0 /\ f64_frac a = N.pos p /\ z = (-1074)%Z)
       \/ (f64_exp a <> 0 /\ f64_frac a + 4503599627370496 = N.pos p /\ z = (Z.of_N (f64_exp a) - 1075)%Z))
  end.
Proof.
  intro a. pose proof (sf_nan_sf64 a) as Hn. unfold sf64 in *.
  destruct (N.eqb_spec (f64_exp a) 0) as [E0|E0].
  - destruct (f64_frac a) eqn:M.
    + auto.
    + split; [reflexivity|]. split; [rewrite E0; discriminate|]. left. auto.
  - destruct (N.eqb_spec (f64_exp a) 2047) as [E1|E1].
    + destruct (f64_frac a) eqn:M.
      * auto.
      * cbn in Hn. symmetry. exact Hn.
    + destruct (f64_frac a + 4503599627370496) eqn:M; [lia|].
      split; [reflexivity|]. split; [exact E1|]. right. auto.
Qed.

Lemma not_nan64_of_exp : forall a, f64_exp a <> 2047 -> is_nan64 a = false.
Proof. intros a H. unfold is_nan64. apply N.eqb_neq in H. rewrite H. reflexivity. Qed.

Theorem ieee_eq64_flocq : forall a b, a < 18446744073709551616 -> b < 18446744073709551616 ->
  (ieee_eq64 a b = true <-> Bcompare 53 1024 (b64_of_bits (Z.of_N a)) (b64_of_bits (Z.of_N b)) = Some Eq).
Proof.
  intros a b Ha Hb. rewrite flocq_compare64. split.
  - intro H. unfold ieee_eq64 in H. apply andb_prop in H. destruct H as [H Hc].
    apply andb_prop in H. destruct H as [Na Nb]. apply negb_true_iff in Na. apply negb_true_iff in Nb.
    apply orb_prop in Hc. destruct Hc as [E|Z].
    + apply N.eqb_eq in E. subst b. apply SFcompare_refl. rewrite sf_nan_sf64. exact Na.
    + apply andb_prop in Z. destruct Z as [Za Zb].
      destruct (zero64_cases a Ha Za) as [-> | ->], (zero64_cases b Hb Zb) as [-> | ->]; vm_compute; reflexivity.
  - intro H. apply SFcompare_eq_inv in H.
    pose proof (sf64_inv a) as Ia. pose proof (sf64_inv b) as Ib.
    destruct (sf64 a) as [s1|s1| |s1 m1 e1], (sf64 b) as [s2|s2| |s2 m2 e2]; try contradiction.
    + (* zeros *)
      destruct Ia as (_ & Ea & Ma). destruct Ib as (_ & Eb & Mb).
      assert (Za : is_zero64 a = true).
      { unfold is_zero64. apply N.eqb_eq. rewrite (recon64 a Ha), Ea, Ma. destruct (sign64 a); reflexivity. }
      assert (Zb : is_zero64 b = true).
      { unfold is_zero64. apply N.eqb_eq. rewrite (recon64 b Hb), Eb, Mb. destruct (sign64 b); reflexivity. }
      unfold ieee_eq64. rewrite Za, Zb.
      rewrite (not_nan64_of_exp a) by (rewrite Ea; discriminate).
      rewrite (not_nan64_of_exp b) by (rewrite Eb; discriminate).
      cbn. apply orb_true_r.
    + (* infinities of the same sign *)
      destruct Ia as (Sa & Ea & Ma). destruct Ib as (Sb & Eb & Mb).
      assert (a = b) by (apply fields64_eq; congruence). subst b.
      assert (Nn : is_nan64 a = false) by (unfold is_nan64; rewrite Ma; apply andb_false_r).
      unfold ieee_eq64. rewrite Nn, (N.eqb_refl a). reflexivity.
    + (* finite: same sign, mantissa, exponent *)
      destruct H as (Hs & Hm & He). subst s2 m2 e2.
      destruct Ia as (Sa & Xa & Ca). destruct Ib as (Sb & Xb & Cb).
      pose proof (frac64_lt a). pose proof (frac64_lt b). pose proof (exp64_lt a). pose proof (exp64_lt b).
      assert (a = b).
      { apply fields64_eq; try assumption; try congruence;
          destruct Ca as [(Ea & Ma & Za) | (Ea & Ma & Za)], Cb as [(Eb & Mb & Zb) | (Eb & Mb & Zb)]; lia. }
      subst b. unfold ieee_eq64. rewrite (not_nan64_of_exp a Xa), N.eqb_refl. reflexivity.
Qed.

Theorem is_nan64_flocq : forall a, is_nan64 a = is_nan 53 1024 (b64_of_bits (Z.of_N a)).
Proof. intro a. symmetry. apply flocq_is_nan64. Qed.
