(* C09 at expression level: on the portable fragment the three backends write THE SAME script.

   Portable expressions: columns, values, tuples, keywords, constants, raw custom text, NOT, CASE,
   EXISTS / plain sub-queries, calls of the portable functions (and custom-named ones), and every
   binary operator of the common set (incl. BETWEEN, LIKE .. ESCAPE, IN, custom-spelled operators);
   not AsEnum (a cast on Postgres only) and not value templates (the placeholder mark differs).
   For every such tree, of any depth, and any two backends whose executed decision tables agree on the
   common set (Spec/Portable.v tables_agree_on_common / funcs_agree, established by vm_compute for the
   tables regenerated from the code: C09_backends_agree_on_portable_operators), the two scripts are
   equal token for token: same identifiers, same values in the same order, same keywords, same
   parentheses.  What differs between the backends is then only how a token is spelled (identifier
   quotes, literal syntax, placeholder form): C01 / C03 / C04. *)
Require Import SQV.Model.Str SQV.Model.Escape SQV.Model.Value SQV.Model.Expr SQV.Model.Writer
  SQV.Model.RenderExpr SQV.Model.ExprTablesInst SQV.Spec.ParenRows SQV.Spec.Portable
  SQV.Proofs.TemplateProofs SQV.Proofs.ExprValuesProofs.
From Coq Require Import Lia String Bool.
Open Scope list_scope.

Definition portable_op (o : binop) : bool := existsb (fun o' => binop_key o' =? binop_key o) common_binops.
Definition portable_func (f : func) : bool :=
  match f with
  | FCustom _ => true
  | _ => existsb (fun f' => func_key f' =? func_key f) portable_funcs
  end.

Section Port.
Variable Q : Type.
(* sub-queries for which the two backends are known to write the same script *)
Variable pq : Q -> bool.

Fixpoint portable (e : expr Q) : bool :=
  match e with
  | EColumn _ | EValue _ | EValues _ | ECustom _ | EKeyword _ | EConstant _ => true
  | ETuple es => forallb portable es
  | ENot x => portable x
  | EFunc f args => portable_func f && forallb (fun a : bool * expr Q => portable (snd a)) args
  | EBinary l o r => portable_op o && portable l && portable r
  | ESubQuery sop q => match sop with None | Some SqExists => pq q | _ => false end
  | ECustomWith _ _ | EAsEnum _ _ => false
  | ECase whens els =>
      forallb (fun w : expr Q * expr Q => portable (fst w) && portable (snd w)) whens &&
      match els with Some x => portable x | None => true end
  end.

Variables rq1 rq2 : Q -> script.
Hypothesis rq_agree : forall q, pq q = true -> rq1 q = rq2 q.
Variable is_alpha : N -> bool.
Variables b1 b2 : backend.
Variables T1 T2 : etables.
Hypothesis Hagree : tables_agree_on_common T1 T2 = true.
Hypothesis Hfuncs : funcs_agree T1 T2 = true.

Notation r1 := (rexpr Q rq1 is_alpha b1 T1).
Notation r2 := (rexpr Q rq2 is_alpha b2 T2).

(* ---- the boolean agreement check, as usable facts keyed by table keys ---- *)
Definition ck_shape (k : N) : bool := existsb (fun s => shape_key s =? k) common_shapes.
Definition ck_oper (k : N) : bool := existsb (fun o => oper_key o =? k) common_opers.
Definition ck_binop (k : N) : bool := existsb (fun o => binop_key o =? k) common_binops.

Lemma opt_str_eqb_eq a b : opt_str_eqb a b = true -> a = b.
Proof. destruct a, b; cbn; try discriminate; try reflexivity. intros H. f_equal. now apply str_eqb_eq. Qed.

Lemma drop_agree ks ko : ck_shape ks = true -> ck_oper ko = true ->
  t_drop_paren T1 ks ko = t_drop_paren T2 ks ko.
Proof.
  unfold ck_shape, ck_oper. rewrite !existsb_exists. intros [s [Hs Es]] [o [Ho Eo]].
  apply N.eqb_eq in Es, Eo. subst ks ko.
  unfold tables_agree_on_common in Hagree. apply andb_prop in Hagree as [H _]. apply andb_prop in H as [H _].
  rewrite forallb_forall in H. specialize (H s Hs). rewrite forallb_forall in H. specialize (H o Ho).
  now apply eqb_prop in H.
Qed.

Lemma binop_agree k : ck_binop k = true ->
  t_lassoc T1 k = t_lassoc T2 k /\ t_binop T1 k = t_binop T2 k.
Proof.
  unfold ck_binop. rewrite existsb_exists. intros [o [Ho Eo]]. apply N.eqb_eq in Eo. subst k.
  unfold tables_agree_on_common in Hagree. apply andb_prop in Hagree as [H _]. apply andb_prop in H as [_ H].
  rewrite forallb_forall in H. specialize (H o Ho). apply andb_prop in H as [Ha Hb].
  split; [now apply eqb_prop in Ha|now apply opt_str_eqb_eq].
Qed.

Lemma exists_agree : t_sqop T1 0 = t_sqop T2 0.
Proof.
  unfold tables_agree_on_common in Hagree. apply andb_prop in Hagree as [_ H]. now apply opt_str_eqb_eq.
Qed.

Lemma func_agree f : portable_func f = true -> rfunc_name T1 f = rfunc_name T2 f.
Proof.
  intros Hf. assert (E : match f with FCustom _ => True | _ => t_func T1 (func_key f) = t_func T2 (func_key f) end).
  { destruct f; try exact I; unfold portable_func in Hf; rewrite existsb_exists in Hf;
      destruct Hf as [f' [Hin Ek]]; apply N.eqb_eq in Ek; rewrite <- Ek;
      unfold funcs_agree in Hfuncs; rewrite forallb_forall in Hfuncs; apply opt_str_eqb_eq; now apply Hfuncs. }
  destruct f; try reflexivity; unfold rfunc_name; now rewrite E.
Qed.

(* keys of portable operators / operands are common keys *)
Lemma portable_op_keys o : portable_op o = true ->
  ck_binop (binop_key o) = true /\ ck_oper (oper_key (OBin o)) = true /\ ck_shape (shape_key (ShBinary o)) = true.
Proof.
  unfold portable_op. rewrite existsb_exists. intros [o' [Hin Ek]]. apply N.eqb_eq in Ek. repeat split.
  - unfold ck_binop. rewrite existsb_exists. exists o'. split; [exact Hin|now apply N.eqb_eq].
  - unfold ck_oper. rewrite existsb_exists. exists (OBin o'). split; [right; now apply in_map|now apply N.eqb_eq].
  - unfold ck_shape. rewrite existsb_exists. exists (ShBinary o'). split; [|now apply N.eqb_eq].
    unfold common_shapes. apply in_or_app. right. now apply in_map.
Qed.

Lemma portable_shape_key (e : expr Q) : portable e = true -> ck_shape (shape_key (shape_of e)) = true.
Proof.
  destruct e; try reflexivity; try discriminate. cbn [portable shape_of]. intros H.
  apply andb_prop in H as [H _]. apply andb_prop in H as [H _]. now apply portable_op_keys.
Qed.

Lemma rbinop_agree o : portable_op o = true -> rbinop T1 o = rbinop T2 o.
Proof.
  intros Ho. destruct (portable_op_keys o Ho) as [Hk _]. destruct (binop_agree _ Hk) as [_ Hb].
  destruct o; try reflexivity; unfold rbinop; now rewrite Hb.
Qed.

Lemma binary_expr_agree (l : expr Q) o (r : expr Q) sl sr :
  portable_op o = true -> portable l = true -> portable r = true ->
  binary_expr Q T1 l o r sl sr = binary_expr Q T2 l o r sl sr.
Proof.
  intros Ho Hl Hr. destruct (portable_op_keys o Ho) as [Hk [Hok _]]. destruct (binop_agree _ Hk) as [Hla _].
  unfold binary_expr.
  rewrite (drop_agree _ _ (portable_shape_key l Hl) Hok), (drop_agree _ _ (portable_shape_key r Hr) Hok).
  now rewrite Hla, (rbinop_agree o Ho).
Qed.

Lemma between_bounds_agree o (lo hi : expr Q) slo shi :
  portable_op o = true -> portable lo = true -> portable hi = true ->
  between_bounds Q T1 o lo hi slo shi = between_bounds Q T2 o lo hi slo shi.
Proof.
  intros Ho Hl Hh. destruct (portable_op_keys o Ho) as [_ [Hok _]]. unfold between_bounds.
  now rewrite (drop_agree _ _ (portable_shape_key lo Hl) Hok), (drop_agree _ _ (portable_shape_key hi Hh) Hok).
Qed.

Lemma portable_op_const o : portable_op o = true -> forall c, c = o -> portable_op c = true.
Proof. now intros H c ->. Qed.

Definition operands_agree (e : expr Q) : Prop :=
  match e with
  | EBinary lo _ hi => (forall c, r1 c lo = r2 c lo) /\ (forall c, r1 c hi = r2 c hi)
  | _ => True
  end.

Theorem portable_same_script_aux (e : expr Q) : portable e = true ->
  (forall common, r1 common e = r2 common e) /\ operands_agree e.
Proof.
  induction e as [c|es H|x IHx|f args H|l op r IHl IHr|sop q|v|vs|cs|cs es H|k|ty x IHx|whens els H H0|v]
    using expr_ind'; intros Hp; (split; [intros common|]); try exact I; try reflexivity; try discriminate Hp.
  - (* tuple *)
    cbn [rexpr]. f_equal. f_equal. f_equal. cbn [portable] in Hp. rewrite forallb_forall in Hp.
    apply map_ext_in. intros x Hx. rewrite Forall_forall in H. now apply (H x Hx (Hp x Hx)).
  - (* not *)
    cbn [portable] in Hp. cbn [rexpr].
    assert (Hn : ck_oper (oper_key ONot) = true) by reflexivity.
    rewrite (drop_agree _ _ (portable_shape_key x Hp) Hn). now rewrite (proj1 (IHx Hp) false).
  - (* function call *)
    cbn [portable] in Hp. apply andb_prop in Hp as [Hf Ha]. cbn [rexpr]. rewrite (func_agree f Hf).
    f_equal. f_equal. f_equal. f_equal. rewrite forallb_forall in Ha. apply map_ext_in. intros a Hin.
    rewrite Forall_forall in H. now rewrite (proj1 (H a Hin (Ha a Hin)) false).
  - (* binary *)
    cbn [portable] in Hp. apply andb_prop in Hp as [Hp Hr]. apply andb_prop in Hp as [Ho Hl].
    destruct (IHl Hl) as [El _]. destruct (IHr Hr) as [Er Eops].
    cbn [rexpr]. destruct (is_empty_in Q op r) eqn:Eei.
    + (* the empty IN rewrite: constant operands 1 = 2 / 1 = 1 *)
      assert (Heq : portable_op BEqual = true) by reflexivity.
      destruct op; apply (binary_expr_agree _ BEqual _ _ _ Heq); reflexivity.
    + rewrite (El false).
      assert (Esr : (match r with
                     | EBinary lo BAnd hi => if is_between op then between_bounds Q T1 op lo hi (r1 false lo) (r1 false hi)
                                             else r1 false r
                     | _ => r1 false r end) =
                    (match r with
                     | EBinary lo BAnd hi => if is_between op then between_bounds Q T2 op lo hi (r2 false lo) (r2 false hi)
                                             else r2 false r
                     | _ => r2 false r end)).
      { destruct r as [| | | |lo rop hi| | | | | | | | |]; try apply Er.
        destruct rop; try apply Er. destruct (is_between op); [|apply Er].
        cbn [operands_agree] in Eops. destruct Eops as [Elo Ehi]. rewrite (Elo false), (Ehi false).
        cbn [portable] in Hr. apply andb_prop in Hr as [Hr Hhi]. apply andb_prop in Hr as [_ Hlo].
        now apply between_bounds_agree. }
      rewrite Esr. now apply binary_expr_agree.
  - (* binary: its operands agree *)
    cbn [portable] in Hp. apply andb_prop in Hp as [Hp Hr]. apply andb_prop in Hp as [Ho Hl].
    cbn [operands_agree]. split; [apply (IHl Hl)|apply (IHr Hr)].
  - (* sub-query *)
    cbn [rexpr]. cbn [portable] in Hp. destruct sop as [[| | |]|]; try discriminate Hp; rewrite (rq_agree q Hp); [|reflexivity].
    cbn [sqop_key]. now rewrite exists_agree.
  - (* case *)
    cbn [portable] in Hp. apply andb_prop in Hp as [Hw He]. cbn [rexpr]. f_equal. f_equal.
    + rewrite forallb_forall in Hw. rewrite Forall_forall in H.
      apply flat_map_ext_Forall. rewrite Forall_forall. intros w Hin.
      specialize (Hw w Hin). apply andb_prop in Hw as [Hw1 Hw2]. destruct (H w Hin) as [H1 H2].
      now rewrite (proj1 (H1 Hw1) false), (proj1 (H2 Hw2) false).
    + f_equal. destruct els as [x|]; [|reflexivity]. now rewrite (proj1 (H0 He) false).
Qed.

Theorem portable_same_script (e : expr Q) common : portable e = true -> r1 common e = r2 common e.
Proof. intros Hp. apply (proj1 (portable_same_script_aux e Hp)). Qed.
End Port.
