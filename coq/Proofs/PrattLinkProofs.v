(* C05: the link between the renderer model (Model/RenderExpr.v, rexpr) and the abstract
   precedence-climbing grammar with ternary forms (Spec/PrattT.v), for the operator fragment of the
   expression type.

   Fragment: trees built from NOT, from the binary operators that have a level in the dialect's table
   (Spec/Prec.v) - LIKE .. ESCAPE .. included, ESCAPE being an operator just above LIKE - and from
   x [NOT] BETWEEN lo AND hi (the builder's encoding EBinary x BBetween (EBinary lo BAnd hi)), over
   operands that are written as one primary expression (column, value, tuple, function call, sub-query,
   keyword, CASE, constant).  Not in the fragment: the rewritten IN (), operators without a level in
   the dialect, AsEnum / raw custom text as operands.  For every such tree, of any depth:

   (1) the script rexpr writes IS the abstract rendering of the tree's skeleton under the parenthesis
       policy read off the code's decision tables, token by token (rexpr_is_abstract_rendering);
   (2) if every row of the decision tables is safe (ParenRows.bad_rows = [], which all_rows_safe
       establishes for the tables executed from the code), that token list parses, under the
       dialect's levels, to exactly the skeleton (fragment_parses_back).

   Operators of the abstract grammar are Prec.sop: SBin o for a binary operator, SBetweenAnd for the
   AND that separates the bounds of BETWEEN.  What stays outside: that the engine lexes the text of an
   atom as one primary expression and the operator spellings as the operators they name (lexical,
   C03/C04/C16 and the re-parse oracle). *)
Require Import SQV.Spec.PrattT SQV.Proofs.PrattTProofs.
Require Import SQV.Model.Str SQV.Model.Escape SQV.Model.Value SQV.Model.Expr SQV.Model.Writer
  SQV.Model.RenderExpr SQV.Model.ExprTablesInst SQV.Spec.Prec SQV.Spec.ParenRows.
From Coq Require Import Lia String Arith.
Open Scope list_scope.

Section Link.
Variable Q : Type.
Variable rq : Q -> script.
Variable is_alpha : N -> bool.
Variable b : backend.
Variable T : etables.

Notation pexpr := (PrattT.expr (expr Q) sop).
Notation ptok := (PrattT.tok (expr Q) sop).
Notation EA := (PrattT.EA (expr Q) sop).
Notation EN := (PrattT.EN (expr Q) sop).
Notation EB := (PrattT.EB (expr Q) sop).

(* ---- the fragment ---- *)
Definition frag_op (o : binop) : bool :=
  match level b o with Some _ => true | None => false end.

Definition primary (e : expr Q) : bool :=
  match e with
  | EColumn _ | ETuple _ | EFunc _ _ | ESubQuery _ _ | EValue _ | EValues _ | EKeyword _
  | ECase _ _ | EConstant _ => true
  | _ => false
  end.

(* a BETWEEN carries both bounds, and only a BETWEEN may have a bare AND as its right operand's
   encoding; an ESCAPE pair stands to the right of LIKE / NOT LIKE only *)
Definition is_and_expr (r : expr Q) : bool := match r with EBinary _ BAnd _ => true | _ => false end.
Definition between_shape (o : binop) (r : expr Q) : bool :=
  if is_between o then is_and_expr r else true.

Fixpoint frag (e : expr Q) : bool :=
  match e with
  | EBinary l o r => frag_op o && negb (is_empty_in Q o r) && between_shape o r && frag l && frag r
  | ENot x => frag x
  | _ => primary e
  end.

(* ---- skeleton, policy and levels ---- *)
Fixpoint skel (e : expr Q) : pexpr :=
  match e with
  | EBinary l o r =>
      match r with
      | EBinary lo BAnd hi =>
          if is_between o then EB (skel l) (SBin o) (EB (skel lo) SBetweenAnd (skel hi))
          else EB (skel l) (SBin o) (skel r)
      | _ => EB (skel l) (SBin o) (skel r)
      end
  | ENot x => EN (skel x)
  | _ => EA e
  end.

Definition sk_shape (p : pexpr) : shape :=
  match p with
  | PrattT.EA _ _ a => shape_of a
  | PrattT.EN _ _ _ => ShUnary
  | PrattT.EB _ _ _ (SBin o) _ => ShBinary o
  | PrattT.EB _ _ _ SBetweenAnd _ => ShBinary BAnd
  end.

Definition sop_bin (o : sop) : binop := match o with SBin o => o | SBetweenAnd => BBetween end.

Definition pol_un (x : pexpr) : bool := writes_paren T BAnd (sk_shape x) SUnary.
Definition pol_l (o : sop) (l : pexpr) : bool := writes_paren T (sop_bin o) (sk_shape l) SLeft.
Definition pol_r (o : sop) (r : pexpr) : bool := writes_paren T (sop_bin o) (sk_shape r) SRight.
Definition pol_lo (o : sop) (x : pexpr) : bool := writes_paren T (sop_bin o) (sk_shape x) SBetweenLo.
Definition pol_hi (o : sop) (x : pexpr) : bool := writes_paren T (sop_bin o) (sk_shape x) SBetweenHi.

Definition prec (o : sop) : nat := match slevel b o with Some n => n | None => 0%nat end.
Definition rmin (o : sop) : nat := S (prec o).
Definition notp : nat := not_level b.
Definition tern (o : sop) : option sop :=
  match o with SBin o => if is_between o then Some SBetweenAnd else None | SBetweenAnd => None end.

Definition tok_script (t : ptok) : script :=
  match t with
  | PrattT.TA _ _ a => rexpr Q rq is_alpha b T false a
  | PrattT.TL _ _ => [ws "("]
  | PrattT.TR _ _ => [ws ")"]
  | PrattT.TO _ _ (SBin o) => [ws " "] ++ rbinop T o ++ [ws " "]
  | PrattT.TO _ _ SBetweenAnd => [ws " AND "]
  | PrattT.TN _ _ => [ws "NOT"; ws " "]
  end.

Notation arender := (PrattT.render (expr Q) sop tern pol_un pol_l pol_r pol_lo pol_hi).
Definition abstract_rendering (e : expr Q) : list ptok := arender (skel e).

(* ---- (1) the script is the image of the abstract rendering ---- *)
Lemma shape_of_skel e : sk_shape (skel e) = shape_of e.
Proof.
  destruct e as [c|es|x|f args|l op r|sop0 q|v|vs|cs|cs es|k|ty x|whens els|v]; try reflexivity.
  cbn [skel]. destruct r as [| | | |lo rop hi| | | | | | | | |]; try reflexivity.
  destruct rop; try reflexivity. destruct (is_between op); reflexivity.
Qed.

Lemma flat_map_wrap p ts :
  flat_map tok_script (PrattT.wrap (expr Q) sop p ts) = wrap p (flat_map tok_script ts).
Proof.
  unfold PrattT.wrap, wrap. destruct p; [|reflexivity].
  cbn [flat_map tok_script app]. now rewrite flat_map_app.
Qed.

Lemma escape_pattern (o1 : binop) : (match o1 with BEscape => true | _ => false end) = binop_eqb BEscape o1.
Proof.
  destruct o1 as [| | | | | | | | | | | | | | | | | | | | | | | | | | |c|pg|sl]; try reflexivity;
    [destruct pg|destruct sl]; reflexivity.
Qed.
Lemma and_pattern (o1 : binop) : (match o1 with BAnd => true | _ => false end) = binop_eqb BAnd o1.
Proof.
  destruct o1 as [| | | | | | | | | | | | | | | | | | | | | | | | | | |c|pg|sl]; try reflexivity;
    [destruct pg|destruct sl]; reflexivity.
Qed.

Lemma same_is_binary_with (o : binop) (l : expr Q) :
  (match shape_of l with ShBinary o1 => binop_eqb o o1 | _ => false end) = is_binary_with l (binop_eqb o).
Proof. destruct l; reflexivity. Qed.

Lemma left_paren_eq o (l : expr Q) :
  negb (t_drop_paren T (shape_key (shape_of l)) (oper_key (OBin o))) &&
    negb (is_binary_with l (binop_eqb o) && t_lassoc T (binop_key o))
  = writes_paren T o (shape_of l) SLeft.
Proof. unfold writes_paren, drop_hp. now rewrite same_is_binary_with. Qed.

(* the right-operand decision of binary_expr is the table decision writes_paren .. SRight, hacks included *)
Lemma right_paren_eq o (r : expr Q) :
  negb (t_drop_paren T (shape_key (shape_of r)) (oper_key (OBin o))) &&
    negb (is_like o && is_binary_with r (binop_eqb BEscape)) &&
    negb (is_between o && is_binary_with r (binop_eqb BAnd)) &&
    negb (binop_eqb o BAs && match r with ECustom _ => true | _ => false end)
  = writes_paren T o (shape_of r) SRight.
Proof.
  unfold writes_paren, drop_hp.
  assert (E1 : (match shape_of r with ShBinary BEscape => true | _ => false end) = is_binary_with r (binop_eqb BEscape)).
  { destruct r; try reflexivity. cbn [shape_of is_binary_with]. apply escape_pattern. }
  assert (E2 : (match shape_of r with ShBinary BAnd => true | _ => false end) = is_binary_with r (binop_eqb BAnd)).
  { destruct r; try reflexivity. cbn [shape_of is_binary_with]. apply and_pattern. }
  assert (E3 : (match shape_of r with ShCustom => true | _ => false end) = match r with ECustom _ => true | _ => false end).
  { destruct r; reflexivity. }
  now rewrite E1, E2, E3.
Qed.

(* statement for a tree and, for a binary node, for its two operands (the bounds of BETWEEN are
   operands of the operand) *)
Definition link_at (e : expr Q) : Prop :=
  frag e = true -> rexpr Q rq is_alpha b T false e = flat_map tok_script (arender (skel e)).
Definition link_operands (e : expr Q) : Prop :=
  match e with EBinary lo _ hi => link_at lo /\ link_at hi | _ => True end.

Lemma link_aux e : link_at e /\ link_operands e.
Proof.
  induction e as [c|es|x IHx|f args|l IHl op r IHr|sop0 q|v|vs|cs|cs es|k|ty x IHx|whens els|v];
    (split; [|try exact I]); unfold link_at;
    try (intros Hf; cbn [skel PrattT.render flat_map tok_script]; now rewrite app_nil_r);
    try (intros Hf; discriminate Hf).
  - (* NOT *)
    intros Hf. cbn [frag] in Hf. cbn [skel PrattT.render flat_map]. rewrite flat_map_wrap.
    rewrite <- (proj1 IHx Hf). cbn [tok_script rexpr]. unfold pol_un, writes_paren, drop_hp.
    now rewrite shape_of_skel.
  - (* binary / ternary *)
    intros Hf. cbn [frag] in Hf. apply andb_prop in Hf as [Hf Hr]. apply andb_prop in Hf as [Hf Hl].
    apply andb_prop in Hf as [Hf Hbs]. apply andb_prop in Hf as [Ho He]. apply negb_true_iff in He.
    cbn [rexpr]. rewrite He. rewrite (proj1 IHl Hl). unfold binary_expr.
    rewrite (left_paren_eq op l), (right_paren_eq op r).
    destruct (is_between op) eqn:Eb.
    + (* x BETWEEN lo AND hi *)
      unfold between_shape in Hbs. rewrite Eb in Hbs.
      destruct r as [| | | |lo rop hi| | | | | | | | |]; try discriminate Hbs.
      destruct rop; try discriminate Hbs. clear Hbs.
      cbn [frag] in Hr. apply andb_prop in Hr as [Hr Hhi]. apply andb_prop in Hr as [Hr Hlo].
      destruct IHr as [_ [Llo Lhi]].
      cbn [skel]. rewrite Eb. cbn [PrattT.render tern]. rewrite Eb.
      unfold between_bounds. rewrite (Llo Hlo), (Lhi Hhi).
      rewrite !flat_map_app. cbn [flat_map]. rewrite !flat_map_wrap, !flat_map_app. cbn [flat_map].
      rewrite !flat_map_wrap. cbn [tok_script].
      unfold pol_l, pol_lo, pol_hi. cbn [sop_bin]. rewrite !shape_of_skel.
      (* the right operand is written bare: the between hack *)
      assert (Ew : writes_paren T op (shape_of (EBinary lo BAnd hi)) SRight = false).
      { unfold writes_paren. cbn [shape_of]. rewrite Eb. cbn [andb negb]. now rewrite !andb_false_r. }
      rewrite Ew. unfold wrap at 2. cbv iota.
      unfold writes_paren at 2 3. unfold drop_hp.
      rewrite <- !app_assoc. reflexivity.
    + (* binary *)
      rewrite (proj1 IHr Hr).
      assert (Esr : (match r with
                     | EBinary lo BAnd hi =>
                         if false then between_bounds Q T op lo hi (rexpr Q rq is_alpha b T false lo) (rexpr Q rq is_alpha b T false hi)
                         else flat_map tok_script (arender (skel r))
                     | _ => flat_map tok_script (arender (skel r))
                     end) = flat_map tok_script (arender (skel r))).
      { destruct r as [| | | |lo rop hi| | | | | | | | |]; try reflexivity. destruct rop; reflexivity. }
      assert (Esk : skel (EBinary l op r) = EB (skel l) (SBin op) (skel r)).
      { cbn [skel]. destruct r as [| | | |lo rop hi| | | | | | | | |]; try reflexivity.
        destruct rop; try reflexivity. now rewrite Eb. }
      rewrite Esk. cbn [PrattT.render tern]. rewrite Eb.
      rewrite flat_map_app. cbn [flat_map]. rewrite !flat_map_wrap.
      unfold pol_l, pol_r. cbn [sop_bin]. rewrite !shape_of_skel. cbn [tok_script].
      destruct r as [| | | |lo rop hi| | | | | | | | |]; try (rewrite <- !app_assoc; reflexivity).
      destruct rop; rewrite <- !app_assoc; reflexivity.
  - (* operands of a binary node *)
    cbn [link_operands]. split; [apply IHl|apply IHr].
Qed.

Theorem rexpr_is_abstract_rendering e : frag e = true ->
  rexpr Q rq is_alpha b T false e = flat_map tok_script (abstract_rendering e).
Proof. exact (proj1 (link_aux e)). Qed.
(* ---- (2) safe rows make every tree of the fragment safe ---- *)
Hypothesis rows_safe : bad_rows b T = [].

Lemma flat_map_nil_in {A B} (f : A -> list B) l x : flat_map f l = [] -> In x l -> f x = [].
Proof.
  induction l as [|y l IH]; [intros _ []|]. cbn [flat_map]. intros H [->|Hin].
  - now apply app_eq_nil in H as [H _].
  - apply app_eq_nil in H as [_ H]. now apply IH.
Qed.

Lemma row_ok_of_rows o s sd : In (o, s, sd) all_rows -> row_ok b T o s sd = true.
Proof.
  intros Hin. pose proof (flat_map_nil_in _ _ _ rows_safe Hin) as H. cbv beta iota in H.
  destruct (row_ok b T o s sd); [reflexivity|discriminate H].
Qed.

Lemma frag_op_in o : frag_op o = true -> In o all_binops.
Proof.
  intros H.
  assert (Hc : match o with BCustom _ => False | _ => True end).
  { destruct o; try exact I. unfold frag_op in H. destruct b; discriminate H. }
  destruct o as [| | | | | | | | | | | | | | | | | | | | | | | | | | |c|pg|sl];
    [..|contradiction|destruct pg|destruct sl]; cbn; repeat first [left; reflexivity | right].
Qed.

Lemma frag_binary_op l o r : frag (EBinary l o r) = true -> frag_op o = true.
Proof.
  cbn [frag]. intros H. apply andb_prop in H as [H _]. apply andb_prop in H as [H _].
  apply andb_prop in H as [H _]. now apply andb_prop in H as [H _].
Qed.

Lemma shape_in (e : expr Q) : frag e = true -> In (shape_of e) all_shapes.
Proof.
  intros Hf. unfold all_shapes.
  destruct e as [c|es|x|f args|l op r|sop0 q|v|vs|cs|cs es|k|ty x|whens els|v]; try discriminate Hf;
    try (lazymatch goal with |- In (shape_of (EBinary _ _ _)) _ => fail | _ => idtac end;
         apply in_or_app; left; cbn; repeat first [left; reflexivity | right]).
  apply in_or_app; right. cbn [shape_of]. apply in_map. apply frag_op_in. now apply (frag_binary_op l op r).
Qed.

Lemma in_rows_lr o s : In o all_binops -> In s all_shapes ->
  In (o, s, SLeft) all_rows /\ In (o, s, SRight) all_rows.
Proof.
  intros Ho Hs. unfold all_rows. split; apply in_or_app; left; apply in_flat_map; exists o; (split; [exact Ho|]);
    apply in_flat_map; exists s; (split; [exact Hs|]); cbn; tauto.
Qed.

Lemma in_rows_special s : In s all_shapes ->
  In (BAnd, s, SUnary) all_rows /\
  In (BBetween, s, SBetweenLo) all_rows /\ In (BBetween, s, SBetweenHi) all_rows /\
  In (BNotBetween, s, SBetweenLo) all_rows /\ In (BNotBetween, s, SBetweenHi) all_rows.
Proof.
  intros Hs. unfold all_rows. repeat split; apply in_or_app; right; apply in_flat_map; exists s;
    (split; [exact Hs|cbn; tauto]).
Qed.

Lemma level_of_frag_op o : frag_op o = true -> level b o = Some (prec (SBin o)).
Proof. unfold frag_op, prec. cbn [slevel]. destruct (level b o); [reflexivity|discriminate]. Qed.

Notation safe := (PrattT.safe (expr Q) sop prec rmin notp tern pol_un pol_l pol_r pol_lo pol_hi).
Notation top_ok := (PrattT.top_ok (expr Q) sop prec notp).
Notation left_ok := (PrattT.left_ok (expr Q) sop prec rmin).

(* the top operator of the skeleton of a binary node is the node's operator *)
Lemma skel_binary l o r : exists r', skel (EBinary l o r) = EB (skel l) (SBin o) r'.
Proof.
  cbn [skel]. destruct r as [| | | |lo rop hi| | | | | | | | |]; try (eexists; reflexivity).
  destruct rop; try (eexists; reflexivity). destruct (is_between o); eexists; reflexivity.
Qed.

(* an operand x may stand bare where level k is expected, if the table's level test says so *)
Lemma top_ok_of_levels (x : expr Q) (k : nat) : frag x = true ->
  (match shape_of x with
   | ShUnary => leb_opt (Some k) (Some notp)
   | ShBinary o1 => leb_opt (Some k) (level b o1)
   | _ => true
   end) = true -> top_ok (skel x) k.
Proof.
  intros Hx. destruct x as [c|es|y|f args|l o1 r|sop0 q|v|vs|cs|cs es|kw|ty y|whens els|v];
    try (intros _; exact I).
  - cbn [shape_of skel PrattT.top_ok leb_opt]. intros H. now apply Nat.leb_le in H.
  - destruct (skel_binary l o1 r) as [r' ->]. cbn [shape_of PrattT.top_ok].
    rewrite (level_of_frag_op o1 (frag_binary_op l o1 r Hx)). cbn [leb_opt]. intros H. now apply Nat.leb_le in H.
Qed.

Lemma bare_right o (r : expr Q) : frag_op o = true -> frag r = true ->
  bare_ok b o (shape_of r) SRight = true -> top_ok (skel r) (rmin (SBin o)).
Proof.
  intros Ho Hr Hb. apply top_ok_of_levels; [exact Hr|]. unfold bare_ok in Hb. rewrite (level_of_frag_op o Ho) in Hb.
  cbn [succ_opt] in Hb. unfold rmin. destruct (shape_of r); try reflexivity; exact Hb.
Qed.

Lemma bare_bound o (x : expr Q) sd : is_between o = true -> frag_op o = true -> frag x = true ->
  (sd = SBetweenLo \/ sd = SBetweenHi) ->
  bare_ok b o (shape_of x) sd = true -> top_ok (skel x) (rmin (SBin o)).
Proof.
  intros Eb Ho Hx Hsd Hb. apply top_ok_of_levels; [exact Hx|]. unfold bare_ok in Hb.
  assert (El : level b BBetween = Some (prec (SBin o))).
  { rewrite <- (level_of_frag_op o Ho). destruct o; try discriminate Eb; destruct b; reflexivity. }
  rewrite El in Hb. cbn [succ_opt] in Hb. unfold rmin.
  destruct Hsd as [-> | ->]; destruct (shape_of x); try reflexivity; exact Hb.
Qed.

Lemma bare_left o (l : expr Q) : frag_op o = true -> frag l = true ->
  bare_ok b o (shape_of l) SLeft = true -> left_ok (SBin o) (skel l).
Proof.
  intros Ho Hl. unfold bare_ok. rewrite (level_of_frag_op o Ho).
  destruct l as [c|es|y|f args|l1 o1 r1|sop0 q|v|vs|cs|cs es|kw|ty y|whens els|v]; try (intros _; exact I).
  - cbn [shape_of skel PrattT.left_ok]. intros H; discriminate H.
  - destruct (skel_binary l1 o1 r1) as [r' ->]. cbn [shape_of PrattT.left_ok].
    rewrite (level_of_frag_op o1 (frag_binary_op l1 o1 r1 Hl)).
    cbn [succ_opt leb_opt ltb_opt]. intros H. apply andb_prop in H as [H1 H2].
    apply Nat.leb_le in H1. apply Nat.ltb_lt in H2. unfold rmin. split; [exact H1|exact H2].
Qed.

Lemma bare_unary (x : expr Q) : frag x = true ->
  bare_ok b BAnd (shape_of x) SUnary = true -> top_ok (skel x) notp.
Proof.
  intros Hx Hb. apply top_ok_of_levels; [exact Hx|]. unfold bare_ok in Hb.
  destruct (shape_of x); try reflexivity; [cbn [leb_opt]; apply Nat.leb_refl|exact Hb].
Qed.

(* ESCAPE sits above LIKE in every dialect's table: the pattern / escape pair may stand bare to the right of LIKE *)
Lemma escape_above_like o : is_like o = true -> leb_opt (succ_opt (level b o)) (level b BEscape) = true.
Proof. destruct o; try discriminate; destruct b; reflexivity. Qed.

Lemma and_below_between_bound o : is_between o = true -> frag_op o = true ->
  (prec SBetweenAnd < rmin (SBin o))%nat.
Proof.
  intros Eb Ho. unfold rmin, prec. cbn [slevel].
  assert (El : level b BBetween = level b o) by (destruct o; try discriminate Eb; destruct b; reflexivity).
  rewrite El. lia.
Qed.

Theorem frag_safe e : frag e = true -> safe (skel e).
Proof.
  remember (PrattTProofs.size _ _ (skel e)) as n eqn:Hn. revert e Hn.
  induction n as [n IHn] using lt_wf_ind. intros e Hn Hf.
  assert (IH : forall x, (PrattTProofs.size _ _ (skel x) < n)%nat -> frag x = true -> safe (skel x)).
  { intros x Hlt Hx. now apply (IHn _ Hlt x). }
  destruct e as [c|es|x|f args|l op r|sop0 q|v|vs|cs|cs es|k|ty x|whens els|v]; try exact I.
  - (* NOT *)
    cbn [frag] in Hf. cbn [skel PrattTProofs.size] in Hn. cbn [skel PrattT.safe].
    split; [apply IH; [lia|exact Hf]|].
    destruct (in_rows_special _ (shape_in x Hf)) as [Hin _].
    pose proof (row_ok_of_rows _ _ _ Hin) as Hrow.
    unfold row_ok in Hrow. cbn [is_ternary_part orb] in Hrow.
    apply orb_prop in Hrow as [Hw|Hb].
    + left. unfold pol_un. now rewrite shape_of_skel.
    + right. now apply bare_unary.
  - (* binary / ternary *)
    pose proof Hf as Hf0.
    cbn [frag] in Hf. apply andb_prop in Hf as [Hf Hr]. apply andb_prop in Hf as [Hf Hl].
    apply andb_prop in Hf as [Hf Hbs]. apply andb_prop in Hf as [Ho _].
    destruct (in_rows_lr op (shape_of l) (frag_op_in op Ho) (shape_in l Hl)) as [HinL _].
    pose proof (row_ok_of_rows _ _ _ HinL) as HrowL.
    unfold row_ok in HrowL. cbn [is_ternary_part orb] in HrowL.
    assert (HL : pol_l (SBin op) (skel l) = true \/ left_ok (SBin op) (skel l)).
    { apply orb_prop in HrowL as [Hw|Hb].
      - left. unfold pol_l. cbn [sop_bin]. now rewrite shape_of_skel.
      - right. now apply bare_left. }
    destruct (is_between op) eqn:Eb.
    + (* x BETWEEN lo AND hi *)
      unfold between_shape in Hbs. rewrite Eb in Hbs.
      destruct r as [| | | |lo rop hi| | | | | | | | |]; try discriminate Hbs.
      destruct rop; try discriminate Hbs. clear Hbs.
      cbn [frag] in Hr. apply andb_prop in Hr as [Hr Hhi]. apply andb_prop in Hr as [Hr Hlo].
      cbn [skel] in Hn |- *. rewrite Eb in Hn |- *. cbn [PrattTProofs.size] in Hn.
      cbn [PrattT.safe tern]. rewrite Eb.
      split; [reflexivity|]. split; [now apply and_below_between_bound|].
      split; [apply IH; [lia|exact Hl]|]. split; [apply IH; [lia|exact Hlo]|]. split; [apply IH; [lia|exact Hhi]|].
      split; [exact HL|].
      assert (Hb : op = BBetween \/ op = BNotBetween) by (destruct op; try discriminate Eb; auto).
      destruct (in_rows_special _ (shape_in lo Hlo)) as (_ & Hlo1 & _ & Hlo2 & _).
      destruct (in_rows_special _ (shape_in hi Hhi)) as (_ & _ & Hhi1 & _ & Hhi2).
      split.
      * assert (Hrow : row_ok b T op (shape_of lo) SBetweenLo = true)
          by (destruct Hb as [-> | ->]; now apply row_ok_of_rows).
        unfold row_ok in Hrow. cbn [is_ternary_part orb] in Hrow. apply orb_prop in Hrow as [Hw|Hbare].
        -- left. unfold pol_lo. cbn [sop_bin]. now rewrite shape_of_skel.
        -- right. apply (bare_bound op lo SBetweenLo Eb Ho Hlo); [now left|exact Hbare].
      * assert (Hrow : row_ok b T op (shape_of hi) SBetweenHi = true)
          by (destruct Hb as [-> | ->]; now apply row_ok_of_rows).
        unfold row_ok in Hrow. cbn [is_ternary_part orb] in Hrow. apply orb_prop in Hrow as [Hw|Hbare].
        -- left. unfold pol_hi. cbn [sop_bin]. now rewrite shape_of_skel.
        -- right. apply (bare_bound op hi SBetweenHi Eb Ho Hhi); [now right|exact Hbare].
    + (* binary *)
      assert (Esk : skel (EBinary l op r) = EB (skel l) (SBin op) (skel r)).
      { cbn [skel]. destruct r as [| | | |lo rop hi| | | | | | | | |]; try reflexivity.
        destruct rop; try reflexivity. now rewrite Eb. }
      rewrite Esk in Hn |- *. cbn [PrattTProofs.size] in Hn. cbn [PrattT.safe tern]. rewrite Eb.
      split; [apply IH; [lia|exact Hl]|]. split; [apply IH; [lia|exact Hr]|]. split; [exact HL|].
      destruct (in_rows_lr op (shape_of r) (frag_op_in op Ho) (shape_in r Hr)) as [_ HinR].
      pose proof (row_ok_of_rows _ _ _ HinR) as HrowR. unfold row_ok in HrowR.
      destruct (is_ternary_part op (shape_of r) SRight) eqn:Et.
      * (* the pattern / escape pair to the right of LIKE *)
        right. unfold is_ternary_part in Et.
        destruct r as [| | | |p rop c| | | | | | | | |]; try discriminate Et. cbn [shape_of] in Et.
        destruct rop; try discriminate Et; [now rewrite Eb in Et|].
        apply top_ok_of_levels; [exact Hr|]. cbn [shape_of]. unfold rmin.
        pose proof (escape_above_like op Et) as He. rewrite (level_of_frag_op op Ho) in He.
        cbn [succ_opt] in He. exact He.
      * cbn [orb] in HrowR. apply orb_prop in HrowR as [Hw|Hbare].
        -- left. unfold pol_r. cbn [sop_bin]. now rewrite shape_of_skel.
        -- right. now apply bare_right.
Qed.

Lemma prec_le_rmin o : (prec o <= rmin o)%nat.
Proof. unfold rmin. lia. Qed.

(* the abstract rendering of a tree of the fragment parses back to the tree's skeleton, and to
   nothing else (parse_unique), whatever closes the expression afterwards *)
Theorem fragment_parses_back e rest : frag e = true ->
  PrattT.stops (expr Q) sop prec 0 rest ->
  PrattT.P (expr Q) sop prec rmin notp tern 0 (abstract_rendering e ++ rest) (skel e) rest.
Proof.
  intros Hf Hst. unfold abstract_rendering.
  apply (parse_render (expr Q) sop prec rmin notp tern prec_le_rmin pol_un pol_l pol_r pol_lo pol_hi (skel e) rest);
    [now apply frag_safe|exact Hst].
Qed.
End Link.
