(* C05: the link between the renderer model (Model/RenderExpr.v, rexpr) and the abstract
   precedence-climbing grammar (Spec/Pratt.v), for the operator fragment of the expression type.

   Fragment: trees built from NOT and from binary operators that have a level in the dialect's
   table (Spec/Prec.v) and are not part of a ternary form (BETWEEN .. AND .., LIKE .. ESCAPE ..,
   the rewritten IN ()), over operands that are written as one primary expression (column, value,
   tuple, function call, sub-query, keyword, CASE, constant).  For every such tree, of any depth:

   (1) the script rexpr writes IS the abstract rendering of the tree's skeleton under the
       parenthesis policy read off the code's decision tables, token by token
       (rexpr_is_abstract_rendering);
   (2) if every row of the decision tables is safe (ParenRows.bad_rows = [], which C05_all_rows_safe
       establishes for the tables executed from the code), that token list parses, under the
       dialect's levels, to exactly the skeleton (fragment_parses_back).

   What stays outside: that the engine lexes the text of an atom as one primary expression and
   the operator spellings as the operators they name (lexical, C03/C04/C16 and the re-parse
   oracle), and the ternary forms (covered by the finite rows SBetweenLo/Hi and by the oracle). *)
Require Import SQV.Spec.Pratt SQV.Proofs.PrattProofs.
Require Import SQV.Model.Str SQV.Model.Escape SQV.Model.Value SQV.Model.Expr SQV.Model.Writer
  SQV.Model.RenderExpr SQV.Model.ExprTablesInst SQV.Spec.Prec SQV.Spec.ParenRows.
From Coq Require Import Lia String Arith.
Open Scope list_scope.

Section Link.
Variable Q : Type.
Variable rq : Q -> script.
Variable is_alpha : N -> bool.
Variable b : backend.
Variable T : etables.

Notation pexpr := (Pratt.expr (expr Q) binop).
Notation ptok := (Pratt.tok (expr Q) binop).
Notation EA := (Pratt.EA (expr Q) binop).
Notation EN := (Pratt.EN (expr Q) binop).
Notation EB := (Pratt.EB (expr Q) binop).

(* ---- the fragment ---- *)
Definition frag_op (o : binop) : bool :=
  match o with
  | BBetween | BNotBetween | BEscape => false
  | _ => match level b o with Some _ => true | None => false end
  end.

Definition primary (e : expr Q) : bool :=
  match e with
  | EColumn _ | ETuple _ | EFunc _ _ | ESubQuery _ _ | EValue _ | EValues _ | EKeyword _
  | ECase _ _ | EConstant _ => true
  | _ => false
  end.

Fixpoint frag (e : expr Q) : bool :=
  match e with
  | EBinary l o r => frag_op o && negb (is_empty_in Q o r) && frag l && frag r
  | ENot x => frag x
  | _ => primary e
  end.

(* ---- skeleton, policy and levels ---- *)
Fixpoint skel (e : expr Q) : pexpr :=
  match e with
  | EBinary l o r => EB (skel l) o (skel r)
  | ENot x => EN (skel x)
  | _ => EA e
  end.

Definition sk_shape (p : pexpr) : shape :=
  match p with
  | Pratt.EA _ _ a => shape_of a
  | Pratt.EN _ _ _ => ShUnary
  | Pratt.EB _ _ _ o _ => ShBinary o
  end.

Definition pol_un (x : pexpr) : bool := writes_paren T BAnd (sk_shape x) SUnary.
Definition pol_l (o : binop) (l : pexpr) : bool := writes_paren T o (sk_shape l) SLeft.
Definition pol_r (o : binop) (r : pexpr) : bool := writes_paren T o (sk_shape r) SRight.

Definition prec (o : binop) : nat := match level b o with Some n => n | None => 0%nat end.
Definition rmin (o : binop) : nat := S (prec o).
Definition notp : nat := not_level b.

Definition tok_script (t : ptok) : script :=
  match t with
  | Pratt.TA _ _ a => rexpr Q rq is_alpha b T false a
  | Pratt.TL _ _ => [ws "("]
  | Pratt.TR _ _ => [ws ")"]
  | Pratt.TO _ _ o => [ws " "] ++ rbinop T o ++ [ws " "]
  | Pratt.TN _ _ => [ws "NOT"; ws " "]
  end.

Definition abstract_rendering (e : expr Q) : list ptok :=
  Pratt.render (expr Q) binop pol_un pol_l pol_r (skel e).

(* ---- (1) the script is the image of the abstract rendering ---- *)
Lemma shape_of_skel e : sk_shape (skel e) = shape_of e.
Proof. destruct e; reflexivity. Qed.

Lemma flat_map_wrap p ts :
  flat_map tok_script (Pratt.wrap (expr Q) binop p ts) = wrap p (flat_map tok_script ts).
Proof.
  unfold Pratt.wrap, wrap. destruct p; [|reflexivity].
  cbn [flat_map tok_script app]. now rewrite flat_map_app.
Qed.

Lemma frag_op_not_between o : frag_op o = true -> is_between o = false.
Proof. destruct o; cbn; congruence. Qed.

Lemma frag_op_not_escape o : frag_op o = true -> binop_eqb BEscape o = false.
Proof.
  destruct o as [| | | | | | | | | | | | | | | | | | | | | | | | | | |c|pg|sl]; cbn; try congruence; try reflexivity.
  - destruct pg; reflexivity.
  - destruct sl; reflexivity.
Qed.

Lemma same_is_binary_with (o : binop) (l : expr Q) :
  (match shape_of l with ShBinary o1 => binop_eqb o o1 | _ => false end) = is_binary_with l (binop_eqb o).
Proof. destruct l; reflexivity. Qed.

Lemma left_paren_eq o (l : expr Q) :
  negb (t_drop_paren T (shape_key (shape_of l)) (oper_key (OBin o))) &&
    negb (is_binary_with l (binop_eqb o) && t_lassoc T (binop_key o))
  = writes_paren T o (shape_of l) SLeft.
Proof. unfold writes_paren, drop_hp. now rewrite same_is_binary_with. Qed.

(* in the fragment the right operand is never part of a ternary form or an AS-hack *)
Lemma right_paren_frag o (r : expr Q) :
  frag_op o = true -> frag r = true ->
  negb (t_drop_paren T (shape_key (shape_of r)) (oper_key (OBin o))) &&
    negb (is_like o && is_binary_with r (binop_eqb BEscape)) &&
    negb (is_between o && is_binary_with r (binop_eqb BAnd)) &&
    negb (binop_eqb o BAs && match r with ECustom _ => true | _ => false end)
  = writes_paren T o (shape_of r) SRight.
Proof.
  intros Ho Hr. unfold writes_paren, drop_hp. rewrite (frag_op_not_between o Ho). cbn [andb negb].
  assert (E1 : is_binary_with r (binop_eqb BEscape) = false).
  { destruct r; try reflexivity. cbn [is_binary_with]. cbn [frag] in Hr.
    apply andb_prop in Hr as [Hr _]. apply andb_prop in Hr as [Hr _]. apply andb_prop in Hr as [Hr _].
    now apply frag_op_not_escape. }
  assert (E2 : (match shape_of r with ShBinary BEscape => true | _ => false end) = false).
  { destruct r; try reflexivity. cbn [shape_of]. cbn [frag] in Hr.
    apply andb_prop in Hr as [Hr _]. apply andb_prop in Hr as [Hr _]. apply andb_prop in Hr as [Hr _].
    destruct op; try reflexivity. discriminate Hr. }
  assert (E3 : (match r with ECustom _ => true | _ => false end) = false).
  { destruct r; try reflexivity. discriminate Hr. }
  assert (E4 : (match shape_of r with ShCustom => true | _ => false end) = false).
  { destruct r; try reflexivity. discriminate Hr. }
  rewrite E1, E2, E3, E4, !andb_false_r. cbn [negb]. now rewrite !andb_true_r.
Qed.

Lemma sr_not_between o (r : expr Q) (X : expr Q -> expr Q -> script) :
  is_between o = false ->
  (match r with
   | EBinary lo BAnd hi => if is_between o then X lo hi else rexpr Q rq is_alpha b T false r
   | _ => rexpr Q rq is_alpha b T false r
   end) = rexpr Q rq is_alpha b T false r.
Proof. intros ->. destruct r; try reflexivity. destruct op; reflexivity. Qed.

Theorem rexpr_is_abstract_rendering e : frag e = true ->
  rexpr Q rq is_alpha b T false e = flat_map tok_script (abstract_rendering e).
Proof.
  unfold abstract_rendering.
  induction e as [c|es|x IHx|f args|l IHl op r IHr|sop q|v|vs|cs|cs es|k|ty x IHx|whens els|v];
    intros Hf; try (cbn [skel Pratt.render flat_map tok_script]; now rewrite app_nil_r);
    try discriminate Hf.
  - (* NOT *)
    cbn [frag] in Hf. cbn [skel Pratt.render flat_map]. rewrite flat_map_wrap, <- (IHx Hf).
    cbn [tok_script rexpr]. unfold pol_un, writes_paren, drop_hp. now rewrite shape_of_skel.
  - (* binary *)
    cbn [frag] in Hf. apply andb_prop in Hf as [Hf Hr]. apply andb_prop in Hf as [Hf Hl].
    apply andb_prop in Hf as [Ho He]. apply negb_true_iff in He.
    cbn [skel Pratt.render]. rewrite flat_map_app. cbn [flat_map]. rewrite !flat_map_wrap.
    rewrite <- (IHl Hl), <- (IHr Hr). cbn [rexpr]. rewrite He.
    rewrite (sr_not_between op r _ (frag_op_not_between op Ho)).
    unfold binary_expr. unfold pol_l, pol_r. rewrite !shape_of_skel.
    rewrite (right_paren_frag op r Ho Hr).
    rewrite (left_paren_eq op l).
    cbn [tok_script]. now rewrite <- !app_assoc.
Qed.

(* ---- (2) safe rows make every tree of the fragment safe ---- *)
Hypothesis rows_safe : bad_rows b T = [].

Lemma flat_map_nil_in {A B} (f : A -> list B) l x : flat_map f l = [] -> In x l -> f x = [].
Proof.
  induction l as [|y l IH]; [intros _ []|]. cbn [flat_map]. intros H [->|Hin].
  - now apply app_eq_nil in H as [H _].
  - apply app_eq_nil in H as [_ H]. now apply IH.
Qed.

Lemma row_ok_of_rows o s sd : In (o, s, sd) all_rows -> row_ok b T o s sd = true.
Proof.
  intros Hin. pose proof (flat_map_nil_in _ _ _ rows_safe Hin) as H. cbv beta iota in H.
  destruct (row_ok b T o s sd); [reflexivity|discriminate H].
Qed.

Lemma frag_op_in o : frag_op o = true -> In o all_binops.
Proof.
  intros H.
  assert (Hc : match o with BCustom _ => False | _ => True end).
  { destruct o; try exact I. unfold frag_op in H. destruct b; discriminate H. }
  destruct o as [| | | | | | | | | | | | | | | | | | | | | | | | | | |c|pg|sl];
    [..|contradiction|destruct pg|destruct sl]; cbn; repeat first [left; reflexivity | right].
Qed.

Lemma shape_in (e : expr Q) : frag e = true -> In (shape_of e) all_shapes.
Proof.
  intros Hf. unfold all_shapes.
  destruct e as [c|es|x|f args|l op r|sop q|v|vs|cs|cs es|k|ty x|whens els|v]; try discriminate Hf;
    try (lazymatch goal with |- In (shape_of (EBinary _ _ _)) _ => fail | _ => idtac end;
         apply in_or_app; left; cbn; repeat first [left; reflexivity | right]).
  apply in_or_app; right. cbn [shape_of]. apply in_map.
  cbn [frag] in Hf. apply andb_prop in Hf as [Hf _]. apply andb_prop in Hf as [Hf _].
  apply andb_prop in Hf as [Hf _]. now apply frag_op_in.
Qed.

Lemma in_rows_lr o s : In o all_binops -> In s all_shapes ->
  In (o, s, SLeft) all_rows /\ In (o, s, SRight) all_rows.
Proof.
  intros Ho Hs. unfold all_rows. split; apply in_or_app; left; apply in_flat_map; exists o; (split; [exact Ho|]);
    apply in_flat_map; exists s; (split; [exact Hs|]); cbn; tauto.
Qed.

Lemma in_rows_un s : In s all_shapes -> In (BAnd, s, SUnary) all_rows.
Proof.
  intros Hs. unfold all_rows. apply in_or_app; right. apply in_flat_map. exists s. split; [exact Hs|cbn; tauto].
Qed.

Lemma level_of_frag_op o : frag_op o = true -> level b o = Some (prec o).
Proof.
  unfold frag_op, prec. destruct o; try discriminate; destruct (level b _); try discriminate; reflexivity.
Qed.

Notation safe := (Pratt.safe (expr Q) binop prec rmin notp pol_un pol_l pol_r).
Notation top_ok := (Pratt.top_ok (expr Q) binop prec notp).
Notation left_ok := (Pratt.left_ok (expr Q) binop prec rmin).

(* the boolean row condition, read at a tree of the fragment, is the abstract local condition *)
Lemma bare_right o (r : expr Q) : frag_op o = true -> frag r = true ->
  bare_ok b o (shape_of r) SRight = true -> top_ok (skel r) (rmin o).
Proof.
  intros Ho Hr. unfold bare_ok. rewrite (level_of_frag_op o Ho).
  destruct r; try (intros _; exact I); cbn [shape_of skel Pratt.top_ok].
  - cbn [succ_opt leb_opt]. intros H. apply Nat.leb_le in H. exact H.
  - cbn [frag] in Hr. apply andb_prop in Hr as [Hr _]. apply andb_prop in Hr as [Hr _].
    apply andb_prop in Hr as [Hr _]. rewrite (level_of_frag_op _ Hr).
    cbn [succ_opt leb_opt]. intros H. apply Nat.leb_le in H. exact H.
Qed.

Lemma bare_left o (l : expr Q) : frag_op o = true -> frag l = true ->
  bare_ok b o (shape_of l) SLeft = true -> left_ok o (skel l).
Proof.
  intros Ho Hl. unfold bare_ok. rewrite (level_of_frag_op o Ho).
  destruct l; try (intros _; exact I); cbn [shape_of skel Pratt.left_ok]; [intros H; discriminate H|].
  cbn [frag] in Hl. apply andb_prop in Hl as [Hl _]. apply andb_prop in Hl as [Hl _].
  apply andb_prop in Hl as [Hl _]. rewrite (level_of_frag_op _ Hl).
  cbn [succ_opt leb_opt ltb_opt]. intros H. apply andb_prop in H as [H1 H2].
  apply Nat.leb_le in H1. apply Nat.ltb_lt in H2. unfold rmin. split; [exact H1|exact H2].
Qed.

Lemma bare_unary (x : expr Q) : frag x = true ->
  bare_ok b BAnd (shape_of x) SUnary = true -> top_ok (skel x) notp.
Proof.
  intros Hx. unfold bare_ok.
  destruct x; try (intros _; exact I); cbn [shape_of skel Pratt.top_ok]; [intros _; apply Nat.le_refl|].
  cbn [frag] in Hx. apply andb_prop in Hx as [Hx _]. apply andb_prop in Hx as [Hx _].
  apply andb_prop in Hx as [Hx _]. rewrite (level_of_frag_op _ Hx).
  cbn [leb_opt]. intros H. apply Nat.leb_le in H. exact H.
Qed.

Lemma not_ternary_right o (r : expr Q) : frag_op o = true -> frag r = true ->
  is_ternary_part o (shape_of r) SRight = false.
Proof.
  intros Ho Hr. unfold is_ternary_part.
  destruct r; try reflexivity. cbn [shape_of].
  cbn [frag] in Hr. apply andb_prop in Hr as [Hr _]. apply andb_prop in Hr as [Hr _].
  apply andb_prop in Hr as [Hr _].
  destruct op; try reflexivity; [apply (frag_op_not_between o Ho)|discriminate Hr].
Qed.

Theorem frag_safe e : frag e = true -> safe (skel e).
Proof.
  induction e as [c|es|x IHx|f args|l IHl op r IHr|sop q|v|vs|cs|cs es|k|ty x IHx|whens els|v];
    intros Hf; try exact I.
  - (* NOT *)
    cbn [frag] in Hf. cbn [skel Pratt.safe]. split; [now apply IHx|].
    pose proof (row_ok_of_rows _ _ _ (in_rows_un _ (shape_in x Hf))) as Hrow.
    unfold row_ok in Hrow. cbn [is_ternary_part orb] in Hrow.
    apply orb_prop in Hrow as [Hw|Hb].
    + left. unfold pol_un. now rewrite shape_of_skel.
    + right. now apply bare_unary.
  - (* binary *)
    cbn [frag] in Hf. apply andb_prop in Hf as [Hf Hr]. apply andb_prop in Hf as [Hf Hl].
    apply andb_prop in Hf as [Ho _].
    cbn [skel Pratt.safe]. split; [now apply IHl|]. split; [now apply IHr|].
    destruct (in_rows_lr op (shape_of l) (frag_op_in op Ho) (shape_in l Hl)) as [HinL _].
    destruct (in_rows_lr op (shape_of r) (frag_op_in op Ho) (shape_in r Hr)) as [_ HinR].
    pose proof (row_ok_of_rows _ _ _ HinL) as HrowL. pose proof (row_ok_of_rows _ _ _ HinR) as HrowR.
    unfold row_ok in HrowL, HrowR. cbn [is_ternary_part orb] in HrowL.
    rewrite (not_ternary_right op r Ho Hr) in HrowR. cbn [orb] in HrowR.
    split.
    + apply orb_prop in HrowL as [Hw|Hb].
      * left. unfold pol_l. now rewrite shape_of_skel.
      * right. now apply bare_left.
    + apply orb_prop in HrowR as [Hw|Hb].
      * left. unfold pol_r. now rewrite shape_of_skel.
      * right. now apply bare_right.
Qed.

Lemma prec_le_rmin o : (prec o <= rmin o)%nat.
Proof. unfold rmin. lia. Qed.

(* the abstract rendering of a tree of the fragment parses back to the tree's skeleton, and to
   nothing else (C05_parse_unique), whatever closes the expression afterwards *)
Theorem fragment_parses_back e rest : frag e = true ->
  Pratt.stops (expr Q) binop prec 0 rest ->
  Pratt.P (expr Q) binop prec rmin notp 0 (abstract_rendering e ++ rest) (skel e) rest.
Proof.
  intros Hf Hst. unfold abstract_rendering.
  apply (parse_render (expr Q) binop prec rmin notp prec_le_rmin pol_un pol_l pol_r (skel e) rest);
    [now apply frag_safe|exact Hst].
Qed.
End Link.

