(* C06 end to end (Proofs/WhereLinkProofs.v) with leaves over EVERY binary operator: a condition tree whose
   leaves are operator trees of Proofs/PrattLinkAnyProofs.v (custom and extension operators included) is
   written so that, at whatever level the engine reads the operators its table does not place, every parse of
   the written text is the tree to_simple_expr built, and its Kleene value is the specified any / all / not
   meaning. *)
Require Import SQV.Spec.PrattT SQV.Proofs.PrattTProofs.
Require Import SQV.Model.Str SQV.Model.Escape SQV.Model.Value SQV.Model.Expr SQV.Model.Writer
  SQV.Model.RenderExpr SQV.Model.Cond SQV.Model.ExprTablesInst
  SQV.Spec.Prec SQV.Spec.ParenRows SQV.Spec.Logic3 SQV.Proofs.CondProofs SQV.Proofs.PrattLinkProofs
  SQV.Proofs.PrattLinkAnyProofs SQV.Proofs.WhereLinkProofs.
From Coq Require Import Lia String Arith.
Open Scope list_scope.

Section W.
Variable Q : Type.
Variable b : backend.
Variable lv0 : binop -> nat.

Fixpoint cond_frag_any (c : cond Q) : bool :=
  match c with
  | Cond _ _ ms => forallb (fun m => match m with MCond c' => cond_frag_any c' | MExpr e => frag_any Q e end) ms
  end.

Lemma frag_any_fold (is_any : bool) rest : forall first,
  frag_any Q first = true -> forallb (frag_any Q) rest = true ->
  frag_any Q (fold_binop (if is_any then BOr else BAnd) first rest) = true.
Proof.
  unfold fold_binop. induction rest as [|x rest IH]; intros first Hf Hr; [exact Hf|].
  cbn [forallb] in Hr. apply andb_prop in Hr as [Hx Hr]. cbn [fold_left]. apply IH; [|exact Hr].
  cbn [frag_any]. rewrite Hf, Hx.
  destruct is_any; reflexivity.
Qed.

Theorem cond_frag_any_sound : forall c : cond Q, cond_frag_any c = true -> frag_any Q (to_simple_expr c) = true.
Proof.
  intros c. remember (cond_size Q c) as n eqn:Hn. revert c Hn.
  induction n as [n IHn] using lt_wf_ind. intros c Hn Hc.
  destruct c as [negate is_any ms]. cbn [cond_frag_any] in Hc.
  assert (Hm : forallb (frag_any Q) (map (fun m => match m with MCond c' => to_simple_expr c' | MExpr e => e end) ms) = true).
  { rewrite forallb_forall in *. intros e Hin. apply in_map_iff in Hin as [m [<- Hin]].
    specialize (Hc m Hin). destruct m as [c'|e']; [|exact Hc].
    apply (IHn (cond_size Q c')); [|reflexivity|exact Hc].
    subst n. cbn [cond_size]. pose proof (member_size_le Q ms c' Hin). lia. }
  cbn [to_simple_expr].
  set (inner := map (fun m => match m with MCond c' => to_simple_expr c' | MExpr e => e end) ms) in *.
  assert (E : frag_any Q (match inner with
                          | [] => EConstant (if is_any then false_value else true_value)
                          | first :: rest => fold_binop (if is_any then BOr else BAnd) first rest
                          end) = true).
  { destruct inner as [|first rest]; [reflexivity|].
    cbn [forallb] in Hm. apply andb_prop in Hm as [Hf Hr]. now apply frag_any_fold. }
  destruct negate; [cbn [frag_any]|]; exact E.
Qed.

Variable T : etables.
Hypothesis rows_safe : bad_rows b T = [].
Variable rho : expr Q -> tv.

Theorem written_condition_reads_as_specified_any (c : cond Q) rest p rest' :
  cond_frag_any c = true ->
  PrattT.stops (expr Q) sop (prec_any b lv0) 0 rest ->
  PrattT.P (expr Q) sop (prec_any b lv0) (rmin_any b lv0) (notp b) (tern) 0
    (abstract_rendering Q T (to_simple_expr c) ++ rest) p rest' ->
  p = skel Q (to_simple_expr c) /\ rest' = rest /\ eval3 rho (unskel Q p) = sem_cond rho c.
Proof.
  intros Hc Hst Hp.
  pose proof (fragment_parses_back_any Q b T lv0 rows_safe (to_simple_expr c) rest (cond_frag_any_sound c Hc) Hst) as Hq.
  destruct (parse_unique _ _ _ _ _ _ _ _ _ _ _ _ Hp Hq) as [-> ->].
  repeat split. rewrite unskel_skel. apply to_simple_expr_sound.
Qed.

Theorem written_condition_parses_any (c : cond Q) rest :
  cond_frag_any c = true -> PrattT.stops (expr Q) sop (prec_any b lv0) 0 rest ->
  PrattT.P (expr Q) sop (prec_any b lv0) (rmin_any b lv0) (notp b) (tern) 0
    (abstract_rendering Q T (to_simple_expr c) ++ rest) (skel Q (to_simple_expr c)) rest.
Proof. intros Hc Hst. apply fragment_parses_back_any; [exact rows_safe|now apply cond_frag_any_sound|exact Hst]. Qed.
End W.
