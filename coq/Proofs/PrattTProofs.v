(* Proofs about Spec/PrattT.v (precedence climbing with ternary forms): the rendering of every safe
   tree parses back to the tree (parse_render), and the grammar is deterministic (parse_unique). *)
Require Import SQV.Spec.PrattT.
From Coq Require Import List Arith Lia.
Import ListNotations.

Section Proofs.
Variables atom op : Type.
Variable prec rmin : op -> nat.
Variable notp : nat.
Variable tern : op -> option op.
Hypothesis prec_le_rmin : forall o, prec o <= rmin o.
Variable paren_un : expr atom op -> bool.
Variable paren_l paren_r paren_lo paren_hi : op -> expr atom op -> bool.

Notation tok := (tok atom op).
Notation expr := (expr atom op).
Notation P := (P atom op prec rmin notp tern).
Notation L := (L atom op prec rmin notp tern).
Notation stops := (stops atom op prec).
Notation render := (render atom op tern paren_un paren_l paren_r paren_lo paren_hi).
Notation safe := (safe atom op prec rmin notp tern paren_un paren_l paren_r paren_lo paren_hi).
Notation nosteal := (nosteal atom op prec rmin notp tern paren_un paren_r paren_hi).
Notation top_ok := (top_ok atom op prec notp).
Notation left_ok := (left_ok atom op prec rmin).
Notation wrap := (wrap atom op).

Fixpoint size (e : expr) : nat :=
  match e with EA _ _ _ => 1 | EN _ _ x => S (size x) | EB _ _ l _ r => S (size l + size r) end.

Lemma stops_mono k k' ts : k <= k' -> stops k ts -> stops k' ts.
Proof. destruct ts as [|[a| | |o|] ts]; cbn; auto. lia. Qed.

Lemma top_ok_0 e : top_ok e 0.
Proof. destruct e; cbn; auto; lia. Qed.

Lemma nosteal_of_level_n n : forall e, size e <= n -> safe e ->
  forall k rest, top_ok e k -> stops k rest -> nosteal e rest.
Proof.
  induction n as [|n IH]; intros e Hn; [destruct e; cbn in Hn; lia|].
  destruct e as [a|x|l o r]; intros Hs k rest Ht Hst; cbn [PrattT.nosteal]; [exact I| |].
  - cbn in Ht, Hn. destruct Hs as [Hsx Hp]. split; [eapply stops_mono; eauto|].
    destruct Hp as [Hp|Hp]; [now left|right]. apply (IH x ltac:(lia) Hsx notp); [exact Hp|eapply stops_mono; eauto].
  - cbn in Ht, Hn. cbn [PrattT.safe] in Hs.
    assert (Hk : k <= rmin o) by (specialize (prec_le_rmin o); lia).
    split; [eapply stops_mono; eauto|].
    destruct (tern o) as [sep|].
    + destruct r as [a|x|lo s hi]; try contradiction.
      destruct Hs as (_ & _ & _ & _ & Hshi & _ & _ & Hhi). cbn in Hn.
      destruct Hhi as [Hhi|Hhi]; [now left|right].
      apply (IH hi ltac:(lia) Hshi (rmin o)); [exact Hhi|eapply stops_mono; eauto].
    + destruct Hs as (_ & Hsr & _ & Hr).
      destruct Hr as [Hr|Hr]; [now left|right].
      apply (IH r ltac:(lia) Hsr (rmin o)); [exact Hr|eapply stops_mono; eauto].
Qed.

Lemma nosteal_of_level e : safe e -> forall k rest, top_ok e k -> stops k rest -> nosteal e rest.
Proof. intros. eapply (nosteal_of_level_n (size e)); eauto. Qed.

(* the operator that follows a bare left operand is not absorbed into it *)
Lemma nosteal_left o (l : expr) after : safe l -> left_ok o l -> nosteal l (TO atom op o :: after).
Proof.
  intros Hsl Hl. destruct l as [a|x|l1 o1 r1]; cbn in Hl; [exact I|contradiction|].
  destruct Hl as [Hl1 Hl2]. cbn [PrattT.nosteal]. split; [cbn; exact Hl2|].
  cbn [PrattT.safe] in Hsl. destruct (tern o1) as [sep|].
  - destruct r1 as [a|x|lo s hi]; try contradiction.
    destruct Hsl as (_ & _ & _ & _ & Hshi & _ & _ & Hhi).
    destruct Hhi as [Hhi|Hhi]; [now left|right].
    apply (nosteal_of_level hi Hshi (rmin o1)); [exact Hhi|cbn; exact Hl2].
  - destruct Hsl as (_ & Hsr1 & _ & Hr1).
    assert (H : paren_r o1 r1 = true \/ nosteal r1 (TO atom op o :: after)).
    { destruct Hr1 as [Hr1|Hr1]; [now left|right].
      apply (nosteal_of_level r1 Hsr1 (rmin o1)); [exact Hr1|cbn; exact Hl2]. }
    destruct r1; exact H.
Qed.

(* an operand x written at a position that expects level k, parenthesised or bare *)
Lemma operand_parses (x : expr) (k : nat) (p : bool) (rest : list tok) :
  (forall min rest0 e' rest', safe x -> top_ok x min -> nosteal x rest0 -> L min x rest0 e' rest' ->
     P min (render x ++ rest0) e' rest') ->
  safe x -> (p = true \/ top_ok x k) -> stops k rest -> (p = true \/ nosteal x rest) ->
  P k (wrap p (render x) ++ rest) x rest.
Proof.
  intros IH Hs Hp Hst Hn. unfold PrattT.wrap. destruct p.
  - cbn [app]. rewrite <- app_assoc. cbn [app].
    apply P_paren with (x := x) (ts' := rest).
    + apply IH; [exact Hs|apply top_ok_0| |constructor; exact I].
      apply (nosteal_of_level x Hs 0); [apply top_ok_0|exact I].
    + constructor. exact Hst.
  - destruct Hp as [Hp|Hp]; [discriminate|]. destruct Hn as [Hn|Hn]; [discriminate|].
    apply IH; [exact Hs|exact Hp|exact Hn|constructor; exact Hst].
Qed.

Lemma roundtrip_n n : forall e, size e <= n -> safe e -> forall min rest e' rest',
  top_ok e min -> nosteal e rest -> L min e rest e' rest' -> P min (render e ++ rest) e' rest'.
Proof.
  induction n as [|n IH]; intros e Hn; [destruct e; cbn in Hn; lia|].
  destruct e as [a|x|l o r]; intros Hs min rest e' rest' Ht Hnst HL.
  - cbn. now constructor.
  - cbn [PrattT.render app]. cbn in Hn. destruct Hs as [Hsx Hp]. cbn in Ht. destruct Hnst as [Hst Hnx].
    apply P_not with (x := x) (ts' := rest); [exact Ht| |exact HL].
    apply operand_parses; [intros; now apply (IH x ltac:(lia))|exact Hsx|exact Hp|exact Hst|exact Hnx].
  - cbn in Hn, Ht. cbn [PrattT.safe] in Hs. cbn [PrattT.nosteal] in Hnst. destruct Hnst as [Hst Hnr].
    cbn [PrattT.render].
    (* the left operand, given the loop L after it *)
    assert (Left : forall after, (paren_l o l = true \/ left_ok o l) -> safe l -> size l <= n ->
              L min l (TO atom op o :: after) e' rest' ->
              P min (wrap (paren_l o l) (render l) ++ TO atom op o :: after) e' rest').
    { intros after Hl Hsl Hnl HLl. unfold PrattT.wrap at 1. destruct (paren_l o l) eqn:Epl.
      - cbn [app]. rewrite <- app_assoc. cbn [app].
        apply P_paren with (x := l) (ts' := TO atom op o :: after).
        + apply (IH l Hnl Hsl); [apply top_ok_0| |constructor; exact I].
          apply (nosteal_of_level l Hsl 0); [apply top_ok_0|exact I].
        + exact HLl.
      - destruct Hl as [Hl|Hl]; [congruence|].
        apply (IH l Hnl Hsl); [| |exact HLl].
        + destruct l as [a|x|l1 o1 r1]; cbn in *; auto; [contradiction|lia].
        + (* what follows l (the operator o) is not absorbed into l *)
          now apply nosteal_left. }
    destruct (tern o) as [sep|] eqn:Et.
    + (* ternary form *)
      destruct r as [a|x|lo s hi]; try contradiction.
      destruct Hs as (-> & Hsep & Hsl & Hslo & Hshi & Hl & Hlo & Hhi). cbn in Hn.
      rewrite <- app_assoc. cbn [app]. rewrite <- app_assoc. cbn [app].
      assert (HPhi : P (rmin o) (wrap (paren_hi o hi) (render hi) ++ rest) hi rest).
      { apply operand_parses; [intros; now apply (IH hi ltac:(lia))|exact Hshi|exact Hhi|exact Hst|exact Hnr]. }
      set (after_lo := TO atom op sep :: wrap (paren_hi o hi) (render hi) ++ rest) in *.
      assert (Hst_sep : stops (rmin o) after_lo) by (cbn; exact Hsep).
      assert (HPlo : P (rmin o) (wrap (paren_lo o lo) (render lo) ++ after_lo) lo after_lo).
      { apply operand_parses; [intros; now apply (IH lo ltac:(lia))|exact Hslo|exact Hlo|exact Hst_sep|].
        destruct Hlo as [Hlo|Hlo]; [now left|right].
        apply (nosteal_of_level lo Hslo (rmin o)); [exact Hlo|exact Hst_sep]. }
      apply Left; [exact Hl|exact Hsl|lia|].
      apply L_tern with (sep := sep) (lo := lo) (ts' := wrap (paren_hi o hi) (render hi) ++ rest) (hi := hi) (ts'' := rest);
        [exact Et|exact Ht|exact HPlo|exact HPhi|exact HL].
    + (* binary form *)
      destruct Hs as (Hsl & Hsr & Hl & Hr).
      assert (Er : (match r with
                    | EB _ _ lo s hi => wrap (paren_l o l) (render l) ++ TO atom op o :: wrap (paren_r o r) (render r)
                    | _ => wrap (paren_l o l) (render l) ++ TO atom op o :: wrap (paren_r o r) (render r)
                    end) = wrap (paren_l o l) (render l) ++ TO atom op o :: wrap (paren_r o r) (render r))
        by (destruct r; reflexivity).
      rewrite <- app_assoc. cbn [app].
      assert (Hnr' : paren_r o r = true \/ nosteal r rest) by (destruct r; exact Hnr).
      assert (HPr : P (rmin o) (wrap (paren_r o r) (render r) ++ rest) r rest).
      { apply operand_parses; [intros; now apply (IH r ltac:(lia))|exact Hsr|exact Hr|exact Hst|exact Hnr']. }
      apply Left; [exact Hl|exact Hsl|lia|].
      apply L_op with (r := r) (ts' := rest); [exact Et|exact Ht|exact HPr|exact HL].
Qed.

Theorem parse_render e rest : safe e -> stops 0 rest -> P 0 (render e ++ rest) e rest.
Proof.
  intros Hs Hst. apply (roundtrip_n (size e) e (le_n _) Hs); [apply top_ok_0| |constructor; exact Hst].
  apply (nosteal_of_level e Hs 0); [apply top_ok_0|exact Hst].
Qed.

Lemma P_L_det :
  (forall min ts e rest, P min ts e rest -> forall e2 rest2, P min ts e2 rest2 -> e = e2 /\ rest = rest2) /\
  (forall min lhs ts e rest, L min lhs ts e rest -> forall e2 rest2, L min lhs ts e2 rest2 -> e = e2 /\ rest = rest2).
Proof.
  apply (P_L_mutind atom op prec rmin notp tern
    (fun min ts e rest => forall e2 rest2, P min ts e2 rest2 -> e = e2 /\ rest = rest2)
    (fun min lhs ts e rest => forall e2 rest2, L min lhs ts e2 rest2 -> e = e2 /\ rest = rest2)).
  - intros min a ts e rest _ IH e2 rest2 H2. inversion H2; subst. now apply IH.
  - intros min ts x ts' e rest _ IH1 _ IH2 e2 rest2 H2. inversion H2; subst.
    match goal with H : P 0 ts _ (TR _ _ :: _) |- _ => destruct (IH1 _ _ H) as [-> E] end.
    injection E as ->. now apply IH2.
  - intros min ts x ts' e rest _ _ IH1 _ IH2 e2 rest2 H2. inversion H2; subst.
    match goal with H : P notp ts _ _ |- _ => destruct (IH1 _ _ H) as [-> ->] end.
    now apply IH2.
  - intros min lhs ts Hst e2 rest2 H2. inversion H2; subst; [auto| |]; cbn in Hst; lia.
  - intros min lhs o ts r ts' e rest Et Hle _ IH1 _ IH2 e2 rest2 H2. inversion H2; subst.
    + match goal with H : stops _ (TO _ _ _ :: _) |- _ => cbn in H; lia end.
    + match goal with H : P (rmin o) ts _ _ |- _ => destruct (IH1 _ _ H) as [-> ->] end.
      now apply IH2.
    + congruence.
  - intros min lhs o sep ts lo ts' hi ts'' e rest Et Hle _ IH1 _ IH2 _ IH3 e2 rest2 H2. inversion H2; subst.
    + match goal with H : stops _ (TO _ _ _ :: _) |- _ => cbn in H; lia end.
    + congruence.
    + match goal with H : tern o = Some ?s |- _ => assert (s = sep) by congruence; subst end.
      match goal with H : P (rmin o) ts _ (TO _ _ sep :: _) |- _ => destruct (IH1 _ _ H) as [-> E]; clear H end.
      injection E as <-.
      match goal with H : P (rmin o) ts' _ _ |- _ => destruct (IH2 _ _ H) as [-> ->] end.
      now apply IH3.
Qed.

Theorem parse_unique min ts e rest e2 rest2 :
  P min ts e rest -> P min ts e2 rest2 -> e = e2 /\ rest = rest2.
Proof. intros H1 H2. exact (proj1 P_L_det _ _ _ _ H1 _ _ H2). Qed.
End Proofs.
