(* The engine's token stream of a locally safe script is the concatenation of the token streams of its parts
   (each lexed on its own, with its holes numbered from where the part starts).  For statements: the token stream
   of a rendered SELECT / INSERT / UPDATE / DELETE is, clause by clause in render order, the concatenation of the
   token streams of the clauses the builder was given (C07 / C08 at the level of the engine's tokens). *)
Require Import SQV.Model.Str SQV.Model.Escape SQV.Model.Value SQV.Model.Literal SQV.Model.Writer
  SQV.Spec.EngLex SQV.Spec.EngTok SQV.Spec.EngBoundary SQV.Proofs.WriterProofs SQV.Spec.EngScript
  SQV.Spec.ScriptSafe SQV.Proofs.EngTokProofs SQV.Proofs.EngScriptProofs SQV.Proofs.ScriptSafeProofs SQV.Proofs.ExprSafeProofs.
From Coq Require Import Lia.

Section T.
Variable ftext : bool -> N -> str.
Variable b : backend.
Notation sc_ok := (sc_ok ftext b false).
Notation sc_okn := (ExprSafeProofs.sc_okn ftext b false).
Notation pieces_from := (pieces_from ftext b).

(* number of holes of a script *)
Definition nholes (sc : script) : N := N.of_nat (length (vals_of sc)).
(* the parameterised text of a script whose first hole has number c + 1 *)
Definition sqlc (c : N) (sc : script) : str := concat (texts_params b (pieces_from c sc)).

Lemma pieces_from_app A : forall c B,
  pieces_from c (A ++ B) = pieces_from c A ++ pieces_from (c + nholes A) B.
Proof.
  induction A as [|t r IH]; intros c B.
  - cbn [app ScriptSafeProofs.pieces_from]. unfold nholes. cbn. now rewrite N.add_0_r.
  - destruct t; cbn [app ScriptSafeProofs.pieces_from]; rewrite IH; unfold nholes;
      try (change (vals_of (?x :: r)) with (vals_of r); reflexivity).
    change (vals_of (WVal v :: r)) with (v :: vals_of r). cbn [length]. rewrite Nat2N.inj_succ.
    f_equal. f_equal. f_equal. lia.
Qed.

Lemma sqlc_app c A B : sqlc c (A ++ B) = sqlc c A ++ sqlc (c + nholes A) B.
Proof. unfold sqlc. rewrite pieces_from_app. unfold texts_params. now rewrite map_app, concat_app. Qed.

Lemma sqlc_0 sc : sqlc 0 sc = flatten_params b (pieces ftext b sc).
Proof. unfold sqlc. now rewrite pieces_eq, flatten_params_texts. Qed.

Lemma sc_okn_weaken sc nxt : sc_okn sc nxt = true -> sc_okn sc None = true.
Proof.
  induction sc as [|t r IH]; [reflexivity|]. cbn [ExprSafeProofs.sc_okn]. intros H.
  apply andb_prop in H as [H Hr]. apply andb_prop in H as [Hl Hf]. rewrite Hl, (IH Hr), andb_true_r. cbn [andb].
  destruct (tok_empty ftext b false t); [reflexivity|]. cbn [orb] in *.
  destruct (first_char ftext b false r); cbn [or_next] in *; [exact Hf|reflexivity].
Qed.

Lemma sc_ok_app_parts A B : sc_ok (A ++ B) = true -> sc_ok A = true /\ sc_ok B = true.
Proof.
  rewrite <- !sc_okn_none, sc_okn_app. intros H. apply andb_prop in H as [HA HB].
  split; [exact (sc_okn_weaken A _ HA)|exact HB].
Qed.

Lemma sc_ok_tokens sc c : sc_ok sc = true -> exists ts, eng_tokens b (sqlc c sc) = Some ts.
Proof.
  intros H. destruct (sc_ok_pieces ftext b sc c H) as (tss & Hl & _).
  exists (concat tss). exact (proj1 (lex_texts_sound b _ tss Hl)).
Qed.

Lemma Forall2_fun {A B} (R : A -> B -> Prop) : (forall a x y, R a x -> R a y -> x = y) ->
  forall l m n, Forall2 R l m -> Forall2 R l n -> m = n.
Proof.
  intros HR l. induction l as [|a l IH]; intros m n Hm Hn; inversion Hm; inversion Hn; subst; [reflexivity|].
  f_equal; [eapply HR; eauto|now apply IH].
Qed.

(* the token stream of A ++ B is the token stream of A followed by that of B *)
Theorem tokens_of_parts A B c : sc_ok (A ++ B) = true ->
  exists ta tb, eng_tokens b (sqlc c (A ++ B)) = Some (ta ++ tb) /\
                eng_tokens b (sqlc c A) = Some ta /\ eng_tokens b (sqlc (c + nholes A) B) = Some tb.
Proof.
  intros H. destruct (sc_ok_app_parts A B H) as [HA HB].
  destruct (sc_ok_pieces ftext b (A ++ B) c H) as (tss & Hl & _).
  destruct (sc_ok_pieces ftext b A c HA) as (tsa & Hla & _).
  destruct (sc_ok_pieces ftext b B (c + nholes A) HB) as (tsb & Hlb & _).
  exists (concat tsa), (concat tsb). split; [|split].
  - unfold sqlc. rewrite (proj1 (lex_texts_sound b _ tss Hl)). f_equal. rewrite <- concat_app. f_equal.
    pose proof (lex_texts_each b _ tss Hl) as E. rewrite pieces_from_app in E.
    unfold texts_params in E. rewrite map_app in E.
    pose proof (Forall2_app (lex_texts_each b _ tsa Hla) (lex_texts_each b _ tsb Hlb)) as E2.
    eapply Forall2_fun; [|exact E|exact E2]. intros a x y Hx Hy. congruence.
  - exact (proj1 (lex_texts_sound b _ tsa Hla)).
  - exact (proj1 (lex_texts_sound b _ tsb Hlb)).
Qed.

(* a list of clauses: the token stream of their concatenation is the concatenation of their token streams,
   each clause lexed on its own with its holes numbered from where it starts *)
Fixpoint clause_starts (c : N) (cls : list script) : list N :=
  match cls with [] => [] | x :: r => c :: clause_starts (c + nholes x) r end.

Theorem tokens_of_clauses cls : forall c, sc_ok (concat cls) = true ->
  exists tks, eng_tokens b (sqlc c (concat cls)) = Some (concat tks) /\
              Forall2 (fun cs tk => eng_tokens b (sqlc (fst cs) (snd cs)) = Some tk)
                      (combine (clause_starts c cls) cls) tks.
Proof.
  induction cls as [|x r IH]; intros c H.
  - exists []. split; [reflexivity|constructor].
  - cbn [concat] in H |- *. destruct (tokens_of_parts x (concat r) c H) as (ta & tb & E & Ea & Eb).
    destruct (sc_ok_app_parts _ _ H) as [_ Hr]. destruct (IH (c + nholes x) Hr) as (tks & Et & Ef).
    rewrite Et in Eb. injection Eb as <-. exists (ta :: tks). split; [exact E|].
    cbn [clause_starts combine]. constructor; [exact Ea|exact Ef].
Qed.
End T.

(* ---------- statements ---------- *)
Require Import SQV.Model.Expr SQV.Model.Stmt SQV.Model.RenderExpr SQV.Model.RenderStmt SQV.Proofs.StmtSafeProofs.

Section St.
Variable ftext : bool -> N -> str.
Variable is_alpha : N -> bool.
Variable b : backend.
Variable T : etables.
Hypothesis HT : spellings_lex b T.

Lemma flat_map_concat {A} (f : A -> script) l : flat_map f l = concat (map f l).
Proof. apply flat_map_concat_map. Qed.

(* SELECT: the token stream of the statement is, in render order, the concatenation of the token streams of its
   clauses (an absent clause contributes nothing) *)
Theorem select_tokens_are_clause_tokens fuel s :
  query_plain ftext b false (S fuel) (QSelect s) = true ->
  let rq := rquery is_alpha b T fuel in
  let cls := map (sel_clause is_alpha b T rq s) sel_render_order in
  exists tks, eng_tokens b (sqlc ftext b 0 (rquery is_alpha b T (S fuel) (QSelect s))) = Some (concat tks) /\
              Forall2 (fun cs tk => eng_tokens b (sqlc ftext b (fst cs) (snd cs)) = Some tk)
                      (combine (clause_starts 0 cls) cls) tks.
Proof.
  intros Hp rq cls.
  pose proof (rendered_statement_is_locally_safe ftext is_alpha b false T HT (S fuel) (QSelect s) Hp) as Hok.
  cbn [rquery rquery_gen] in Hok |- *. unfold rselect in *. rewrite flat_map_concat in *.
  exact (tokens_of_clauses ftext b cls 0 Hok).
Qed.

Theorem insert_tokens_are_clause_tokens fuel i :
  query_plain ftext b false (S fuel) (QInsert i) = true ->
  let rq := rquery is_alpha b T fuel in
  let cls := map (ins_clause is_alpha b T rq i) ins_render_order in
  exists tks, eng_tokens b (sqlc ftext b 0 (rquery is_alpha b T (S fuel) (QInsert i))) = Some (concat tks) /\
              Forall2 (fun cs tk => eng_tokens b (sqlc ftext b (fst cs) (snd cs)) = Some tk)
                      (combine (clause_starts 0 cls) cls) tks.
Proof.
  intros Hp rq cls.
  pose proof (rendered_statement_is_locally_safe ftext is_alpha b false T HT (S fuel) (QInsert i) Hp) as Hok.
  cbn [rquery rquery_gen] in Hok |- *. unfold rinsert in *. rewrite flat_map_concat in *.
  exact (tokens_of_clauses ftext b cls 0 Hok).
Qed.

Theorem update_tokens_are_clause_tokens fuel u :
  query_plain ftext b false (S fuel) (QUpdate u) = true ->
  let rq := rquery is_alpha b T fuel in
  let cls := map (upd_clause is_alpha b T rq u) upd_render_order in
  exists tks, eng_tokens b (sqlc ftext b 0 (rquery is_alpha b T (S fuel) (QUpdate u))) = Some (concat tks) /\
              Forall2 (fun cs tk => eng_tokens b (sqlc ftext b (fst cs) (snd cs)) = Some tk)
                      (combine (clause_starts 0 cls) cls) tks.
Proof.
  intros Hp rq cls.
  pose proof (rendered_statement_is_locally_safe ftext is_alpha b false T HT (S fuel) (QUpdate u) Hp) as Hok.
  cbn [rquery rquery_gen] in Hok |- *. unfold rupdate in *. rewrite flat_map_concat in *.
  exact (tokens_of_clauses ftext b cls 0 Hok).
Qed.

Theorem delete_tokens_are_clause_tokens fuel d :
  query_plain ftext b false (S fuel) (QDelete d) = true ->
  let rq := rquery is_alpha b T fuel in
  let cls := map (del_clause is_alpha b T rq d) del_render_order in
  exists tks, eng_tokens b (sqlc ftext b 0 (rquery is_alpha b T (S fuel) (QDelete d))) = Some (concat tks) /\
              Forall2 (fun cs tk => eng_tokens b (sqlc ftext b (fst cs) (snd cs)) = Some tk)
                      (combine (clause_starts 0 cls) cls) tks.
Proof.
  intros Hp rq cls.
  pose proof (rendered_statement_is_locally_safe ftext is_alpha b false T HT (S fuel) (QDelete d) Hp) as Hok.
  cbn [rquery rquery_gen] in Hok |- *. unfold rdelete in *. rewrite flat_map_concat in *.
  exact (tokens_of_clauses ftext b cls 0 Hok).
Qed.

(* a clause that starts with a fixed text contributes the tokens of that text first *)
Theorem clause_starts_with_its_keyword kw rest c :
  sc_ok ftext b false (WS kw :: rest) = true ->
  exists tkw trest, eng_tokens b kw = Some tkw /\
                    eng_tokens b (sqlc ftext b c (WS kw :: rest)) = Some (tkw ++ trest).
Proof.
  intros H. destruct (tokens_of_parts ftext b [WS kw] rest c H) as (ta & tb & E & Ea & _).
  exists ta, tb. split; [|exact E]. unfold sqlc in Ea. cbn in Ea. now rewrite app_nil_r in Ea.
Qed.
End St.
