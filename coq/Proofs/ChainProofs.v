(* C06, the Chain form of the condition holder (the doc-hidden and_or_where(LogicalChainOper::And(e))): the
   text the renderer writes for a chain of And members parses back, under the dialect's levels (and any level for
   the operators its table does not place), to the left-nested conjunction of the members - every member keeps
   exactly its own operands - so the written predicate denotes the AND of the members.

   Members are operator trees of Proofs/PrattLinkAnyProofs.v (frag_any).  A member is written between parentheses
   by the rule of prepare_logical_chain_oper (Model/RenderStmt.v rchain_member): when the chain has more than one
   member and the member is a binary expression with a binary right operand, or the precedence decider does not
   say it binds tighter than AND.  The proof reads the decider's verdict off the same rows as C05
   (bad_rows = []): a member left bare is safe as a left operand (first member) resp. right operand of AND. *)
Require Import SQV.Spec.PrattT SQV.Proofs.PrattTProofs.
Require Import SQV.Model.Str SQV.Model.Escape SQV.Model.Value SQV.Model.Expr SQV.Model.Writer
  SQV.Model.RenderExpr SQV.Model.Cond SQV.Model.Stmt SQV.Model.RenderStmt SQV.Model.ExprTablesInst
  SQV.Spec.Prec SQV.Spec.ParenRows SQV.Spec.Logic3 SQV.Proofs.CondProofs SQV.Proofs.PrattLinkProofs
  SQV.Proofs.PrattLinkAnyProofs SQV.Proofs.WhereLinkProofs.
From Coq Require Import Lia String Arith.
Open Scope list_scope.

Section Chain.
Variable Q : Type.
Variable b : backend.
Variable T : etables.
Variable lv0 : binop -> nat.
Hypothesis rows_safe : bad_rows b T = [].

Notation pexpr := (PrattT.expr (expr Q) sop).
Notation ptok := (PrattT.tok (expr Q) sop).
Notation EB := (PrattT.EB (expr Q) sop).
Notation TOand := (PrattT.TO (expr Q) sop (SBin BAnd)).
Notation prec := (prec_any b lv0).
Notation rmin := (rmin_any b lv0).
Notation np := (notp b).
Notation PP := (PrattT.P (expr Q) sop prec rmin np tern).
Notation LL := (PrattT.L (expr Q) sop prec rmin np tern).
Notation stops := (PrattT.stops (expr Q) sop prec).
Notation ar := (abstract_rendering Q T).
Notation sk := (skel Q).
Notation safe := (PrattT.safe (expr Q) sop prec rmin np tern (pol_un Q T) (pol_l Q T) (pol_r Q T) (pol_lo Q T) (pol_hi Q T)).
Notation nosteal := (PrattT.nosteal (expr Q) sop prec rmin np tern (pol_un Q T) (pol_r Q T) (pol_hi Q T)).

(* the parenthesis decision of prepare_logical_chain_oper for an And member of a chain of len members *)
Definition cparen (len : nat) (e : expr Q) : bool :=
  Nat.ltb 1 len &&
  ((match e with EBinary _ _ (EBinary _ _ _) => true | _ => false end) ||
   negb (t_drop_paren T (shape_key (shape_of e)) (oper_key (OBin BAnd)))).

Definition W (len : nat) (e : expr Q) : list ptok := PrattT.wrap (expr Q) sop (cparen len e) (ar e).

Definition chain_toks (es : list (expr Q)) : list ptok :=
  match es with
  | [] => []
  | e :: r => W (List.length es) e ++ flat_map (fun x => TOand :: W (List.length es) x) r
  end.

Definition chain_tree (e : expr Q) (r : list (expr Q)) : pexpr :=
  fold_left (fun acc x => EB acc (SBin BAnd) (sk x)) r (sk e).

Lemma bare_drop len e : (2 <= len)%nat -> cparen len e = false ->
  t_drop_paren T (shape_key (shape_of e)) (oper_key (OBin BAnd)) = true.
Proof.
  intros Hl H. unfold cparen in H. destruct (Nat.ltb_spec 1 len) as [_|Hc]; [|lia].
  cbn [andb] in H. apply orb_false_iff in H as [_ H]. now apply negb_false_iff in H.
Qed.

Lemma rows_lr e : frag_any Q e = true ->
  row_ok b T BAnd (shape_of e) SLeft = true /\ row_ok b T BAnd (shape_of e) SRight = true.
Proof.
  intros Hf. destruct (in_rows_lr (norm BAnd) (nshape (shape_of e)) (norm_in BAnd) (nshape_in Q e Hf)) as [HL HR].
  split; apply (row_ok_rep b T rows_safe); assumption.
Qed.

(* a member in a right position *)
Lemma right_member len x rest1 : (2 <= len)%nat -> frag_any Q x = true -> stops (rmin (SBin BAnd)) rest1 ->
  PP (rmin (SBin BAnd)) (W len x ++ rest1) (sk x) rest1.
Proof.
  intros Hl Hf Hst. unfold W, abstract_rendering.
  pose proof (frag_any_safe Q b T lv0 rows_safe x Hf) as Hs.
  apply (operand_parses (expr Q) sop prec rmin np tern (prec_le_rmin_any b lv0)); [|exact Hs| |exact Hst|].
  - intros min rest0 e' rest' Hs' Ht Hn HL.
    now apply (roundtrip_n (expr Q) sop prec rmin np tern (prec_le_rmin_any b lv0) _ _ _ _ _ _ (sk x) (le_n _)).
  - destruct (cparen len x) eqn:Ec; [now left|right].
    pose proof (bare_drop len x Hl Ec) as Hd.
    destruct (rows_lr x Hf) as [_ HR]. unfold row_ok in HR.
    assert (Hw : writes_paren T BAnd (shape_of x) SRight = false).
    { unfold writes_paren, drop_hp. rewrite Hd. reflexivity. }
    rewrite Hw in HR.
    assert (Ht : is_ternary_part BAnd (shape_of x) SRight = false) by (destruct (shape_of x) as [| | | |[]| | | | | | | | |]; reflexivity).
    rewrite Ht in HR. cbn [orb] in HR. now apply bare_right_any.
  - destruct (cparen len x) eqn:Ec; [now left|right].
    pose proof (bare_drop len x Hl Ec) as Hd.
    destruct (rows_lr x Hf) as [_ HR]. unfold row_ok in HR.
    assert (Hw : writes_paren T BAnd (shape_of x) SRight = false).
    { unfold writes_paren, drop_hp. rewrite Hd. reflexivity. }
    rewrite Hw in HR.
    assert (Ht : is_ternary_part BAnd (shape_of x) SRight = false) by (destruct (shape_of x) as [| | | |[]| | | | | | | | |]; reflexivity).
    rewrite Ht in HR. cbn [orb] in HR.
    apply (nosteal_of_level (expr Q) sop prec rmin np tern (prec_le_rmin_any b lv0) _ _ _ _ _ (sk x) Hs (rmin (SBin BAnd)));
      [now apply bare_right_any|exact Hst].
Qed.

Lemma stops_and_first more : stops (rmin (SBin BAnd)) (TOand :: more).
Proof. cbn [PrattT.stops]. unfold rmin_any. lia. Qed.

(* the loop over the members after the first *)
Lemma chain_L len rest : (2 <= len)%nat -> stops 0 rest -> forall r lhs,
  Forall (fun x => frag_any Q x = true) r ->
  LL 0 lhs (flat_map (fun x => TOand :: W len x) r ++ rest)
     (fold_left (fun acc x => EB acc (SBin BAnd) (sk x)) r lhs) rest.
Proof.
  intros Hl Hst r. induction r as [|x r IH]; intros lhs Hr; cbn [flat_map fold_left app].
  - apply PrattT.L_stop. exact Hst.
  - inversion Hr as [|? ? Hx Hr']; subst. rewrite <- app_assoc. cbn [app].
    eapply PrattT.L_op; [reflexivity|lia| |apply IH; exact Hr'].
    apply right_member; [exact Hl|exact Hx|].
    destruct r as [|y r']; cbn [flat_map app].
    + apply (stops_mono (expr Q) sop prec 0); [lia|exact Hst].
    + apply stops_and_first.
Qed.

Theorem and_chain_parses_back e r rest :
  Forall (fun x => frag_any Q x = true) (e :: r) -> stops 0 rest ->
  PP 0 (chain_toks (e :: r) ++ rest) (chain_tree e r) rest.
Proof.
  intros Hall Hst. inversion Hall as [|? ? He Hr]; subst.
  pose proof (frag_any_safe Q b T lv0 rows_safe e He) as Hs.
  destruct r as [|x r].
  - (* one member: written bare *)
    cbn [chain_toks flat_map List.length chain_tree fold_left]. rewrite app_nil_r.
    unfold W, cparen. cbn [Nat.ltb Nat.leb andb PrattT.wrap].
    now apply fragment_parses_back_any.
  - set (len := List.length (e :: x :: r)).
    assert (Hl : (2 <= len)%nat) by (unfold len; cbn [List.length]; lia).
    unfold chain_toks, chain_tree. fold len. rewrite <- app_assoc.
    pose proof (chain_L len rest Hl Hst (x :: r) (sk e) Hr) as HL.
    set (more := flat_map (fun x0 => TOand :: W len x0) (x :: r) ++ rest) in *.
    assert (Hmore : exists more', more = TOand :: more').
    { unfold more. cbn [flat_map app]. rewrite <- app_assoc. eexists; reflexivity. }
    unfold W at 1. destruct (cparen len e) eqn:Ec; cbn [PrattT.wrap].
    + (* first member between parentheses *)
      cbn [app]. rewrite <- app_assoc. cbn [app].
      eapply PrattT.P_paren; [|exact HL].
      apply fragment_parses_back_any; [exact rows_safe|exact He|exact I].
    + (* first member bare: it is safe as the left operand of AND *)
      unfold abstract_rendering.
      apply (roundtrip_n (expr Q) sop prec rmin np tern (prec_le_rmin_any b lv0) _ _ _ _ _ _ (sk e) (le_n _) Hs);
        [apply top_ok_0| |exact HL].
      destruct Hmore as [more' ->].
      apply (nosteal_left (expr Q) sop prec rmin np tern (prec_le_rmin_any b lv0) (pol_un Q T) (pol_l Q T) (pol_r Q T) (pol_lo Q T) (pol_hi Q T)); [exact Hs|].
      pose proof (bare_drop len e Hl Ec) as Hd.
      destruct (rows_lr e He) as [HLr _]. unfold row_ok in HLr.
      assert (Hw : writes_paren T BAnd (shape_of e) SLeft = false).
      { unfold writes_paren, drop_hp. rewrite Hd. reflexivity. }
      rewrite Hw in HLr. cbn [is_ternary_part orb] in HLr. now apply bare_left_any.
Qed.

(* what the parse means: the conjunction of the members *)
Lemma unskel_chain_tree rho (r : list (expr Q)) : forall acc : pexpr,
  eval3 rho (unskel Q (fold_left (fun a x => EB a (SBin BAnd) (sk x)) r acc)) =
  and3 (eval3 rho (unskel Q acc)) (big_and (map (eval3 rho) r)).
Proof.
  induction r as [|x r IH]; intros acc; cbn [fold_left map big_and fold_right].
  - now rewrite and3_T_r.
  - rewrite IH. cbn [unskel eval3]. rewrite unskel_skel. now rewrite and3_assoc.
Qed.

Theorem and_chain_reads_as_conjunction rho e r rest p rest' :
  Forall (fun x => frag_any Q x = true) (e :: r) -> stops 0 rest ->
  PP 0 (chain_toks (e :: r) ++ rest) p rest' ->
  p = chain_tree e r /\ rest' = rest /\ eval3 rho (unskel Q p) = big_and (map (eval3 rho) (e :: r)).
Proof.
  intros Hall Hst Hp.
  pose proof (and_chain_parses_back e r rest Hall Hst) as Hq.
  destruct (parse_unique _ _ _ _ _ _ _ _ _ _ _ _ Hp Hq) as [-> ->].
  repeat split. unfold chain_tree. rewrite unskel_chain_tree, unskel_skel. reflexivity.
Qed.

(* ---- the script the renderer writes for the chain is the image of chain_toks, with " AND " between members ---- *)
Variable rq : Q -> script.
Variable is_alpha : N -> bool.
Notation tks := (tok_script Q rq is_alpha b T).

Lemma member_script len x : frag_any Q x = true ->
  wrap (cparen len x) (rexpr Q rq is_alpha b T false x) = flat_map tks (W len x).
Proof.
  intros Hf. unfold W. rewrite (flat_map_wrap Q rq is_alpha b T).
  now rewrite (rexpr_is_abstract_rendering_any Q rq is_alpha b T x Hf).
Qed.
End Chain.

(* for the statement renderer's instance (Q = query, rq the nested-statement renderer) *)
Lemma rchain_and_tail is_alpha b T rq len (r : list (expr query)) : forall i, (0 < i)%nat ->
  Forall (fun x => frag_any query x = true) r ->
  rchain is_alpha b T rq len i (map (pair false) r) =
  flat_map (fun x => [ws " AND "] ++ flat_map (tok_script query rq is_alpha b T) (W query T len x)) r.
Proof.
  induction r as [|x r IH]; intros i Hi Hr; cbn [map rchain flat_map]; [reflexivity|].
  inversion Hr as [|? ? Hx Hr']; subst.
  rewrite (IH (S i)) by (try lia; exact Hr'). f_equal.
  unfold rchain_member. destruct (Nat.ltb_spec 0 i) as [_|Hc]; [|lia].
  unfold rex. rewrite <- (member_script query b T rq is_alpha len x Hx). reflexivity.
Qed.

Theorem and_chain_script is_alpha b T rq kw (e : expr query) (r : list (expr query)) :
  Forall (fun x => frag_any query x = true) (e :: r) ->
  rholder is_alpha b T rq kw (HChain (map (pair false) (e :: r))) =
  [WS (K " " ++ K kw ++ K " ")] ++
  flat_map (tok_script query rq is_alpha b T) (W query T (List.length (e :: r)) e) ++
  flat_map (fun x => [ws " AND "] ++ flat_map (tok_script query rq is_alpha b T) (W query T (List.length (e :: r)) x)) r.
Proof.
  intros Hall. inversion Hall as [|? ? He Hr]; subst.
  unfold rholder. f_equal. rewrite map_length. cbn [map rchain].
  rewrite (rchain_and_tail is_alpha b T rq _ r 1) by (try lia; exact Hr). f_equal.
  unfold rchain_member. cbn [Nat.ltb Nat.leb app]. unfold rex.
  rewrite <- (member_script query b T rq is_alpha _ e He). reflexivity.
Qed.

