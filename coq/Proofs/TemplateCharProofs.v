(* C11 at character level: templates assembled from pieces.

   A template is the concatenation of pieces: well-formed quoted text (any of the four delimiters,
   with doubled delimiters and backslash escapes inside: Proofs/TokenProofs.v body), words, runs of
   blanks, and single punctuation characters (among them the placeholder mark), such that adjacent
   pieces do not fuse (a word is not followed by a word character, a blank run not by a blank, a
   closing quote not by the same quote).  For every such template, of any length:

   - the crate's tokenizer returns exactly one token per piece (tokenize_pieces): in particular
     every quoted piece is ONE Quoted token whatever marks it contains;
   - hence the CustomWithExpr rendering of the template is the interpretation of its segmentation
     (custom_template_char_level): text pieces unchanged and in place, each placeholder outside
     quoted text replaced by the rendering of the value it designates, a doubled mark by one mark,
     and a mark inside a quoted piece is never a placeholder (quoted_piece_is_text). *)
Require Import SQV.Model.Str SQV.Model.Escape SQV.Model.Value SQV.Model.Token SQV.Model.Expr SQV.Model.Writer
  SQV.Model.RenderExpr SQV.Spec.Template SQV.Proofs.TokenProofs SQV.Proofs.TemplateProofs.
From Coq Require Import Lia.

Section Pieces.
Variable is_alpha : N -> bool.
Notation is_alphanumeric := (is_alphanumeric is_alpha).
Notation next := (Token.next is_alpha).
Notation scan_unquoted := (Token.scan_unquoted is_alpha).

Inductive piece := PQ (start : N) (b : str) | PW (w : str) | PS (s : str) | PP (c : N).

Definition ptext (p : piece) : str :=
  match p with
  | PQ st b => st :: b ++ [closer st]
  | PW w => w
  | PS s => s
  | PP c => [c]
  end.
Definition ptok (p : piece) : token :=
  match p with
  | PQ st b => Quoted (st :: b ++ [closer st])
  | PW w => Unquoted w
  | PS s => Space s
  | PP c => Punct [c]
  end.

Definition word_char (c : N) : bool := is_alphanumeric c || is_identifier c.

Definition starts_not (p : N -> bool) (rest : str) : Prop :=
  match rest with [] => True | d :: _ => p d = false end.

Definition piece_ok (p : piece) (rest : str) : Prop :=
  match p with
  | PQ st b => is_delim_start st = true /\ is_alpha st = false /\ body st b /\ no_doubling st rest
  | PW w => exists c t, w = c :: t /\ is_space c = false /\ is_alphanumeric c = true /\
                        forallb word_char t = true /\ starts_not word_char rest
  | PS s => s <> [] /\ forallb is_space s = true /\ starts_not is_space rest
  | PP c => is_space c = false /\ is_alphanumeric c = false /\ is_delim_start c = false
  end.

Definition template_text (ps : list piece) : str := concat (map ptext ps).

Fixpoint pieces_ok (ps : list piece) : Prop :=
  match ps with
  | [] => True
  | p :: r => piece_ok p (template_text r) /\ pieces_ok r
  end.

(* ---- one piece, one token ---- *)
Lemma span_run (p : N -> bool) s rest : forallb p s = true -> starts_not p rest -> span p (s ++ rest) = (s, rest).
Proof.
  intros Hs Hr. induction s as [|c s IH]; cbn [app].
  - destruct rest as [|d r]; [reflexivity|]. cbn in Hr. cbn [span]. now rewrite Hr.
  - cbn [forallb] in Hs. apply andb_prop in Hs as [Hc Hs]. cbn [span]. rewrite Hc, (IH Hs). reflexivity.
Qed.

Lemma scan_unquoted_word t rest : forallb word_char t = true -> starts_not word_char rest ->
  scan_unquoted false (t ++ rest) = (t, rest).
Proof.
  intros Ht Hr. induction t as [|d t IH]; cbn [app].
  - destruct rest as [|d r]; [reflexivity|]. cbn in Hr. unfold word_char in Hr. apply orb_false_iff in Hr as [Ha Hi].
    cbn [Token.scan_unquoted]. rewrite Ha, Hi. reflexivity.
  - cbn [forallb] in Ht. apply andb_prop in Ht as [Hd Ht]. cbn [Token.scan_unquoted].
    unfold word_char in Hd. destruct (is_alphanumeric d) eqn:Ea.
    + rewrite (IH Ht). reflexivity.
    + cbn [orb] in Hd. rewrite Hd. cbn [negb andb]. rewrite (IH Ht). reflexivity.
Qed.

Lemma next_piece p rest : piece_ok p rest -> next (ptext p ++ rest) = Some (ptok p, rest).
Proof.
  destruct p as [st b|w|s|c]; cbn [piece_ok ptext ptok].
  - intros (Hs & Hal & Hb & Hr). rewrite <- app_comm_cons, <- app_assoc. cbn [app].
    now apply quoted_is_one_token.
  - intros (c & t & -> & Hsp & Ha & Ht & Hr). cbn [app]. unfold Token.next, scan_space. cbn [span]. rewrite Hsp.
    cbn [is_nil negb]. cbn [Token.scan_unquoted]. rewrite Ha. rewrite (scan_unquoted_word t rest Ht Hr).
    reflexivity.
  - intros (Hne & Hs & Hr). unfold Token.next, scan_space. rewrite (span_run is_space s rest Hs Hr).
    destruct s as [|c s]; [contradiction|]. reflexivity.
  - intros (Hsp & Ha & Hd). cbn [app]. unfold Token.next, scan_space. cbn [span]. rewrite Hsp.
    cbn [is_nil negb]. cbn [Token.scan_unquoted]. rewrite Ha. cbn [negb andb is_nil].
    cbn [Token.scan_quoted andb]. rewrite Hd. cbn [negb andb is_nil]. cbn [Token.scan_punct]. rewrite Hsp, Ha.
    reflexivity.
Qed.

Lemma ptext_nonempty p rest : piece_ok p rest -> (1 <= length (ptext p))%nat.
Proof.
  destruct p as [st b|w|s|c]; cbn [piece_ok ptext]; cbn [length]; try lia.
  - intros (c & t & -> & _). cbn. lia.
  - intros (Hne & _). destruct s; [contradiction|cbn; lia].
Qed.

Lemma tokenize_fuel_pieces ps : pieces_ok ps -> forall fuel, (length (template_text ps) < fuel)%nat ->
  tokenize_fuel is_alpha fuel (template_text ps) = Some (map ptok ps).
Proof.
  induction ps as [|p r IH]; intros Hok fuel Hf.
  - destruct fuel as [|f]; [lia|]. reflexivity.
  - destruct Hok as [Hp Hr]. destruct fuel as [|f]; [lia|].
    unfold template_text in *. cbn [map concat] in *. cbn [tokenize_fuel].
    rewrite (next_piece p _ Hp). rewrite app_length in Hf. pose proof (ptext_nonempty p _ Hp).
    rewrite (IH Hr f) by lia. reflexivity.
Qed.

(* the tokenizer returns exactly one token per piece *)
Theorem tokenize_pieces ps : pieces_ok ps -> tokenize is_alpha (template_text ps) = Some (map ptok ps).
Proof. intros Hok. unfold tokenize. apply tokenize_fuel_pieces; [exact Hok|lia]. Qed.

(* a quoted piece is never a mark: whatever it contains, it is text *)
Lemma quoted_piece_is_text mark st b : is_mark mark (ptok (PQ st b)) = false.
Proof. reflexivity. Qed.
End Pieces.

(* the CustomWithExpr rendering of a piecewise template is the interpretation of its segmentation *)
Theorem custom_template_char_level (Q : Type) (rq : Q -> script) is_alpha b T common
  (ps : list piece) (es : list (expr Q)) segs out :
  pieces_ok is_alpha ps ->
  Seg (fst (placeholder b)) (snd (placeholder b)) (map ptok ps) segs ->
  interp [WCust (fst (placeholder b))] (fun s => [WCust s]) (map (rexpr Q rq is_alpha b T false) es) segs 0 = Some out ->
  rexpr Q rq is_alpha b T common (ECustomWith (template_text ps) es) = out.
Proof.
  intros Hok Hseg Hint. cbn [rexpr]. destruct (placeholder b) as [mark numbered] eqn:Eph. cbn [fst snd] in *.
  rewrite (tokenize_pieces is_alpha ps Hok).
  exact (custom_loop_spec mark numbered _ segs Hseg _ 0 out Hint).
Qed.
