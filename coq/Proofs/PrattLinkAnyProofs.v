(* C05: Proofs/PrattLinkProofs.v without the restriction to operators that have a level in the dialect.

   An operator the dialect's table does not place (BinOper::Custom, another dialect's extension
   operators: Spec/Prec.v gives them no level) is parsed by the engine at SOME level we do not know.
   The theorem therefore quantifies over it: for EVERY assignment lv0 of levels to the operators the
   table leaves out, the rendering of a tree parses back to the tree.  What makes this true is visible in
   the decision rows: an operand of such an operator is written bare only when it is an atom, and such an
   operator is parenthesised wherever it is an operand (bad_rows = [] has no other way to accept those
   rows, bare_ok being false without a level).

   Fragment frag_any: NOT, EVERY binary operator (custom ones with any spelling), LIKE .. ESCAPE ..,
   x [NOT] BETWEEN lo AND hi, over primary operands; still outside: the rewritten IN (), AsEnum and raw
   custom text as operands.  Skeleton, policy, token texts and abstract rendering are those of
   Proofs/PrattLinkProofs.v. *)
Require Import SQV.Spec.PrattT SQV.Proofs.PrattTProofs.
Require Import SQV.Model.Str SQV.Model.Escape SQV.Model.Value SQV.Model.Expr SQV.Model.Writer
  SQV.Model.RenderExpr SQV.Model.ExprTablesInst SQV.Spec.Prec SQV.Spec.ParenRows SQV.Proofs.PrattLinkProofs.
From Coq Require Import Lia String Arith.
Open Scope list_scope.

(* BinOper::Custom is one row of the decision tables whatever its spelling *)
Definition norm (o : binop) : binop := match o with BCustom _ => BCustom [] | _ => o end.
Definition nshape (s : shape) : shape := match s with ShBinary o => ShBinary (norm o) | _ => s end.

Lemma norm_in o : In (norm o) all_binops.
Proof.
  destruct o as [| | | | | | | | | | | | | | | | | | | | | | | | | | |c|pg|sl];
    [..| |destruct pg|destruct sl]; cbn; repeat first [left; reflexivity | right].
Qed.
Lemma key_norm o : binop_key (norm o) = binop_key o.
Proof. destruct o; reflexivity. Qed.
Lemma level_norm b o : level b (norm o) = level b o.
Proof. destruct o; reflexivity. Qed.
Lemma is_between_norm o : is_between (norm o) = is_between o.
Proof. destruct o; reflexivity. Qed.
Lemma is_like_norm o : is_like (norm o) = is_like o.
Proof. destruct o; reflexivity. Qed.
Lemma eqb_norm o o1 : binop_eqb o o1 = true -> binop_eqb (norm o) (norm o1) = true.
Proof. destruct o, o1; intros H; try exact H; reflexivity. Qed.
Lemma eqb_as_norm o : binop_eqb (norm o) BAs = binop_eqb o BAs.
Proof. destruct o; reflexivity. Qed.
Lemma shape_key_nshape s : shape_key (nshape s) = shape_key s.
Proof. destruct s; try reflexivity. cbn [nshape shape_key]. apply key_norm. Qed.
Lemma is_and_nshape s :
  (match nshape s with ShBinary BAnd => true | _ => false end) = (match s with ShBinary BAnd => true | _ => false end).
Proof. destruct s as [| | | |o| | | | | | | | |]; try reflexivity. destruct o; reflexivity. Qed.
Lemma is_escape_nshape s :
  (match nshape s with ShBinary BEscape => true | _ => false end) = (match s with ShBinary BEscape => true | _ => false end).
Proof. destruct s as [| | | |o| | | | | | | | |]; try reflexivity. destruct o; reflexivity. Qed.
Lemma is_custom_nshape s :
  (match nshape s with ShCustom => true | _ => false end) = (match s with ShCustom => true | _ => false end).
Proof. destruct s; reflexivity. Qed.

Lemma ternary_part_norm o s sd : is_ternary_part (norm o) (nshape s) sd = is_ternary_part o s sd.
Proof.
  unfold is_ternary_part. destruct sd; try reflexivity.
  destruct s as [| | | |o1| | | | | | | | |]; try reflexivity.
  destruct o1; try reflexivity; cbn [nshape norm]; [apply is_between_norm|apply is_like_norm].
Qed.

Lemma bare_ok_norm b o s sd : bare_ok b (norm o) (nshape s) sd = bare_ok b o s sd.
Proof.
  unfold bare_ok. destruct s as [| | | |o1| | | | | | | | |]; cbn [nshape]; rewrite ?level_norm; reflexivity.
Qed.

Lemma writes_paren_norm T o s sd :
  writes_paren T (norm o) (nshape s) sd = true -> writes_paren T o s sd = true.
Proof.
  unfold writes_paren, drop_hp. cbn [oper_key]. rewrite shape_key_nshape, !key_norm.
  destruct sd; try (intros H; exact H).
  - (* left: an operand with the same operator may be left bare by the associativity rule *)
    intros H. apply andb_prop in H as [H1 H2]. rewrite H1. cbn [andb].
    destruct (t_lassoc T (binop_key o)); [|now rewrite andb_false_r].
    rewrite andb_true_r in H2 |- *.
    destruct s as [| | | |o1| | | | | | | | |]; try reflexivity. cbn [nshape] in H2.
    destruct (binop_eqb o o1) eqn:E; [|reflexivity]. now rewrite (eqb_norm _ _ E) in H2.
  - rewrite is_and_nshape, is_escape_nshape, is_custom_nshape, is_between_norm, is_like_norm, eqb_as_norm.
    intros H; exact H.
Qed.

Lemma row_ok_norm b T o s sd : row_ok b T (norm o) (nshape s) sd = true -> row_ok b T o s sd = true.
Proof.
  unfold row_ok. rewrite ternary_part_norm, bare_ok_norm. intros H.
  apply orb_prop in H as [H|H]; [|rewrite H; apply orb_true_r].
  apply orb_prop in H as [H|H]; [now rewrite H|].
  rewrite (writes_paren_norm _ _ _ _ H). now rewrite orb_true_r.
Qed.

Section LinkAny.
Variable Q : Type.
Variable rq : Q -> script.
Variable is_alpha : N -> bool.
Variable b : backend.
Variable T : etables.
Variable lv0 : binop -> nat.          (* the engine's level of every operator the table does not place *)

Local Arguments skel {Q}.
Local Arguments primary {Q}.
Local Arguments between_shape {Q}.
Local Arguments sk_shape {Q}.
Local Arguments shape_of_skel {Q}.
Local Arguments skel_binary {Q}.

Notation pexpr := (PrattT.expr (expr Q) sop).
Notation ptok := (PrattT.tok (expr Q) sop).
Notation EA := (PrattT.EA (expr Q) sop).
Notation EN := (PrattT.EN (expr Q) sop).
Notation EB := (PrattT.EB (expr Q) sop).
Notation p_un := (pol_un Q T).
Notation p_l := (pol_l Q T).
Notation p_r := (pol_r Q T).
Notation p_lo := (pol_lo Q T).
Notation p_hi := (pol_hi Q T).
Notation tks := (tok_script Q rq is_alpha b T).
Notation np := (notp b).

Fixpoint frag_any (e : expr Q) : bool :=
  match e with
  | EBinary l o r => negb (is_empty_in Q o r) && between_shape o r && frag_any l && frag_any r
  | ENot x => frag_any x
  | _ => primary e
  end.

Definition prec_any (o : sop) : nat :=
  match slevel b o with Some n => n | None => lv0 (sop_bin o) end.
Definition rmin_any (o : sop) : nat := S (prec_any o).

Notation arender := (PrattT.render (expr Q) sop tern p_un p_l p_r p_lo p_hi).

(* ---- (1) the script is the image of the abstract rendering ---- *)
Definition link_at (e : expr Q) : Prop :=
  frag_any e = true -> rexpr Q rq is_alpha b T false e = flat_map tks (arender (skel e)).
Definition link_operands (e : expr Q) : Prop :=
  match e with EBinary lo _ hi => link_at lo /\ link_at hi | _ => True end.

Lemma link_aux e : link_at e /\ link_operands e.
Proof.
  induction e as [c|es|x IHx|f args|l IHl op r IHr|sop0 q|v|vs|cs|cs es|k|ty x IHx|whens els|v];
    (split; [|try exact I]); unfold link_at;
    try (intros Hf; cbn [skel PrattT.render flat_map tok_script]; now rewrite app_nil_r);
    try (intros Hf; discriminate Hf).
  - (* NOT *)
    intros Hf. cbn [frag_any] in Hf. cbn [skel PrattT.render flat_map]. rewrite flat_map_wrap.
    rewrite <- (proj1 IHx Hf). cbn [tok_script rexpr]. unfold pol_un, writes_paren, drop_hp.
    now rewrite shape_of_skel.
  - (* binary / ternary *)
    intros Hf. cbn [frag_any] in Hf. apply andb_prop in Hf as [Hf Hr]. apply andb_prop in Hf as [Hf Hl].
    apply andb_prop in Hf as [He Hbs]. apply negb_true_iff in He.
    cbn [rexpr]. rewrite He. rewrite (proj1 IHl Hl). unfold binary_expr.
    rewrite (left_paren_eq Q T op l), (right_paren_eq Q T op r).
    destruct (is_between op) eqn:Eb.
    + (* x BETWEEN lo AND hi *)
      unfold between_shape in Hbs. rewrite Eb in Hbs.
      destruct r as [| | | |lo rop hi| | | | | | | | |]; try discriminate Hbs.
      destruct rop; try discriminate Hbs. clear Hbs.
      cbn [frag_any] in Hr. apply andb_prop in Hr as [Hr Hhi]. apply andb_prop in Hr as [Hr Hlo].
      destruct IHr as [_ [Llo Lhi]].
      cbn [skel]. rewrite Eb. cbn [PrattT.render tern]. rewrite Eb.
      unfold between_bounds. rewrite (Llo Hlo), (Lhi Hhi).
      rewrite !flat_map_app. cbn [flat_map]. rewrite !flat_map_wrap, !flat_map_app. cbn [flat_map].
      rewrite !flat_map_wrap. cbn [tok_script].
      unfold pol_l, pol_lo, pol_hi. cbn [sop_bin]. rewrite !shape_of_skel.
      assert (Ew : writes_paren T op (shape_of (EBinary lo BAnd hi)) SRight = false).
      { unfold writes_paren. cbn [shape_of]. rewrite Eb. cbn [andb negb]. now rewrite !andb_false_r. }
      rewrite Ew. unfold wrap at 2. cbv iota.
      unfold writes_paren at 2 3. unfold drop_hp.
      rewrite <- !app_assoc. reflexivity.
    + (* binary *)
      rewrite (proj1 IHr Hr).
      assert (Esk : skel (EBinary l op r) = EB (skel l) (SBin op) (skel r)).
      { cbn [skel]. destruct r as [| | | |lo rop hi| | | | | | | | |]; try reflexivity.
        destruct rop; try reflexivity. now rewrite Eb. }
      rewrite Esk. cbn [PrattT.render tern]. rewrite Eb.
      rewrite flat_map_app. cbn [flat_map]. rewrite !flat_map_wrap.
      unfold pol_l, pol_r. cbn [sop_bin]. rewrite !shape_of_skel. cbn [tok_script].
      destruct r as [| | | |lo rop hi| | | | | | | | |]; try (rewrite <- !app_assoc; reflexivity).
      destruct rop; rewrite <- !app_assoc; reflexivity.
  - (* operands of a binary node *)
    cbn [link_operands]. split; [apply IHl|apply IHr].
Qed.

Theorem rexpr_is_abstract_rendering_any e : frag_any e = true ->
  rexpr Q rq is_alpha b T false e = flat_map tks (abstract_rendering Q T e).
Proof. exact (proj1 (link_aux e)). Qed.

(* ---- (2) safe rows make every tree of the fragment safe, whatever the unknown levels are ---- *)
Hypothesis rows_safe : bad_rows b T = [].

Lemma row_ok_rep o s sd : In (norm o, nshape s, sd) all_rows -> row_ok b T o s sd = true.
Proof.
  intros Hin. apply row_ok_norm.
  pose proof (flat_map_nil_in _ _ _ rows_safe Hin) as H. cbv beta iota in H.
  destruct (row_ok b T (norm o) (nshape s) sd); [reflexivity|discriminate H].
Qed.

Lemma nshape_in (e : expr Q) : frag_any e = true -> In (nshape (shape_of e)) all_shapes.
Proof.
  intros Hf. unfold all_shapes.
  destruct e as [c|es|x|f args|l op r|sop0 q|v|vs|cs|cs es|k|ty x|whens els|v]; try discriminate Hf;
    try (lazymatch goal with |- In (nshape (shape_of (EBinary _ _ _))) _ => fail | _ => idtac end;
         apply in_or_app; left; cbn; repeat first [left; reflexivity | right]).
  apply in_or_app; right. cbn [shape_of nshape]. apply in_map. apply norm_in.
Qed.

Notation safe := (PrattT.safe (expr Q) sop prec_any rmin_any np tern p_un p_l p_r p_lo p_hi).
Notation top_ok := (PrattT.top_ok (expr Q) sop prec_any np).
Notation left_ok := (PrattT.left_ok (expr Q) sop prec_any rmin_any).

Lemma prec_of_level o n : level b o = Some n -> prec_any (SBin o) = n.
Proof. unfold prec_any. cbn [slevel]. now intros ->. Qed.

Lemma top_ok_of_levels_any (x : expr Q) (k : nat) :
  (match shape_of x with
   | ShUnary => leb_opt (Some k) (Some np)
   | ShBinary o1 => leb_opt (Some k) (level b o1)
   | _ => true
   end) = true -> top_ok (skel x) k.
Proof.
  destruct x as [c|es|y|f args|l o1 r|sop0 q|v|vs|cs|cs es|kw|ty y|whens els|v];
    try (intros _; exact I).
  - cbn [shape_of skel PrattT.top_ok leb_opt]. intros H. now apply Nat.leb_le in H.
  - destruct (skel_binary l o1 r) as [r' ->]. cbn [shape_of PrattT.top_ok].
    destruct (level b o1) as [n|] eqn:E; [|intros H; discriminate H].
    rewrite (prec_of_level _ _ E). cbn [leb_opt]. intros H. now apply Nat.leb_le in H.
Qed.

(* an operator without a level leaves only atoms bare *)
Lemma bare_right_any o (r : expr Q) :
  bare_ok b o (shape_of r) SRight = true -> top_ok (skel r) (rmin_any (SBin o)).
Proof.
  intros Hb. apply top_ok_of_levels_any. unfold bare_ok in Hb. unfold rmin_any.
  destruct (level b o) as [n|] eqn:E.
  - rewrite (prec_of_level _ _ E). cbn [succ_opt] in Hb. destruct (shape_of r); try reflexivity; exact Hb.
  - cbn [succ_opt leb_opt] in Hb. destruct (shape_of r); try reflexivity; discriminate Hb.
Qed.

Lemma between_level o : is_between o = true -> level b o = level b BBetween.
Proof. clear rows_safe. destruct o; try discriminate; destruct b; reflexivity. Qed.
Lemma escape_above_like_any o : is_like o = true -> leb_opt (succ_opt (level b o)) (level b BEscape) = true.
Proof. clear rows_safe. destruct o; try discriminate; destruct b; reflexivity. Qed.
Lemma between_has_level : exists n, level b BBetween = Some n.
Proof. clear rows_safe. destruct b; eexists; reflexivity. Qed.

Lemma bare_bound_any o (x : expr Q) sd : is_between o = true ->
  (sd = SBetweenLo \/ sd = SBetweenHi) ->
  bare_ok b o (shape_of x) sd = true -> top_ok (skel x) (rmin_any (SBin o)).
Proof.
  intros Eb Hsd Hb. apply top_ok_of_levels_any. unfold bare_ok in Hb.
  destruct between_has_level as [n En]. rewrite En in Hb. cbn [succ_opt] in Hb.
  unfold rmin_any. rewrite (prec_of_level o n) by (now rewrite between_level).
  destruct Hsd as [-> | ->]; destruct (shape_of x); try reflexivity; exact Hb.
Qed.

Lemma bare_left_any o (l : expr Q) :
  bare_ok b o (shape_of l) SLeft = true -> left_ok (SBin o) (skel l).
Proof.
  unfold bare_ok.
  destruct l as [c|es|y|f args|l1 o1 r1|sop0 q|v|vs|cs|cs es|kw|ty y|whens els|v]; try (intros _; exact I).
  - cbn [shape_of skel PrattT.left_ok]. intros H; discriminate H.
  - destruct (skel_binary l1 o1 r1) as [r' ->]. cbn [shape_of PrattT.left_ok].
    destruct (level b o) as [n|] eqn:E; [|intros H; discriminate H].
    destruct (level b o1) as [n1|] eqn:E1; [|intros H; discriminate H].
    unfold rmin_any. rewrite (prec_of_level _ _ E), (prec_of_level _ _ E1).
    cbn [succ_opt leb_opt ltb_opt]. intros H. apply andb_prop in H as [H1 H2].
    apply Nat.leb_le in H1. apply Nat.ltb_lt in H2. split; [exact H1|exact H2].
Qed.

Lemma bare_unary_any (x : expr Q) :
  bare_ok b BAnd (shape_of x) SUnary = true -> top_ok (skel x) np.
Proof.
  intros Hb. apply top_ok_of_levels_any. unfold bare_ok in Hb.
  destruct (shape_of x); try reflexivity; [cbn [leb_opt]; apply Nat.leb_refl|exact Hb].
Qed.

Lemma and_below_between_bound_any o : is_between o = true ->
  (prec_any SBetweenAnd < rmin_any (SBin o))%nat.
Proof.
  intros Eb. unfold rmin_any, prec_any. cbn [slevel]. rewrite (between_level o Eb).
  destruct between_has_level as [n ->]. lia.
Qed.

Theorem frag_any_safe e : frag_any e = true -> safe (skel e).
Proof.
  remember (PrattTProofs.size _ _ (skel e)) as n eqn:Hn. revert e Hn.
  induction n as [n IHn] using lt_wf_ind. intros e Hn Hf.
  assert (IH : forall x, (PrattTProofs.size _ _ (skel x) < n)%nat -> frag_any x = true -> safe (skel x)).
  { intros x Hlt Hx. now apply (IHn _ Hlt x). }
  destruct e as [c|es|x|f args|l op r|sop0 q|v|vs|cs|cs es|k|ty x|whens els|v]; try exact I.
  - (* NOT *)
    cbn [frag_any] in Hf. cbn [skel PrattTProofs.size] in Hn. cbn [skel PrattT.safe].
    split; [apply IH; [lia|exact Hf]|].
    destruct (in_rows_special _ (nshape_in x Hf)) as [Hin _].
    pose proof (row_ok_rep BAnd (shape_of x) SUnary Hin) as Hrow.
    unfold row_ok in Hrow. cbn [is_ternary_part orb] in Hrow.
    apply orb_prop in Hrow as [Hw|Hb].
    + left. unfold pol_un. now rewrite shape_of_skel.
    + right. now apply bare_unary_any.
  - (* binary / ternary *)
    cbn [frag_any] in Hf. apply andb_prop in Hf as [Hf Hr]. apply andb_prop in Hf as [Hf Hl].
    apply andb_prop in Hf as [_ Hbs].
    destruct (in_rows_lr (norm op) (nshape (shape_of l)) (norm_in op) (nshape_in l Hl)) as [HinL _].
    pose proof (row_ok_rep _ _ _ HinL) as HrowL.
    unfold row_ok in HrowL. cbn [is_ternary_part orb] in HrowL.
    assert (HL : p_l (SBin op) (skel l) = true \/ left_ok (SBin op) (skel l)).
    { apply orb_prop in HrowL as [Hw|Hb].
      - left. unfold pol_l. cbn [sop_bin]. now rewrite shape_of_skel.
      - right. now apply bare_left_any. }
    destruct (is_between op) eqn:Eb.
    + (* x BETWEEN lo AND hi *)
      unfold between_shape in Hbs. rewrite Eb in Hbs.
      destruct r as [| | | |lo rop hi| | | | | | | | |]; try discriminate Hbs.
      destruct rop; try discriminate Hbs. clear Hbs.
      cbn [frag_any] in Hr. apply andb_prop in Hr as [Hr Hhi]. apply andb_prop in Hr as [Hr Hlo].
      cbn [skel] in Hn |- *. rewrite Eb in Hn |- *. cbn [PrattTProofs.size] in Hn.
      cbn [PrattT.safe tern]. rewrite Eb.
      split; [reflexivity|]. split; [now apply and_below_between_bound_any|].
      split; [apply IH; [lia|exact Hl]|]. split; [apply IH; [lia|exact Hlo]|]. split; [apply IH; [lia|exact Hhi]|].
      split; [exact HL|].
      assert (Hb : op = BBetween \/ op = BNotBetween) by (destruct op; try discriminate Eb; auto).
      destruct (in_rows_special _ (nshape_in lo Hlo)) as (_ & Hlo1 & _ & Hlo2 & _).
      destruct (in_rows_special _ (nshape_in hi Hhi)) as (_ & _ & Hhi1 & _ & Hhi2).
      split.
      * assert (Hrow : row_ok b T op (shape_of lo) SBetweenLo = true)
          by (destruct Hb as [-> | ->]; now apply row_ok_rep).
        unfold row_ok in Hrow. cbn [is_ternary_part orb] in Hrow. apply orb_prop in Hrow as [Hw|Hbare].
        -- left. unfold pol_lo. cbn [sop_bin]. now rewrite shape_of_skel.
        -- right. apply (bare_bound_any op lo SBetweenLo Eb); [now left|exact Hbare].
      * assert (Hrow : row_ok b T op (shape_of hi) SBetweenHi = true)
          by (destruct Hb as [-> | ->]; now apply row_ok_rep).
        unfold row_ok in Hrow. cbn [is_ternary_part orb] in Hrow. apply orb_prop in Hrow as [Hw|Hbare].
        -- left. unfold pol_hi. cbn [sop_bin]. now rewrite shape_of_skel.
        -- right. apply (bare_bound_any op hi SBetweenHi Eb); [now right|exact Hbare].
    + (* binary *)
      assert (Esk : skel (EBinary l op r) = EB (skel l) (SBin op) (skel r)).
      { cbn [skel]. destruct r as [| | | |lo rop hi| | | | | | | | |]; try reflexivity.
        destruct rop; try reflexivity. now rewrite Eb. }
      rewrite Esk in Hn |- *. cbn [PrattTProofs.size] in Hn. cbn [PrattT.safe tern]. rewrite Eb.
      split; [apply IH; [lia|exact Hl]|]. split; [apply IH; [lia|exact Hr]|]. split; [exact HL|].
      destruct (in_rows_lr (norm op) (nshape (shape_of r)) (norm_in op) (nshape_in r Hr)) as [_ HinR].
      pose proof (row_ok_rep _ _ _ HinR) as HrowR. unfold row_ok in HrowR.
      destruct (is_ternary_part op (shape_of r) SRight) eqn:Et.
      * (* the pattern / escape pair to the right of LIKE *)
        right. unfold is_ternary_part in Et.
        destruct r as [| | | |p rop c| | | | | | | | |]; try discriminate Et. cbn [shape_of] in Et.
        destruct rop; try discriminate Et; [now rewrite Eb in Et|].
        apply top_ok_of_levels_any. cbn [shape_of]. unfold rmin_any.
        pose proof (escape_above_like_any op Et) as He.
        destruct (level b op) as [n0|] eqn:E0; [|discriminate He].
        rewrite (prec_of_level _ _ E0). cbn [succ_opt] in He. exact He.
      * cbn [orb] in HrowR. apply orb_prop in HrowR as [Hw|Hbare].
        -- left. unfold pol_r. cbn [sop_bin]. now rewrite shape_of_skel.
        -- right. now apply bare_right_any.
Qed.

Lemma prec_le_rmin_any o : (prec_any o <= rmin_any o)%nat.
Proof. unfold rmin_any. lia. Qed.

(* the abstract rendering of ANY operator tree over primary operands parses back to the tree's skeleton
   (and, by parse_unique, to nothing else), at whatever level the engine reads the operators its table
   does not place *)
Theorem fragment_parses_back_any e rest : frag_any e = true ->
  PrattT.stops (expr Q) sop prec_any 0 rest ->
  PrattT.P (expr Q) sop prec_any rmin_any np tern 0 (abstract_rendering Q T e ++ rest) (skel e) rest.
Proof.
  intros Hf Hst. unfold abstract_rendering.
  apply (parse_render (expr Q) sop prec_any rmin_any np tern prec_le_rmin_any p_un p_l p_r p_lo p_hi (skel e) rest);
    [now apply frag_any_safe|exact Hst].
Qed.

(* the earlier fragment is part of this one, and on it the levels do not depend on lv0 *)
Lemma frag_is_frag_any e : frag Q b e = true -> frag_any e = true.
Proof.
  induction e as [c|es|x IHx|f args|l IHl op r IHr|sop0 q|v|vs|cs|cs es|k|ty x IHx|whens els|v];
    try (intros H; exact H).
  - cbn [frag frag_any]. exact IHx.
  - cbn [frag frag_any]. intros H. apply andb_prop in H as [H Hr]. apply andb_prop in H as [H Hl].
    apply andb_prop in H as [H Hbs]. apply andb_prop in H as [_ He].
    now rewrite He, Hbs, (IHl Hl), (IHr Hr).
Qed.
End LinkAny.
