(* C13 / C14: column type names (affinity for every parameter value, dialect type tables), structure of
   CREATE TABLE and of the SQLite column definition, auto-increment forms. *)
Require Import SQV.Model.Str SQV.Model.Escape SQV.Model.Value SQV.Model.Literal SQV.Model.Expr SQV.Model.Cond
  SQV.Model.Stmt SQV.Model.Build SQV.Model.Writer SQV.Model.RenderExpr SQV.Model.RenderStmt SQV.Model.Schema
  SQV.Model.RenderDDL SQV.Generated.ColTypes SQV.Spec.Affinity SQV.Spec.DialectTypes.
From Coq Require Import Lia String.
Open Scope list_scope.

(* ===================================================================================================
   decimal renderings are non-empty strings of digits
   =================================================================================================== *)
Definition all_digits (s : str) : bool := forallb is_digit s.

Lemma dec_digits_fuel_digits fuel : forall n acc,
  all_digits acc = true -> all_digits (dec_digits_fuel fuel n acc) = true.
Proof.
  induction fuel as [|f IH]; intros n acc Hacc; cbn [dec_digits_fuel]; [exact Hacc|].
  assert (Hd : is_digit (48 + n mod 10) = true).
  { unfold is_digit. assert (Hm : n mod 10 < 10) by (apply N.mod_upper_bound; discriminate).
    generalize dependent (n mod 10). intros m Hm.
    apply andb_true_intro; split; apply N.leb_le; lia. }
  assert (Hacc' : all_digits ((48 + n mod 10) :: acc) = true).
  { unfold all_digits in *. cbn [forallb]. rewrite Hd, Hacc. reflexivity. }
  destruct (n / 10 =? 0); [exact Hacc'|]. apply IH. exact Hacc'.
Qed.

Lemma dec_digits_fuel_nonempty fuel : forall n acc, acc <> [] -> dec_digits_fuel fuel n acc <> [].
Proof.
  induction fuel as [|f IH]; intros n acc Hacc; cbn [dec_digits_fuel]; [exact Hacc|].
  destruct (n / 10 =? 0); [discriminate|]. apply IH. discriminate.
Qed.

Lemma dec_of_N_digits n : all_digits (dec_of_N n) = true.
Proof. unfold dec_of_N. apply dec_digits_fuel_digits. reflexivity. Qed.

Lemma dec_of_N_nonempty n : dec_of_N n <> [].
Proof.
  unfold dec_of_N. cbn [dec_digits_fuel]. destruct (n / 10 =? 0); [discriminate|].
  apply dec_digits_fuel_nonempty. discriminate.
Qed.

Example dec_of_N_examples : dec_of_N 0 = K "0" /\ dec_of_N 16 = K "16" /\ dec_of_N 4294967295 = K "4294967295".
Proof. repeat split; reflexivity. Qed.

(* ===================================================================================================
   C13: a keyword made of letters can neither be created nor destroyed by digits
   =================================================================================================== *)
(* x matches no character of kw *)
Definition mismatch (kw : str) (x : N) : bool := forallb (fun k => negb (ascii_upper x =? k)) kw.
Definition upper_letters (kw : str) : bool := forallb (fun k => (65 <=? k) && (k <=? 90)) kw.

Lemma digit_mismatch kw c : upper_letters kw = true -> is_digit c = true -> mismatch kw c = true.
Proof.
  unfold upper_letters, mismatch, is_digit. intros Hkw Hc.
  apply andb_prop in Hc as [H1 H2]. apply N.leb_le in H1, H2.
  assert (Hu : ascii_upper c = c).
  { unfold ascii_upper. destruct (97 <=? c) eqn:E; [apply N.leb_le in E; lia|reflexivity]. }
  rewrite Hu. induction kw as [|k t IH]; [reflexivity|].
  cbn [forallb] in *. apply andb_prop in Hkw as [Hk Ht]. apply andb_prop in Hk as [Hk1 Hk2].
  apply N.leb_le in Hk1, Hk2. rewrite (IH Ht), andb_true_r.
  destruct (c =? k) eqn:E; [apply N.eqb_eq in E; lia|reflexivity].
Qed.

Lemma prefix_ci_skip kw : forall l x r,
  mismatch kw x = true -> prefix_ci kw (l ++ x :: r) = prefix_ci kw l.
Proof.
  induction kw as [|k kw IH]; intros l x r Hx; [reflexivity|].
  unfold mismatch in Hx. cbn [forallb] in Hx. apply andb_prop in Hx as [Hk Hrest].
  destruct l as [|c l]; cbn [app prefix_ci].
  - apply negb_true_iff in Hk. rewrite Hk. reflexivity.
  - rewrite (IH l x r Hrest). reflexivity.
Qed.

Lemma contains_ci_nil kw : kw <> [] -> contains_ci kw [] = false.
Proof. destruct kw; [congruence|reflexivity]. Qed.

Lemma contains_ci_split kw : kw <> [] -> forall l x r,
  mismatch kw x = true -> contains_ci kw (l ++ x :: r) = contains_ci kw l || contains_ci kw r.
Proof.
  intros Hne l x r Hx. induction l as [|c l IH].
  - cbn [app]. change (contains_ci kw (x :: r)) with (prefix_ci kw (x :: r) || contains_ci kw r).
    pose proof (prefix_ci_skip kw [] x r Hx) as E. cbn [app] in E. rewrite E.
    rewrite (contains_ci_nil kw Hne). destruct kw; [congruence|reflexivity].
  - change (contains_ci kw ((c :: l) ++ x :: r))
      with (prefix_ci kw ((c :: l) ++ x :: r) || contains_ci kw (l ++ x :: r)).
    rewrite (prefix_ci_skip kw (c :: l) x r Hx), IH.
    change (contains_ci kw (c :: l)) with (prefix_ci kw (c :: l) || contains_ci kw l).
    rewrite orb_assoc. reflexivity.
Qed.

Lemma contains_ci_drop kw : kw <> [] -> forall d r,
  forallb (mismatch kw) d = true -> contains_ci kw (d ++ r) = contains_ci kw r.
Proof.
  intros Hne d r. induction d as [|y d IH]; intros Hd; [reflexivity|].
  cbn [forallb] in Hd. apply andb_prop in Hd as [Hy Hd].
  change ((y :: d) ++ r) with ([] ++ y :: (d ++ r)).
  rewrite (contains_ci_split kw Hne [] y (d ++ r) Hy), (contains_ci_nil kw Hne), (IH Hd). reflexivity.
Qed.

(* a non-empty run of mismatching characters separates the search *)
Lemma contains_ci_run kw : kw <> [] -> forall l d r,
  d <> [] -> forallb (mismatch kw) d = true ->
  contains_ci kw (l ++ d ++ r) = contains_ci kw l || contains_ci kw r.
Proof.
  intros Hne l d r Hd Hm. destruct d as [|x d]; [congruence|].
  cbn [forallb] in Hm. apply andb_prop in Hm as [Hx Hm].
  change ((x :: d) ++ r) with (x :: (d ++ r)).
  rewrite (contains_ci_split kw Hne l x (d ++ r) Hx), (contains_ci_drop kw Hne d r Hm). reflexivity.
Qed.

Lemma digits_mismatch kw d : upper_letters kw = true -> all_digits d = true -> forallb (mismatch kw) d = true.
Proof.
  intros Hkw. induction d as [|c d IH]; intros Hd; [reflexivity|].
  unfold all_digits in Hd. cbn [forallb] in *. apply andb_prop in Hd as [Hc Hd].
  rewrite (digit_mismatch kw c Hkw Hc), (IH Hd). reflexivity.
Qed.

(* the parameters of a template never decide a keyword search *)
Lemma contains_ci_inst kw : kw <> [] -> upper_letters kw = true -> forall (t : template) p q a,
  contains_ci kw (a ++ inst_template t p) = contains_ci kw (a ++ inst_template t q).
Proof.
  intros Hne Hkw t p q. unfold inst_template.
  induction t as [|x t IH]; intros a; [reflexivity|].
  cbn [flat_map]. destruct x as [s|i].
  - rewrite !app_assoc. apply IH.
  - rewrite (contains_ci_run kw Hne a _ _ (dec_of_N_nonempty _)
               (digits_mismatch kw _ Hkw (dec_of_N_digits _))).
    rewrite (contains_ci_run kw Hne a _ _ (dec_of_N_nonempty _)
               (digits_mismatch kw _ Hkw (dec_of_N_digits _))).
    pose proof (IH []) as E. cbn [app] in E. rewrite E. reflexivity.
Qed.

Lemma contains_ci_inst0 kw : kw <> [] -> upper_letters kw = true -> forall (t : template) p q,
  contains_ci kw (inst_template t p) = contains_ci kw (inst_template t q).
Proof. intros Hne Hkw t p q. exact (contains_ci_inst kw Hne Hkw t p q []). Qed.

Lemma is_nil_inst (t : template) p q : is_nil (inst_template t p) = is_nil (inst_template t q).
Proof.
  unfold inst_template. induction t as [|x t IH]; [reflexivity|]. cbn [flat_map].
  destruct x as [s|i].
  - destruct s; [exact IH|reflexivity].
  - pose proof (dec_of_N_nonempty (if i =? 0 then fst p else snd p)) as H1.
    pose proof (dec_of_N_nonempty (if i =? 0 then fst q else snd q)) as H2.
    destruct (dec_of_N (if i =? 0 then fst p else snd p)); [congruence|].
    destruct (dec_of_N (if i =? 0 then fst q else snd q)); [congruence|]. reflexivity.
Qed.

(* the affinity of a parametric type name does not depend on the parameter values *)
Lemma affinity_inst (t : template) p q :
  affinity_of (inst_template t p) = affinity_of (inst_template t q).
Proof.
  unfold affinity_of.
  rewrite (contains_ci_inst0 (K "INT") ltac:(discriminate) eq_refl t p q).
  rewrite (contains_ci_inst0 (K "CHAR") ltac:(discriminate) eq_refl t p q).
  rewrite (contains_ci_inst0 (K "CLOB") ltac:(discriminate) eq_refl t p q).
  rewrite (contains_ci_inst0 (K "TEXT") ltac:(discriminate) eq_refl t p q).
  rewrite (contains_ci_inst0 (K "BLOB") ltac:(discriminate) eq_refl t p q).
  rewrite (contains_ci_inst0 (K "REAL") ltac:(discriminate) eq_refl t p q).
  rewrite (contains_ci_inst0 (K "FLOA") ltac:(discriminate) eq_refl t p q).
  rewrite (contains_ci_inst0 (K "DOUB") ltac:(discriminate) eq_refl t p q).
  rewrite (is_nil_inst t p q). reflexivity.
Qed.

(* the rules do what the SQLite documentation's examples say (datatype3.html section 3.1.1) *)
Example affinity_examples :
  affinity_of (K "INT") = AffInteger /\ affinity_of (K "UNSIGNED BIG INT") = AffInteger /\
  affinity_of (K "CHARACTER(20)") = AffText /\ affinity_of (K "NATIVE CHARACTER(70)") = AffText /\
  affinity_of (K "CLOB") = AffText /\ affinity_of (K "BLOB") = AffBlob /\ affinity_of [] = AffBlob /\
  affinity_of (K "DOUBLE PRECISION") = AffReal /\ affinity_of (K "FLOAT") = AffReal /\
  affinity_of (K "DECIMAL(10,5)") = AffNumeric /\ affinity_of (K "BOOLEAN") = AffNumeric /\
  affinity_of (K "DATETIME") = AffNumeric /\ affinity_of (K "CHARINT") = AffInteger /\
  affinity_of (K "FLOATING POINT") = AffInteger.
Proof. repeat split; reflexivity. Qed.

(* ---- the finite part: every SQLite row of the generated table, at parameter values (0, 0) ---- *)
Definition sqlite_row_ok (r : N * N * bool * option (template * option N * option N)) : bool :=
  match r with
  | (bk, shape, _, body) =>
      if bk =? 2 then
        match body, intended_by_shape shape with
        | Some (t, _, _), Some a => affinity_eqb (affinity_of (inst_template t (0, 0))) a
        | Some _, None => shape =? 83               (* Custom is the only supported type without an intention *)
        | None, Some _ => false                     (* a type with an intended affinity must be supported *)
        | None, None => true
        end
      else true
  end.

(* (stated as an empty list of offending rows: when a type name changes, the error message of the failing
   vm_compute names the rows) *)
Lemma forallb_of_filter {A} (f : A -> bool) (l : list A) :
  filter (fun x => negb (f x)) l = [] -> forallb f l = true.
Proof.
  induction l as [|x l IH]; [reflexivity|]. cbn [filter forallb]. destruct (f x); cbn [negb andb].
  - exact IH.
  - discriminate.
Qed.

Lemma sqlite_rows_offending : filter (fun r => negb (sqlite_row_ok r)) coltype_rows = [].
Proof. vm_compute. reflexivity. Qed.
Lemma sqlite_rows_ok : forallb sqlite_row_ok coltype_rows = true.
Proof. apply forallb_of_filter. exact sqlite_rows_offending. Qed.

Lemma affinity_eqb_eq a b : affinity_eqb a b = true -> a = b.
Proof. destruct a, b; cbn; congruence. Qed.

Lemma intended_shape ct : intended ct = intended_by_shape (ct_shape ct) \/ (exists n, ct = CTCustom n).
Proof.
  destruct ct; try (right; eexists; reflexivity); left;
    repeat match goal with
           | x : option _ |- _ => destruct x
           | x : stringlen |- _ => destruct x
           | x : pginterval |- _ => destruct x
           | x : (N * N)%type |- _ => destruct x
           end; reflexivity.
Qed.

Lemma coltype_row_in b shape ai body :
  coltype_row b shape ai = Some body -> In (backend_key b, shape, ai, Some body) coltype_rows.
Proof.
  unfold coltype_row.
  match goal with |- context [find ?f coltype_rows] => destruct (find f coltype_rows) as [r|] eqn:E end; [|discriminate].
  intros H. apply find_some in E as [Hin Hp].
  destruct r as [[[bk sh] a] bd]. cbn [fst snd] in *. subst bd.
  apply andb_prop in Hp as [Hp Ha]. apply andb_prop in Hp as [Hb Hs].
  apply N.eqb_eq in Hb, Hs. apply Bool.eqb_prop in Ha. subst. exact Hin.
Qed.

(* C13 (a): for every SQLite-supported column type, every auto-increment flag and EVERY parameter value,
   the type name the renderer writes has the affinity intended for the abstract type *)
Theorem column_types_have_intended_affinity :
  forall (ct : coltype) (autoinc : bool) (name : str) (a : affinity),
    intended ct = Some a ->
    type_text SQLite autoinc (ct_shape ct) (ct_params ct) = Some name ->
    affinity_of name = a.
Proof.
  intros ct autoinc name a Hint Hname. unfold type_text in Hname.
  destruct (coltype_row SQLite (ct_shape ct) autoinc) as [[[t l1] l2]|] eqn:Erow; [|discriminate].
  destruct (within l1 (fst (ct_params ct)) && within l2 (snd (ct_params ct))); [|discriminate].
  injection Hname as <-.
  apply coltype_row_in in Erow.
  pose proof (proj1 (forallb_forall _ _) sqlite_rows_ok _ Erow) as Hok.
  cbn [sqlite_row_ok backend_key] in Hok. change (2 =? 2) with true in Hok. cbn iota in Hok.
  destruct (intended_shape ct) as [Hs|[n Hn]]; [|subst ct; discriminate].
  rewrite Hs in Hint. rewrite Hint in Hok.
  rewrite (affinity_inst t (ct_params ct) (0, 0)). apply affinity_eqb_eq. exact Hok.
Qed.

(* the renderer writes exactly that table text for these types *)
Lemma rcoltype_sqlite_table ct autoinc a :
  intended ct = Some a ->
  rcoltype SQLite autoinc ct =
  match type_text SQLite autoinc (ct_shape ct) (ct_params ct) with Some s => [WS s] | None => [WPanic] end.
Proof.
  intros Hint.
  destruct ct; try discriminate Hint; cbn [rcoltype]; unfold type_text;
    destruct (coltype_row SQLite _ autoinc) as [[[t l1] l2]|]; reflexivity.
Qed.

Theorem rendered_type_has_intended_affinity :
  forall ct autoinc name a,
    intended ct = Some a -> rcoltype SQLite autoinc ct = [WS name] -> affinity_of name = a.
Proof.
  intros ct autoinc name a Hint Hr. rewrite (rcoltype_sqlite_table ct autoinc a Hint) in Hr.
  destruct (type_text SQLite autoinc (ct_shape ct) (ct_params ct)) as [s|] eqn:E; [|discriminate].
  injection Hr as ->. exact (column_types_have_intended_affinity ct autoinc name a Hint E).
Qed.

(* the hypotheses are satisfiable, with parameters *)
Example affinity_theorem_applies :
  type_text SQLite false (ct_shape (CTDecimal (Some (10, 2)))) (ct_params (CTDecimal (Some (10, 2)))) = Some (K "real(10, 2)") /\
  intended (CTDecimal (Some (10, 2))) = Some AffReal /\
  type_text SQLite true (ct_shape CTBigInteger) (ct_params CTBigInteger) = Some (K "integer").
Proof. repeat split; vm_compute; reflexivity. Qed.

(* every SQLite-supported type except Custom has an intention, and every type with an intention is supported *)
Theorem sqlite_supported_iff_intended :
  forall shape autoinc,
    In (2, shape, autoinc) (map (fun r : N * N * bool * option (template * option N * option N) => fst r) coltype_rows) ->
    shape <> 83 ->
    (coltype_row SQLite shape autoinc <> None <-> intended_by_shape shape <> None).
Proof.
  intros shape autoinc Hin Hne.
  apply in_map_iff in Hin as [[[[bk sh] ai] body] [Heq Hin]]. cbn [fst] in Heq. injection Heq as -> -> ->.
  revert Hne. revert Hin. generalize body. clear body.
  assert (H : forallb (fun r : N * N * bool * option (template * option N * option N) =>
                         match r with (bk, sh, ai, body) =>
                           if bk =? 2 then
                             match coltype_row SQLite sh ai, body with
                             | Some x, Some y => true | None, None => true | _, _ => false end
                           else true end) coltype_rows = true) by (vm_compute; reflexivity).
  intros body Hin Hne.
  pose proof (proj1 (forallb_forall _ _) H _ Hin) as Hc. cbn beta iota in Hc. change (2 =? 2) with true in Hc.
  cbn iota in Hc.
  pose proof (proj1 (forallb_forall _ _) sqlite_rows_ok _ Hin) as Hok.
  cbn [sqlite_row_ok] in Hok. change (2 =? 2) with true in Hok. cbn iota in Hok.
  destruct (coltype_row SQLite shape autoinc) as [x|], body as [[[t l1] l2]|]; try discriminate Hc.
  - destruct (intended_by_shape shape); split; intros; try congruence.
    apply N.eqb_eq in Hok. congruence.
  - destruct (intended_by_shape shape); [discriminate|]. split; intros; congruence.
Qed.

(* ===================================================================================================
   C13 (b): structure of CREATE TABLE and of the SQLite column definition
   =================================================================================================== *)
Lemma sep_by_app (sep : script) (l1 l2 : list script) :
  l1 <> [] -> l2 <> [] -> sep_by sep (l1 ++ l2) = sep_by sep l1 ++ sep ++ sep_by sep l2.
Proof.
  intros H1 H2. induction l1 as [|x l1 IH]; [congruence|].
  destruct l1 as [|y l1].
  - destruct l2 as [|z l2]; [congruence|]. reflexivity.
  - change (sep_by sep ((x :: y :: l1) ++ l2)) with (x ++ sep ++ sep_by sep ((y :: l1) ++ l2)).
    rewrite IH by discriminate.
    change (sep_by sep (x :: y :: l1)) with (x ++ sep ++ sep_by sep (y :: l1)).
    rewrite <- !app_assoc. reflexivity.
Qed.

Section Structure.
Variable is_alpha : N -> bool.
Variable b : backend.
Variable T : etables.
Variable rq : query -> script.

(* the parenthesised list holds the columns, then the table-level indexes, then the foreign keys, then
   the checks, and nothing else; elements are separated by one comma-space *)
Theorem create_table_elements c :
  rtable_create is_alpha b T rq c =
  rtable_create_head c ++ wss " ( " ++
  sep_by comma (map (rcolumn_def is_alpha b T rq) (tc_columns c) ++
                map (rtable_index_expression is_alpha b T rq) (tc_indexes c) ++
                map (fun f => rfk_create_internal b f MCreation) (tc_foreign_keys c) ++
                map (rcheck is_alpha b T rq) (tc_check c)) ++
  wss " )" ++ rtable_create_tail b c.
Proof. reflexivity. Qed.

(* columns come before everything else, separated from it by exactly one separator *)
Theorem create_table_columns_first c :
  tc_columns c <> [] ->
  tc_indexes c <> [] \/ tc_foreign_keys c <> [] \/ tc_check c <> [] ->
  sep_by comma (tc_elements is_alpha b T rq c) =
  sep_by comma (map (rcolumn_def is_alpha b T rq) (tc_columns c)) ++ comma ++
  sep_by comma (map (rtable_index_expression is_alpha b T rq) (tc_indexes c) ++
                map (fun f => rfk_create_internal b f MCreation) (tc_foreign_keys c) ++
                map (rcheck is_alpha b T rq) (tc_check c)).
Proof.
  intros Hc Hrest. unfold tc_elements. apply sep_by_app.
  - destruct (tc_columns c); [congruence|discriminate].
  - destruct Hrest as [H|[H|H]].
    + destruct (tc_indexes c); [congruence|discriminate].
    + destruct (tc_foreign_keys c); [congruence|]. destruct (tc_indexes c); discriminate.
    + destruct (tc_check c); [congruence|]. destruct (tc_indexes c), (tc_foreign_keys c); discriminate.
Qed.
End Structure.

Lemma autoinc_keywords :
  autoinc_keyword MySQL = K "AUTO_INCREMENT" /\ autoinc_keyword Postgres = [] /\
  autoinc_keyword SQLite = K "AUTOINCREMENT".
Proof. repeat split; vm_compute; reflexivity. Qed.

(* SQLite: whatever the order of the specification calls, PRIMARY KEY and then AUTOINCREMENT are written
   last (the only place SQLite's grammar accepts AUTOINCREMENT: directly after PRIMARY KEY) *)
Theorem sqlite_column_def_order is_alpha T rq c :
  rcolumn_def is_alpha SQLite T rq c =
  [WId (cd_name c)] ++
  opt_script (cd_type c) (fun t => wss " " ++ rcoltype SQLite (has_autoinc c) t) ++
  flat_map (fun s => if is_pk s || is_autoinc s || is_comment s then []
                     else wss " " ++ rcolumn_spec is_alpha SQLite T rq s) (cd_spec c) ++
  (if existsb is_pk (cd_spec c) then wss " " ++ wss "PRIMARY KEY" else []) ++
  (if existsb is_autoinc (cd_spec c) then wss " " ++ [WS (K "AUTOINCREMENT")] else []).
Proof.
  unfold rcolumn_def. cbn [rcolumn_spec]. destruct autoinc_keywords as [_ [_ ->]]. reflexivity.
Qed.

(* ===================================================================================================
   C14: every MySQL / Postgres type name of the generated table is a type the dialect defines and decodes
   to the expected kind, modifiers and unsigned-ness
   =================================================================================================== *)
Definition backend_of_key (k : N) : backend := if k =? 0 then MySQL else if k =? 1 then Postgres else SQLite.

Definition structural (shape : N) : bool := (shape =? 83) || (shape =? 84) || (shape =? 85).

Definition dialect_row_ok (r : N * N * bool * option (template * option N * option N)) : bool :=
  match r with
  | (bk, shape, autoinc, body) =>
      let d := backend_of_key bk in
      if (bk =? 2) || structural shape then true else
      match body with
      | None => true
      | Some (t, l1, l2) =>
          forallb (fun p : N * N =>
            if negb (within l1 (fst p) && within l2 (snd p)) then true else
            let name := inst_template t p in
            if mem_N shape (undefined_rows d) && negb (autoinc && (bk =? 1)) then
              (* a listed finding: not a type of the dialect *)
              match decode_type d name with None => true | Some _ => false end
            else
              match decode_type d name with
              | None => false
              | Some dt =>
                  if autoinc && (bk =? 1) then
                    (* Postgres auto-increment: the serial type of the same width, nothing else *)
                    match serial_of shape with
                    | Some k => dtype_matches dt (k, [], false) p
                    | None => false
                    end
                  else
                    match expected d shape with
                    | Some e => dtype_matches dt e p
                    | None => false
                    end
              end) param_points
      end
  end.

Lemma dialect_rows_offending : filter (fun r => negb (dialect_row_ok r)) coltype_rows = [].
Proof. vm_compute. reflexivity. Qed.
Lemma dialect_rows_ok : forallb dialect_row_ok coltype_rows = true.
Proof. apply forallb_of_filter. exact dialect_rows_offending. Qed.

(* the same in logical form *)
Definition is_pg (d : backend) : bool := match d with Postgres => true | _ => false end.

Theorem types_are_defined :
  forall d shape autoinc t l1 l2 p,
    d = MySQL \/ d = Postgres ->
    coltype_row d shape autoinc = Some (t, l1, l2) ->
    structural shape = false ->
    In p param_points -> within l1 (fst p) && within l2 (snd p) = true ->
    let name := inst_template t p in
    if mem_N shape (undefined_rows d) && negb (autoinc && is_pg d) then decode_type d name = None
    else exists dt, decode_type d name = Some dt /\
         (if autoinc && is_pg d
          then exists k, serial_of shape = Some k /\ dtype_matches dt (k, [], false) p = true
          else exists e, expected d shape = Some e /\ dtype_matches dt e p = true).
Proof.
  intros d shape autoinc t l1 l2 p Hd Hrow Hstruct Hp Hw name.
  apply coltype_row_in in Hrow.
  pose proof (proj1 (forallb_forall _ _) dialect_rows_ok _ Hrow) as Hok.
  cbn [dialect_row_ok] in Hok.
  assert (Hbk : backend_of_key (backend_key d) = d) by (destruct d; reflexivity).
  assert (Hb2 : (backend_key d =? 2) = false) by (destruct Hd as [-> | ->]; reflexivity).
  assert (Hb1 : (backend_key d =? 1) = is_pg d) by (destruct d; reflexivity).
  rewrite Hbk, Hb2, Hstruct in Hok. cbn [orb] in Hok.
  pose proof (proj1 (forallb_forall _ _) Hok _ Hp) as Hpt. cbn beta in Hpt.
  rewrite Hw, Hb1 in Hpt. cbn [negb] in Hpt. fold name in Hpt.
  destruct (mem_N shape (undefined_rows d) && negb (autoinc && is_pg d)).
  - destruct (decode_type d name); [discriminate|reflexivity].
  - destruct (decode_type d name) as [dt|]; [|discriminate]. exists dt. split; [reflexivity|].
    destruct (autoinc && is_pg d).
    + destruct (serial_of shape) as [k|]; [|discriminate]. exists k. split; [reflexivity|exact Hpt].
    + destruct (expected d shape) as [e|]; [|discriminate]. exists e. split; [reflexivity|exact Hpt].
Qed.

Example types_are_defined_applies :
  coltype_row MySQL 18 false <> None /\ In (10, 2) param_points /\
  decode_type MySQL (K "decimal(10, 2)") =
    Some {| dt_kind := KDecimal; dt_mods := [K "10"; K "2"]; dt_unsigned := false |} /\
  decode_type MySQL (K "bigint UNSIGNED") = Some {| dt_kind := KBigInt; dt_mods := []; dt_unsigned := true |} /\
  decode_type Postgres (K "interval DAY TO SECOND(3)") =
    Some {| dt_kind := KInterval (Some 9); dt_mods := [K "3"]; dt_unsigned := false |} /\
  decode_type Postgres (K "interval HOUR(43)") = None /\ decode_type Postgres (K "money(10, 2)") = None /\
  decode_type MySQL (K "unsupported") = None.
Proof. repeat split; try (vm_compute; congruence); vm_compute; auto 10. Qed.

(* MySQL: the auto-increment flag never changes the type name (AUTO_INCREMENT is a separate keyword) *)
Lemma mysql_autoinc_same_type :
  forallb (fun r : N * N * bool * option (template * option N * option N) =>
             match r with (bk, shape, _, body) =>
               if bk =? 0 then
                 match coltype_row MySQL shape false, coltype_row MySQL shape true with
                 | Some x, Some y => true    (* compared below *)
                 | None, None => true
                 | _, _ => false
                 end
               else true
             end) coltype_rows = true /\
  forallb (fun shape => match coltype_row MySQL shape false, coltype_row MySQL shape true with
                        | Some (t1, _, _), Some (t2, _, _) =>
                            str_eqb (inst_template t1 (7, 3)) (inst_template t2 (7, 3))
                        | None, None => true
                        | _, _ => false
                        end)
          (map (fun r : N * N * bool * option (template * option N * option N) => snd (fst (fst r))) coltype_rows) = true.
Proof. split; vm_compute; reflexivity. Qed.

(* Postgres: with the auto-increment flag only SmallInteger / Integer / BigInteger render (as smallserial /
   serial / bigserial); every other type panics *)
Lemma postgres_autoinc_rows :
  forallb (fun r : N * N * bool * option (template * option N * option N) =>
             match r with (bk, shape, autoinc, body) =>
               if (bk =? 1) && autoinc then
                 match body, serial_of shape with
                 | Some _, Some _ => true | None, None => true | _, _ => false
                 end
               else true
             end) coltype_rows = true.
Proof. vm_compute. reflexivity. Qed.

Example postgres_serial_names :
  type_text Postgres true 8 (0, 0) = Some (K "smallserial") /\ type_text Postgres true 9 (0, 0) = Some (K "serial") /\
  type_text Postgres true 10 (0, 0) = Some (K "bigserial").
Proof. repeat split; vm_compute; reflexivity. Qed.

(* outside the substitution lists the decoding is the faithful reading of the abstract type *)
Lemma faithful_outside_substitutions d shape :
  assoc_shape (substitutions d) shape = None -> expected d shape = natural shape.
Proof. unfold expected. intros ->. reflexivity. Qed.

(* the executed examples of the generated table agree with the templates (parameter abstraction is sound
   at every executed point, including the panics above the limits) *)
Definition probe_ok (r : N * N * bool * N * N * option str) : bool :=
  match r with
  | (bk, shape, ai, p1, p2, txt) =>
      match type_text (backend_of_key bk) ai shape (p1, p2), txt with
      | Some a, Some b => str_eqb a b
      | None, None => true
      | _, _ => false
      end
  end.
Lemma probes_offending : filter (fun r => negb (probe_ok r)) coltype_probes = [].
Proof. vm_compute. reflexivity. Qed.
Lemma probes_ok : forallb probe_ok coltype_probes = true.
Proof. apply forallb_of_filter. exact probes_offending. Qed.
