(* The scripts of rendered STATEMENTS are sc_ok (Spec/ScriptSafe.v): for every query statement (SELECT / INSERT /
   UPDATE / DELETE / WITH, nested to any depth) without raw SQL and without the FIELD ordering, every backend and
   every table whose spellings lex.  Hence the separability premises hold (params_sep; inline_sep when the
   literals of the statement's values lex) and the text-level theorems of C01 / C02 apply to whole statements. *)
Require Import SQV.Model.Str SQV.Model.Escape SQV.Model.Value SQV.Model.Literal SQV.Model.Token SQV.Model.Expr
  SQV.Model.Cond SQV.Model.Stmt SQV.Model.Writer SQV.Model.RenderExpr SQV.Model.RenderStmt
  SQV.Spec.EngLex SQV.Spec.EngTok SQV.Spec.EngBoundary SQV.Proofs.WriterProofs SQV.Spec.EngScript
  SQV.Spec.ScriptSafe SQV.Proofs.EngTokProofs SQV.Proofs.EngLiteralTokProofs SQV.Proofs.ScriptSafeProofs
  SQV.Proofs.ExprValuesProofs SQV.Proofs.ExprSafeProofs.
From Coq Require Import Lia String.
Open Scope list_scope.

Section C.
Variable ftext : bool -> N -> str.
Variable b : backend.
Variable inl : bool.
Notation G := (G ftext b inl).
Notation sc_okn := (sc_okn ftext b inl).
Notation first_char := (ScriptSafe.first_char ftext b inl).
Notation lexes := (lexes ftext b inl).
Notation openb := (openb b).

(* a script that may be followed by anything (it ends in a blank or in punctuation) *)
Definition Gopen (sc : script) : Prop := forall nxt, sc_okn sc nxt = true.
Lemma Gopen_G sc : Gopen sc -> G sc.
Proof. intros H. apply H. Qed.
Lemma Gopen_nil : Gopen [].
Proof. intros nxt. reflexivity. Qed.
Lemma Gopen_app A B : Gopen A -> Gopen B -> Gopen (A ++ B).
Proof. intros HA HB nxt. rewrite sc_okn_app. now rewrite HA, HB. Qed.
Lemma Gopen_then A B : Gopen A -> G B -> G (A ++ B).
Proof. intros HA HB. unfold ExprSafeProofs.G. rewrite sc_okn_app. now rewrite HA, HB. Qed.
Lemma Gopen_end X c : G X -> lexes c = true -> openb c = true -> starts_usafe c = true -> Gopen (X ++ [WS c]).
Proof.
  intros HX Hl Ho Hs nxt. rewrite sc_okn_app. destruct c as [|f c']; [discriminate Hs|].
  cbn [ScriptSafe.first_char ScriptSafe.tok_text or_next].
  rewrite (sc_okn_safe ftext b inl X f Hs HX). cbn [andb ExprSafeProofs.sc_okn ScriptSafe.first_char or_next].
  unfold lexes, ExprSafeProofs.lexes in Hl. rewrite Hl.
  destruct nxt; cbn [or_next]; [rewrite (open_follow ftext b inl _ _ Ho)|]; now rewrite ?orb_true_r.
Qed.
Lemma Gopen_one c : lexes c = true -> openb c = true -> Gopen [WS c].
Proof.
  intros Hl Ho nxt. cbn [ExprSafeProofs.sc_okn ScriptSafe.first_char or_next].
  unfold lexes, ExprSafeProofs.lexes in Hl. rewrite Hl.
  destruct nxt; cbn [or_next]; [rewrite (open_follow ftext b inl _ _ Ho)|]; now rewrite ?orb_true_r.
Qed.

(* clause-like scripts: good, and empty or starting with a blank *)
Definition Cl (sc : script) : Prop := G sc /\ (first_char sc = None \/ first_char sc = Some 32).
Lemma Cl_nil : Cl [].
Proof. split; [reflexivity|now left]. Qed.
Lemma Cl_app A B : Cl A -> Cl B -> Cl (A ++ B).
Proof.
  intros [GA FA] [GB FB]. split.
  - destruct FB as [FB|FB]; [now apply G_app_nil|eapply G_app_safe; eauto].
  - rewrite first_char_app. destruct FA as [FA|FA]; rewrite FA; cbn [or_next]; [exact FB|now right].
Qed.
Lemma Cl_flat_map {A} (f : A -> script) l : (forall x, In x l -> Cl (f x)) -> Cl (flat_map f l).
Proof.
  induction l as [|x l IH]; intros H; [apply Cl_nil|]. cbn [flat_map].
  apply Cl_app; [apply H; now left|apply IH; intros y Hy; apply H; now right].
Qed.
Lemma G_then_Cl A B : G A -> Cl B -> G (A ++ B).
Proof. intros GA [GB [FB|FB]]; [now apply G_app_nil|eapply G_app_safe; eauto]. Qed.
End C.

Section S.
Variable ftext : bool -> N -> str.
Variable is_alpha : N -> bool.
Variable b : backend.
Variable inl : bool.
Variable T : etables.
Variable rq : query -> script.
Variable qok : query -> bool.

Notation G := (G ftext b inl).
Notation Gopen := (Gopen ftext b inl).
Notation Cl := (Cl ftext b inl).
Notation lexes := (lexes ftext b inl).
Notation openb := (openb b).
Notation first_char := (ScriptSafe.first_char ftext b inl).
Notation eplain := (expr_plain ftext query b inl qok).
Notation vlex := (fun v => tok_lexes ftext b inl (WVal v)).
Notation rex := (rex is_alpha b T rq).

Hypothesis HT : spellings_lex b T.
Hypothesis Hrq : forall q, qok q = true -> G (rq q).

Ltac kc := destruct b; vm_compute; reflexivity.

(* lemmas of Proofs/ExprSafeProofs.v, instantiated with the hypotheses of this section *)
Local Notation EH x := (x ftext query rq b inl T qok (proj1 HT) (proj1 (proj2 HT)) (proj2 (proj2 HT)) Hrq) (only parsing).
Local Notation wid_lexes := (EH ExprSafeProofs.wid_lexes).
Local Notation wid_toks := (EH ExprSafeProofs.wid_toks).
Local Notation G_sepby := (EH ExprSafeProofs.G_sepby).
Local Notation G_colref := (EH ExprSafeProofs.G_colref).

Lemma G_rex e : eplain e = true -> G (rex e).
Proof.
  intros H. destruct HT as (H1 & H2 & H3). unfold RenderStmt.rex.
  exact (rexpr_good ftext query rq is_alpha b inl T qok H1 H2 H3 Hrq e false H).
Qed.

(* ---- conditions ---- *)
Fixpoint cond_plain (c : cond query) : bool :=
  match c with
  | Cond _ _ ms => forallb (fun m => match m with MCond c' => cond_plain c' | MExpr e => eplain e end) ms
  end.
Definition holder_plain (h : holder query) : bool :=
  match h with HEmpty => true | HChain ms => forallb (fun m => eplain (snd m)) ms | HCond c => cond_plain c end.

Lemma fold_binop_plain op first rest : (match op with BCustom s => tok_lexes ftext b inl (WCust s) | _ => true end) = true ->
  eplain first = true -> Forall (fun e => eplain e = true) rest -> eplain (fold_binop op first rest) = true.
Proof.
  intros Hop. revert first. induction rest as [|e r IH]; intros first Hf Hr; [exact Hf|].
  cbn [fold_binop fold_left]. inversion Hr; subst. apply IH; [|assumption].
  cbn [expr_plain]. now rewrite Hop, Hf, H1.
Qed.

Lemma bool_consts_lex : tok_lexes ftext b inl (WConst (@true_value)) = true /\
  tok_lexes ftext b inl (WConst (@false_value)) = true.
Proof. split; destruct b; vm_compute; reflexivity. Qed.

Lemma to_simple_expr_plain : forall c, cond_plain c = true -> eplain (to_simple_expr c) = true.
Proof.
  fix IH 1. intros [n a ms] H. cbn [to_simple_expr cond_plain] in *.
  assert (Hin : Forall (fun e => eplain e = true)
            (map (fun m => match m with MCond c' => to_simple_expr c' | MExpr e => e end) ms)).
  { clear n a. induction ms as [|m ms IHms]; [constructor|]. cbn [forallb map] in *.
    apply andb_prop in H as [Hm Hms]. constructor; [|now apply IHms].
    destruct m as [c'|e]; [now apply IH|exact Hm]. }
  destruct bool_consts_lex as [Ct Cf].
  set (inner := map _ ms) in *.
  assert (He : eplain (match inner with
                       | [] => EConstant (if a then false_value else true_value)
                       | first :: rest => fold_binop (if a then BOr else BAnd) first rest
                       end) = true).
  { destruct inner as [|f r]; [destruct a; cbn [expr_plain]; assumption|].
    inversion Hin; subst. apply fold_binop_plain; [now destruct a|assumption|assumption]. }
  destruct n; [cbn [expr_plain]|]; exact He.
Qed.

(* the Chain form (and_or_where): members between " AND " / " OR ", each possibly between parentheses *)
Lemma first_char_rchain len i m r : (0 < i)%nat ->
  first_char (rchain is_alpha b T rq len i (m :: r)) = Some 32.
Proof.
  intros Hi. destruct i as [|i]; [lia|]. destruct m as [[|] e]; reflexivity.
Qed.

Lemma G_rchain_member len i m : eplain (snd m) = true -> G (rchain_member is_alpha b T rq len i m).
Proof.
  destruct m as [o e]. cbn [snd]. intros He. unfold rchain_member.
  pose proof (EH ExprSafeProofs.G_wrap) as GW.
  destruct (Nat.ltb 0 i).
  - unfold ws at 1. cbn [app]. apply G_pre; [apply GW, G_rex, He| |]; destruct o; kc.
  - cbn [app]. apply GW, G_rex, He.
Qed.

Lemma G_rchain len ms : forall i, forallb (fun m => eplain (snd m)) ms = true ->
  G (rchain is_alpha b T rq len i ms).
Proof.
  induction ms as [|m r IH]; intros i Hp; cbn [rchain]; [apply G_nil|].
  cbn [forallb] in Hp. apply andb_prop in Hp as [Hm Hr].
  destruct r as [|m2 r2].
  - cbn [rchain]. rewrite app_nil_r. now apply G_rchain_member.
  - eapply G_app_safe; [now apply G_rchain_member|apply IH; exact Hr|apply first_char_rchain; lia|reflexivity].
Qed.

Lemma Cl_rholder kw h : (kw = "WHERE" \/ kw = "HAVING" \/ kw = "ON")%string -> holder_plain h = true ->
  Cl (rholder is_alpha b T rq kw h).
Proof.
  intros Hk Hp. destruct h as [|ms|c]; [apply Cl_nil| |].
  { cbn [rholder holder_plain] in *. split; [|right; reflexivity]. cbn [app].
    apply G_pre; [apply G_rchain, Hp| |]; destruct Hk as [->|[->| ->]]; kc. }
  cbn [rholder holder_plain] in *.
  split; [|right; reflexivity]. cbn [app].
  apply G_pre; [apply G_rex, to_simple_expr_plain, Hp| |];
    destruct Hk as [->|[->| ->]]; kc.
Qed.

(* ---- small helpers ---- *)
Lemma wid_G s : G [WId s].
Proof. apply G_one, wid_lexes. Qed.
Lemma wid_first s r : first_char (WId s :: r) = Some (quote_char b).
Proof. reflexivity. Qed.
Lemma wid_follow_usafe_then s Y f : G Y -> first_char Y = Some f -> usafe f = true -> G (WId s :: Y).
Proof. intros. eapply G_cons_safe; eauto. apply wid_lexes. Qed.

Lemma G_sepby_comma l : Forall G l -> G (sep_by comma l).
Proof. apply G_sepby. Qed.

(* sep_by with a blank separator *)
Lemma G_sepby_c c l : lexes c = true -> openb c = true -> starts_usafe c = true ->
  Forall G l -> G (sep_by [WS c] l).
Proof.
  intros C1 C2 C3. induction 1 as [|x l Hx Hl IH]; [apply G_nil|]. destruct l as [|y l']; [exact Hx|].
  cbn [sep_by] in *. cbn [app]. now apply G_sandwich.
Qed.

Lemma G_ws c : lexes (K c) = true -> G (wss c).
Proof. intros H. apply G_one. exact H. Qed.

(* [ws c] ++ Y with c open *)
Lemma G_wss_pre c Y : lexes (K c) = true -> openb (K c) = true -> G Y -> G (wss c ++ Y).
Proof. intros. unfold wss. cbn [app]. now apply G_pre. Qed.
Lemma G_wss_post X c : G X -> lexes (K c) = true -> starts_usafe (K c) = true -> G (X ++ wss c).
Proof. intros. unfold wss. now apply G_post. Qed.
Lemma G_wss_mid X c Y : G X -> G Y -> lexes (K c) = true -> openb (K c) = true -> starts_usafe (K c) = true ->
  G (X ++ wss c ++ Y).
Proof. intros. unfold wss. cbn [app]. now apply G_sandwich. Qed.

(* ---- table references ---- *)
Lemma G_rtplain t : G (rtplain t).
Proof.
  assert (Kdot : lexes (K ".") = true) by kc.
  assert (Hdot : forall s, tok_follow_ok ftext b inl (WId s) 46 = true).
  { intros s. cbn [ScriptSafe.tok_follow_ok]. unfold text_follow_ok.
    destruct (wid_toks s) as [-> ->]. reflexivity. }
  assert (Hq : tok_follow_ok ftext b inl (ws ".") (quote_char b) = true) by kc.
  assert (D : forall s Y, G Y -> first_char Y = Some (quote_char b) -> G (WId s :: ws "." :: Y)).
  { intros s Y HY HF. eapply G_cons_follow; [apply wid_lexes| |reflexivity|apply Hdot].
    eapply G_cons_follow; [exact Kdot|exact HY|exact HF|exact Hq]. }
  assert (A : forall s a, G (WId s :: ws " AS " :: [WId a])).
  { intros s a. change (WId s :: ws " AS " :: [WId a]) with ([WId s] ++ WS (K " AS ") :: [WId a]).
    apply G_sandwich; [apply wid_G|apply wid_G| | |]; kc. }
  destruct t; cbn [rtplain]; try apply wid_G; try apply A;
    repeat (apply D; [|reflexivity]); try apply wid_G; try apply A.
Qed.

Definition rows_lexable (rows : list (list value)) : bool := forallb (forallb vlex) rows.

Lemma G_vals (row : list value) : forallb vlex row = true -> G (sep_by comma (map (fun v => [WVal v]) row)).
Proof.
  intros H. apply G_sepby_comma. apply Forall_forall. intros sc Hin. apply in_map_iff in Hin as [v [<- Hv]].
  apply G_one. rewrite forallb_forall in H. now apply H.
Qed.

Lemma G_rvalues_list rows : rows_lexable rows = true -> G (rvalues_list b rows).
Proof.
  intros H. unfold rvalues_list. apply G_wss_pre; [kc|kc|]. apply G_sepby_comma. apply Forall_forall.
  intros sc Hin. apply in_map_iff in Hin as [row [<- Hr]]. unfold rows_lexable in H.
  rewrite forallb_forall in H. specialize (H row Hr).
  assert (Hin2 : G (wss "(" ++ sep_by comma (map (fun v => [WVal v]) row) ++ wss ")")).
  { apply G_wss_pre; [kc|kc|]. apply G_wss_post; [now apply G_vals|kc|kc]. }
  destruct b; cbn [app]; [|exact Hin2|exact Hin2].
  unfold wss at 1.
  eapply G_app_safe; [apply G_one; vm_compute; reflexivity|exact Hin2|reflexivity|reflexivity].
Qed.

Definition args_plain (args : list (bool * expr query)) : bool :=
  forallb (fun a : bool * expr query => eplain (snd a)) args.

Lemma G_rfunc_args args : args_plain args = true -> G (rfunc_args is_alpha b T rq args).
Proof.
  intros H. unfold rfunc_args. apply G_wss_pre; [kc|kc|]. apply G_wss_post; [|kc|kc].
  apply G_sepby_comma. apply Forall_forall. intros sc Hin. apply in_map_iff in Hin as [a [<- Ha]].
  unfold args_plain in H. rewrite forallb_forall in H. specialize (H a Ha).
  destruct (fst a); cbn [app]; [apply G_wss_pre; [kc|kc|]|]; now apply G_rex.
Qed.

Definition tref_plain (t : tref) : bool :=
  match t with
  | TPlain _ => true
  | TSubQuery s _ => qok (QSelect s)
  | TValues rows _ => rows_lexable rows
  | TFunc f args _ => (match f with FCustom n => tok_lexes ftext b inl (WCust n) | _ => true end) && args_plain args
  end.

Lemma G_as_alias X a : G X -> G (X ++ wss " AS " ++ [WId a]).
Proof. intros H. apply G_wss_mid; [exact H|apply wid_G|kc|kc|kc]. Qed.

Lemma G_rtref t : tref_plain t = true -> G (rtref is_alpha b T rq t).
Proof.
  intros H. destruct t as [p|s a|rows a|f args a]; cbn [rtref tref_plain] in *.
  - apply G_rtplain.
  - rewrite app_assoc, app_assoc, <- (app_assoc (wss "(")). apply G_as_alias.
    apply G_wss_pre; [kc|kc|]. apply G_wss_post; [now apply Hrq|kc|kc].
  - rewrite app_assoc, app_assoc, <- (app_assoc (wss "(")). apply G_as_alias.
    apply G_wss_pre; [kc|kc|]. apply G_wss_post; [now apply G_rvalues_list|kc|kc].
  - apply andb_prop in H as [Hf Ha]. rewrite app_assoc. apply G_as_alias.
    eapply G_app_safe; [|now apply G_rfunc_args|reflexivity|reflexivity].
    unfold rfunc_name. destruct HT as (_ & H2 & _).
    destruct f; try (apply G_opt_text; intros s0 Hs0; eapply H2; exact Hs0). apply G_one. exact Hf.
Qed.

(* ---- ORDER BY ---- *)
Definition order_plain (oe : orderexpr) : bool :=
  match oe with
  | OrderExpr e o _ => eplain e && match o with OField _ => false | _ => true end
  end.

Lemma G_rorder oe : order_plain oe = true -> G (rorder is_alpha b T rq oe).
Proof.
  destruct oe as [e o n]. cbn [order_plain rorder]. intros H. apply andb_prop in H as [He Ho].
  assert (Ge : G (rex e)) by now apply G_rex.
  assert (Gn : G (rex (EBinary e BIs (EKeyword KwNull)))).
  { apply G_rex. cbn [expr_plain]. now rewrite He. }
  assert (Gmain : G ((match o with OField _ => [] | _ => rex e end) ++
                     (match o with OAsc => wss " ASC" | ODesc => wss " DESC"
                                 | OField vs => rorder_field is_alpha b T rq e vs end))).
  { destruct o; try discriminate Ho; (apply G_wss_post; [exact Ge|kc|kc]). }
  set (main := _ ++ _) in *.
  set (en := EBinary e BIs (EKeyword KwNull)) in *.
  assert (Epost : forall post, post = match b, n with
                  | MySQL, _ => []
                  | _, Some NLast => wss " NULLS LAST"
                  | _, Some NFirst => wss " NULLS FIRST"
                  | _, None => [] end ->
                  post = [] \/ post = wss " NULLS LAST" \/ post = wss " NULLS FIRST").
  { intros post ->. destruct b, n as [[|]|]; auto. }
  assert (Epre : forall pre, pre = match b, n with
                 | MySQL, Some NLast => rex en ++ wss " ASC, "
                 | MySQL, Some NFirst => rex en ++ wss " DESC, "
                 | _, _ => [] end ->
                 pre = [] \/ pre = rex en ++ wss " ASC, " \/ pre = rex en ++ wss " DESC, ").
  { intros pre ->. destruct b, n as [[|]|]; auto. }
  destruct (Epost _ eq_refl) as [->|[->| ->]]; destruct (Epre _ eq_refl) as [->|[->| ->]];
    cbn [app]; rewrite ?app_nil_r, <- ?app_assoc;
    repeat first [exact Gmain
                 | apply G_wss_mid; [exact Gn| |kc|kc|kc]
                 | apply G_wss_post; [|kc|kc]].
Qed.

Lemma G_rorders_list os : forallb order_plain os = true ->
  G (sep_by comma (map (rorder is_alpha b T rq) os)).
Proof.
  intros H. apply G_sepby_comma. apply Forall_forall. intros sc Hin. apply in_map_iff in Hin as [o [<- Ho]].
  rewrite forallb_forall in H. now apply G_rorder, H.
Qed.

Lemma Cl_rorders os : forallb order_plain os = true -> Cl (rorders is_alpha b T rq os).
Proof.
  intros H. unfold rorders. destruct os as [|o os']; [apply Cl_nil|].
  split; [|right; reflexivity]. apply G_wss_pre; [kc|kc|]. now apply G_rorders_list.
Qed.

(* ---- windows ---- *)
Definition frame_plain (f : frame) : bool :=
  match f with FPreceding n | FFollowing n => vlex (uint_value n) | _ => true end.

Lemma G_rframe f : frame_plain f = true -> G (rframe f).
Proof.
  intros H. destruct f; cbn [rframe frame_plain] in *; try (apply G_ws; kc);
    (apply G_wss_post; [apply G_one; exact H|kc|kc]).
Qed.

Definition window_plain (w : windowstmt) : bool :=
  match w with
  | Window pb ob fr =>
      forallb (fun e => eplain e) pb && forallb order_plain ob &&
      match fr with
      | None => true
      | Some (_, st, en) => frame_plain st && match en with Some e => frame_plain e | None => true end
      end
  end.

(* the parts of a window definition: each is empty or a good script; the second and third start with a blank *)
Lemma G_rwindow w : window_plain w = true -> G (rwindow is_alpha b T rq w).
Proof.
  destruct w as [pb ob fr]. cbn [window_plain rwindow]. intros H.
  apply andb_prop in H as [H Hf]. apply andb_prop in H as [Hp Ho].
  assert (P1 : G (match pb with [] => [] | _ => wss "PARTITION BY " ++ sep_by comma (map rex pb) end)).
  { destruct pb as [|p pb']; [apply G_nil|]. apply G_wss_pre; [kc|kc|]. apply G_sepby_comma.
    apply Forall_forall. intros sc Hin. apply in_map_iff in Hin as [e [<- He]].
    rewrite forallb_forall in Hp. now apply G_rex, Hp. }
  assert (P2 : Cl (match ob with [] => [] | _ => wss " ORDER BY " ++ sep_by comma (map (rorder is_alpha b T rq) ob) end)).
  { destruct ob as [|o ob']; [apply Cl_nil|]. split; [|right; reflexivity].
    apply G_wss_pre; [kc|kc|]. now apply G_rorders_list. }
  assert (P3 : Cl (match fr with
       | None => []
       | Some (ft, st, en) =>
           (match ft with FTRange => wss " RANGE " | FTRows => wss " ROWS " end) ++
           (match en with
            | Some e => wss "BETWEEN " ++ rframe st ++ wss " AND " ++ rframe e
            | None => rframe st
            end)
       end)).
  { destruct fr as [[[ft st] en]|]; [|apply Cl_nil]. apply andb_prop in Hf as [Hs He].
    split; [|right; destruct ft; reflexivity].
    assert (Gin : G (match en with
            | Some e => wss "BETWEEN " ++ rframe st ++ wss " AND " ++ rframe e
            | None => rframe st end)).
    { destruct en as [e|]; [|now apply G_rframe].
      apply G_wss_pre; [kc|kc|]. apply G_wss_mid; [now apply G_rframe|now apply G_rframe|kc|kc|kc]. }
    destruct ft; (apply G_wss_pre; [kc|kc|exact Gin]). }
  apply G_then_Cl; [exact P1|]. now apply Cl_app.
Qed.

(* ---- select list ---- *)
Definition selexpr_plain (se : selexpr) : bool :=
  match se with
  | SelExpr e _ win => eplain e && match win with Some (WQuery w) => window_plain w | _ => true end
  end.

Lemma G_rselexpr se : selexpr_plain se = true -> G (rselexpr is_alpha b T rq se).
Proof.
  destruct se as [e alias win]. cbn [selexpr_plain rselexpr]. intros H. apply andb_prop in H as [He Hw].
  apply G_then_Cl; [now apply G_rex|]. apply Cl_app.
  - destruct win as [[n|w]|]; [| |apply Cl_nil]; (split; [|right; reflexivity]).
    + apply G_wss_pre; [kc|kc|apply wid_G].
    + apply G_wss_pre; [kc|kc|]. apply G_wss_pre; [kc|kc|]. apply G_wss_post; [now apply G_rwindow|kc|kc].
  - destruct alias as [a|]; [|apply Cl_nil]. split; [|right; reflexivity].
    apply G_wss_pre; [kc|kc|apply wid_G].
Qed.

(* ---- joins ---- *)
Lemma G_rjointype j : G (rjointype b j) /\ True.
Proof.
  split; [|exact I]. assert (E : rjointype b j = [WPanic] \/ exists c, rjointype b j = wss c /\ lexes (K c) = true).
  { destruct j; cbn [rjointype]; try (right; eexists; split; [reflexivity|kc]).
    destruct b; [now left| |]; right; eexists; split; try reflexivity; vm_compute; reflexivity. }
  destruct E as [->|[c [-> Hc]]]; [apply G_one; reflexivity|now apply G_ws].
Qed.

Definition join_plain (j : joinexpr) : bool :=
  match j with
  | Join _ t on _ => tref_plain t && match on with Some h => holder_plain h | None => true end
  end.

Lemma G_rjoin j : join_plain j = true -> G (rjoin is_alpha b T rq j).
Proof.
  destruct j as [jt t on lateral]. cbn [join_plain rjoin]. intros H. apply andb_prop in H as [Ht Ho].
  apply G_wss_mid; [apply G_rjointype| |kc|kc|kc].
  assert (Gt : G (rtref is_alpha b T rq t ++ match on with Some h => rholder is_alpha b T rq "ON" h | None => [] end)).
  { apply G_then_Cl; [now apply G_rtref|]. destruct on as [h|]; [|apply Cl_nil].
    apply Cl_rholder; [auto|exact Ho]. }
  destruct lateral; cbn [app]; [apply G_wss_pre; [kc|kc|exact Gt]|exact Gt].
Qed.

(* ---- DISTINCT, index hints, table sample ---- *)
Lemma G_rdistinct d : G (rdistinct b d).
Proof.
  assert (E : rdistinct b d = [] \/ (exists c, rdistinct b d = wss c /\ lexes (K c) = true) \/
              exists cols, rdistinct b d = wss "DISTINCT ON (" ++ sep_by comma (map rcolref cols) ++ wss ")").
  { destruct d; cbn [rdistinct]; try (right; left; eexists; split; [reflexivity|kc]).
    - destruct b; [right; left; eexists; split; [reflexivity|vm_compute; reflexivity]|now left|now left].
    - destruct b; [now left|right; right; eexists; reflexivity|now left]. }
  destruct E as [->|[[c [-> Hc]]|[cols ->]]]; [apply G_nil|now apply G_ws|].
  apply G_wss_pre; [kc|kc|]. apply G_wss_post; [|kc|kc]. apply G_sepby_comma.
  apply Forall_forall. intros sc Hin. apply in_map_iff in Hin as [c [<- _]]. apply G_colref.
Qed.

Lemma Cl_rhints hs : Cl (rhints b hs).
Proof.
  assert (E : rhints b hs = [] \/ rhints b hs = wss " " ++ sep_by (wss " ") (map (fun h : hinttype * hintscope * str =>
        (match fst (fst h) with HUse => wss "USE INDEX " | HIgnore => wss "IGNORE INDEX "
                               | HForce => wss "FORCE INDEX " end) ++
        (match snd (fst h) with HSJoin => wss "FOR JOIN " | HSOrderBy => wss "FOR ORDER BY "
                               | HSGroupBy => wss "FOR GROUP BY " | HSAll => [] end) ++
        wss "(" ++ [WId (snd h)] ++ wss ")") hs)).
  { unfold rhints. destruct b, hs; auto. }
  destruct E as [->| ->]; [apply Cl_nil|]. split; [|right; reflexivity].
  apply G_wss_pre; [kc|kc|]. unfold wss at 1. apply G_sepby_c; [kc|kc|kc|].
  apply Forall_forall. intros sc Hin. apply in_map_iff in Hin as [[[ht hsc] nm] [<- _]]. cbn [fst snd].
  assert (Gp : G (wss "(" ++ [WId nm] ++ wss ")")).
  { apply G_wss_pre; [kc|kc|]. apply G_wss_post; [apply wid_G|kc|kc]. }
  assert (Gs : G ((match hsc with HSJoin => wss "FOR JOIN " | HSOrderBy => wss "FOR ORDER BY "
                               | HSGroupBy => wss "FOR GROUP BY " | HSAll => [] end) ++ wss "(" ++ [WId nm] ++ wss ")")).
  { destruct hsc; cbn [app]; try exact Gp; (apply G_wss_pre; [kc|kc|exact Gp]). }
  destruct ht; (apply G_wss_pre; [kc|kc|exact Gs]).
Qed.

Definition sample_plain (s : option (samplemethod * str * option str)) : bool :=
  match s with
  | Some (_, pct, rep) =>
      text_lexes b (K " (" ++ pct ++ K ")") && openb (K " (" ++ pct ++ K ")") &&
      match rep with
      | Some r => text_lexes b (K " REPEATABLE (" ++ r ++ K ")") && openb (K " REPEATABLE (" ++ r ++ K ")")
      | None => true
      end
  | None => true
  end.

Lemma Cl_rsample s : sample_plain s = true -> Cl (rsample b s).
Proof.
  intros H.
  assert (E : rsample b s = [] \/ exists m pct rep, s = Some (m, pct, rep) /\ rsample b s =
      (match m with SBernoulli => wss " TABLESAMPLE BERNOULLI" | SSystem => wss " TABLESAMPLE SYSTEM" end) ++
      [WS (K " (" ++ pct ++ K ")")] ++
      (match rep with Some r => [WS (K " REPEATABLE (" ++ r ++ K ")")] | None => [] end)).
  { unfold rsample. destruct b, s as [[[m pct] rep]|]; auto; right; eexists _, _, _; split; reflexivity. }
  destruct E as [->|(m & pct & rep & -> & ->)]; [apply Cl_nil|]. cbn [sample_plain] in H.
  apply andb_prop in H as [H Hr]. apply andb_prop in H as [P1 P2].
  split; [|right; destruct m; reflexivity].
  assert (Gr : Cl (match rep with Some r => [WS (K " REPEATABLE (" ++ r ++ K ")")] | None => [] end)).
  { destruct rep as [r|]; [|apply Cl_nil]. apply andb_prop in Hr as [R1 R2].
    split; [apply G_one; exact R1|right; reflexivity]. }
  assert (Gp : G ([WS (K " (" ++ pct ++ K ")")] ++ match rep with Some r => [WS (K " REPEATABLE (" ++ r ++ K ")")] | None => [] end)).
  { apply G_then_Cl; [apply G_one; exact P1|exact Gr]. }
  destruct m; (eapply G_app_safe; [apply G_ws; kc|exact Gp|reflexivity|reflexivity]).
Qed.

(* ---- set operations, locks ---- *)
Lemma Cl_runion_kw kw s : lexes (K kw) = true -> openb (K kw) = true -> (forall Y, first_char (wss kw ++ Y) = Some 32) ->
  qok (QSelect s) = true ->
  Cl (match b with
      | SQLite => wss kw ++ rq (QSelect s)
      | _ => wss kw ++ wss "(" ++ rq (QSelect s) ++ wss ")" end).
Proof.
  intros K1 K2 F H.
  set (X := match b with SQLite => _ | _ => _ end).
  assert (E : X = wss kw ++ rq (QSelect s) \/ X = wss kw ++ wss "(" ++ rq (QSelect s) ++ wss ")")
    by (unfold X; destruct b; auto).
  destruct E as [->| ->]; (split; [|right; apply F]).
  - apply G_wss_pre; [exact K1|exact K2|now apply Hrq].
  - apply G_wss_pre; [exact K1|exact K2|]. apply G_wss_pre; [kc|kc|]. apply G_wss_post; [now apply Hrq|kc|kc].
Qed.

Lemma Cl_runion u : qok (QSelect (snd u)) = true -> Cl (runion b rq u).
Proof.
  intros H. unfold runion. destruct (fst u); cbv zeta; (apply Cl_runion_kw; [kc|kc|reflexivity|exact H]).
Qed.

Definition lock_plain (l : lockclause) : bool :=
  match l with Lock _ tables _ => forallb tref_plain tables end.

Lemma G_rlock l : lock_plain l = true -> G (rlock is_alpha b T rq l).
Proof.
  destruct l as [lt tables beh]. cbn [lock_plain]. intros H.
  set (body := (match lt with LUpdate => wss "FOR UPDATE" | LNoKeyUpdate => wss "FOR NO KEY UPDATE"
                       | LShare => wss "FOR SHARE" | LKeyShare => wss "FOR KEY SHARE" end) ++
          (match tables with [] => [] | _ => wss " OF " ++ sep_by comma (map (rtref is_alpha b T rq) tables) end) ++
          (match beh with Some LNowait => wss " NOWAIT" | Some LSkipLocked => wss " SKIP LOCKED" | None => [] end)).
  assert (E : rlock is_alpha b T rq (Lock lt tables beh) = [] \/ rlock is_alpha b T rq (Lock lt tables beh) = body)
    by (unfold rlock, body; destruct b; auto).
  destruct E as [->| ->]; [apply G_nil|]. unfold body.
  apply G_then_Cl; [destruct lt; apply G_ws; kc|]. apply Cl_app.
  - destruct tables as [|t ts]; [apply Cl_nil|]. split; [|right; reflexivity].
    apply G_wss_pre; [kc|kc|]. apply G_sepby_comma. apply Forall_forall. intros sc Hin.
    apply in_map_iff in Hin as [t0 [<- Ht0]]. rewrite forallb_forall in H. now apply G_rtref, H.
  - destruct beh as [[|]|]; [| |apply Cl_nil]; (split; [apply G_ws; kc|right; reflexivity]).
Qed.

(* ---- WITH ---- *)
Lemma Gopen_wss c : lexes (K c) = true -> openb (K c) = true -> Gopen (wss c).
Proof. intros. now apply Gopen_one. Qed.
Lemma Gopen_end_wss X c : G X -> lexes (K c) = true -> openb (K c) = true -> starts_usafe (K c) = true ->
  Gopen (X ++ wss c).
Proof. intros. now apply Gopen_end. Qed.

Lemma Gopen_rcte c : (match c with Cte _ _ q _ => qok q end) = true -> Gopen (rcte b rq c).
Proof.
  destruct c as [name cols q mat]. intros H. unfold rcte.
  set (M := match b, mat with
       | MySQL, _ => []
       | _, Some true => wss " MATERIALIZED "
       | _, Some false => wss "NOT MATERIALIZED "
       | _, None => [] end).
  assert (EM : M = [] \/ M = wss " MATERIALIZED " \/ M = wss "NOT MATERIALIZED ")
    by (unfold M; destruct b, mat as [[|]|]; auto).
  (* name and column list: ends in a blank *)
  assert (P1 : Gopen ([WId name] ++ match cols with [] => wss " " | _ => wss " (" ++ sep_by comma (map (fun c => [WId c]) cols) ++ wss ") " end)).
  { destruct cols as [|c0 cs].
    - apply Gopen_end_wss; [apply wid_G|kc|kc|kc].
    - rewrite app_assoc, app_assoc. apply Gopen_end_wss; [|kc|kc|kc].
      rewrite <- app_assoc. apply G_wss_mid; [apply wid_G| |kc|kc|kc].
      apply G_sepby_comma. apply Forall_forall. intros sc Hin. apply in_map_iff in Hin as [c1 [<- _]]. apply wid_G. }
  assert (P2 : Gopen (wss "AS " ++ M)).
  { destruct EM as [->|[->| ->]]; [rewrite app_nil_r; apply Gopen_wss; kc| |];
      (apply Gopen_app; apply Gopen_wss; kc). }
  assert (P3 : Gopen (wss "(" ++ rq q ++ wss ") ")).
  { rewrite app_assoc. apply Gopen_end_wss; [|kc|kc|kc]. apply G_wss_pre; [kc|kc|now apply Hrq]. }
  rewrite app_assoc. apply Gopen_app; [exact P1|]. rewrite app_assoc. apply Gopen_app; [exact P2|exact P3].
Qed.

Definition with_plain (w : withclause) : bool :=
  match w with
  | WithClause _ search cycle ctes =>
      forallb (fun c => match c with Cte _ _ q _ => qok q end) ctes &&
      (match search with Some (_, e, _) => eplain e | None => true end) &&
      (match cycle with Some (e, _, _) => eplain e | None => true end)
  end.

Lemma Gopen_sepby_comma l : Forall Gopen l -> l <> [] -> Gopen (sep_by comma l).
Proof.
  induction 1 as [|x l Hx Hl IH]; [contradiction|]. intros _. destruct l as [|y l']; [exact Hx|].
  cbn [sep_by] in *. apply Gopen_app; [exact Hx|]. apply Gopen_app; [apply Gopen_one; kc|]. apply IH. discriminate.
Qed.

Lemma Gopen_rwith w : with_plain w = true -> Gopen (rwith is_alpha b T rq w).
Proof.
  destruct w as [recursive search cycle ctes]. cbn [with_plain]. intros H.
  apply andb_prop in H as [H Hc]. apply andb_prop in H as [Hq Hs]. unfold rwith.
  set (OPT := match b, recursive with Postgres, true => _ | _, _ => [] end).
  assert (GO : Gopen OPT).
  { set (S1 := match search with
            | Some (breadth, e, alias) =>
                (if breadth then wss "SEARCH BREADTH FIRST BY " else wss "SEARCH DEPTH FIRST BY ") ++
                rex e ++ wss " SET " ++ [WId alias] ++ wss " "
            | None => [] end).
    set (S2 := match cycle with
            | Some (e, set_as, usng) =>
                wss "CYCLE " ++ rex e ++ wss " SET " ++ [WId set_as] ++ wss " USING " ++ [WId usng] ++ wss " "
            | None => [] end).
    assert (E : OPT = [] \/ OPT = S1 ++ S2) by (unfold OPT, S1, S2; destruct b, recursive; auto).
    destruct E as [->| ->]; [apply Gopen_nil|]. apply Gopen_app.
    - unfold S1. destruct search as [[[br e] al]|]; [|apply Gopen_nil].
      assert (Gi : Gopen (rex e ++ wss " SET " ++ [WId al] ++ wss " ")).
      { rewrite !app_assoc. apply Gopen_end_wss; [|kc|kc|kc]. rewrite <- app_assoc.
        apply G_wss_mid; [now apply G_rex|apply wid_G|kc|kc|kc]. }
      destruct br; (apply Gopen_app; [apply Gopen_wss; kc|exact Gi]).
    - unfold S2. destruct cycle as [[[e sa] us]|]; [|apply Gopen_nil].
      apply Gopen_app; [apply Gopen_wss; kc|]. rewrite !app_assoc. apply Gopen_end_wss; [|kc|kc|kc].
      rewrite <- !app_assoc. apply G_wss_mid; [now apply G_rex| |kc|kc|kc].
      apply G_wss_mid; [apply wid_G|apply wid_G|kc|kc|kc]. }
  apply Gopen_app; [apply Gopen_wss; kc|]. apply Gopen_app; [destruct recursive; [apply Gopen_wss; kc|apply Gopen_nil]|].
  apply Gopen_app; [|exact GO].
  destruct ctes as [|c0 cs]; [intros nxt; reflexivity|].
  apply Gopen_sepby_comma; [|discriminate]. apply Forall_forall. intros sc Hin.
  apply in_map_iff in Hin as [c [<- Hc0]]. rewrite forallb_forall in Hq. now apply Gopen_rcte, Hq.
Qed.

Lemma Gopen_rwith_opt w : (match w with Some x => with_plain x | None => true end) = true ->
  Gopen (rwith_opt is_alpha b T rq w).
Proof. destruct w as [x|]; [apply Gopen_rwith|intros _; apply Gopen_nil]. Qed.

Lemma Cl_rlimit kw v : lexes (K kw) = true -> openb (K kw) = true -> (forall Y, first_char (wss kw ++ Y) = Some 32) ->
  (match v with Some x => vlex x | None => true end) = true -> Cl (rlimit kw v).
Proof.
  intros K1 K2 F H. destruct v as [x|]; [|apply Cl_nil]. cbn [rlimit].
  split; [|right; apply F]. apply G_wss_pre; [exact K1|exact K2|apply G_one; exact H].
Qed.

(* ---- SELECT ---- *)
Definition select_plain (s : select) : bool :=
  match s with
  | Select distinct selects from joins where_ groups having unions orders limit offset lock window
           with_ sample hints =>
      forallb selexpr_plain selects && forallb tref_plain from && forallb join_plain joins &&
      holder_plain where_ && forallb (fun e => eplain e) groups && holder_plain having &&
      forallb (fun u : utype * select => qok (QSelect (snd u))) unions && forallb order_plain orders &&
      (match limit with Some x => vlex x | None => true end) &&
      (match offset with Some x => vlex x | None => true end) &&
      (match lock with Some l => lock_plain l | None => true end) &&
      (match window with Some (_, w) => window_plain w | None => true end) &&
      (match with_ with Some w => with_plain w | None => true end) &&
      sample_plain sample
  end.

Lemma G_rselect s : select_plain s = true -> G (rselect is_alpha b T rq s).
Proof.
  destruct s as [distinct selects from joins where_ groups having unions orders limit offset lock window
                 with_ sample hints].
  cbn [select_plain]. intros H.
  repeat match type of H with (_ && _) = true => let H' := fresh "P" in apply andb_prop in H as [H H'] end.
  rename H into Psel. rename P11 into Pfrom. rename P10 into Pjoin. rename P9 into Pwhere. rename P8 into Pgroup.
  rename P7 into Phaving. rename P6 into Punion. rename P5 into Porder. rename P4 into Plimit. rename P3 into Poffset.
  rename P2 into Plock. rename P1 into Pwindow. rename P0 into Pwith. rename P into Psample.
  unfold rselect. cbn [flat_map sel_render_order sel_clause]. rewrite app_nil_r.
  apply Gopen_then; [now apply Gopen_rwith_opt|].
  (* head *)
  assert (Ghead : G (wss "SELECT " ++ (match distinct with Some d => rdistinct b d ++ wss " " | None => [] end) ++
                     sep_by comma (map (rselexpr is_alpha b T rq) selects))).
  { assert (Gl : G (sep_by comma (map (rselexpr is_alpha b T rq) selects))).
    { apply G_sepby_comma. apply Forall_forall. intros sc Hin. apply in_map_iff in Hin as [se [<- Hse]].
      rewrite forallb_forall in Psel. now apply G_rselexpr, Psel. }
    apply G_wss_pre; [kc|kc|]. destruct distinct as [d|]; [|exact Gl].
    rewrite <- app_assoc. apply G_wss_mid; [apply G_rdistinct|exact Gl|kc|kc|kc]. }
  apply G_then_Cl; [exact Ghead|].
  (* the clauses after the select list start with a blank *)
  repeat apply Cl_app.
  - (* FROM *) destruct from as [|t ts]; [apply Cl_nil|]. split; [|right; reflexivity].
    apply G_wss_pre; [kc|kc|]. rewrite app_assoc. apply G_then_Cl; [|now apply Cl_rsample].
    apply G_then_Cl; [|apply Cl_rhints]. apply G_sepby_comma. apply Forall_forall. intros sc Hin.
    apply in_map_iff in Hin as [t0 [<- Ht0]]. rewrite forallb_forall in Pfrom. now apply G_rtref, Pfrom.
  - (* joins *) apply Cl_flat_map. intros j Hj. split; [|right; reflexivity].
    apply G_wss_pre; [kc|kc|]. rewrite forallb_forall in Pjoin. now apply G_rjoin, Pjoin.
  - apply Cl_rholder; [auto|exact Pwhere].
  - (* GROUP BY *) destruct groups as [|g gs]; [apply Cl_nil|]. split; [|right; reflexivity].
    apply G_wss_pre; [kc|kc|]. apply G_sepby_comma. apply Forall_forall. intros sc Hin.
    apply in_map_iff in Hin as [e [<- He]]. rewrite forallb_forall in Pgroup. now apply G_rex, Pgroup.
  - apply Cl_rholder; [auto|exact Phaving].
  - apply Cl_flat_map. intros u Hu. rewrite forallb_forall in Punion. now apply Cl_runion, Punion.
  - now apply Cl_rorders.
  - apply Cl_rlimit; [kc|kc|reflexivity|exact Plimit].
  - apply Cl_rlimit; [kc|kc|reflexivity|exact Poffset].
  - destruct lock as [l|]; [|apply Cl_nil]. split; [|right; reflexivity].
    apply G_wss_pre; [kc|kc|now apply G_rlock].
  - destruct window as [[name w]|]; [|apply Cl_nil]. split; [|right; reflexivity].
    apply G_wss_pre; [kc|kc|]. apply G_wss_mid; [apply wid_G|now apply G_rwindow|kc|kc|kc].
Qed.

(* ---- RETURNING, ON CONFLICT ---- *)
Definition returning_plain (r : option returning) : bool :=
  match r with Some (RExprs es) => forallb (fun e => eplain e) es | _ => true end.

Lemma Cl_rreturning r : returning_plain r = true -> Cl (rreturning is_alpha b T rq r).
Proof.
  intros H.
  set (X := rreturning is_alpha b T rq r).
  assert (E : X = [] \/ X = wss " RETURNING " ++ wss "*" \/
              (exists cs, X = wss " RETURNING " ++ sep_by comma (map rcolref cs)) \/
              (exists es, r = Some (RExprs es) /\ X = wss " RETURNING " ++ sep_by comma (map rex es))).
  { unfold X, rreturning. destruct b, r as [[|cs|es]|]; auto; right; right;
      [left; eexists; reflexivity|right; eexists; split; reflexivity|left; eexists; reflexivity|right; eexists; split; reflexivity]. }
  destruct E as [->|[->|[[cs ->]|[es [-> ->]]]]]; [apply Cl_nil| | |]; (split; [|right; reflexivity]);
    (apply G_wss_pre; [kc|kc|]).
  - apply G_ws. kc.
  - apply G_sepby_comma. apply Forall_forall. intros sc Hin. apply in_map_iff in Hin as [c [<- _]]. apply G_colref.
  - apply G_sepby_comma. apply Forall_forall. intros sc Hin. apply in_map_iff in Hin as [e [<- He]].
    cbn [returning_plain] in H. rewrite forallb_forall in H. now apply G_rex, H.
Qed.

Lemma G_rexcluded c : G (rexcluded b c).
Proof.
  set (X := rexcluded b c).
  assert (E : X = wss "VALUES(" ++ [WId c] ++ wss ")" \/
              X = [WS ([quote_char b] ++ K "excluded" ++ [quote_char b])] ++ wss "." ++ [WId c])
    by (unfold X, rexcluded; destruct b; auto).
  destruct E as [->| ->].
  - apply G_wss_pre; [kc|kc|]. apply G_wss_post; [apply wid_G|kc|kc].
  - cbn [app]. eapply G_cons_follow; [kc| |reflexivity|kc].
    eapply G_cons_follow; [kc|apply wid_G|reflexivity|kc].
Qed.

Definition ocupdate_plain (u : ocupdate) : bool :=
  match u with OCUpExpr _ e => eplain e | _ => true end.

Lemma G_eq_assign c Y : G Y -> G ([WId c] ++ wss " = " ++ Y).
Proof. intros H. apply G_wss_mid; [apply wid_G|exact H|kc|kc|kc]. Qed.

Lemma G_roc_update u : ocupdate_plain u = true -> G (roc_update is_alpha b T rq u).
Proof.
  destruct u as [c|c e]; cbn [roc_update ocupdate_plain]; intros H; apply G_eq_assign;
    [apply G_rexcluded|now apply G_rex].
Qed.

Definition ocaction_plain (a : option ocaction) : bool :=
  match a with Some (OCUpdate ups) => forallb ocupdate_plain ups | _ => true end.

Lemma Cl_roc_action a : ocaction_plain a = true -> Cl (roc_action is_alpha b T rq a).
Proof.
  intros H. unfold roc_action.
  set (kw := match b with MySQL => wss " UPDATE " | _ => wss " DO UPDATE SET " end).
  assert (Ekw : kw = wss " UPDATE " \/ kw = wss " DO UPDATE SET ") by (unfold kw; destruct b; auto).
  assert (Gkw : forall Y, G Y -> Cl (kw ++ Y)).
  { intros Y HY. destruct Ekw as [->| ->]; (split; [|right; reflexivity]); (apply G_wss_pre; [kc|kc|exact HY]). }
  destruct a as [[pks|ups]|]; [| |apply Cl_nil].
  - set (X := match b with MySQL => _ | _ => wss " DO NOTHING" end).
    assert (E : X = wss " DO NOTHING" \/ X = wss " IGNORE" \/
                X = kw ++ sep_by comma (map (fun c => [WId c] ++ wss " = " ++ [WId c]) pks)).
    { unfold X. destruct b; auto. destruct pks; auto. }
    destruct E as [->|[->| ->]]; [split; [apply G_ws; kc|right; reflexivity]|split; [apply G_ws; kc|right; reflexivity]|].
    apply Gkw. apply G_sepby_comma. apply Forall_forall. intros sc Hin. apply in_map_iff in Hin as [c [<- _]].
    apply G_eq_assign, wid_G.
  - apply Gkw. apply G_sepby_comma. apply Forall_forall. intros sc Hin. apply in_map_iff in Hin as [u [<- Hu]].
    cbn [ocaction_plain] in H. rewrite forallb_forall in H. now apply G_roc_update, H.
Qed.

Definition onconflict_plain (o : option onconflict) : bool :=
  match o with
  | None => true
  | Some (OnConflict targets twhere action awhere) =>
      forallb (fun t => match t with OCExpr e => eplain e | _ => true end) targets &&
      holder_plain twhere && ocaction_plain action && holder_plain awhere
  end.

Lemma Cl_ronconflict o : onconflict_plain o = true -> Cl (ronconflict is_alpha b T rq o).
Proof.
  destruct o as [[targets twhere action awhere]|]; [|intros _; apply Cl_nil]. cbn [onconflict_plain ronconflict].
  intros H. apply andb_prop in H as [H Haw]. apply andb_prop in H as [H Hac]. apply andb_prop in H as [Htg Htw].
  set (TGF := wss "(" ++ sep_by comma (map (fun t => match t with OCColumn c => [WId c]
                                                               | OCExpr e => rex e end) targets) ++ wss ")").
  set (ACT := roc_action is_alpha b T rq action).
  set (RW1 := rholder is_alpha b T rq "WHERE" twhere). set (RW2 := rholder is_alpha b T rq "WHERE" awhere).
  match goal with |- ?P ?X => set (X0 := X) end.
  assert (E : X0 = wss " ON DUPLICATE KEY" ++ [] ++ [] ++ ACT ++ [] \/
              X0 = wss " ON CONFLICT " ++ [] ++ RW1 ++ ACT ++ RW2 \/
              X0 = wss " ON CONFLICT " ++ TGF ++ RW1 ++ ACT ++ RW2).
  { unfold X0, TGF, ACT, RW1, RW2. destruct b, targets; auto. }
  assert (CA : Cl ACT) by now apply Cl_roc_action.
  assert (C1 : Cl RW1) by (apply Cl_rholder; auto). assert (C2 : Cl RW2) by (apply Cl_rholder; auto).
  assert (GTGF : G TGF).
  { unfold TGF. apply G_wss_pre; [kc|kc|]. apply G_wss_post; [|kc|kc].
    apply G_sepby_comma. apply Forall_forall. intros sc Hin. apply in_map_iff in Hin as [t [<- Ht]].
    rewrite forallb_forall in Htg. specialize (Htg t Ht). destruct t; [apply wid_G|now apply G_rex]. }
  clearbody X0. destruct E as [->|[->| ->]]; (split; [|right; reflexivity]).
  - cbn [app]. rewrite app_nil_r. apply G_then_Cl; [apply G_ws; kc|exact CA].
  - cbn [app]. apply G_wss_pre; [kc|kc|]. apply Cl_app; [exact C1|]. now apply Cl_app.
  - apply G_wss_pre; [kc|kc|]. apply G_then_Cl; [exact GTGF|]. apply Cl_app; [exact C1|]. now apply Cl_app.
Qed.

(* ---- INSERT ---- *)
Lemma G_rdefault_rows n : G (rdefault_rows b n).
Proof.
  set (X := rdefault_rows b n).
  assert (E : X = wss "DEFAULT VALUES" \/ X = wss "VALUES " ++ sep_by comma (repeat (wss "()") (N.to_nat n)) \/
              X = wss "VALUES " ++ sep_by comma (repeat (wss "(DEFAULT)") (N.to_nat n)))
    by (unfold X, rdefault_rows; destruct b; auto).
  destruct E as [->|[->| ->]]; [apply G_ws; kc| |]; (apply G_wss_pre; [kc|kc|]); apply G_sepby_comma;
    apply Forall_forall; intros sc Hin; apply repeat_spec in Hin; subst sc; apply G_ws; kc.
Qed.

Definition insert_plain (i : insert) : bool :=
  match i with
  | Insert _ table _ source on_conflict returning _ with_ =>
      (match table with Some t => tref_plain t | None => true end) &&
      (match source with
       | Some (ISValues rows) => forallb (forallb (fun e => eplain e)) rows
       | Some (ISSelect s) => qok (QSelect s)
       | None => true
       end) &&
      onconflict_plain on_conflict && returning_plain returning &&
      (match with_ with Some w => with_plain w | None => true end)
  end.

Lemma G_rinsert i : insert_plain i = true -> G (rinsert is_alpha b T rq i).
Proof.
  destruct i as [replace table columns source on_conflict returning default_values with_].
  cbn [insert_plain]. intros H.
  apply andb_prop in H as [H Pwith]. apply andb_prop in H as [H Pret]. apply andb_prop in H as [H Poc].
  apply andb_prop in H as [Ptab Psrc].
  unfold rinsert. cbn [flat_map ins_render_order ins_clause]. rewrite app_nil_r.
  apply Gopen_then; [now apply Gopen_rwith_opt|].
  assert (Ghead : G ((if replace then wss "REPLACE" else wss "INSERT") ++
                     match table with Some t => wss " INTO " ++ rtref is_alpha b T rq t | None => [] end)).
  { apply G_then_Cl; [destruct replace; apply G_ws; kc|]. destruct table as [t|]; [|apply Cl_nil].
    split; [|right; reflexivity]. apply G_wss_pre; [kc|kc|now apply G_rtref]. }
  apply G_then_Cl; [exact Ghead|]. repeat apply Cl_app; [|now apply Cl_ronconflict|now apply Cl_rreturning].
  assert (Cfull : Cl (wss " " ++ wss "(" ++ sep_by comma (map (fun c => [WId c]) columns) ++ wss ")" ++
              (match source with
               | None => []
               | Some (ISValues rows) =>
                   wss " " ++ wss "VALUES " ++
                   sep_by comma (map (fun row : list (expr query) =>
                                        wss "(" ++ sep_by comma (map rex row) ++ wss ")") rows)
               | Some (ISSelect s) => wss " " ++ rq (QSelect s)
               end))).
  { split; [|right; reflexivity]. apply G_wss_pre; [kc|kc|]. apply G_wss_pre; [kc|kc|].
    rewrite app_assoc. apply G_then_Cl.
    - apply G_wss_post; [|kc|kc]. apply G_sepby_comma. apply Forall_forall. intros sc Hin.
      apply in_map_iff in Hin as [c [<- _]]. apply wid_G.
    - destruct source as [[rows|s]|]; [| |apply Cl_nil]; (split; [|right; reflexivity]).
      + apply G_wss_pre; [kc|kc|]. apply G_wss_pre; [kc|kc|]. apply G_sepby_comma. apply Forall_forall.
        intros sc Hin. apply in_map_iff in Hin as [row [<- Hrow]]. rewrite forallb_forall in Psrc.
        specialize (Psrc row Hrow). apply G_wss_pre; [kc|kc|]. apply G_wss_post; [|kc|kc].
        apply G_sepby_comma. apply Forall_forall. intros sc2 Hin2. apply in_map_iff in Hin2 as [e [<- He]].
        rewrite forallb_forall in Psrc. now apply G_rex, Psrc.
      + apply G_wss_pre; [kc|kc|now apply Hrq]. }
  destruct default_values as [n|]; [|exact Cfull]. destruct columns as [|c cs]; [|exact Cfull].
  destruct source; [exact Cfull|]. split; [|right; reflexivity]. apply G_wss_pre; [kc|kc|apply G_rdefault_rows].
Qed.

(* ---- UPDATE, DELETE ---- *)
Definition update_plain (u : update) : bool :=
  match u with
  | Update table from values where_ orders limit returning with_ =>
      (match table with Some t => tref_plain t | None => true end) && forallb tref_plain from &&
      forallb (fun cv : str * expr query => eplain (snd cv)) values && holder_plain where_ &&
      forallb order_plain orders && (match limit with Some x => vlex x | None => true end) &&
      returning_plain returning && (match with_ with Some w => with_plain w | None => true end)
  end.

Lemma G_rupdate u : update_plain u = true -> G (rupdate is_alpha b T rq u).
Proof.
  destruct u as [table from values where_ orders limit returning with_]. cbn [update_plain]. intros H.
  repeat match type of H with (_ && _) = true => let H' := fresh "P" in apply andb_prop in H as [H H'] end.
  rename H into Ptab. rename P5 into Pfrom. rename P4 into Pval. rename P3 into Pwhere. rename P2 into Pord.
  rename P1 into Plim. rename P0 into Pret. rename P into Pwith.
  unfold rupdate. cbn [flat_map upd_render_order upd_clause]. rewrite app_nil_r.
  apply Gopen_then; [now apply Gopen_rwith_opt|].
  assert (Ghead : G (wss "UPDATE " ++ match table with Some t => rtref is_alpha b T rq t | None => [] end)).
  { apply G_wss_pre; [kc|kc|]. destruct table as [t|]; [now apply G_rtref|apply G_nil]. }
  apply G_then_Cl; [exact Ghead|].
  apply Cl_app; [|apply Cl_app; [|apply Cl_app; [|apply Cl_app; [|apply Cl_app; [|apply Cl_app]]]]].
  - (* MySQL UPDATE .. JOIN *)
    match goal with |- ?P ?X => set (X0 := X) end.
    assert (E : X0 = [] \/ exists f0, In f0 from /\ X0 = wss " JOIN " ++ rtref is_alpha b T rq f0 ++ rholder is_alpha b T rq "ON" where_).
    { unfold X0. destruct b, from as [|f0 fs]; auto; right; exists f0; split; [now left|reflexivity]. }
    clearbody X0. destruct E as [->|(f0 & Hin & ->)]; [apply Cl_nil|]. split; [|right; reflexivity].
    apply G_wss_pre; [kc|kc|]. apply G_then_Cl; [|apply Cl_rholder; auto].
    rewrite forallb_forall in Pfrom. now apply G_rtref, Pfrom.
  - (* SET *) split; [|right; reflexivity]. apply G_wss_pre; [kc|kc|]. apply G_sepby_comma. apply Forall_forall.
    intros sc Hin. apply in_map_iff in Hin as [cv [<- Hcv]]. rewrite forallb_forall in Pval. specialize (Pval cv Hcv).
    match goal with |- ?P (?C ++ ?R) => set (C0 := C) end.
    assert (E : C0 = [WId (fst cv)] \/ exists t, C0 = [WId t; ws "."; WId (fst cv)]).
    { unfold C0. destruct b, from, table as [[[]| | |]|]; auto; right; eexists; reflexivity. }
    clearbody C0. destruct E as [->|[t ->]]; [now apply G_eq_assign, G_rex|].
    change ([WId t; ws "."; WId (fst cv)]) with (rtplain (TRSchemaTable t (fst cv))).
    apply G_wss_mid; [apply G_rtplain|now apply G_rex|kc|kc|kc].
  - (* FROM *) match goal with |- ?P ?X => set (X0 := X) end.
    assert (E : X0 = [] \/ X0 = wss " FROM " ++ sep_by comma (map (rtref is_alpha b T rq) from))
      by (unfold X0; destruct b, from; auto).
    clearbody X0. destruct E as [->| ->]; [apply Cl_nil|]. split; [|right; reflexivity].
    apply G_wss_pre; [kc|kc|]. apply G_sepby_comma. apply Forall_forall. intros sc Hin.
    apply in_map_iff in Hin as [t0 [<- Ht0]]. rewrite forallb_forall in Pfrom. now apply G_rtref, Pfrom.
  - (* WHERE *) match goal with |- ?P ?X => set (X0 := X) end.
    assert (E : X0 = [] \/ X0 = rholder is_alpha b T rq "WHERE" where_) by (unfold X0; destruct b, from; auto).
    clearbody X0. destruct E as [->| ->]; [apply Cl_nil|apply Cl_rholder; auto].
  - now apply Cl_rreturning.
  - now apply Cl_rorders.
  - apply Cl_rlimit; [kc|kc|reflexivity|exact Plim].
Qed.

Definition delete_plain (d : delete) : bool :=
  match d with
  | Delete table where_ orders limit returning with_ =>
      (match table with Some t => tref_plain t | None => true end) && holder_plain where_ &&
      forallb order_plain orders && (match limit with Some x => vlex x | None => true end) &&
      returning_plain returning && (match with_ with Some w => with_plain w | None => true end)
  end.

Lemma G_rdelete d : delete_plain d = true -> G (rdelete is_alpha b T rq d).
Proof.
  destruct d as [table where_ orders limit returning with_]. cbn [delete_plain]. intros H.
  repeat match type of H with (_ && _) = true => let H' := fresh "P" in apply andb_prop in H as [H H'] end.
  unfold rdelete. cbn [flat_map del_render_order del_clause]. rewrite app_nil_r.
  apply Gopen_then; [now apply Gopen_rwith_opt|].
  assert (Ghead : G (wss "DELETE " ++ match table with Some t => wss "FROM " ++ rtref is_alpha b T rq t | None => [] end)).
  { apply G_wss_pre; [kc|kc|]. destruct table as [t|]; [|apply G_nil]. apply G_wss_pre; [kc|kc|now apply G_rtref]. }
  apply G_then_Cl; [exact Ghead|]. repeat apply Cl_app.
  - apply Cl_rholder; auto.
  - now apply Cl_rreturning.
  - now apply Cl_rorders.
  - apply Cl_rlimit; [kc|kc|reflexivity|assumption].
Qed.

Definition query_plain_gen (q : query) : bool :=
  match q with
  | QSelect s => select_plain s
  | QInsert i => insert_plain i
  | QUpdate u => update_plain u
  | QDelete d => delete_plain d
  | QWith w q' => with_plain w && qok q'
  end.

Lemma G_rquery_gen q : query_plain_gen q = true -> G (rquery_gen is_alpha b T rq q).
Proof.
  destruct q as [s|i|u|d|w q']; cbn [query_plain_gen rquery_gen]; intros H.
  - now apply G_rselect.
  - now apply G_rinsert.
  - now apply G_rupdate.
  - now apply G_rdelete.
  - apply andb_prop in H as [Hw Hq]. apply Gopen_then; [now apply Gopen_rwith|now apply Hrq].
Qed.
End S.

(* ---------- the knot: statements nested to any depth ---------- *)
Section Top.
Variable ftext : bool -> N -> str.
Variable is_alpha : N -> bool.
Variable b : backend.
Variable inl : bool.
Variable T : etables.
Hypothesis HT : spellings_lex b T.

(* no raw SQL, no FIELD ordering, lexable literals - down to the given nesting depth *)
Fixpoint query_plain (fuel : nat) (q : query) : bool :=
  match fuel with
  | O => true
  | S n => query_plain_gen ftext b inl (query_plain n) q
  end.

Theorem rquery_good : forall fuel q, query_plain fuel q = true ->
  ExprSafeProofs.G ftext b inl (rquery is_alpha b T fuel q).
Proof.
  induction fuel as [|n IH]; intros q H.
  - cbn [rquery]. apply G_one. reflexivity.
  - cbn [rquery query_plain] in *.
    exact (G_rquery_gen ftext is_alpha b inl T (rquery is_alpha b T n) (query_plain n) HT IH q H).
Qed.

Theorem rendered_statement_is_locally_safe fuel q : query_plain fuel q = true ->
  sc_ok ftext b inl (rquery is_alpha b T fuel q) = true.
Proof. intros H. rewrite <- sc_okn_none. now apply rquery_good. Qed.
End Top.

Theorem rendered_statement_is_separable ftext is_alpha b T fuel q : spellings_lex b T ->
  query_plain ftext b false fuel q = true -> params_sep ftext b (rquery is_alpha b T fuel q) = true.
Proof. intros HT H. apply sc_ok_params_sep. now apply rendered_statement_is_locally_safe. Qed.

Theorem rendered_statement_is_separable_inline ftext is_alpha b T fuel q : spellings_lex b T ->
  query_plain ftext b true fuel q = true -> inline_sep ftext b (rquery is_alpha b T fuel q) = true.
Proof. intros HT H. apply sc_ok_inline_sep. now apply rendered_statement_is_locally_safe. Qed.
