(* The crate's tokenizer (Model/Token.v) is compositional at stable seams (Spec/CrateSeam.v), and
   therefore: for every script that satisfies the decidable premise crate_sep,
   inject_parameters (build s) = to_string s   (C11, second sentence). *)
Require Import SQV.Model.Str SQV.Model.Escape SQV.Model.Value SQV.Model.Token SQV.Model.Writer
  SQV.Model.RenderExpr SQV.Model.Inject SQV.Spec.Template SQV.Proofs.WriterProofs SQV.Spec.EngScript
  SQV.Spec.CrateSeam SQV.Proofs.TokenProofs SQV.Proofs.TemplateProofs SQV.Proofs.InjectProofs.
From Coq Require Import Lia.

Section C.
Variable is_alpha : N -> bool.
Notation next := (next is_alpha).
Notation tokenize := (tokenize is_alpha).
Notation tokenize_fuel := (tokenize_fuel is_alpha).
Notation scan_unquoted := (scan_unquoted is_alpha).
Notation is_alphanumeric := (is_alphanumeric is_alpha).
Notation cstable := (cstable is_alpha).

Lemma str_eqb_eq a b : str_eqb a b = true -> a = b.
Proof.
  revert b. induction a as [|x a IH]; intros [|y b] H; try discriminate H; [reflexivity|].
  cbn in H. apply andb_prop in H as [H1 H2]. apply N.eqb_eq in H1. subst y. now rewrite (IH b H2).
Qed.

(* ---- the scanners under extension of the input ---- *)
Lemma span_ext' p s : forall a r f x, span p s = (a, r) ->
  (r = [] -> p f = false) -> span p (s ++ f :: x) = (a, r ++ f :: x).
Proof.
  induction s as [|c s IH]; intros a r f x H Hx.
  - cbn in H. injection H as <- <-. cbn [app span]. now rewrite (Hx eq_refl).
  - cbn [app span] in H |- *. destruct (p c).
    + destruct (span p s) as [a' r'] eqn:Es. injection H as <- <-. now rewrite (IH a' r' f x eq_refl Hx).
    + injection H as <- <-. reflexivity.
Qed.

Lemma unquoted_ext s : forall first a r f x, scan_unquoted first s = (a, r) ->
  (r = [] -> is_alphanumeric f = false /\ is_identifier f = false) ->
  scan_unquoted first (s ++ f :: x) = (a, r ++ f :: x).
Proof.
  induction s as [|c s IH]; intros first a r f x H Hx.
  - cbn in H. injection H as <- <-. destruct (Hx eq_refl) as [H1 H2]. cbn [app Token.scan_unquoted].
    now rewrite H1, H2, andb_false_r.
  - cbn [app Token.scan_unquoted] in H |- *. destruct (is_alphanumeric c).
    + destruct (scan_unquoted false s) as [a' r'] eqn:Es. injection H as <- <-.
      now rewrite (IH false a' r' f x Es Hx).
    + destruct (negb first && is_identifier c).
      * destruct (scan_unquoted first s) as [a' r'] eqn:Es. injection H as <- <-.
        now rewrite (IH first a' r' f x Es Hx).
      * injection H as <- <-. reflexivity.
Qed.

(* quoted text: one character of lookahead decides *)
Lemma quoted_ext_n n : forall s, (length s <= n)%nat -> forall first escape start a r f x,
  scan_quoted first escape start s = (a, r) ->
  (r = [] -> scan_quoted first escape start (s ++ [f]) = (a, [f])) ->
  scan_quoted first escape start (s ++ f :: x) = (a, r ++ f :: x).
Proof.
  induction n as [|n IH]; intros s Hn first escape start a r f x H Hl.
  - destruct s; [|cbn in Hn; lia]. cbn in H. injection H as <- <-. specialize (Hl eq_refl).
    cbn [app scan_quoted] in Hl |- *.
    destruct (first && is_delim_start f).
    { destruct (scan_quoted false escape f []) as [a0 r0]. discriminate Hl. }
    destruct (negb first && negb escape && is_delim_end_for start f); [discriminate Hl|].
    destruct (negb first); [|reflexivity].
    destruct (scan_quoted first (negb escape && is_escape_char f) start []); discriminate Hl.
  - destruct s as [|c t]; [apply (IH [] ltac:(cbn; lia) _ _ _ _ _ _ _ H Hl)|].
    assert (Ht : (length t <= n)%nat) by (cbn in Hn; lia).
    cbn [app scan_quoted] in H, Hl |- *.
    destruct (first && is_delim_start c).
    { destruct (scan_quoted false escape c t) as [a' r'] eqn:Es. injection H as <- <-.
      rewrite (IH t Ht false escape c a' r' f x Es); [reflexivity|].
      intros Hr. specialize (Hl Hr). destruct (scan_quoted false escape c (t ++ [f])) as [a2 r2].
      injection Hl as <- <-. reflexivity. }
    destruct (negb first && negb escape && is_delim_end_for start c).
    { destruct t as [|d t'].
      - injection H as <- <-. specialize (Hl eq_refl). cbn [app] in Hl |- *.
        destruct (is_escape_for start f); [|reflexivity].
        destruct (scan_quoted first escape start []) as [a2 r2]. discriminate Hl.
      - cbn [app] in Hl |- *. destruct (is_escape_for start d).
        + destruct (scan_quoted first escape start t') as [a' r'] eqn:Es. injection H as <- <-.
          rewrite (IH t' ltac:(cbn in Ht; lia) first escape start a' r' f x Es); [reflexivity|].
          intros Hr. specialize (Hl Hr). destruct (scan_quoted first escape start (t' ++ [f])) as [a2 r2].
          injection Hl as <- <-. reflexivity.
        + injection H as <- <-. reflexivity. }
    destruct (negb first).
    { destruct (scan_quoted first (negb escape && is_escape_char c) start t) as [a' r'] eqn:Es.
      injection H as <- <-.
      rewrite (IH t Ht first _ start a' r' f x Es); [reflexivity|].
      intros Hr. specialize (Hl Hr).
      destruct (scan_quoted first (negb escape && is_escape_char c) start (t ++ [f])) as [a2 r2].
      injection Hl as <- <-. reflexivity. }
    injection H as <- <-. reflexivity.
Qed.
Lemma quoted_ext s first escape start a r f x :
  scan_quoted first escape start s = (a, r) ->
  (r = [] -> scan_quoted first escape start (s ++ [f]) = (a, [f])) ->
  scan_quoted first escape start (s ++ f :: x) = (a, r ++ f :: x).
Proof. apply (quoted_ext_n (length s)); lia. Qed.

(* ---- one token ---- *)
Lemma next_ext s t r f x : next s = Some (t, r) -> (r = [] -> cstable t f = true) ->
  next (s ++ f :: x) = Some (t, r ++ f :: x).
Proof.
  intros H Hx. unfold Token.next in H |- *.
  assert (Hs : s <> []) by (intros ->; discriminate H).
  pose proof (span_split is_space s) as S1.
  unfold scan_space in *. destruct (span is_space s) as [a1 r1] eqn:E1. cbn [fst snd] in S1.
  destruct (negb (is_nil a1)) eqn:N1.
  { injection H as <- <-. rewrite (span_ext' is_space s a1 r1 f x E1), N1; [reflexivity|].
    intros Hr. specialize (Hx Hr). cbn in Hx. now apply negb_true_iff in Hx. }
  assert (a1 = []) by (destruct a1; [reflexivity|discriminate N1]). subst a1. cbn [app] in S1. subst r1.
  rewrite (span_ext' is_space s [] s f x E1 ltac:(intros; contradiction)). cbn [is_nil negb].
  pose proof (unquoted_split is_alpha true s) as S2.
  destruct (scan_unquoted true s) as [a2 r2] eqn:E2. cbn [fst snd] in S2.
  destruct (negb (is_nil a2)) eqn:N2.
  { injection H as <- <-. rewrite (unquoted_ext s true a2 r2 f x E2), N2; [reflexivity|].
    intros Hr. specialize (Hx Hr). cbn in Hx. apply andb_prop in Hx as [H1 H2].
    split; now apply negb_true_iff. }
  assert (a2 = []) by (destruct a2; [reflexivity|discriminate N2]). subst a2. cbn [app] in S2. subst r2.
  rewrite (unquoted_ext s true [] s f x E2 ltac:(intros; contradiction)). cbn [is_nil negb].
  pose proof (quoted_split true false 32 s) as S3.
  destruct (scan_quoted true false 32 s) as [a3 r3] eqn:E3. cbn [fst snd] in S3.
  destruct (negb (is_nil a3)) eqn:N3.
  { injection H as <- <-. rewrite (quoted_ext s true false 32 a3 r3 f x E3), N3; [reflexivity|].
    intros Hr. specialize (Hx Hr). subst r3. rewrite app_nil_r in S3. subst a3. cbn in Hx.
    destruct (scan_quoted true false 32 (s ++ [f])) as [a' r']. apply andb_prop in Hx as [H1 H2].
    apply str_eqb_eq in H1, H2. now subst. }
  assert (a3 = []) by (destruct a3; [reflexivity|discriminate N3]). subst a3. cbn [app] in S3. subst r3.
  rewrite (quoted_ext s true false 32 [] s f x E3 ltac:(intros; contradiction)). cbn [is_nil negb].
  destruct s as [|c s']; [contradiction|]. cbn [app scan_punct] in H |- *.
  destruct (negb (is_space c) && negb (is_alphanumeric c)); [|discriminate H].
  cbn [is_nil negb] in H |- *. injection H as <- <-. reflexivity.
Qed.

(* ---- the token stream ---- *)
Lemma tokenize_of_fuel f s ts : tokenize_fuel f s = Some ts -> tokenize s = Some ts.
Proof.
  intros H. destruct (tokenize_lossless is_alpha s) as [ts' [H' _]].
  unfold Token.tokenize in *.
  destruct (Nat.le_ge_cases f (S (length s))) as [Hle|Hle].
  - now apply (tokenize_fuel_mono is_alpha f s ts H).
  - rewrite (tokenize_fuel_mono is_alpha _ s ts' H' f Hle) in H. now rewrite H'.
Qed.

Lemma tokenize_app_fuel f : forall s1 ts1, tokenize_fuel f s1 = Some ts1 ->
  forall x tsx, tokenize x = Some tsx -> cjoin_ok is_alpha ts1 x = true ->
  tokenize (s1 ++ x) = Some (ts1 ++ tsx).
Proof.
  induction f as [|f IH]; intros s1 ts1 H x tsx Hxs Hj; [discriminate H|].
  destruct x as [|c x]; [rewrite app_nil_r; unfold Token.tokenize in Hxs; cbn in Hxs; injection Hxs as <-;
                         rewrite app_nil_r; exact (tokenize_of_fuel _ _ _ H)|].
  cbn [Token.tokenize_fuel] in H. destruct (next s1) as [[t r]|] eqn:En.
  - destruct (tokenize_fuel f r) as [ts'|] eqn:Er; [|discriminate H]. injection H as <-.
    assert (Hnext : next (s1 ++ c :: x) = Some (t, r ++ c :: x)).
    { apply next_ext; [exact En|]. intros Hr. subst r.
      destruct f as [|f0]; [discriminate Er|]. cbn in Er. injection Er as <-. exact Hj. }
    assert (Hrest : tokenize (r ++ c :: x) = Some (ts' ++ tsx)).
    { apply (IH r ts' Er (c :: x) tsx Hxs). destruct ts' as [|t' ts'']; [reflexivity|]. exact Hj. }
    apply (tokenize_of_fuel (S (S (length (r ++ c :: x))))).
    remember (S (length (r ++ c :: x))) as f1. cbn [Token.tokenize_fuel]. rewrite Hnext. subst f1.
    unfold Token.tokenize in Hrest. now rewrite Hrest.
  - injection H as <-. apply next_none_iff in En. subst s1. exact Hxs.
Qed.

Theorem tokenize_app s1 ts1 x tsx :
  tokenize s1 = Some ts1 -> tokenize x = Some tsx -> cjoin_ok is_alpha ts1 x = true ->
  tokenize (s1 ++ x) = Some (ts1 ++ tsx).
Proof. intros H. exact (tokenize_app_fuel _ s1 ts1 H x tsx). Qed.

Theorem clex_texts_sound texts : forall tss, clex_texts is_alpha texts = Some tss ->
  tokenize (concat texts) = Some (concat tss) /\ Forall2 (fun s ts => tokenize s = Some ts) texts tss.
Proof.
  induction texts as [|s rest IH]; intros tss H.
  - injection H as <-. split; [reflexivity|constructor].
  - cbn [clex_texts] in H. destruct (tokenize s) as [ts|] eqn:Es; [|discriminate H].
    destruct (clex_texts is_alpha rest) as [tss'|] eqn:El; [|discriminate H].
    destruct (cjoin_ok is_alpha ts (concat rest)) eqn:Ej; [|discriminate H]. injection H as <-.
    destruct (IH tss' eq_refl) as [IH1 IH2]. split; [|now constructor].
    cbn [concat]. now apply tokenize_app.
Qed.
End C.

(* ---- inject_parameters (build s) = to_string s, under the decidable premise ---- *)
Section I.
Variable ftext : bool -> N -> str.
Variable is_alpha : N -> bool.

Lemma all2_all_ptoks b ps : forall tss,
  Forall2 (fun s ts => tokenize is_alpha s = Some ts) (texts_params b ps) tss ->
  all2 (piece_ctoks_ok b) ps tss = true -> all_ptoks b ps (concat tss).
Proof.
  induction ps as [|p ps IH]; intros tss HF Ha.
  - destruct tss; [constructor|discriminate Ha].
  - destruct tss as [|tt tss]; [discriminate Ha|]. cbn [all2] in Ha. apply andb_prop in Ha as [Hp Ha].
    cbn [texts_params map] in HF. inversion HF as [|? ? ? ? Ht HF']; subst. cbn [concat].
    constructor; [|now apply IH].
    unfold piece_ctoks_ok in Hp. destruct (placeholder b) as [ph numbered] eqn:Eph.
    assert (Eph1 : fst (placeholder b) = ph) by now rewrite Eph.
    assert (Eph2 : snd (placeholder b) = numbered) by now rewrite Eph.
    destruct p as [s|n].
    + destruct (tokenize_lossless is_alpha s) as [ts' [Ht' [Hc _]]]. rewrite Ht in Ht'. injection Ht' as <-.
      apply pt_text; [exact Hc|]. now rewrite Eph1.
    + destruct numbered.
      * destruct tt as [|[| | |m] [|[|d| |] [|? ?]]]; try discriminate Hp.
        apply andb_prop in Hp as [Hm Hd]. apply str_eqb_eq in Hm. subst m.
        destruct (parse_usize d) as [k|] eqn:Ek; [|discriminate Hd]. apply N.eqb_eq in Hd. subst k.
        rewrite <- Eph1. now apply pt_num.
      * destruct tt as [|[| | |m] [|? ?]]; try discriminate Hp. apply str_eqb_eq in Hp. subst m.
        rewrite <- Eph1. now apply pt_pos.
Qed.

Lemma merge_flatten_params b ps : flatten_params b (merge_texts ps) = flatten_params b ps.
Proof.
  induction ps as [|p ps IH]; [reflexivity|]. destruct p as [a|n]; cbn [merge_texts].
  - unfold flatten_params in *. cbn [flat_map]. rewrite <- IH.
    destruct (merge_texts ps) as [|[c|m] rest']; cbn [flat_map]; now rewrite ?app_assoc, ?app_nil_r.
  - unfold flatten_params in *. cbn [flat_map]. now rewrite IH.
Qed.
Lemma merge_flatten_inline b vs ps : flatten_inline ftext b vs (merge_texts ps) = flatten_inline ftext b vs ps.
Proof.
  induction ps as [|p ps IH]; [reflexivity|]. destruct p as [a|n]; cbn [merge_texts].
  - unfold flatten_inline in *. cbn [flat_map]. rewrite <- IH.
    destruct (merge_texts ps) as [|[c|m] rest']; cbn [flat_map]; now rewrite ?app_assoc, ?app_nil_r.
  - unfold flatten_inline in *. cbn [flat_map]. now rewrite IH.
Qed.
Lemma merge_holes ps : holes (merge_texts ps) = holes ps.
Proof.
  induction ps as [|p ps IH]; [reflexivity|]. destruct p as [a|n]; cbn [merge_texts].
  - unfold holes in *. cbn [flat_map app]. rewrite <- IH.
    destruct (merge_texts ps) as [|[c|m] rest']; reflexivity.
  - unfold holes in *. cbn [flat_map]. now rewrite IH.
Qed.

Theorem inject_is_inline_when_separable b (sc : script) sql vals inl :
  emit_params ftext b sc = Ok (sql, vals) -> emit_inline ftext b sc = Ok inl ->
  crate_sep is_alpha ftext b sc = true ->
  inject_parameters ftext is_alpha b sql vals = Ok inl.
Proof.
  intros Hp Hi Hs. unfold crate_sep in Hs.
  set (ps := merge_texts (pieces ftext b sc)) in *.
  destruct (clex_texts is_alpha (texts_params b ps)) as [tss|] eqn:El; [|discriminate Hs].
  destruct (clex_texts_sound is_alpha _ tss El) as [Htok HF].
  destruct (push_param_invariant ftext b sc sql vals Hp) as (Esql & _ & Eholes).
  destruct (inline_is_params_substituted ftext b sc inl sql vals Hi Hp) as [Einl _].
  unfold inject_parameters.
  assert (Esql' : sql = concat (texts_params b ps)).
  { rewrite Esql, <- (merge_flatten_params b (pieces ftext b sc)). unfold flatten_params, texts_params.
    now rewrite flat_map_concat_map. }
  rewrite Esql', Htok, Einl, <- (merge_flatten_inline b vals (pieces ftext b sc)).
  apply (inject_pieces ftext b vals ps (concat tss)); [now apply all2_all_ptoks| |].
  - intros _. unfold ps. rewrite merge_holes, Eholes. now rewrite map_length, seq_length.
  - intros n Hin. unfold ps in Hin. rewrite merge_holes, Eholes in Hin.
    apply in_map_iff in Hin as [k [<- Hk]]. apply in_seq in Hk. split; lia.
Qed.
End I.
