(* C10: INSERT rows always match the column list; mismatches are reported. *)
Require Import SQV.Model.Str SQV.Model.Value SQV.Model.Expr SQV.Model.Cond SQV.Model.Stmt SQV.Model.Build.
From Coq Require Import Lia PeanoNat.
Open Scope nat_scope.

Definition ins_columns (i : insert) : list str :=
  match i with Insert _ _ cols _ _ _ _ _ => cols end.
Definition ins_rows (i : insert) : list (list (expr query)) :=
  match i with Insert _ _ _ (Some (ISValues rs)) _ _ _ _ => rs | _ => [] end.
Definition ins_select (i : insert) : option select :=
  match i with Insert _ _ _ (Some (ISSelect s)) _ _ _ _ => Some s | _ => None end.

(* ---- values(): succeeds iff the lengths match; otherwise reports both counts and changes nothing ---- *)
Theorem values_ok_iff_len i row :
  (snd (ins_values i row) = IOk <-> length row = length (ins_columns i)) /\
  (forall a b, snd (ins_values i row) = IErr a b ->
     a = length (ins_columns i) /\ b = length row /\ fst (ins_values i row) = i).
Proof.
  destruct i as [r t cols src oc ret dv w]. cbn [ins_values ins_columns].
  destruct (Nat.eqb_spec (length cols) (length row)) as [E|E].
  - split.
    + split; [intros _; now symmetry|]. intros _. destruct row; reflexivity.
    + intros a b H. destruct row; discriminate.
  - split.
    + split; [discriminate|]. intros H. congruence.
    + intros a b [= <- <-]. auto.
Qed.

Theorem select_from_ok_iff_len i s :
  (snd (ins_select_from i s) = IOk <-> select_len s = length (ins_columns i)) /\
  (forall a b, snd (ins_select_from i s) = IErr a b ->
     a = length (ins_columns i) /\ b = select_len s /\ fst (ins_select_from i s) = i).
Proof.
  destruct i as [r t cols src oc ret dv w]. cbn [ins_select_from ins_columns].
  destruct (Nat.eqb_spec (length cols) (select_len s)) as [E|E].
  - split; [split; [intros _; now symmetry|reflexivity]|intros a b H; discriminate].
  - split; [split; [discriminate|intros H; congruence]|intros a b [= <- <-]; auto].
Qed.

(* an accepted non-empty row is appended at the end, nothing else changes; an accepted empty row
   is not stored *)
Theorem values_appends i row : length row = length (ins_columns i) ->
  ins_columns (fst (ins_values i row)) = ins_columns i /\
  ins_rows (fst (ins_values i row)) = match row with [] => ins_rows i | _ => ins_rows i ++ [row] end.
Proof.
  destruct i as [r t cols src oc ret dv w]. cbn [ins_values ins_columns]. intros E.
  rewrite <- E, Nat.eqb_refl. destruct row as [|x row]; [split; reflexivity|].
  cbn [fst ins_columns ins_rows]. split; [reflexivity|].
  destruct src as [[rs|s]|]; reflexivity.
Qed.

(* ---- the rectangle invariant over call histories ---- *)
Definition rect (i : insert) : Prop :=
  Forall (fun row => length row = length (ins_columns i)) (ins_rows i) /\
  (forall s, ins_select i = Some s -> select_len s = length (ins_columns i)).

(* the known class (finding F8): columns() is called again, with another count, after a row or a
   SELECT source was accepted *)
Definition recolumn (i : insert) (c : iclause) : Prop :=
  match c with
  | ICColumns cs => length cs <> length (ins_columns i) /\ (ins_rows i <> [] \/ ins_select i <> None)
  | _ => False
  end.

Lemma rect_values i row : rect i -> rect (fst (ins_values i row)).
Proof.
  intros [Hr Hs]. destruct i as [r t cols src oc ret dv w]. cbn [ins_values].
  destruct (Nat.eqb_spec (length cols) (length row)) as [E|E]; [|split; assumption].
  destruct row as [|x row]; [split; assumption|]. cbn [fst]. split.
  - cbn [ins_rows ins_columns] in *. destruct src as [[rs|s]|]; cbn in *.
    + apply Forall_app. split; [assumption|]. constructor; [now symmetry|constructor].
    + constructor; [now symmetry|constructor].
    + constructor; [now symmetry|constructor].
  - cbn. intros s. discriminate.
Qed.

Lemma rect_select_from i s : rect i -> rect (fst (ins_select_from i s)).
Proof.
  intros [Hr Hs]. destruct i as [r t cols src oc ret dv w]. cbn [ins_select_from].
  destruct (Nat.eqb_spec (length cols) (select_len s)) as [E|E]; [|split; assumption].
  cbn [fst]. split; [constructor|]. cbn. intros s' [= <-]. now symmetry.
Qed.

Definition st_insert (st : istate) : insert := fst (fst st).

Lemma fold_values_rect rows : forall st, rect (st_insert st) ->
  rect (st_insert (fold_left (fun (acc : istate) row =>
            let '(j, lg, p) := acc in
            if p then acc else
            let (j', o) := ins_values j row in
            match o with IOk => (j', lg, false) | IErr _ _ => (j, lg, true) end) rows st)).
Proof.
  induction rows as [|row rows IH]; intros st H; [exact H|]. cbn [fold_left]. apply IH.
  destruct st as [[j lg] p]. destruct p; [exact H|].
  pose proof (rect_values j row H) as Hv. destruct (ins_values j row) as [j' o].
  destruct o; [exact Hv|exact H].
Qed.

Lemma step_rect st c : rect (st_insert st) -> ~ recolumn (st_insert st) c -> rect (st_insert (ins_step st c)).
Proof.
  destruct st as [[i lg] p]. unfold st_insert. cbn [fst]. intros H Hk. unfold ins_step.
  destruct p; [exact H|].
  destruct i as [r t cols src oc ret dv w].
  destruct c as [ |tr|cs|row|row|rows|s| |n|o|rt|wc]; cbn [fst]; try exact H.
  - (* columns: allowed when the count stays the same or nothing was accepted yet *)
    cbn [recolumn ins_columns] in Hk. destruct H as [Hr Hs].
    destruct (Nat.eq_dec (length cs) (length cols)) as [E|E].
    + split; cbn [ins_rows ins_columns ins_select] in *; [now rewrite E|intros s' Hs'; rewrite E; auto].
    + assert (Hn : ins_rows (Insert r t cols src oc ret dv w) = [] /\ ins_select (Insert r t cols src oc ret dv w) = None).
      { split.
        - destruct (ins_rows (Insert r t cols src oc ret dv w)) eqn:Er; [reflexivity|].
          exfalso. apply Hk. split; [exact E|left; discriminate].
        - destruct (ins_select (Insert r t cols src oc ret dv w)) eqn:Es; [|reflexivity].
          exfalso. apply Hk. split; [exact E|right; discriminate]. }
      destruct Hn as [Hn1 Hn2]. split.
      * cbn [ins_rows] in *. rewrite Hn1. constructor.
      * cbn [ins_select] in *. intros s' Hs'. rewrite Hn2 in Hs'. discriminate.
  - pose proof (rect_values (Insert r t cols src oc ret dv w) row H) as Hv.
    destruct (ins_values (Insert r t cols src oc ret dv w) row) as [i' o]. exact Hv.
  - pose proof (rect_values (Insert r t cols src oc ret dv w) row H) as Hv.
    destruct (ins_values (Insert r t cols src oc ret dv w) row) as [i' o]. destruct o; [exact Hv|exact H].
  - exact (fold_values_rect rows (Insert r t cols src oc ret dv w, lg, false) H).
  - pose proof (rect_select_from (Insert r t cols src oc ret dv w) s H) as Hv.
    destruct (ins_select_from (Insert r t cols src oc ret dv w) s) as [i' o]. exact Hv.
Qed.

(* every reachable state is rectangular, for every history that stays outside the known class *)
Inductive no_recolumn : istate -> list iclause -> Prop :=
| nr_nil st : no_recolumn st []
| nr_cons st c cs : ~ recolumn (st_insert st) c -> no_recolumn (ins_step st c) cs -> no_recolumn st (c :: cs).

Theorem rectangular cs : forall st, rect (st_insert st) -> no_recolumn st cs ->
  rect (st_insert (fold_left ins_step cs st)).
Proof.
  induction cs as [|c cs IH]; intros st H Hn; [exact H|]. cbn [fold_left].
  inversion Hn; subst. apply IH; [now apply step_rect|assumption].
Qed.

Theorem rectangular_from_new cs : no_recolumn (ins_new, [], false) cs ->
  rect (st_insert (build_insert cs)).
Proof.
  apply rectangular. split; [constructor|]. cbn. discriminate.
Qed.

(* the known class is real: the shortest history that breaks the rectangle *)
Definition lit (z : Z) : expr query := EValue (V TInt (Some (PInt z))).
Theorem rectangular_refuted :
  exists cs, ~ rect (st_insert (build_insert cs)).
Proof.
  exists [ICColumns [[97%N]; [98%N]]; ICValuesPanic [lit 1; lit 2]; ICColumns [[97%N]]].
  cbn. intros [H _]. inversion H; subst. cbn in *. discriminate.
Qed.

(* DEFAULT VALUES is rendered only when there are no columns and no source *)
Example rect_example :
  rect (st_insert (build_insert [ICColumns [[97%N]; [98%N]]; ICValues [lit 1; lit 2]; ICValues [lit 3]; ICValues []])).
Proof. apply rectangular_from_new. repeat (constructor; [cbn; tauto|]). constructor. Qed.
