(* A literal or a prepared identifier, written anywhere in a statement, is exactly ONE token for the
   engine's statement lexer, and that token decodes to the supplied value / name (C03, C04 in context):
   the round-trip theorems of Proofs/LiteralProofs.v carried to Spec/EngTok.v. *)
Require Import SQV.Model.Str SQV.Model.Escape SQV.Model.Literal SQV.Spec.EngLex SQV.Spec.EngTok
  SQV.Spec.EngBoundary SQV.Proofs.LiteralProofs SQV.Proofs.EngTokProofs.
From Coq Require Import Lia.

Lemma eng_tokens_single b c s t : is_ws c = false -> next_etok b (c :: s) = Some (t, []) ->
  eng_tokens b (c :: s) = Some [t].
Proof.
  intros Hc Hn. unfold eng_tokens. cbn [length eng_tokens_fuel span]. rewrite Hc, Hn. reflexivity.
Qed.

Lemma next_etok_quote39 b t : next_etok b (39 :: t) =
  match lex_string b (39 :: t) with Some (v, r) => Some (TkStr v, r) | None => None end.
Proof. destruct b; reflexivity. Qed.
Lemma next_etok_pg_e t : next_etok Postgres (69 :: 39 :: t) =
  match pg_lex_string (69 :: 39 :: t) with Some (v, r) => Some (TkStr v, r) | None => None end.
Proof. reflexivity. Qed.
Lemma next_etok_ident b t : next_etok b (quote_of b :: t) =
  match lex_quoted_with (quote_of b) (quote_of b :: t) with Some (n, r) => Some (TkId n, r) | None => None end.
Proof. destruct b; reflexivity. Qed.
Lemma quote_char_of b : quote_char b = quote_of b.
Proof. destruct b; reflexivity. Qed.

Theorem string_literal_is_one_token b s : nul_ok b s ->
  eng_tokens b (write_string_quoted b s) = Some [TkStr s].
Proof.
  intros Hn. pose proof (string_literal_roundtrip b s [] Hn I) as H. rewrite app_nil_r in H.
  assert (Hshape : (exists t, write_string_quoted b s = 39 :: t) \/
                   (b = Postgres /\ exists t, write_string_quoted b s = 69 :: 39 :: t)).
  { unfold write_string_quoted. destruct b; try (left; eexists; reflexivity).
    destruct (has_backslash (escape_string Postgres s)); [right; split; [reflexivity|]|left]; eexists; reflexivity. }
  destruct Hshape as [[t Et]|[-> [t Et]]]; rewrite Et in *.
  - apply eng_tokens_single; [reflexivity|]. rewrite next_etok_quote39, H. reflexivity.
  - apply eng_tokens_single; [reflexivity|]. rewrite next_etok_pg_e. cbn [lex_string] in H. rewrite H. reflexivity.
Qed.

Theorem char_literal_is_one_token b c : nul_ok b [c] ->
  eng_tokens b (write_char_quoted b c) = Some [TkStr [c]].
Proof. apply string_literal_is_one_token. Qed.

Theorem identifier_is_one_token b name :
  eng_tokens b (iden_prepare (quote_char b) name) = Some [TkId name].
Proof.
  pose proof (ident_roundtrip (quote_char b) name [] I) as H. rewrite app_nil_r in H.
  rewrite quote_char_of in *. unfold iden_prepare in *.
  apply eng_tokens_single; [destruct b; reflexivity|]. rewrite next_etok_ident, H. reflexivity.
Qed.

Theorem bytes_literal_is_one_token b bs : b <> Postgres -> is_bytes bs ->
  eng_tokens b (write_bytes b bs) = Some [TkBytes bs].
Proof.
  intros Hb Hbs. pose proof (hex_literal_roundtrip b bs [] Hb Hbs) as H. rewrite app_nil_r in H.
  destruct b; [|contradiction|]; unfold write_bytes in *;
    (apply eng_tokens_single; [reflexivity|]); unfold next_etok; cbv beta iota;
    change (120 =? quote_of _) with false; cbn [N.eqb Pos.eqb orb andb]; rewrite H; reflexivity.
Qed.

(* Postgres writes a byte string as the string constant whose text is the bytea hex input format *)
Theorem pg_bytes_literal_is_one_token bs : is_bytes bs ->
  exists txt, eng_tokens Postgres (write_bytes Postgres bs) = Some [TkStr txt] /\ pg_bytea_in txt = Some bs.
Proof.
  intros Hbs. pose proof (pg_bytea_roundtrip bs [] Hbs I) as H. rewrite app_nil_r in H.
  unfold pg_lex_bytea in H. destruct (pg_lex_string (write_bytes Postgres bs)) as [[txt r]|] eqn:E; [|discriminate H].
  destruct (pg_bytea_in txt) as [bs'|] eqn:Eb; [|discriminate H]. injection H as -> ->.
  exists txt. split; [|exact Eb]. unfold write_bytes in *.
  apply eng_tokens_single; [reflexivity|]. rewrite next_etok_quote39. cbn [lex_string]. rewrite E. reflexivity.
Qed.

(* in context *)
Lemma one_token_in_context b lit t pre tpre post tpost :
  eng_tokens b lit = Some [t] ->
  eng_tokens b pre = Some tpre -> eng_tokens b post = Some tpost ->
  join_ok tpre (lit ++ post) = true -> join_ok [t] post = true ->
  eng_tokens b (pre ++ lit ++ post) = Some (tpre ++ t :: tpost).
Proof.
  intros Hl Hpre Hpost J1 J2.
  apply eng_tokens_app; [exact Hpre| |exact J1].
  change (t :: tpost) with ([t] ++ tpost). now apply eng_tokens_app.
Qed.

Theorem string_literal_in_context b s pre tpre post tpost : nul_ok b s ->
  eng_tokens b pre = Some tpre -> eng_tokens b post = Some tpost ->
  join_ok tpre (write_string_quoted b s ++ post) = true -> join_ok [TkStr s] post = true ->
  eng_tokens b (pre ++ write_string_quoted b s ++ post) = Some (tpre ++ TkStr s :: tpost).
Proof. intros Hn. apply one_token_in_context. now apply string_literal_is_one_token. Qed.

Theorem identifier_in_context b name pre tpre post tpost :
  eng_tokens b pre = Some tpre -> eng_tokens b post = Some tpost ->
  join_ok tpre (iden_prepare (quote_char b) name ++ post) = true -> join_ok [TkId name] post = true ->
  eng_tokens b (pre ++ iden_prepare (quote_char b) name ++ post) = Some (tpre ++ TkId name :: tpost).
Proof. apply one_token_in_context. apply identifier_is_one_token. Qed.
