(* Proofs about equality and hashing of Value with hashable-value (property C18). *)
Require Import SQV.Model.Str SQV.Model.Value SQV.Model.ValueRow SQV.Model.FloatBits SQV.Model.ValueEq
  SQV.Generated.ValueTypes SQV.Generated.ValueTypesStatus SQV.Proofs.ValueConvProofs.
From Coq Require Import Lia.

(* ---- float comparisons on bit patterns ------------------------------------------------------------ *)

Section Float.
  (* the same proofs serve binary32 and binary64: only is_nan / is_zero differ *)
  Variable is_nan is_zero : N -> bool.
  Let ieee (a b : N) : bool := negb (is_nan a) && negb (is_nan b) && ((a =? b) || (is_zero a && is_zero b)).
  Let ofe (a b : N) : bool := if is_nan a then is_nan b else ieee a b.

  Lemma ieee_sym_gen : forall a b, ieee a b = ieee b a.
  Proof.
    intros a b. unfold ieee. rewrite (N.eqb_sym a b).
    destruct (is_nan a), (is_nan b), (is_zero a), (is_zero b), (b =? a); reflexivity.
  Qed.

  Lemma ieee_trans_gen : forall a b c, ieee a b = true -> ieee b c = true -> ieee a c = true.
  Proof.
    intros a b c. unfold ieee. intros H1 H2.
    destruct (is_nan a) eqn:Na; [discriminate H1|]. destruct (is_nan b) eqn:Nb; [discriminate H1|].
    destruct (is_nan c) eqn:Nc; [cbn in H2; discriminate H2|]. cbn in *.
    destruct (a =? b) eqn:E1.
    - apply N.eqb_eq in E1. subst b. exact H2.
    - destruct (b =? c) eqn:E2.
      + apply N.eqb_eq in E2. subst c. rewrite E1. exact H1.
      + cbn in H1, H2. apply andb_prop in H1. apply andb_prop in H2. destruct H1 as [Za _]. destruct H2 as [_ Zc].
        rewrite Za, Zc. apply orb_true_r.
  Qed.

  Lemma ofe_refl_gen : forall a, ofe a a = true.
  Proof.
    intro a. unfold ofe, ieee. destruct (is_nan a) eqn:Na; [reflexivity|]. rewrite N.eqb_refl. reflexivity.
  Qed.

  Lemma ofe_sym_gen : forall a b, ofe a b = ofe b a.
  Proof.
    intros a b. unfold ofe. pose proof (ieee_sym_gen a b) as S. unfold ieee in *.
    destruct (is_nan a) eqn:Na, (is_nan b) eqn:Nb; try reflexivity. exact S.
  Qed.

  Lemma ofe_trans_gen : forall a b c, ofe a b = true -> ofe b c = true -> ofe a c = true.
  Proof.
    intros a b c. unfold ofe. intros H1 H2.
    destruct (is_nan a) eqn:Na.
    - rewrite H1 in H2. exact H2.
    - assert (Nb : is_nan b = false).
      { unfold ieee in H1. rewrite Na in H1. destruct (is_nan b); [discriminate H1|reflexivity]. }
      rewrite Nb in H2. exact (ieee_trans_gen a b c H1 H2).
  Qed.

  (* equal under OrderedFloat: both NaN, or neither and (same bits or both zeros) *)
  Lemma ofe_cases_gen : forall a b, ofe a b = true ->
    (is_nan a = true /\ is_nan b = true)
    \/ (is_nan a = false /\ is_nan b = false /\ (a = b \/ (is_zero a = true /\ is_zero b = true))).
  Proof.
    intros a b. unfold ofe, ieee. destruct (is_nan a) eqn:Na.
    - intro H. left. auto.
    - destruct (is_nan b) eqn:Nb; [discriminate|]. cbn. intro H. right. split; [reflexivity|]. split; [reflexivity|].
      apply orb_prop in H. destruct H as [H|H].
      + left. apply N.eqb_eq. exact H.
      + right. apply andb_prop in H. exact H.
  Qed.
End Float.

Lemma ieee_eq32_sym : forall a b, ieee_eq32 a b = ieee_eq32 b a.
Proof. exact (ieee_sym_gen is_nan32 is_zero32). Qed.
Lemma ieee_eq32_trans : forall a b c, ieee_eq32 a b = true -> ieee_eq32 b c = true -> ieee_eq32 a c = true.
Proof. exact (ieee_trans_gen is_nan32 is_zero32). Qed.
Lemma ieee_eq64_sym : forall a b, ieee_eq64 a b = ieee_eq64 b a.
Proof. exact (ieee_sym_gen is_nan64 is_zero64). Qed.
Lemma ieee_eq64_trans : forall a b c, ieee_eq64 a b = true -> ieee_eq64 b c = true -> ieee_eq64 a c = true.
Proof. exact (ieee_trans_gen is_nan64 is_zero64). Qed.
Lemma of_eq32_refl : forall a, of_eq32 a a = true.
Proof. exact (ofe_refl_gen is_nan32 is_zero32). Qed.
Lemma of_eq32_sym : forall a b, of_eq32 a b = of_eq32 b a.
Proof. exact (ofe_sym_gen is_nan32 is_zero32). Qed.
Lemma of_eq32_trans : forall a b c, of_eq32 a b = true -> of_eq32 b c = true -> of_eq32 a c = true.
Proof. exact (ofe_trans_gen is_nan32 is_zero32). Qed.
Lemma of_eq64_refl : forall a, of_eq64 a a = true.
Proof. exact (ofe_refl_gen is_nan64 is_zero64). Qed.
Lemma of_eq64_sym : forall a b, of_eq64 a b = of_eq64 b a.
Proof. exact (ofe_sym_gen is_nan64 is_zero64). Qed.
Lemma of_eq64_trans : forall a b c, of_eq64 a b = true -> of_eq64 b c = true -> of_eq64 a c = true.
Proof. exact (ofe_trans_gen is_nan64 is_zero64). Qed.

(* IEEE == is not reflexive: exactly the NaNs are unequal to themselves *)
Lemma ieee_eq32_refl_iff : forall a, ieee_eq32 a a = negb (is_nan32 a).
Proof. intro a. unfold ieee_eq32. rewrite N.eqb_refl. destruct (is_nan32 a); reflexivity. Qed.
Lemma ieee_eq64_refl_iff : forall a, ieee_eq64 a a = negb (is_nan64 a).
Proof. intro a. unfold ieee_eq64. rewrite N.eqb_refl. destruct (is_nan64 a); reflexivity. Qed.

Lemma of_eq32_same_hash : forall a b, of_eq32 a b = true -> of_hash32 a = of_hash32 b.
Proof.
  intros a b H. destruct (ofe_cases_gen is_nan32 is_zero32 a b H) as [[Na Nb] | (Na & Nb & [E | [Za Zb]])];
    unfold of_hash32; rewrite Na, Nb; try reflexivity.
  - subst b. reflexivity.
  - unfold canon_zero32. rewrite Za, Zb. reflexivity.
Qed.
Lemma of_eq64_same_hash : forall a b, of_eq64 a b = true -> of_hash64 a = of_hash64 b.
Proof.
  intros a b H. destruct (ofe_cases_gen is_nan64 is_zero64 a b H) as [[Na Nb] | (Na & Nb & [E | [Za Zb]])];
    unfold of_hash64; rewrite Na, Nb; try reflexivity.
  - subst b. reflexivity.
  - unfold canon_zero64. rewrite Za, Zb. reflexivity.
Qed.

(* ---- lists ------------------------------------------------------------------------------------------ *)

Lemma list_eqb_refl : forall A (f : A -> A -> bool) l, (forall x, In x l -> f x x = true) -> list_eqb f l l = true.
Proof.
  intros A f l. induction l as [|x l IH]; intro H; [reflexivity|]. cbn.
  rewrite (H x (or_introl eq_refl)). apply IH. intros y Hy. apply H. right. exact Hy.
Qed.

Lemma list_eqb_sym : forall A (f : A -> A -> bool) a b,
  (forall x y, In x a -> f x y = f y x) -> list_eqb f a b = list_eqb f b a.
Proof.
  intros A f a. induction a as [|x a IH]; intros [|y b] H; try reflexivity. cbn.
  rewrite (H x y (or_introl eq_refl)). rewrite IH; [reflexivity|]. intros u w Hu. apply H. right. exact Hu.
Qed.

Lemma list_eqb_trans : forall A (f : A -> A -> bool) a b c,
  (forall x y z, In x a -> f x y = true -> f y z = true -> f x z = true) ->
  list_eqb f a b = true -> list_eqb f b c = true -> list_eqb f a c = true.
Proof.
  intros A f a. induction a as [|x a IH]; intros [|y b] [|z c] H H1 H2; try reflexivity; try discriminate.
  cbn in *. apply andb_prop in H1. apply andb_prop in H2. destruct H1 as [H1 H1']. destruct H2 as [H2 H2'].
  rewrite (H x y z (or_introl eq_refl) H1 H2). cbn. apply (IH b c); try assumption.
  intros u v w Hu. apply H. right. exact Hu.
Qed.

Lemma list_eqb_length : forall A (f : A -> A -> bool) a b, list_eqb f a b = true -> length a = length b.
Proof.
  intros A f a. induction a as [|x a IH]; intros [|y b] H; try reflexivity; try discriminate.
  cbn in *. apply andb_prop in H. destruct H as [_ H]. rewrite (IH b H). reflexivity.
Qed.

Lemma list_eqb_N_eq : forall a b, list_eqb N.eqb a b = true -> a = b.
Proof.
  induction a as [|x a IH]; intros [|y b] H; try reflexivity; try discriminate.
  cbn in H. apply andb_prop in H. destruct H as [H1 H2]. apply N.eqb_eq in H1. subst y. rewrite (IH b H2). reflexivity.
Qed.

Lemma list_eqb_N_refl : forall a, list_eqb N.eqb a a = true.
Proof. intro a. apply list_eqb_refl. intros x _. apply N.eqb_refl. Qed.

Lemma list_eqb_map_eq : forall A B (f : A -> A -> bool) (g : A -> B) a b,
  (forall x y, f x y = true -> g x = g y) -> list_eqb f a b = true -> map g a = map g b.
Proof.
  intros A B f g a. induction a as [|x a IH]; intros [|y b] H E; try reflexivity; try discriminate.
  cbn in *. apply andb_prop in E. destruct E as [E1 E2]. rewrite (H x y E1). rewrite (IH b H E2). reflexivity.
Qed.

(* ---- payload comparison: symmetric and transitive for every arm kind ---------------------------------- *)

Lemma plain_eq_sym : forall t p q, plain_eq t p q = plain_eq t q p.
Proof.
  intros t p q. destruct p, q; cbn; try reflexivity.
  - destruct b, b0; reflexivity.
  - apply Z.eqb_sym.
  - apply ieee_eq32_sym.
  - apply ieee_eq64_sym.
  - apply list_eqb_sym. intros. apply N.eqb_sym.
  - apply N.eqb_sym.
  - apply list_eqb_sym. intros. apply N.eqb_sym.
  - destruct t; try apply N.eqb_sym. apply list_eqb_sym. intros. apply ieee_eq32_sym.
Qed.

Lemma payload_eq_sym : forall k t p q, payload_eq k t p q = payload_eq k t q p.
Proof.
  intros k t p q. destruct k; cbn.
  - apply plain_eq_sym.
  - destruct p, q; try reflexivity. apply of_eq32_sym.
  - destruct p, q; try reflexivity. apply of_eq64_sym.
  - destruct p, q; try reflexivity. apply list_eqb_sym. intros. apply N.eqb_sym.
  - destruct p, q; try reflexivity. apply list_eqb_sym. intros. apply of_eq32_sym.
Qed.

Lemma N_eqb_trans : forall a b c, N.eqb a b = true -> N.eqb b c = true -> N.eqb a c = true.
Proof. intros a b c H1 H2. apply N.eqb_eq in H1. apply N.eqb_eq in H2. subst. apply N.eqb_refl. Qed.

Lemma plain_eq_trans : forall t p q r, plain_eq t p q = true -> plain_eq t q r = true -> plain_eq t p r = true.
Proof.
  intros t p q r. destruct p, q; cbn; try discriminate; destruct r; cbn; try discriminate.
  - destruct b, b0, b1; auto.
  - intros H1 H2. apply Z.eqb_eq in H1. apply Z.eqb_eq in H2. subst. apply Z.eqb_refl.
  - apply ieee_eq32_trans.
  - apply ieee_eq64_trans.
  - apply list_eqb_trans. intros x y z _. apply N_eqb_trans.
  - apply N_eqb_trans.
  - apply list_eqb_trans. intros x y z _. apply N_eqb_trans.
  - destruct t; try apply N_eqb_trans. apply list_eqb_trans. intros x y z _. apply ieee_eq32_trans.
Qed.

Lemma payload_eq_trans : forall k t p q r,
  payload_eq k t p q = true -> payload_eq k t q r = true -> payload_eq k t p r = true.
Proof.
  intros k t p q r. destruct k; cbn.
  - apply plain_eq_trans.
  - destruct p, q; try discriminate; destruct r; try discriminate. apply of_eq32_trans.
  - destruct p, q; try discriminate; destruct r; try discriminate. apply of_eq64_trans.
  - destruct p, q; try discriminate; destruct r; try discriminate. apply list_eqb_trans. intros x y z _. apply N_eqb_trans.
  - destruct p, q; try discriminate; destruct r; try discriminate. apply list_eqb_trans. intros x y z _. apply of_eq32_trans.
Qed.

(* reflexivity needs the arm of the variant to be the right one: floats and vectors through OrderedFloat *)
Definition kind_refl_ok (t : vtag) (k : eq_kind) : bool :=
  match t, k with
  | TFloat, EqF32 | TDouble, EqF64 | TVector, EqVector => true
  | (TFloat | TDouble | TVector), _ => false
  | TJson, (EqJson | EqPlain) => true
  | _, EqPlain => true
  | _, _ => false
  end.

Lemma payload_eq_refl : forall k t p, kind_refl_ok t k = true -> payload_ok t p = true -> payload_eq k t p p = true.
Proof.
  intros k t p Hk Hp.
  destruct t; destruct k; try discriminate Hk; destruct p; try discriminate Hp; cbn;
    try apply N.eqb_refl; try apply Z.eqb_refl; try apply list_eqb_N_refl;
    try apply of_eq32_refl; try apply of_eq64_refl.
  - destruct b; reflexivity.
  - apply list_eqb_refl. intros. apply of_eq32_refl.
Qed.

Lemma opt_eqb_sym : forall A (f : A -> A -> bool) a b, (forall x y, f x y = f y x) -> opt_eqb f a b = opt_eqb f b a.
Proof. intros A f [x|] [y|] H; cbn; auto. Qed.

Lemma opt_eqb_trans : forall A (f : A -> A -> bool) a b c,
  (forall x y z, f x y = true -> f y z = true -> f x z = true) ->
  opt_eqb f a b = true -> opt_eqb f b c = true -> opt_eqb f a c = true.
Proof. intros A f [x|] [y|] [z|] H; cbn; try discriminate; auto. apply H. Qed.

(* ---- nested induction over values ------------------------------------------------------------------------ *)

Section ValueInd.
  Variable P : value -> Prop.
  Hypothesis HV : forall t p, P (V t p).
  Hypothesis HN : forall e, P (VArray e None).
  Hypothesis HA : forall e vs, Forall P vs -> P (VArray e (Some vs)).
  Fixpoint value_ind' (v : value) : P v :=
    match v with
    | V t p => HV t p
    | VArray e None => HN e
    | VArray e (Some vs) =>
        HA e vs ((fix go (l : list value) : Forall P l :=
                    match l with
                    | [] => Forall_nil P
                    | x :: r => Forall_cons x (value_ind' x) (go r)
                    end) vs)
    end.
End ValueInd.

(* the local fixpoints of the model are the list functions *)
Lemma veq_with_array : forall kf arr e1 e2 x y,
  veq_with kf arr (VArray e1 (Some x)) (VArray e2 (Some y)) = arr && vtag_eqb e1 e2 && list_eqb (veq_with kf arr) x y.
Proof.
  intros kf arr e1 e2 x y. cbn [veq_with]. f_equal.
  revert y. induction x as [|u x IH]; intros [|w y]; try reflexivity.
  cbn [list_eqb]. rewrite <- IH. reflexivity.
Qed.

Lemma hstream_with_array : forall hf e vs,
  hstream_with hf (VArray e (Some vs)) =
  HIsize disc_array :: HIsize (disc_array_type e) :: HIsize 1 :: HUsize (N.of_nat (length vs)) :: flat_map (hstream_with hf) vs.
Proof.
  intros hf e vs. reflexivity.
Qed.

Lemma wf_value_array : forall e vs, wf_value (VArray e (Some vs)) = forallb wf_value vs.
Proof.
  intros e vs. reflexivity.
Qed.

(* ---- Value == Value ---------------------------------------------------------------------------------------- *)

Lemma veq_with_sym : forall kf arr a b, veq_with kf arr a b = veq_with kf arr b a.
Proof.
  intros kf arr a. induction a as [t p | e | e vs IH] using value_ind'; intros [t' p' | e' [vs'|]]; try reflexivity.
  - cbn. rewrite (vtag_eqb_sym t t'). destruct (vtag_eqb t' t) eqn:E; [|reflexivity].
    apply vtag_eqb_eq in E. subst t'. destruct (kf t); [|reflexivity].
    apply opt_eqb_sym. intros. apply payload_eq_sym.
  - cbn. rewrite (vtag_eqb_sym e e'). reflexivity.
  - cbn. rewrite (vtag_eqb_sym e e'). reflexivity.
  - rewrite !veq_with_array. rewrite (vtag_eqb_sym e e'). f_equal.
    apply list_eqb_sym. intros x y Hx. rewrite Forall_forall in IH. apply IH. exact Hx.
  - cbn. rewrite (vtag_eqb_sym e e'). reflexivity.
Qed.

Lemma veq_with_trans : forall kf arr a b c,
  veq_with kf arr a b = true -> veq_with kf arr b c = true -> veq_with kf arr a c = true.
Proof.
  intros kf arr a. induction a as [t p | e | e vs IH] using value_ind'; intros b c H1 H2.
  - destruct b as [t' p' | e' l']; [|discriminate H1]. destruct c as [t'' p'' | e'' l'']; [|discriminate H2].
    cbn in *. destruct (vtag_eqb t t') eqn:E1; [|discriminate H1]. apply vtag_eqb_eq in E1. subst t'.
    destruct (vtag_eqb t t'') eqn:E2; [|discriminate H2]. destruct (kf t); [|discriminate H1].
    eapply opt_eqb_trans; [|exact H1|exact H2]. intros x y z. apply payload_eq_trans.
  - destruct b as [t' p' | e' [l'|]]; try discriminate H1; [cbn in H1; rewrite andb_false_r in H1; discriminate H1|].
    destruct c as [t'' p'' | e'' [l''|]]; try discriminate H2; [cbn in H2; rewrite andb_false_r in H2; discriminate H2|].
    cbn in *. rewrite !andb_true_r in *. apply andb_prop in H1. apply andb_prop in H2. destruct H1 as [A1 E1]. destruct H2 as [_ E2].
    apply vtag_eqb_eq in E1. apply vtag_eqb_eq in E2. subst e' e''. rewrite A1, vtag_eqb_refl. reflexivity.
  - destruct b as [t' p' | e' [l'|]]; try discriminate H1; [|cbn in H1; rewrite andb_false_r in H1; discriminate H1].
    destruct c as [t'' p'' | e'' [l''|]]; try discriminate H2; [|cbn in H2; rewrite andb_false_r in H2; discriminate H2].
    rewrite veq_with_array in *. apply andb_prop in H1. apply andb_prop in H2.
    destruct H1 as [H1 L1]. destruct H2 as [H2 L2]. apply andb_prop in H1. apply andb_prop in H2.
    destruct H1 as [A1 E1]. destruct H2 as [_ E2]. apply vtag_eqb_eq in E1. apply vtag_eqb_eq in E2. subst e' e''.
    apply andb_true_intro. split; [apply andb_true_intro; split; [exact A1|apply vtag_eqb_refl]|].
    eapply list_eqb_trans; [|exact L1|exact L2].
    intros x y z Hx. rewrite Forall_forall in IH. apply IH. exact Hx.
Qed.

Definition arms_refl_ok : bool :=
  forallb (fun t => match lookup_tag t eq_arms with Some k => kind_refl_ok t k | None => false end) all_vtags.

Lemma arms_refl_ok_true : arms_refl_ok = true.
Proof. vm_compute. reflexivity. Qed.

Lemma all_vtags_complete : forall t, In t all_vtags.
Proof. intro t. destruct t; cbn; tauto. Qed.

Lemma arm_refl : forall t, exists k, lookup_tag t eq_arms = Some k /\ kind_refl_ok t k = true.
Proof.
  intro t. pose proof (proj1 (forallb_forall _ _) arms_refl_ok_true t (all_vtags_complete t)) as H. cbn beta in H.
  destruct (lookup_tag t eq_arms) as [k|]; [|discriminate H]. exists k. auto.
Qed.

Lemma veq_refl : forall v, wf_value v = true -> veq v v = true.
Proof.
  intro v. unfold veq. induction v as [t p | e | e vs IH] using value_ind'; intro W.
  - cbn [veq_with]. rewrite vtag_eqb_refl. destruct (arm_refl t) as (k & Hk & Hr). rewrite Hk.
    destruct p as [p|]; [|reflexivity]. cbn. apply payload_eq_refl; assumption.
  - cbn. rewrite vtag_eqb_refl. reflexivity.
  - rewrite veq_with_array. rewrite vtag_eqb_refl. change eq_array_arm with true. cbn.
    rewrite wf_value_array in W. apply list_eqb_refl. intros x Hx. rewrite Forall_forall in IH. apply IH; [exact Hx|].
    exact (proj1 (forallb_forall _ _) W x Hx).
Qed.

Lemma veq_sym : forall a b, veq a b = veq b a.
Proof. intros. apply veq_with_sym. Qed.

Lemma veq_trans : forall a b c, veq a b = true -> veq b c = true -> veq a c = true.
Proof. intros a b c. apply veq_with_trans. Qed.

(* values of different variants are never equal (Array counts as one variant; arrays of different element
   types are unequal as well) *)
Definition variant_id (v : value) : option vtag := match v with V t _ => Some t | VArray _ _ => None end.

Lemma veq_diff_variant_false : forall a b, variant_id a <> variant_id b -> veq a b = false.
Proof.
  intros [t p | e l] [t' p' | e' l'] H; cbn in H; try reflexivity.
  - unfold veq. cbn. rewrite vtag_eqb_neq; [reflexivity|]. intro E. apply H. rewrite E. reflexivity.
  - exfalso. apply H. reflexivity.
Qed.

Lemma veq_diff_array_type_false : forall e e' l l', e <> e' -> veq (VArray e l) (VArray e' l') = false.
Proof.
  intros e e' l l' H. unfold veq. cbn [veq_with]. rewrite (vtag_eqb_neq e e' H). rewrite andb_false_r. reflexivity.
Qed.

(* a NULL equals only the NULL of its own variant *)
Lemma veq_null_iff : forall v t, veq v (V t None) = true <-> v = V t None.
Proof. intros v t. apply (eqv_null_scalar veq). right. reflexivity. Qed.

(* ---- Hash ------------------------------------------------------------------------------------------------------ *)

Definition coherent (t : vtag) (k : eq_kind) (h : hash_kind) : bool :=
  match k, h with
  | EqPlain, HsPlain => match t with TFloat | TDouble | TVector => false | _ => true end
  | EqF32, HsF32 => true
  | EqF64, HsF64 => true
  | EqJson, HsJson => true
  | EqVector, HsVector => true
  | _, _ => false
  end.

Definition arms_coherent : bool :=
  forallb (fun t => match lookup_tag t eq_arms, lookup_tag t hash_arms with
                    | Some k, Some h => coherent t k h
                    | _, _ => false
                    end) all_vtags.

Lemma arms_coherent_true : arms_coherent = true.
Proof. vm_compute. reflexivity. Qed.

Lemma arm_coherent : forall t, exists k h,
  lookup_tag t eq_arms = Some k /\ lookup_tag t hash_arms = Some h /\ coherent t k h = true.
Proof.
  intro t. pose proof (proj1 (forallb_forall _ _) arms_coherent_true t (all_vtags_complete t)) as H. cbn beta in H.
  destruct (lookup_tag t eq_arms) as [k|]; [|discriminate H].
  destruct (lookup_tag t hash_arms) as [h|]; [|discriminate H]. exists k, h. auto.
Qed.

Lemma payload_hash_coherent : forall t k h p q,
  coherent t k h = true -> payload_ok t p = true -> payload_ok t q = true ->
  payload_eq k t p q = true -> payload_hash h t (Some p) = payload_hash h t (Some q).
Proof.
  intros t k h p q C Wp Wq E.
  destruct k, h; try discriminate C.
  - (* plain *)
    destruct p, q; cbn in E; try discriminate E; cbn [payload_hash hash_option plain_hash].
    + destruct b, b0; try discriminate E; reflexivity.
    + apply Z.eqb_eq in E. subst. reflexivity.
    + destruct t; discriminate Wp || discriminate C.
    + destruct t; discriminate Wp || discriminate C.
    + apply list_eqb_N_eq in E. subst. reflexivity.
    + apply N.eqb_eq in E. subst. reflexivity.
    + apply list_eqb_N_eq in E. subst. reflexivity.
    + destruct t; try discriminate C; try (apply N.eqb_eq in E; subst; reflexivity).
  - destruct p, q; cbn in E; try discriminate E. cbn. rewrite (of_eq32_same_hash _ _ E). reflexivity.
  - destruct p, q; cbn in E; try discriminate E. cbn. rewrite (of_eq64_same_hash _ _ E). reflexivity.
  - destruct p, q; cbn in E; try discriminate E. cbn. apply list_eqb_N_eq in E. subst. reflexivity.
  - destruct p, q; cbn in E; try discriminate E. cbn.
    apply (list_eqb_map_eq _ _ of_eq32); [|exact E]. intros x y H. rewrite (of_eq32_same_hash _ _ H). reflexivity.
Qed.

Lemma flat_map_eq : forall (f : value -> list hword) x y,
  Forall (fun a => forall b, veq a b = true -> wf_value a = true -> wf_value b = true -> f a = f b) x ->
  list_eqb veq x y = true -> forallb wf_value x = true -> forallb wf_value y = true -> flat_map f x = flat_map f y.
Proof.
  intros f x. induction x as [|a x IH]; intros [|b y] HF E Wx Wy; try reflexivity; try discriminate.
  cbn in *. apply andb_prop in E. apply andb_prop in Wx. apply andb_prop in Wy.
  destruct E as [E1 E2]. destruct Wx as [Wa Wx]. destruct Wy as [Wb Wy].
  inversion HF as [|? ? Ha HF']. subst. rewrite (Ha b E1 Wa Wb). rewrite (IH y HF' E2 Wx Wy). reflexivity.
Qed.

Lemma veq_implies_same_hash_stream :
  forall a b, veq a b = true -> wf_value a = true -> wf_value b = true -> hstream a = hstream b.
Proof.
  intro a. unfold hstream. induction a as [t p | e | e vs IH] using value_ind'; intros b E Wa Wb.
  - destruct b as [t' p' | e' l']; [|discriminate E]. unfold veq in E. cbn [veq_with] in E.
    destruct (vtag_eqb t t') eqn:Et; [|discriminate E]. apply vtag_eqb_eq in Et. subst t'.
    destruct (arm_coherent t) as (k & h & Hk & Hh & C). rewrite Hk in E.
    cbn [hstream_with]. rewrite Hh. f_equal.
    destruct p as [p|], p' as [p'|]; cbn in E; try discriminate E; [|reflexivity].
    cbn [wf_value] in Wa, Wb. eapply payload_hash_coherent; eassumption.
  - destruct b as [t' p' | e' [l'|]]; try discriminate E.
    + unfold veq in E. cbn in E. rewrite andb_false_r in E. discriminate E.
    + unfold veq in E. cbn in E. rewrite andb_true_r in E. apply vtag_eqb_eq in E. subst. reflexivity.
  - destruct b as [t' p' | e' [l'|]]; try discriminate E.
    + unfold veq in E. rewrite veq_with_array in E. apply andb_prop in E. destruct E as [E L].
      apply andb_prop in E. destruct E as [_ E]. apply vtag_eqb_eq in E. subst e'.
      rewrite !hstream_with_array. rewrite (list_eqb_length _ _ _ _ L). do 4 f_equal.
      rewrite wf_value_array in Wa, Wb.
      apply flat_map_eq; try assumption.
    + unfold veq in E. cbn in E. rewrite andb_false_r in E. discriminate E.
Qed.

(* ---- ValueTuple (derived PartialEq / Eq / Hash) ------------------------------------------------------------------ *)

Lemma teq_refl : forall x, wf_tuple x = true -> teq x x = true.
Proof.
  intros [a | a b | a b c | l] W; unfold teq; cbn in *.
  - apply veq_refl. exact W.
  - apply andb_prop in W. destruct W as [Wa Wb]. rewrite (veq_refl a Wa), (veq_refl b Wb). reflexivity.
  - apply andb_prop in W. destruct W as [W Wc]. apply andb_prop in W. destruct W as [Wa Wb].
    rewrite (veq_refl a Wa), (veq_refl b Wb), (veq_refl c Wc). reflexivity.
  - apply list_eqb_refl. intros x Hx. apply veq_refl. exact (proj1 (forallb_forall _ _) W x Hx).
Qed.

Lemma teq_sym : forall x y, teq x y = teq y x.
Proof.
  intros [a | a b | a b c | l] [a' | a' b' | a' b' c' | l']; unfold teq; cbn; try reflexivity.
  - apply veq_sym.
  - rewrite (veq_sym a a'), (veq_sym b b'). reflexivity.
  - rewrite (veq_sym a a'), (veq_sym b b'), (veq_sym c c'). reflexivity.
  - apply list_eqb_sym. intros. apply veq_sym.
Qed.

Lemma teq_trans : forall x y z, teq x y = true -> teq y z = true -> teq x z = true.
Proof.
  intros [a | a b | a b c | l] [a' | a' b' | a' b' c' | l'] [a'' | a'' b'' | a'' b'' c'' | l''];
    unfold teq; cbn; try discriminate; intros H1 H2.
  - exact (veq_trans _ _ _ H1 H2).
  - apply andb_prop in H1. apply andb_prop in H2. destruct H1 as [A1 B1]. destruct H2 as [A2 B2].
    rewrite (veq_trans _ _ _ A1 A2), (veq_trans _ _ _ B1 B2). reflexivity.
  - apply andb_prop in H1. apply andb_prop in H2. destruct H1 as [H1 C1]. destruct H2 as [H2 C2].
    apply andb_prop in H1. apply andb_prop in H2. destruct H1 as [A1 B1]. destruct H2 as [A2 B2].
    rewrite (veq_trans _ _ _ A1 A2), (veq_trans _ _ _ B1 B2), (veq_trans _ _ _ C1 C2). reflexivity.
  - eapply list_eqb_trans; [|exact H1|exact H2]. intros x y z _. apply veq_trans.
Qed.

Lemma teq_implies_same_hash_stream :
  forall x y, teq x y = true -> wf_tuple x = true -> wf_tuple y = true -> tstream x = tstream y.
Proof.
  intros [a | a b | a b c | l] [a' | a' b' | a' b' c' | l']; unfold teq; cbn; try discriminate; intros E Wx Wy.
  - rewrite (veq_implies_same_hash_stream a a' E Wx Wy). reflexivity.
  - apply andb_prop in E. apply andb_prop in Wx. apply andb_prop in Wy.
    destruct E as [Ea Eb]. destruct Wx as [Wa Wb]. destruct Wy as [Wa' Wb'].
    rewrite (veq_implies_same_hash_stream a a' Ea Wa Wa'), (veq_implies_same_hash_stream b b' Eb Wb Wb'). reflexivity.
  - apply andb_prop in E. apply andb_prop in Wx. apply andb_prop in Wy.
    destruct E as [E Ec]. destruct Wx as [Wx Wc]. destruct Wy as [Wy Wc'].
    apply andb_prop in E. apply andb_prop in Wx. apply andb_prop in Wy.
    destruct E as [Ea Eb]. destruct Wx as [Wa Wb]. destruct Wy as [Wa' Wb'].
    rewrite (veq_implies_same_hash_stream a a' Ea Wa Wa'), (veq_implies_same_hash_stream b b' Eb Wb Wb'),
      (veq_implies_same_hash_stream c c' Ec Wc Wc'). reflexivity.
  - rewrite (list_eqb_length _ _ _ _ E). do 2 f_equal.
    apply flat_map_eq; try assumption.
    apply Forall_forall. intros x _ y. apply veq_implies_same_hash_stream.
Qed.

(* under the derive, a one-element Many is not One *)
Lemma teq_many_is_not_one : forall a, teq (TMany [a]) (TOne a) = false.
Proof. reflexivity. Qed.

(* ---- non-vacuity and sanity examples --------------------------------------------------------------------------------- *)

Example ex_nan_payloads_equal :
  veq (V TFloat (Some (PF32 2143289344))) (V TFloat (Some (PF32 4290772993))) = true      (* 0x7fc00000 vs 0xffc00001 *)
  /\ veq_derived (V TFloat (Some (PF32 2143289344))) (V TFloat (Some (PF32 2143289344))) = false.
Proof. split; vm_compute; reflexivity. Qed.

Example ex_zeros_equal_and_hash_equal :
  veq (V TDouble (Some (PF64 0))) (V TDouble (Some (PF64 9223372036854775808))) = true
  /\ hstream (V TDouble (Some (PF64 0))) = hstream (V TDouble (Some (PF64 9223372036854775808))).
Proof. split; vm_compute; reflexivity. Qed.

Example ex_wf_nested_array :
  wf_value (VArray TInt (Some [VArray TInt (Some [V TInt (Some (PInt 1))]); V TFloat (Some (PF32 2143289344))])) = true.
Proof. reflexivity. Qed.

Example ex_different_variants_same_payload : veq (V TInt (Some (PInt 1))) (V TBigInt (Some (PInt 1))) = false.
Proof. reflexivity. Qed.

Example ex_json_null_collides_but_differs :
  veq (V TJson None) (V TJson (Some (POpaque 0 [110; 117; 108; 108]))) = false
  /\ List.tl (hstream (V TJson None)) = List.tl (hstream (V TJson (Some (POpaque 0 [110; 117; 108; 108])))).
Proof. split; vm_compute; reflexivity. Qed.
