(* C15 -- hand-written part: builders as immutable values.

   The generated file Generated/Takes.v describes each statement type as a record of plain values and each of
   take / clear_* / reset_* / from_clear as a total function on such records.  This file holds what does not
   depend on the generated definitions:

   - the value model of a builder history (a history is a list of steps, a step is a function on states,
     clone is the identity on values) and the history-independence theorem.  The theorem is trivial for
     values, and that is the point: its content is the modelling decision that a builder IS a value, which is
     what the dynamic part of the check observes on the Rust objects (clone / source never influence each
     other, renderings never change afterwards);
   - the generic consequences of  fst (take s) = s  for any observation of the statement (rendering on any
     backend, equality tests, ...). *)
Require Import Coq.Lists.List.
Import ListNotations.

Section ValueBuilders.
  (* S: the state of a builder; Op: the builder calls; step: what a call does to the state *)
  Variables (S Op : Type) (step : Op -> S -> S).

  Definition run (h : list Op) (s : S) : S := fold_left (fun acc o => step o acc) h s.

  (* cloning a value gives the pair of the value with itself *)
  Definition clone (s : S) : S * S := (s, s).

  Lemma run_app : forall h1 h2 s, run (h1 ++ h2) s = run h2 (run h1 s).
  Proof. intros h1 h2 s. unfold run. apply fold_left_app. Qed.

  (* run h1, clone, then run h2 on the source: the clone still is the state after h1; and symmetrically *)
  Lemma history_independence_source_changes :
    forall (h1 h2 : list Op) (s0 : S),
      let (src, cl) := clone (run h1 s0) in
      let src' := run h2 src in
      cl = run h1 s0 /\ src' = run (h1 ++ h2) s0.
  Proof. intros h1 h2 s0. cbn. split; [ reflexivity | symmetry; apply run_app ]. Qed.

  Lemma history_independence_clone_changes :
    forall (h1 h2 : list Op) (s0 : S),
      let (src, cl) := clone (run h1 s0) in
      let cl' := run h2 cl in
      src = run h1 s0 /\ cl' = run (h1 ++ h2) s0.
  Proof. intros h1 h2 s0. cbn. split; [ reflexivity | symmetry; apply run_app ]. Qed.

  (* both at once, for two different continuations *)
  Lemma history_independence :
    forall (h1 h2 h3 : list Op) (s0 : S),
      let (src, cl) := clone (run h1 s0) in
      run h2 src = run (h1 ++ h2) s0 /\ run h3 cl = run (h1 ++ h3) s0 /\
      (* whatever is observed of the untouched copy is what was observed at clone time *)
      forall (Obs : Type) (observe : S -> Obs), observe cl = observe (run h1 s0) /\ observe src = observe (run h1 s0).
  Proof.
    intros h1 h2 h3 s0. cbn. repeat split; symmetry; apply run_app.
  Qed.
End ValueBuilders.

Section TakeConsequences.
  Variables (S : Type) (take : S -> S * S).
  Hypothesis take_returns_all : forall s, fst (take s) = s.

  (* any observation (rendering on a backend, build(), ==) of the taken statement is the observation of the
     statement before the call *)
  Lemma taken_observes_identically :
    forall (Obs : Type) (observe : S -> Obs) (s : S), observe (fst (take s)) = observe s.
  Proof. intros Obs observe s. rewrite take_returns_all. reflexivity. Qed.

  (* take on a pre-clone: the taken statement equals the clone made just before *)
  Lemma taken_equals_preclone :
    forall s : S, let (src, cl) := clone S s in fst (take src) = cl.
  Proof. intros s. cbn. apply take_returns_all. Qed.
End TakeConsequences.

(* the hypothesis of the section above is satisfiable on a non-trivial instance *)
Example take_consequences_instance :
  let take := fun p : nat * bool => (p, (0, false)) in
  (forall s, fst (take s) = s) /\ take (3, true) = ((3, true), (0, false)).
Proof. cbn. split; [ intros s; reflexivity | reflexivity ]. Qed.

(* ------------------------------------------------------------------------------------------------
   Consequences for the generated statement types (Generated/Takes.v, Generated/TakesProps.v)
   ------------------------------------------------------------------------------------------------ *)
Require Import Coq.Strings.String.
Require Import SQV.Generated.Takes SQV.Generated.TakesProps.

(* every statement type with take(): whatever is observed of the taken statement (a rendering on some
   backend, the values collected by build(), a comparison) is what is observed of the statement before *)
Lemma every_taken_statement_observes_identically :
  forall W : World,
    Forall (fun t : Taker => forall (Obs : Type) (observe : tk_carrier t -> Obs) (s : tk_carrier t),
                observe (fst (tk_take t s)) = observe s) (all_takers W).
Proof.
  intros W. eapply Forall_impl; [ | apply all_takers_return_all_state ].
  intros t Ht Obs observe s. apply taken_observes_identically. exact Ht.
Qed.

(* clear_order_by on WindowStatement written out projection by projection *)
Lemma window_clear_order_by_projections :
  forall (W : World) (s : WindowStatement W),
    WindowStatement_order_by W (WindowStatement_clear_order_by W s) = nil /\
    WindowStatement_partition_by W (WindowStatement_clear_order_by W s) = WindowStatement_partition_by W s /\
    WindowStatement_frame W (WindowStatement_clear_order_by W s) = WindowStatement_frame W s.
Proof. intros W s. destruct s as [p o f]. repeat split. Qed.

(* what ColumnDef::take leaves behind: everything reset, the name replaced by one fixed constant *)
Lemma columndef_take_leaves :
  forall (W : World) (s : ColumnDef W),
    ColumnDef_table W (snd (ColumnDef_take W s)) = None /\
    ColumnDef_types W (snd (ColumnDef_take W s)) = None /\
    ColumnDef_spec W (snd (ColumnDef_take W s)) = nil /\
    forall s' : ColumnDef W, ColumnDef_name W (snd (ColumnDef_take W s')) = ColumnDef_name W (snd (ColumnDef_take W s)).
Proof. intros W s. destruct s as [t n y p]. repeat split. Qed.

(* the setters used in the statements are what their name says (shown for the pinned clauses) *)
Lemma select_setters_get :
  forall (W : World) (s : SelectStatement W),
    SelectStatement_orders W (SelectStatement_with_orders W nil s) = nil /\
    SelectStatement_selects W (SelectStatement_with_selects W nil s) = nil /\
    SelectStatement_from W (SelectStatement_with_from W nil s) = nil /\
    SelectStatement_limit W (SelectStatement_with_limit W None s) = None /\
    SelectStatement_offset W (SelectStatement_with_offset W None s) = None.
Proof. intros W s. repeat split. Qed.

Ltac in_generated_list := cbn; repeat (first [ left; reflexivity | right ]).

Lemma generated_lists_cover_the_anchors :
  forall W : World,
    In (mkQueryTaker "SelectStatement" (SelectStatement W) (SelectStatement_take W) (SelectStatement_new W)) (query_takers W) /\
    In (mkQueryTaker "WindowStatement" (WindowStatement W) (WindowStatement_take W) (WindowStatement_new W)) (query_takers W) /\
    In (mkTaker "ColumnDef" (ColumnDef W) (ColumnDef_take W)) (all_takers W) /\
    In (mkTaker "TableCreateStatement" (TableCreateStatement W) (TableCreateStatement_take W)) (all_takers W) /\
    In (mkTaker "IndexCreateStatement" (IndexCreateStatement W) (IndexCreateStatement_take W)) (all_takers W) /\
    In (mkTaker "ForeignKeyCreateStatement" (ForeignKeyCreateStatement W) (ForeignKeyCreateStatement_take W)) (all_takers W) /\
    In (mkClearer "SelectStatement::clear_order_by" (SelectStatement W) (SelectStatement_clear_order_by W)
                  (SelectStatement_clear_order_by_spec W)) (all_clearers W).
Proof. intros W. repeat split; in_generated_list. Qed.
