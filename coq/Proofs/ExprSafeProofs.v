(* The scripts of rendered expressions are sc_ok (Spec/ScriptSafe.v), hence satisfy the separability premise of
   the text-level theorems - for EVERY expression tree without raw SQL, every backend and every parenthesis
   table whose operator / function spellings lex (a finite check on the regenerated tables). *)
Require Import SQV.Model.Str SQV.Model.Escape SQV.Model.Value SQV.Model.Literal SQV.Model.Token SQV.Model.Expr
  SQV.Model.Writer SQV.Model.RenderExpr SQV.Spec.EngLex SQV.Spec.EngTok SQV.Spec.EngBoundary
  SQV.Proofs.WriterProofs SQV.Spec.EngScript SQV.Spec.ScriptSafe SQV.Proofs.EngTokProofs
  SQV.Proofs.EngLiteralTokProofs SQV.Proofs.ScriptSafeProofs SQV.Proofs.ExprValuesProofs.
From Coq Require Import Lia String.
Open Scope list_scope.

Section G.
Variable ftext : bool -> N -> str.
Variable b : backend.
Variable inl : bool.
Notation tok_text := (tok_text ftext b inl).
Notation tok_lexes := (tok_lexes ftext b inl).
Notation tok_follow_ok := (tok_follow_ok ftext b inl).
Notation tok_empty := (tok_empty ftext b inl).
Notation first_char := (first_char ftext b inl).

(* sc_ok with the first character of what follows the script *)
Definition or_next (o nxt : option N) : option N := match o with Some f => Some f | None => nxt end.
Fixpoint sc_okn (sc : script) (nxt : option N) : bool :=
  match sc with
  | [] => true
  | t :: rest =>
      tok_lexes t &&
      (tok_empty t || match or_next (first_char rest) nxt with Some f => tok_follow_ok t f | None => true end) &&
      sc_okn rest nxt
  end.

Lemma sc_okn_none sc : sc_okn sc None = sc_ok ftext b inl sc.
Proof.
  induction sc as [|t r IH]; [reflexivity|]. cbn [sc_okn ScriptSafe.sc_ok]. rewrite IH.
  destruct (first_char r); reflexivity.
Qed.

Lemma first_char_app A B : first_char (A ++ B) = or_next (first_char A) (first_char B).
Proof.
  induction A as [|t r IH]; [reflexivity|]. cbn [app ScriptSafe.first_char]. destruct (tok_text t); [exact IH|reflexivity].
Qed.

Lemma or_next_assoc a c d : or_next (or_next a c) d = or_next a (or_next c d).
Proof. destruct a; reflexivity. Qed.

Lemma sc_okn_app A B nxt : sc_okn (A ++ B) nxt = sc_okn A (or_next (first_char B) nxt) && sc_okn B nxt.
Proof.
  induction A as [|t r IH]; [reflexivity|]. cbn [app sc_okn]. rewrite IH, first_char_app, or_next_assoc.
  now rewrite !andb_assoc.
Qed.

(* characters that may follow any token *)
Definition usafe (f : N) : bool := is_ws f || mem_N f [40; 41; 44; 91; 93].
Lemma usafe_follow f t : usafe f = true -> follow_char_ok t f = true.
Proof.
  unfold usafe. intros H. apply orb_prop in H as [H|H]; [now apply follow_ws|].
  cbn [mem_N] in H.
  repeat match type of H with (_ || _) = true => apply orb_prop in H as [H|H] end; try discriminate H;
    apply N.eqb_eq in H; subst f; destruct t as [| | | | | | |p]; try reflexivity; cbn; destruct (p =? 46); reflexivity.
Qed.
Lemma usafe_not_word f : usafe f = true -> is_word_char f = false.
Proof.
  unfold usafe. intros H. apply orb_prop in H as [H|H].
  - unfold is_ws in H.
    repeat match type of H with (_ || _) = true => apply orb_prop in H as [H|H] end; apply N.eqb_eq in H; subst f; reflexivity.
  - cbn [mem_N] in H.
    repeat match type of H with (_ || _) = true => apply orb_prop in H as [H|H] end; try discriminate H;
      apply N.eqb_eq in H; subst f; reflexivity.
Qed.

Lemma text_follow_usafe s f : text_lexes b s = true -> usafe f = true -> text_follow_ok b s f = true.
Proof.
  unfold text_lexes, text_follow_ok. intros Hl Hf.
  destruct (text_toks b s) as [[|t0 ts]|]; [now rewrite orb_true_r| |discriminate Hl].
  rewrite (usafe_follow f _ Hf). now rewrite orb_true_r.
Qed.
Lemma tok_follow_usafe t f : tok_lexes t = true -> usafe f = true -> tok_follow_ok t f = true.
Proof.
  intros Hl Hf. destruct t; cbn [ScriptSafe.tok_follow_ok ScriptSafe.tok_lexes] in *;
    try (now apply text_follow_usafe).
  destruct inl; [now apply text_follow_usafe|now rewrite (usafe_not_word f Hf)].
Qed.

(* a good script may be followed by a universally safe character *)
Lemma sc_okn_safe sc f : usafe f = true -> sc_okn sc None = true -> sc_okn sc (Some f) = true.
Proof.
  intros Hf. induction sc as [|t r IH]; [reflexivity|]. cbn [sc_okn]. intros H.
  apply andb_prop in H as [H Hr]. apply andb_prop in H as [Hl Hfo]. rewrite Hl, (IH Hr), andb_true_r. cbn [andb].
  destruct (tok_empty t); [reflexivity|]. cbn [orb] in *.
  destruct (first_char r) as [g|]; cbn [or_next] in *; [exact Hfo|]. now apply tok_follow_usafe.
Qed.

Definition G (sc : script) : Prop := sc_okn sc None = true.

(* constant texts *)
Definition lexes (s : str) : bool := tok_lexes (WS s).
Definition openb (s : str) : bool :=
  text_trailing_blank s ||
  match text_toks b s with
  | Some [] => true
  | Some ts => match last ts (TkPunct 0) with TkPunct p => negb (p =? 46) | _ => false end
  | None => false
  end.
Definition starts_usafe (s : str) : bool := match s with f :: _ => usafe f | [] => false end.

Lemma open_follow s f : openb s = true -> tok_follow_ok (WS s) f = true.
Proof.
  unfold openb. cbn [ScriptSafe.tok_follow_ok ScriptSafe.tok_text]. unfold text_follow_ok. intros H.
  apply orb_prop in H as [->|H]; [reflexivity|]. rewrite orb_comm.
  destruct (text_toks b s) as [[|t0 ts]|]; [reflexivity| |discriminate H].
  destruct (last (t0 :: ts) (TkPunct 0)) as [| | | | | | |p]; try discriminate H. cbn [follow_char_ok].
  apply negb_true_iff in H. now rewrite H.
Qed.

Lemma G_nil : G []. Proof. reflexivity. Qed.
Lemma G_one t : tok_lexes t = true -> G [t].
Proof.
  intros H. unfold G. cbn [sc_okn ScriptSafe.first_char or_next]. rewrite H. now destruct (tok_empty t).
Qed.

(* X c Y : c starts with a safe character and may be followed by anything *)
Lemma G_sandwich X c Y : G X -> G Y -> lexes c = true -> openb c = true -> starts_usafe c = true ->
  G (X ++ WS c :: Y).
Proof.
  unfold G. intros HX HY Hl Ho Hs. rewrite sc_okn_app.
  destruct c as [|f c']; [discriminate Hs|]. cbn [ScriptSafe.first_char ScriptSafe.tok_text or_next].
  rewrite (sc_okn_safe X f Hs HX). cbn [andb sc_okn]. unfold lexes in Hl. rewrite Hl, HY.
  destruct (or_next (first_char Y) None); [rewrite open_follow by exact Ho|]; now rewrite ?orb_true_r.
Qed.
Lemma G_pre c Y : G Y -> lexes c = true -> openb c = true -> G (WS c :: Y).
Proof.
  unfold G. intros HY Hl Ho. cbn [sc_okn]. unfold lexes in Hl. rewrite Hl, HY.
  destruct (or_next (first_char Y) None); [rewrite open_follow by exact Ho|]; now rewrite ?orb_true_r.
Qed.
Lemma G_post X c : G X -> lexes c = true -> starts_usafe c = true -> G (X ++ [WS c]).
Proof.
  unfold G. intros HX Hl Hs. rewrite sc_okn_app. destruct c as [|f c']; [discriminate Hs|].
  cbn [ScriptSafe.first_char ScriptSafe.tok_text or_next]. rewrite (sc_okn_safe X f Hs HX).
  cbn [andb sc_okn ScriptSafe.first_char or_next]. unfold lexes in Hl. rewrite Hl.
  now destruct (tok_empty (WS (f :: c'))).
Qed.
(* a block in front of a text that starts safe: e.g. a function name before its parenthesis *)
Lemma G_app_safe X Y f : G X -> G Y -> first_char Y = Some f -> usafe f = true -> G (X ++ Y).
Proof.
  unfold G. intros HX HY Hf Hs. rewrite sc_okn_app, Hf. cbn [or_next]. now rewrite (sc_okn_safe X f Hs HX), HY.
Qed.
Lemma G_app_nil X Y : G X -> G Y -> first_char Y = None -> G (X ++ Y).
Proof. unfold G. intros HX HY Hf. rewrite sc_okn_app, Hf. cbn [or_next]. now rewrite HX, HY. Qed.
End G.

(* ---------- rendered expressions ---------- *)
Section E.
Variable ftext : bool -> N -> str.
Variable Q : Type.
Variable rq : Q -> script.
Variable is_alpha : N -> bool.
Variable b : backend.
Variable inl : bool.
Variable T : etables.
Variable qok : Q -> bool.     (* the sub-queries whose renderings are good scripts *)

Notation G := (G ftext b inl).
Notation lexes := (lexes ftext b inl).
Notation openb := (openb b).
Notation rexpr := (rexpr Q rq is_alpha b T).

(* the expression carries no raw SQL, and its constants are written as lexable literals *)
Fixpoint expr_plain (e : expr Q) : bool :=
  match e with
  | ECustomWith _ _ => false
  | ECustom s => tok_lexes ftext b inl (WCust s)          (* raw SQL that lexes on its own (it always stands between separators) *)
  | EKeyword (KwCustom s) => tok_lexes ftext b inl (WCust s)
  | EConstant v => tok_lexes ftext b inl (WConst v)
  | EValue v => tok_lexes ftext b inl (WVal v)          (* trivially true for the parameterised SQL *)
  | EValues vs => forallb (fun v => tok_lexes ftext b inl (WVal v)) vs
  | ETuple es => forallb expr_plain es
  | ENot x => expr_plain x
  | EFunc f args =>
      (match f with FCustom n => tok_lexes ftext b inl (WCust n) | _ => true end) &&
      forallb (fun a : bool * expr Q => expr_plain (snd a)) args
  | EBinary l op r => (match op with BCustom s => tok_lexes ftext b inl (WCust s) | _ => true end) &&
                      expr_plain l && expr_plain r
  | EAsEnum _ x => expr_plain x
  | ESubQuery _ q => qok q
  | ECase whens els =>
      forallb (fun w : expr Q * expr Q => expr_plain (fst w) && expr_plain (snd w)) whens &&
      match els with Some x => expr_plain x | None => true end
  | _ => true
  end.

(* the spellings of the tables lex; the renderings of sub-queries are good scripts *)
Hypothesis HT_bin : forall k s, t_binop T k = Some s -> lexes s = true.
Hypothesis HT_func : forall k s, t_func T k = Some s -> lexes s = true.
Hypothesis HT_sq : forall k s, t_sqop T k = Some s -> lexes s = true.
Hypothesis Hrq : forall q, qok q = true -> G (rq q).

(* the constant texts of the expression renderer *)
Ltac const := destruct b; vm_compute; reflexivity.
Lemma c_lp : lexes (K "(") = true /\ openb (K "(") = true /\ starts_usafe (K "(") = true. Proof. repeat split; const. Qed.
Lemma c_rp : lexes (K ")") = true /\ openb (K ")") = true /\ starts_usafe (K ")") = true. Proof. repeat split; const. Qed.
Lemma c_sp : lexes (K " ") = true /\ openb (K " ") = true /\ starts_usafe (K " ") = true. Proof. repeat split; const. Qed.
Lemma c_comma : lexes (K ", ") = true /\ openb (K ", ") = true /\ starts_usafe (K ", ") = true. Proof. repeat split; const. Qed.
Lemma c_as : lexes (K " AS ") = true /\ openb (K " AS ") = true /\ starts_usafe (K " AS ") = true. Proof. repeat split; const. Qed.
Lemma c_and : lexes (K " AND ") = true /\ openb (K " AND ") = true /\ starts_usafe (K " AND ") = true. Proof. repeat split; const. Qed.
Lemma c_when : lexes (K " WHEN (") = true /\ openb (K " WHEN (") = true /\ starts_usafe (K " WHEN (") = true. Proof. repeat split; const. Qed.
Lemma c_then : lexes (K ") THEN ") = true /\ openb (K ") THEN ") = true /\ starts_usafe (K ") THEN ") = true. Proof. repeat split; const. Qed.
Lemma c_else : lexes (K " ELSE ") = true /\ openb (K " ELSE ") = true /\ starts_usafe (K " ELSE ") = true. Proof. repeat split; const. Qed.
Lemma c_end : lexes (K " END)") = true /\ openb (K " END)") = true /\ starts_usafe (K " END)") = true. Proof. repeat split; const. Qed.
Lemma c_cast : lexes (K "CAST(") = true /\ openb (K "CAST(") = true. Proof. repeat split; const. Qed.
Lemma c_case : lexes (K "(CASE") = true. Proof. const. Qed.
Lemma c_not : lexes (K "NOT") = true. Proof. const. Qed.
Lemma c_distinct : lexes (K "DISTINCT ") = true /\ openb (K "DISTINCT ") = true. Proof. repeat split; const. Qed.
Lemma c_brackets : lexes (K "[]") = true /\ openb (K "[]") = true /\ starts_usafe (K "[]") = true. Proof. repeat split; const. Qed.

Lemma rstrip_last s0 c : is_ws c = false -> rstrip (s0 ++ [c]) = (s0 ++ [c], []).
Proof.
  intros H. unfold rstrip. rewrite rev_app_distr. cbn [rev app span]. rewrite H. cbn [rev].
  now rewrite rev_involutive.
Qed.

Lemma wid_lexes s : tok_lexes ftext b inl (WId s) = true.
Proof.
  cbn [ScriptSafe.tok_lexes ScriptSafe.tok_text]. unfold text_lexes, text_toks.
  pose proof (identifier_is_one_token b s) as H. unfold iden_prepare in *.
  rewrite app_comm_cons, rstrip_last by (destruct b; reflexivity). cbn [fst].
  rewrite <- app_comm_cons, H. reflexivity.
Qed.

Lemma c_int : tok_lexes ftext b inl (WVal (int_value 1)) = true /\ tok_lexes ftext b inl (WVal (int_value 2)) = true.
Proof. split; destruct b, inl; vm_compute; reflexivity. Qed.

Lemma c_kw : lexes (K "NULL") = true /\ lexes (K "CURRENT_DATE") = true /\ lexes (K "CURRENT_TIME") = true /\
  lexes (K "CURRENT_TIMESTAMP") = true /\ lexes (K "*") = true /\ lexes (K ".") = true /\ lexes (K ".*") = true /\
  lexes [] = true.
Proof. repeat split; const. Qed.

Notation first_char := (ScriptSafe.first_char ftext b inl).

Lemma G_cons_safe t Y f : tok_lexes ftext b inl t = true -> G Y -> first_char Y = Some f -> usafe f = true -> G (t :: Y).
Proof. intros Ht HY Hf Hs. change (t :: Y) with ([t] ++ Y). eapply G_app_safe; eauto. now apply G_one. Qed.

Lemma G_wrap p s : G s -> G (wrap p s).
Proof.
  intros H. destruct p; [|exact H]. cbn [wrap]. unfold ws.
  destruct c_lp as (L1 & L2 & _). destruct c_rp as (R1 & _ & R3).
  apply G_pre; [|exact L1|exact L2]. now apply G_post.
Qed.

Lemma G_sepby l : Forall G l -> G (sep_by [ws ", "] l).
Proof.
  induction 1 as [|x l Hx Hl IH]; [apply G_nil|]. destruct l as [|y l']; [exact Hx|].
  cbn [sep_by] in *. unfold ws at 1. cbn [app]. destruct c_comma as (C1 & C2 & C3).
  now apply G_sandwich.
Qed.

Lemma G_opt_text o : (forall s, o = Some s -> lexes s = true) -> G (opt_text o).
Proof. intros H. destruct o as [s|]; cbn [opt_text]; apply G_one; [now apply H|reflexivity]. Qed.

Lemma G_binary_expr l op r sl sr : (match op with BCustom s => tok_lexes ftext b inl (WCust s) | _ => true end) = true ->
  G sl -> G sr -> G (binary_expr Q T l op r sl sr).
Proof.
  intros Hop Hl Hr. unfold binary_expr. destruct c_sp as (S1 & S2 & S3).
  set (lp := negb _ && negb _). set (rp := negb _ && negb _ && negb _ && negb _).
  unfold ws. cbn [app]. apply G_sandwich; [now apply G_wrap| |exact S1|exact S2|exact S3].
  apply G_sandwich; [|now apply G_wrap|exact S1|exact S2|exact S3].
  unfold rbinop. destruct op; try (apply G_opt_text; intros s Hs; eapply HT_bin; exact Hs).
  apply G_one. exact Hop.
Qed.

Lemma wid_toks s : text_toks b (ScriptSafe.tok_text ftext b inl (WId s)) = Some [TkId s] /\
  text_trailing_blank (ScriptSafe.tok_text ftext b inl (WId s)) = false.
Proof.
  cbn [ScriptSafe.tok_text]. unfold text_toks, text_trailing_blank.
  pose proof (identifier_is_one_token b s) as H. unfold iden_prepare in *.
  rewrite app_comm_cons, rstrip_last by (destruct b; reflexivity). cbn [fst snd is_nil negb].
  rewrite <- app_comm_cons, H. split; reflexivity.
Qed.
Lemma wid_first s r : first_char (WId s :: r) = Some (quote_char b).
Proof. reflexivity. Qed.

Lemma G_cons_follow t Y f : tok_lexes ftext b inl t = true -> G Y -> first_char Y = Some f ->
  tok_follow_ok ftext b inl t f = true -> G (t :: Y).
Proof.
  unfold G. intros Ht HY Hf Hfo. cbn [sc_okn]. rewrite Ht, HY, Hf. cbn [or_next]. rewrite Hfo.
  now rewrite orb_true_r.
Qed.

Lemma G_colref c : G (rcolref c).
Proof.
  destruct c_kw as (_ & _ & _ & _ & Kstar & Kdot & Kdotstar & _).
  assert (Hdot : forall s, tok_follow_ok ftext b inl (WId s) 46 = true).
  { intros s. cbn [ScriptSafe.tok_follow_ok]. unfold text_follow_ok. destruct (wid_toks s) as [-> ->]. reflexivity. }
  assert (Hq : tok_follow_ok ftext b inl (ws ".") (quote_char b) = true) by (destruct b; vm_compute; reflexivity).
  assert (Gid : forall s, G [WId s]) by (intros s; apply G_one, wid_lexes).
  assert (Gdot : forall s, G (ws "." :: [WId s])).
  { intros s. eapply G_cons_follow; [exact Kdot|apply Gid|reflexivity|exact Hq]. }
  destruct c as [c|t c|s t c| |t]; cbn [rcolref].
  - apply Gid.
  - eapply G_cons_follow; [apply wid_lexes|apply Gdot|reflexivity|apply Hdot].
  - eapply G_cons_follow; [apply wid_lexes| |reflexivity|apply Hdot].
    eapply G_cons_follow; [exact Kdot| |reflexivity|exact Hq].
    eapply G_cons_follow; [apply wid_lexes|apply Gdot|reflexivity|apply Hdot].
  - apply G_one. exact Kstar.
  - eapply G_cons_follow; [apply wid_lexes|apply G_one; exact Kdotstar|reflexivity|apply Hdot].
Qed.

Lemma first_char_ws_cons c r f : K c = f :: tl (K c) -> first_char (ws c :: r) = Some f.
Proof. unfold ws. cbn [ScriptSafe.first_char ScriptSafe.tok_text]. intros ->. reflexivity. Qed.

(* the blocks of a CASE expression start with a blank *)
Lemma G_whens (whens : list (expr Q * expr Q)) :
  Forall (fun w => G (rexpr false (fst w)) /\ G (rexpr false (snd w))) whens ->
  let W := flat_map (fun w : expr Q * expr Q =>
             [ws " WHEN ("] ++ rexpr false (fst w) ++ [ws ") THEN "] ++ rexpr false (snd w)) whens in
  G W /\ (W = [] \/ first_char W = Some 32).
Proof.
  destruct c_when as (W1 & W2 & _). destruct c_then as (T1 & T2 & T3).
  induction 1 as [|w l [Ha Hb] Hl IH]; cbn [flat_map]; [split; [apply G_nil|now left]|].
  destruct IH as [IHG IHf]. split; [|right; reflexivity].
  set (blk := [ws " WHEN ("] ++ rexpr false (fst w) ++ [ws ") THEN "] ++ rexpr false (snd w)).
  assert (Gblk : G blk).
  { unfold blk, ws. cbn [app]. apply G_pre; [|exact W1|exact W2]. now apply G_sandwich. }
  destruct IHf as [->|Hf]; [now rewrite app_nil_r|].
  eapply G_app_safe; [exact Gblk|exact IHG|exact Hf|reflexivity].
Qed.

Lemma G_match_b (A B : script) (common : bool) : G A -> G B ->
  G (match b, common with Postgres, false => A | _, _ => B end).
Proof. intros HA HB. destruct b; destruct common; assumption. Qed.

Theorem rexpr_good_strong : forall e, expr_plain e = true ->
  (forall common, G (rexpr common e)) /\
  match e with
  | EBinary lo _ hi => (forall c, G (rexpr c lo)) /\ (forall c, G (rexpr c hi))
  | _ => True
  end.
Proof.
  destruct c_lp as (L1 & L2 & L3). destruct c_rp as (R1 & R2 & R3). destruct c_sp as (S1 & S2 & S3).
  destruct c_kw as (Knull & Kcd & Kct & Kcts & _ & _ & _ & Knil).
  induction e as [c|es IH|x IH|f args IH|l op r IHl IHr|op q|v|vs|s|s es IH|k|ty x IH|whens els IHw IHe|v]
    using (expr_ind' Q); intros Hp; cbn [expr_plain] in Hp; (split; [|try exact I]).
  - (* column *) intros common. cbn [RenderExpr.rexpr]. apply G_colref.
  - (* tuple *) intros common. cbn [RenderExpr.rexpr]. unfold ws. apply G_pre; [|exact L1|exact L2].
    apply G_post; [|exact R1|exact R3]. apply G_sepby.
    rewrite forallb_forall in Hp. rewrite Forall_forall in IH. apply Forall_forall. intros sc Hin.
    apply in_map_iff in Hin as [e0 [<- Hin]]. apply (IH e0 Hin (Hp e0 Hin)).
  - (* not *) intros common. cbn [RenderExpr.rexpr]. unfold ws. cbn [app].
    change (WS (K "NOT") :: WS (K " ") :: ?Y) with ([WS (K "NOT")] ++ WS (K " ") :: Y).
    apply G_sandwich; [apply G_one, c_not|apply G_wrap, (IH Hp)|exact S1|exact S2|exact S3].
  - (* function *) intros common. cbn [RenderExpr.rexpr]. apply andb_prop in Hp as [Hf Ha]. unfold ws. cbn [app].
    apply G_sandwich; [|apply G_post; [|exact R1|exact R3]|exact L1|exact L2|exact L3].
    + unfold rfunc_name. destruct f; try (apply G_opt_text; intros s0 Hs0; eapply HT_func; exact Hs0).
      apply G_one. exact Hf.
    + apply G_sepby. rewrite forallb_forall in Ha. rewrite Forall_forall in IH. apply Forall_forall. intros sc Hin.
      apply in_map_iff in Hin as [a [<- Hin]]. destruct c_distinct as (D1 & D2).
      destruct (fst a); cbn [app]; [unfold ws; apply G_pre; [|exact D1|exact D2]|];
        apply (IH a Hin (Ha a Hin)).
  - (* binary *) apply andb_prop in Hp as [Hp Hr]. apply andb_prop in Hp as [Hop Hl].
    assert (Hop' := Hop).
    destruct (IHl Hl) as [Gl _]. destruct (IHr Hr) as [Gr Gr2].
    intros common. cbn [RenderExpr.rexpr].
    destruct (is_empty_in Q op r).
    + destruct c_int as [I1 I2]. destruct op; apply G_binary_expr; try reflexivity; apply G_one; assumption.
    + apply G_binary_expr; [exact Hop'|apply Gl|].
      destruct r as [| | | |lo o hi| | | | | | | | |]; try apply Gr.
      destruct o; try apply Gr. destruct (is_between op); [|apply Gr].
      destruct Gr2 as [Glo Ghi]. unfold between_bounds, ws. cbn [app]. destruct c_and as (A1 & A2 & A3).
      apply G_sandwich; [apply G_wrap, Glo|apply G_wrap, Ghi|exact A1|exact A2|exact A3].
  - (* binary, second component *) apply andb_prop in Hp as [Hp Hr]. apply andb_prop in Hp as [Hop Hl].
    split; [apply (IHl Hl)|apply (IHr Hr)].
  - (* sub-query *) intros common. cbn [RenderExpr.rexpr]. unfold ws. cbn [app].
    apply G_sandwich; [|apply G_post; [apply Hrq, Hp|exact R1|exact R3]|exact L1|exact L2|exact L3].
    destruct op as [o|]; [|apply G_nil]. apply G_opt_text. intros s0 Hs0. eapply HT_sq; exact Hs0.
  - (* value *) intros common. cbn [RenderExpr.rexpr]. apply G_one. exact Hp.
  - (* values *) intros common. cbn [RenderExpr.rexpr]. unfold ws. apply G_pre; [|exact L1|exact L2].
    apply G_post; [|exact R1|exact R3]. apply G_sepby. apply Forall_forall. intros sc Hin.
    apply in_map_iff in Hin as [v0 [<- Hv0]]. apply G_one. rewrite forallb_forall in Hp. now apply Hp.
  - (* custom *) intros common. cbn [RenderExpr.rexpr]. apply G_one. exact Hp.
  - discriminate Hp.
  - (* keyword *) intros common. cbn [RenderExpr.rexpr].
    destruct k; cbn [rkeyword]; apply G_one; unfold ws;
      [exact Knull|exact Kcd|exact Kct|exact Kcts|exact Hp].
  - (* as enum *) intros common. cbn [RenderExpr.rexpr]. destruct (IH Hp) as [Gx _].
    apply G_match_b; [|apply Gx].
    destruct c_cast as (C1 & C2). destruct c_as as (A1 & A2 & A3). destruct c_brackets as (B1 & B2 & B3).
    destruct (ends_with_brackets ty) as [t'|]; unfold ws; cbn [app].
    + apply G_pre; [|exact C1|exact C2]. apply G_sandwich; [apply Gx| |exact A1|exact A2|exact A3].
      change (WId t' :: WS (K "[]") :: [WS (K ")")]) with ([WId t'] ++ WS (K "[]") :: [WS (K ")")]).
      apply G_sandwich; [apply G_one, wid_lexes|apply G_one, R1|exact B1|exact B2|exact B3].
    + apply G_pre; [|exact C1|exact C2]. apply G_sandwich; [apply Gx| |exact A1|exact A2|exact A3].
      eapply (G_cons_safe (WId ty) _ 41); [apply wid_lexes| |reflexivity|reflexivity].
      unfold G, ExprSafeProofs.G. cbn [sc_okn]. unfold lexes, ExprSafeProofs.lexes in *. rewrite Knil, R1. reflexivity.
  - (* case *) intros common. cbn [RenderExpr.rexpr]. apply andb_prop in Hp as [Hw He].
    assert (HW : Forall (fun w : expr Q * expr Q => G (rexpr false (fst w)) /\ G (rexpr false (snd w))) whens).
    { rewrite forallb_forall in Hw. rewrite Forall_forall in IHw. apply Forall_forall. intros w Hin.
      destruct (IHw w Hin) as [I1 I2]. specialize (Hw w Hin). apply andb_prop in Hw as [H1 H2].
      split; [apply (I1 H1)|apply (I2 H2)]. }
    destruct (G_whens whens HW) as [GW FW]. cbn zeta in GW, FW.
    set (W := flat_map _ whens) in *.
    destruct c_else as (E1 & E2 & E3). destruct c_end as (N1 & N2 & N3).
    set (E := match els with Some x => [ws " ELSE "] ++ rexpr false x | None => [] end).
    assert (GE : G E /\ (E = [] \/ first_char E = Some 32)).
    { unfold E. destruct els as [x|]; [|split; [apply G_nil|now left]].
      split; [|right; reflexivity]. unfold ws. cbn [app]. apply G_pre; [apply (IHe He)|exact E1|exact E2]. }
    destruct GE as [GE FE].
    assert (GT : G (W ++ E ++ [ws " END)"]) /\ first_char (W ++ E ++ [ws " END)"]) = Some 32).
    { assert (GEN : G (E ++ [ws " END)"]) /\ first_char (E ++ [ws " END)"]) = Some 32).
      { split; [unfold ws; now apply G_post|]. destruct FE as [->|FE]; [reflexivity|].
        rewrite first_char_app, FE. reflexivity. }
      destruct GEN as [GEN FEN]. destruct FW as [->|FW]; [split; assumption|].
      split; [eapply G_app_safe; [exact GW|exact GEN|exact FEN|reflexivity]|].
      rewrite first_char_app, FW. reflexivity. }
    destruct GT as [GT FT]. cbn [app]. eapply G_cons_safe; [exact c_case|exact GT|exact FT|reflexivity].
  - (* constant *) intros common. cbn [RenderExpr.rexpr]. apply G_one. exact Hp.
Qed.

Theorem rexpr_good e common : expr_plain e = true -> G (rexpr common e).
Proof. intros H. apply (proj1 (rexpr_good_strong e H)). Qed.
End E.

(* ---------- the text-level theorem applies to every rendered expression ---------- *)
Section Top.
Variable ftext : bool -> N -> str.
Variable Q : Type.
Variable rq : Q -> script.
Variable is_alpha : N -> bool.
Variable b : backend.
Variable T : etables.

Definition spellings_lex : Prop :=
  (forall k s, t_binop T k = Some s -> text_lexes b s = true) /\
  (forall k s, t_func T k = Some s -> text_lexes b s = true) /\
  (forall k s, t_sqop T k = Some s -> text_lexes b s = true).

Theorem rendered_expression_is_locally_safe inl e common :
  spellings_lex -> (forall q, sc_ok ftext b inl (rq q) = true) ->
  expr_plain ftext Q b inl (fun _ => true) e = true ->
  sc_ok ftext b inl (rexpr Q rq is_alpha b T common e) = true.
Proof.
  intros (H1 & H2 & H3) Hq Hp.
  rewrite <- sc_okn_none. apply (rexpr_good ftext Q rq is_alpha b inl T (fun _ => true) H1 H2 H3); [|exact Hp].
  intros q _. unfold G. rewrite sc_okn_none. apply Hq.
Qed.

Theorem rendered_expression_is_separable e common :
  spellings_lex -> (forall q, sc_ok ftext b false (rq q) = true) ->
  expr_plain ftext Q b false (fun _ => true) e = true ->
  sc_ok ftext b false (rexpr Q rq is_alpha b T common e) = true /\
  params_sep ftext b (rexpr Q rq is_alpha b T common e) = true.
Proof.
  intros HT Hq Hp. pose proof (rendered_expression_is_locally_safe false e common HT Hq Hp) as Hg.
  split; [exact Hg|now apply sc_ok_params_sep].
Qed.

(* the inline SQL of to_string(): the literal of every value and constant of the tree must lex (expr_plain .. true) *)
Theorem rendered_expression_is_separable_inline e common :
  spellings_lex -> (forall q, sc_ok ftext b true (rq q) = true) ->
  expr_plain ftext Q b true (fun _ => true) e = true ->
  inline_sep ftext b (rexpr Q rq is_alpha b T common e) = true.
Proof.
  intros HT Hq Hp. apply sc_ok_inline_sep. now apply rendered_expression_is_locally_safe.
Qed.
End Top.

(* the spellings of a table built from rows (Model/ExprTablesInst.v mk_tables) lex when every row does *)
Require Import SQV.Model.ExprTablesInst.
Definition rows_lex (b : backend) (rows : list (N * option str)) : bool :=
  forallb (fun r => match snd r with
                    | Some s => text_lexes b s
                    | None => true
                    end) rows.
Lemma lookup_opt_lex b rows k s : rows_lex b rows = true -> lookup_opt rows k = Some s ->
  text_lexes b s = true.
Proof.
  unfold rows_lex, lookup_opt. intros H Hl. rewrite forallb_forall in H.
  destruct (find (fun r => fst r =? k) rows) as [r|] eqn:E; [|discriminate Hl].
  apply find_some in E as [Hin _]. specialize (H r Hin). now rewrite Hl in H.
Qed.
Lemma mk_tables_spellings_lex b paren lassoc binops funcs sqops :
  rows_lex b binops = true -> rows_lex b funcs = true -> rows_lex b sqops = true ->
  spellings_lex b (mk_tables paren lassoc binops funcs sqops).
Proof.
  intros H1 H2 H3. unfold spellings_lex. cbn [mk_tables t_binop t_func t_sqop].
  split; [|split]; intros k s Hs.
  - exact (lookup_opt_lex b binops k s H1 Hs).
  - exact (lookup_opt_lex b funcs k s H2 Hs).
  - exact (lookup_opt_lex b sqops k s H3 Hs).
Qed.
