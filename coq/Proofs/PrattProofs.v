Require Import SQV.Spec.Pratt.
From Coq Require Import List Arith Lia.
Import ListNotations.

Section Proofs.
Variables atom op : Type.
Variable prec rmin : op -> nat.
Variable notp : nat.
Hypothesis prec_le_rmin : forall o, prec o <= rmin o.
Variable paren_un : expr atom op -> bool.
Variable paren_l paren_r : op -> expr atom op -> bool.

Notation tok := (tok atom op).
Notation expr := (expr atom op).
Notation P := (P atom op prec rmin notp).
Notation L := (L atom op prec rmin notp).
Notation stops := (stops atom op prec).
Notation render := (render atom op paren_un paren_l paren_r).
Notation safe := (safe atom op prec rmin notp paren_un paren_l paren_r).
Notation nosteal := (nosteal atom op prec rmin notp paren_un paren_r).
Notation top_ok := (top_ok atom op prec notp).
Notation left_ok := (left_ok atom op prec rmin).
Notation wrap := (wrap atom op).

Lemma stops_mono k k' ts : k <= k' -> stops k ts -> stops k' ts.
Proof. destruct ts as [|[a| | |o|] ts]; cbn; auto. lia. Qed.

Lemma stops_TR k ts : stops k (TR atom op :: ts).
Proof. exact I. Qed.

Lemma top_ok_0 e : top_ok e 0.
Proof. destruct e; cbn; auto; lia. Qed.

(* if e is safe and can stand at level k, then anything the level-k loop would stop at is not
   absorbed into e *)
Lemma nosteal_of_level e : safe e -> forall k rest, top_ok e k -> stops k rest -> nosteal e rest.
Proof.
  induction e as [a|x IH|l IHl o r IHr]; intros Hs k rest Ht Hst; cbn [Pratt.nosteal]; [exact I| |].
  - cbn in Ht. destruct Hs as [Hsx Hp]. split; [eapply stops_mono; eauto|].
    destruct Hp as [Hp|Hp]; [now left|right]. apply (IH Hsx notp); [exact Hp|eapply stops_mono; eauto].
  - cbn in Ht. destruct Hs as (Hsl & Hsr & Hl & Hr).
    assert (Hk : k <= rmin o) by (specialize (prec_le_rmin o); lia).
    split; [eapply stops_mono; eauto|].
    destruct Hr as [Hr|Hr]; [now left|right]. apply (IHr Hsr (rmin o)); [exact Hr|eapply stops_mono; eauto].
Qed.

(* main lemma: render e, followed by rest, parses like `e` followed by rest *)
Lemma roundtrip e : safe e -> forall min rest e' rest',
  top_ok e min -> nosteal e rest -> L min e rest e' rest' -> P min (render e ++ rest) e' rest'.
Proof.
  induction e as [a|x IH|l IHl o r IHr]; intros Hs min rest e' rest' Ht Hn HL.
  - cbn. now constructor.
  - cbn [Pratt.render app]. destruct Hs as [Hsx Hp]. cbn in Ht. destruct Hn as [Hst Hnx].
    apply P_not with (x := x) (ts' := rest); [exact Ht| |exact HL].
    unfold Pratt.wrap. destruct (paren_un x) eqn:Epu.
    + cbn [app]. rewrite <- app_assoc. cbn [app].
      apply P_paren with (x := x) (ts' := rest).
      * apply IH; [exact Hsx|apply top_ok_0| |constructor; exact I].
        apply (nosteal_of_level x Hsx 0); [apply top_ok_0|exact I].
      * constructor. exact Hst.
    + destruct Hp as [Hp|Hp]; [congruence|]. destruct Hnx as [Hnx|Hnx]; [congruence|].
      apply IH; [exact Hsx|exact Hp|exact Hnx|constructor; exact Hst].
  - cbn [Pratt.render]. destruct Hs as (Hsl & Hsr & Hl & Hr). cbn in Ht. destruct Hn as [Hst Hnr].
    rewrite <- app_assoc. cbn [app].
    (* the parse of the right operand *)
    assert (HPr : P (rmin o) (wrap (paren_r o r) (render r) ++ rest) r rest).
    { unfold Pratt.wrap. destruct (paren_r o r) eqn:Epr.
      - cbn [app]. rewrite <- app_assoc. cbn [app].
        apply P_paren with (x := r) (ts' := rest).
        + apply IHr; [exact Hsr|apply top_ok_0| |constructor; exact I].
          apply (nosteal_of_level r Hsr 0); [apply top_ok_0|exact I].
        + constructor. exact Hst.
      - destruct Hr as [Hr|Hr]; [congruence|]. destruct Hnr as [Hnr|Hnr]; [congruence|].
        apply IHr; [exact Hsr|exact Hr|exact Hnr|constructor; exact Hst]. }
    (* the operator loop after the left operand *)
    assert (HLl : L min l (TO atom op o :: wrap (paren_r o r) (render r) ++ rest) e' rest').
    { apply L_op with (r := r) (ts' := rest); [exact Ht|exact HPr|exact HL]. }
    unfold Pratt.wrap at 1. destruct (paren_l o l) eqn:Epl.
    + cbn [app]. rewrite <- app_assoc. cbn [app].
      apply P_paren with (x := l) (ts' := TO atom op o :: wrap (paren_r o r) (render r) ++ rest).
      * apply IHl; [exact Hsl|apply top_ok_0| |constructor; exact I].
        apply (nosteal_of_level l Hsl 0); [apply top_ok_0|exact I].
      * exact HLl.
    + destruct Hl as [Hl|Hl]; [congruence|].
      apply IHl; [exact Hsl| | |exact HLl].
      * destruct l as [a|x|l1 o1 r1]; cbn in *; auto; [contradiction|lia].
      * destruct l as [a|x|l1 o1 r1]; cbn in Hl |- *; [exact I|contradiction|].
        destruct Hl as [Hl1 Hl2]. split; [cbn; exact Hl2|].
        destruct Hsl as (_ & Hsr1 & _ & Hr1).
        destruct Hr1 as [Hr1|Hr1]; [now left|right].
        apply (nosteal_of_level r1 Hsr1 (rmin o1)); [exact Hr1|cbn; exact Hl2].
Qed.

(* C05: for every tree (no bound on depth), if every parenthesis decision is locally safe then the
   rendering parses back to exactly the tree, whatever closes the expression afterwards *)
Theorem parse_render e rest : safe e -> stops 0 rest -> P 0 (render e ++ rest) e rest.
Proof.
  intros Hs Hst. apply roundtrip; [exact Hs|apply top_ok_0| |constructor; exact Hst].
  apply (nosteal_of_level e Hs 0); [apply top_ok_0|exact Hst].
Qed.

(* the grammar is deterministic: the engine has exactly one parse *)
Lemma P_L_det :
  (forall min ts e rest, P min ts e rest -> forall e2 rest2, P min ts e2 rest2 -> e = e2 /\ rest = rest2) /\
  (forall min lhs ts e rest, L min lhs ts e rest -> forall e2 rest2, L min lhs ts e2 rest2 -> e = e2 /\ rest = rest2).
Proof.
  apply (P_L_mutind atom op prec rmin notp
    (fun min ts e rest => forall e2 rest2, P min ts e2 rest2 -> e = e2 /\ rest = rest2)
    (fun min lhs ts e rest => forall e2 rest2, L min lhs ts e2 rest2 -> e = e2 /\ rest = rest2)).
  - intros min a ts e rest _ IH e2 rest2 H2. inversion H2; subst. now apply IH.
  - intros min ts x ts' e rest _ IH1 _ IH2 e2 rest2 H2. inversion H2; subst.
    match goal with H : P 0 ts _ (TR _ _ :: _) |- _ => destruct (IH1 _ _ H) as [-> E] end.
    injection E as ->. now apply IH2.
  - intros min ts x ts' e rest _ _ IH1 _ IH2 e2 rest2 H2. inversion H2; subst.
    match goal with H : P notp ts _ _ |- _ => destruct (IH1 _ _ H) as [-> ->] end.
    now apply IH2.
  - intros min lhs ts Hst e2 rest2 H2. inversion H2; subst; [auto|].
    cbn in Hst. lia.
  - intros min lhs o ts r ts' e rest Hle _ IH1 _ IH2 e2 rest2 H2. inversion H2; subst.
    + match goal with H : stops _ (TO _ _ _ :: _) |- _ => cbn in H; lia end.
    + match goal with H : P (rmin o) ts _ _ |- _ => destruct (IH1 _ _ H) as [-> ->] end.
      now apply IH2.
Qed.

Theorem parse_unique min ts e rest e2 rest2 :
  P min ts e rest -> P min ts e2 rest2 -> e = e2 /\ rest = rest2.
Proof. intros H1 H2. exact (proj1 P_L_det _ _ _ _ H1 _ _ H2). Qed.
End Proofs.
