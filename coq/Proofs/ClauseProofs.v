(* C07 / C08: the clauses a statement emits are exactly the ones given, once each, in the order the
   dialect's grammar requires. *)
Require Import SQV.Model.Str SQV.Model.Escape SQV.Model.Value SQV.Model.Expr SQV.Model.Cond SQV.Model.Stmt
  SQV.Model.Writer SQV.Model.RenderExpr SQV.Model.RenderStmt SQV.Spec.ClauseOrder.
From Coq Require Import Arith Lia String.
Open Scope list_scope.
Open Scope nat_scope.

(* ---- generic: a sub-sequence (filter) of an increasing sequence is increasing ---- *)
Definition le_opt (p q : option nat) : Prop :=
  match p, q with None, _ => True | Some x, Some y => x <= y | Some _, None => False end.

Lemma increasing_weaken pos ks : forall p q, le_opt p q ->
  increasing pos q ks = true -> increasing pos p ks = true.
Proof.
  destruct ks as [|k t]; intros p q Hpq H; [reflexivity|]. cbn [increasing] in *.
  destruct (pos k) as [n|]; [|discriminate]. apply andb_prop in H as [H1 H2]. rewrite H2, andb_true_r.
  destruct p as [x|]; [|reflexivity]. destruct q as [y|]; [|contradiction].
  cbn in Hpq. apply Nat.ltb_lt in H1. apply Nat.ltb_lt. lia.
Qed.

Lemma increasing_filter pos f ks : forall prev,
  increasing pos prev ks = true -> increasing pos prev (filter f ks) = true.
Proof.
  induction ks as [|k t IH]; intros prev H; [reflexivity|]. cbn [filter increasing] in *.
  destruct (pos k) as [n|] eqn:Ek; [|discriminate]. apply andb_prop in H as [H1 H2].
  destruct (f k).
  - cbn [increasing]. rewrite Ek, H1. cbn [andb]. now apply IH.
  - apply IH. apply (increasing_weaken pos t prev (Some n)); [|exact H2].
    destruct prev as [p|]; cbn; [apply Nat.ltb_lt in H1; lia|exact I].
Qed.

Lemma respects_filter pos f ks : respects pos ks = true -> respects pos (filter f ks) = true.
Proof. apply increasing_filter. Qed.

(* ---- a clause that was not given renders nothing (so the statement is the concatenation of the
        given clauses only) ---- *)
Section R.
Variable is_alpha : N -> bool.
Variable b : backend.
Variable T : etables.
Variable rq : query -> script.

Lemma sel_absent_empty s k : sel_present s k = false -> sel_clause is_alpha b T rq s k = [].
Proof.
  destruct s as [distinct selects from joins where_ groups having unions orders limit offset lock window with_ sample hints].
  destruct k; cbn [sel_present sel_clause]; try reflexivity; try discriminate.
  - destruct with_; [discriminate|reflexivity].
  - destruct from; [reflexivity|discriminate].
  - destruct joins; [reflexivity|discriminate].
  - destruct where_; [reflexivity|discriminate|discriminate].
  - destruct groups; [reflexivity|discriminate].
  - destruct having; [reflexivity|discriminate|discriminate].
  - destruct unions; [reflexivity|discriminate].
  - destruct orders; [reflexivity|discriminate].
  - destruct limit; [discriminate|reflexivity].
  - destruct offset; [discriminate|reflexivity].
  - destruct lock; [discriminate|reflexivity].
  - destruct window as [[? ?]|]; [discriminate|reflexivity].
Qed.

Lemma flat_map_filter_empty {A} (f : A -> script) (p : A -> bool) (l : list A) :
  (forall x, p x = false -> f x = []) -> flat_map f l = flat_map f (filter p l).
Proof.
  intros H. induction l as [|x l IH]; [reflexivity|]. cbn [flat_map filter].
  destruct (p x) eqn:E; cbn [flat_map]; [now rewrite IH|]. now rewrite (H x E), IH.
Qed.

(* the SELECT rendering is the concatenation of exactly the given clauses, in render order *)
Theorem rselect_given_clauses s :
  rselect is_alpha b T rq s =
  flat_map (sel_clause is_alpha b T rq s) (filter (sel_present s) sel_render_order).
Proof. unfold rselect. apply flat_map_filter_empty. apply sel_absent_empty. Qed.
End R.

(* ---- the emitted clause kinds respect each dialect's grammar ---- *)
Definition sel_emitted (s : select) : list ckind := filter (sel_present s) sel_render_order.

(* without the named WINDOW clause (known finding F6) and, on SQLite, without a lock clause (which
   SQLite does not have and the backend drops) *)
Definition no_window (s : select) : bool := negb (sel_present s KWindow).
Definition no_lock (s : select) : bool := negb (sel_present s KLock).

Lemma filter_filter {A} (p q : A -> bool) l : filter p (filter q l) = filter (fun x => p x && q x) l.
Proof.
  induction l as [|x l IH]; [reflexivity|]. cbn [filter]. destruct (q x) eqn:Eq; cbn [filter].
  - rewrite andb_true_r. destruct (p x); now rewrite IH.
  - rewrite andb_false_r. exact IH.
Qed.

Definition ckind_eqb (a c : ckind) : bool :=
  match a, c with
  | KWith, KWith | KHead, KHead | KFrom, KFrom | KJoins, KJoins | KWhere, KWhere | KGroupBy, KGroupBy
  | KHaving, KHaving | KCompound, KCompound | KOrderBy, KOrderBy | KLimit, KLimit | KOffset, KOffset
  | KLock, KLock | KWindow, KWindow | KSet, KSet | KUpdJoin, KUpdJoin | KUpdFrom, KUpdFrom
  | KReturning, KReturning | KSource, KSource | KOnConflict, KOnConflict => true
  | _, _ => false
  end.

Lemma filter_absent (p : ckind -> bool) (k0 : ckind) l :
  p k0 = false -> (forall k, ckind_eqb k k0 = true -> k = k0) ->
  filter p l = filter p (filter (fun k => negb (ckind_eqb k k0)) l).
Proof.
  intros Hp Heq. rewrite filter_filter. apply filter_ext. intros k.
  destruct (ckind_eqb k k0) eqn:E; cbn [negb]; [|now rewrite andb_true_r].
  rewrite (Heq k E), Hp. reflexivity.
Qed.

Lemma ckind_eqb_eq k k0 : ckind_eqb k k0 = true -> k = k0.
Proof. destruct k, k0; cbn; congruence. Qed.

Theorem select_order_mysql_postgres b s : b <> SQLite -> no_window s = true ->
  respects (select_pos b) (sel_emitted s) = true.
Proof.
  intros Hb Hw. unfold sel_emitted, no_window in *. apply negb_true_iff in Hw.
  rewrite (filter_absent _ KWindow _ Hw (fun k => ckind_eqb_eq k KWindow)).
  apply respects_filter. destruct b; [reflexivity|reflexivity|contradiction].
Qed.

Theorem select_order_sqlite s : no_window s = true -> no_lock s = true ->
  respects (select_pos SQLite) (sel_emitted s) = true.
Proof.
  intros Hw Hl. unfold sel_emitted, no_window, no_lock in *.
  apply negb_true_iff in Hw. apply negb_true_iff in Hl.
  rewrite (filter_absent _ KWindow _ Hw (fun k => ckind_eqb_eq k KWindow)).
  rewrite (filter_absent _ KLock _ Hl (fun k => ckind_eqb_eq k KLock)).
  apply respects_filter. reflexivity.
Qed.

(* the known finding: with a named window the clause order violates every dialect's grammar *)
Theorem select_order_refuted_by_window b : exists s, respects (select_pos b) (sel_emitted s) = false.
Proof.
  exists (Select None [] [] [] HEmpty [] HEmpty [] []
            (Some (V TInt (Some (PInt 1%Z)))) None None (Some ([119%N], Window [] [] None)) None None []).
  destruct b; reflexivity.
Qed.

(* INSERT / UPDATE / DELETE: every clause the dialect has is in grammar order; the clauses a dialect
   does not have are exactly the ones its backend renders as nothing *)
Definition dialect_has (pos : ckind -> option nat) (k : ckind) : bool :=
  match pos k with Some _ => true | None => false end.

Theorem insert_order b : respects (insert_pos b) (filter (dialect_has (insert_pos b)) ins_render_order) = true.
Proof. destruct b; reflexivity. Qed.
Theorem update_order b : respects (update_pos b) (filter (dialect_has (update_pos b)) upd_render_order) = true.
Proof. destruct b; reflexivity. Qed.
Theorem delete_order b : respects (delete_pos b) (filter (dialect_has (delete_pos b)) del_render_order) = true.
Proof. destruct b; reflexivity. Qed.

Section Drops.
Variable is_alpha : N -> bool.
Variable T : etables.
Variable rq : query -> script.

(* what MySQL has no syntax for is rendered as nothing: RETURNING, UPDATE..FROM (it uses JOIN) *)
Theorem mysql_renders_no_returning i u d :
  ins_clause is_alpha MySQL T rq i KReturning = [] /\
  upd_clause is_alpha MySQL T rq u KReturning = [] /\
  upd_clause is_alpha MySQL T rq u KUpdFrom = [] /\
  del_clause is_alpha MySQL T rq d KReturning = [].
Proof.
  destruct i, u, d. cbn [ins_clause upd_clause del_clause]. unfold rreturning. repeat split; reflexivity.
Qed.

(* Postgres and SQLite have no UPDATE..JOIN form *)
Theorem only_mysql_renders_update_join b u : b <> MySQL -> upd_clause is_alpha b T rq u KUpdJoin = [].
Proof. intros Hb. destruct u, b; [contradiction|reflexivity|reflexivity]. Qed.
End Drops.

(* non-vacuity *)
Example order_example :
  sel_emitted (Select (Some DDistinct) [] [TPlain (TRTable [116%N])] [] HEmpty [] HEmpty [] []
                 (Some (V TInt (Some (PInt 1%Z)))) None None None None None [])
  = [KHead; KFrom; KLimit].
Proof. reflexivity. Qed.

(* ---- C08: dialect-specific constructs appear only in their own dialect ---- *)
Section Dialect.
Variable is_alpha : N -> bool.
Variable T : etables.
Variable rq : query -> script.

Theorem index_hints_only_mysql b hs : b <> MySQL -> rhints b hs = [].
Proof. destruct b; [contradiction|reflexivity|reflexivity]. Qed.

Theorem distinct_on_only_postgres b cols : b <> Postgres -> rdistinct b (DDistinctOn cols) = [].
Proof. destruct b; [reflexivity|contradiction|reflexivity]. Qed.

Theorem distinctrow_only_mysql b : b <> MySQL -> rdistinct b DDistinctRow = [].
Proof. destruct b; [contradiction|reflexivity|reflexivity]. Qed.

Theorem table_sample_only_postgres b smp : b <> Postgres -> rsample b smp = [].
Proof. destruct b; [reflexivity|contradiction|reflexivity]. Qed.

Theorem lock_clause_not_on_sqlite l : rlock is_alpha SQLite T rq l = [].
Proof. reflexivity. Qed.

(* VALUES ROW(..) is MySQL's form, VALUES (..) the others' *)
Theorem values_row_prefix b row : 
  rvalues_list b [row] =
  wss "VALUES " ++ (match b with MySQL => wss "ROW" | _ => [] end) ++ wss "(" ++
  sep_by comma (map (fun v => [WVal v]) row) ++ wss ")".
Proof. destruct b; reflexivity. Qed.

(* upsert keywords *)
Theorem upsert_keywords b targets tw action aw :
  exists rest,
  ronconflict is_alpha b T rq (Some (OnConflict targets tw action aw)) =
  (match b with MySQL => wss " ON DUPLICATE KEY" | _ => wss " ON CONFLICT " end) ++ rest.
Proof. unfold ronconflict. eexists. reflexivity. Qed.

(* MySQL has no conflict target and no conflict WHEREs: they are not rendered *)
Theorem mysql_upsert_has_no_target_or_where targets tw action aw :
  ronconflict is_alpha MySQL T rq (Some (OnConflict targets tw action aw)) =
  wss " ON DUPLICATE KEY" ++ roc_action is_alpha MySQL T rq action.
Proof. unfold ronconflict. now rewrite !app_nil_r. Qed.

(* NULLS FIRST / LAST: native on Postgres and SQLite, emulated with IS NULL on MySQL *)
Theorem nulls_ordering_form b e o n :
  rorder is_alpha b T rq (OrderExpr e o (Some n)) =
  match b with
  | MySQL =>
      rex is_alpha b T rq (EBinary e BIs (EKeyword KwNull)) ++ (match n with NLast => wss " ASC, " | NFirst => wss " DESC, " end) ++
      rorder is_alpha b T rq (OrderExpr e o None)
  | _ =>
      rorder is_alpha b T rq (OrderExpr e o None) ++
      (match n with NLast => wss " NULLS LAST" | NFirst => wss " NULLS FIRST" end)
  end.
Proof.
  destruct b, n; cbn [rorder]; rewrite ?app_nil_r, ?app_nil_l, <- ?app_assoc; reflexivity.
Qed.

(* set operations: operands in parentheses on MySQL / Postgres, bare on SQLite *)
Theorem set_operation_form b ut s :
  exists kw, runion b rq (ut, s) =
  match b with
  | SQLite => wss kw ++ rq (QSelect s)
  | _ => wss kw ++ wss "(" ++ rq (QSelect s) ++ wss ")"
  end.
Proof. unfold runion. cbn [fst snd]. destruct b; eexists; reflexivity. Qed.

(* SEARCH / CYCLE only on Postgres; MATERIALIZED not on MySQL *)
Theorem search_cycle_only_postgres b rc search cycle ctes : b <> Postgres ->
  rwith is_alpha b T rq (WithClause rc search cycle ctes) =
  rwith is_alpha b T rq (WithClause rc None None ctes).
Proof. intros Hb. destruct b; [|contradiction|]; destruct rc; reflexivity. Qed.
End Dialect.
