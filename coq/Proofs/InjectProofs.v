(* C11, second half: inject_parameters(build(s)) is the inline form of s - under lexical separability.

   Let ps be the pieces of a writer script (text pieces and numbered holes, Proofs/WriterProofs.v): the
   parameterised SQL is flatten_params ps, the inline SQL is flatten_inline params ps
   (C02_inline_is_params_substituted).  inject_parameters tokenizes the parameterised SQL with the crate's
   own tokenizer and substitutes the values for the placeholder tokens.  If that token stream is the
   piecewise one - every text piece contributes tokens that spell exactly its text and contain no mark
   token, every hole contributes its placeholder token(s) - then inject_parameters returns exactly the
   inline SQL (inject_gives_inline).  The hypothesis is what the known findings F16 / F28 violate: there
   a quoted literal is mis-lexed by the generic tokenizer and swallows the text that follows. *)
Require Import SQV.Model.Str SQV.Model.Escape SQV.Model.Value SQV.Model.Token SQV.Model.Writer
  SQV.Model.RenderExpr SQV.Model.Inject SQV.Spec.Template SQV.Proofs.WriterProofs SQV.Proofs.TemplateProofs.
From Coq Require Import Lia.

Section I.
Variable ftext : bool -> N -> str.
Variable is_alpha : N -> bool.
Variable b : backend.
Variable params : list value.

Notation ph := (fst (placeholder b)).
Notation numbered := (snd (placeholder b)).
Notation piece := WriterProofs.piece.

(* the tokens a piece contributes *)
Inductive ptoks : piece -> list token -> Prop :=
| pt_text s tt : concat (map text tt) = s -> forallb (fun t => negb (is_mark ph t)) tt = true ->
    ptoks (PText s) tt
| pt_pos n : numbered = false -> ptoks (PHole n) [Punct ph]
| pt_num n d : numbered = true -> parse_usize d = Some n -> ptoks (PHole n) [Punct ph; Unquoted d].

Inductive all_ptoks : list piece -> list token -> Prop :=
| ap_nil : all_ptoks [] []
| ap_cons p tt ps ts : ptoks p tt -> all_ptoks ps ts -> all_ptoks (p :: ps) (tt ++ ts).

Lemma str_eqb_refl s : str_eqb s s = true.
Proof. induction s as [|c s IH]; [reflexivity|]. cbn. now rewrite N.eqb_refl, IH. Qed.

(* text tokens are copied *)
Lemma inject_text_tokens tt : forallb (fun t => negb (is_mark ph t)) tt = true ->
  forall ts count out, inject_loop ftext b params ts count = Ok out ->
  inject_loop ftext b params (tt ++ ts) count = Ok (concat (map text tt) ++ out).
Proof.
  induction tt as [|t tt IH]; intros Hm ts count out Hts; [exact Hts|].
  cbn [forallb] in Hm. apply andb_prop in Hm as [Ht Hm]. apply negb_true_iff in Ht.
  cbn [app map concat inject_loop]. destruct (placeholder b) as [p nb] eqn:Eph. cbn [fst snd] in *.
  specialize (IH Hm ts count out Hts).
  destruct t as [q|u|sp|m]; cbn [text]; try (rewrite IH; cbn [rmap]; now rewrite <- app_assoc).
  cbn [is_mark] in Ht. rewrite Ht. cbn [andb]. rewrite IH. cbn [rmap]. now rewrite <- app_assoc.
Qed.

Theorem inject_pieces ps ts : all_ptoks ps ts -> forall count,
  (numbered = false -> holes ps = map N.of_nat (seq (S count) (length (holes ps)))) ->
  (forall n, In n (holes ps) -> n <> 0 /\ (N.to_nat n <= length params)%nat) ->
  inject_loop ftext b params ts count = Ok (flatten_inline ftext b params ps).
Proof.
  induction 1 as [|p tt ps ts Hp Hall IH]; intros count Hord Hrange; [reflexivity|].
  destruct Hp as [s tt Hs Hm|n Hn|n d Hn Hd].
  - (* text piece *)
    cbn [flatten_inline flat_map]. rewrite <- Hs.
    apply inject_text_tokens; [exact Hm|]. apply IH; [exact Hord|exact Hrange].
  - (* positional hole: the count-th value *)
    cbn [holes flat_map app length] in Hord, Hrange. specialize (Hord Hn). cbn [seq map] in Hord.
    injection Hord as En Hrest.
    assert (Hr : n <> 0 /\ (N.to_nat n <= length params)%nat) by (apply Hrange; now left).
    cbn [app inject_loop]. destruct (placeholder b) as [p nb] eqn:Eph. cbn [fst snd] in *. subst nb.
    rewrite str_eqb_refl. cbn [andb negb].
    assert (Ec : count = N.to_nat (n - 1)) by (subst n; lia).
    destruct (nth_error params count) as [v|] eqn:Ev.
    + rewrite (IH (S count)); [|intros _; exact Hrest|intros m Hin; apply Hrange; now right].
      cbn [rmap flatten_inline flat_map]. rewrite <- Ec, Ev. reflexivity.
    + exfalso. apply nth_error_None in Ev. lia.
  - (* numbered hole: the n-th value *)
    assert (Hr : n <> 0 /\ (N.to_nat n <= length params)%nat) by (apply Hrange; cbn; now left).
    cbn [app inject_loop]. destruct (placeholder b) as [p nb] eqn:Eph. cbn [fst snd] in *. subst nb.
    rewrite str_eqb_refl. cbn [andb negb]. rewrite Hd.
    destruct (n =? 0) eqn:E0; [apply N.eqb_eq in E0; destruct Hr; contradiction|].
    destruct (nth_error params (N.to_nat (n - 1))) as [v|] eqn:Ev.
    + rewrite (IH count); [|intros Hf; discriminate Hf|intros m Hin; apply Hrange; cbn; now right].
      cbn [rmap flatten_inline flat_map]. rewrite Ev. reflexivity.
    + exfalso. apply nth_error_None in Ev. destruct Hr. lia.
Qed.

(* inject_parameters on the parameterised SQL of a script gives its inline SQL, when the tokenizer reads
   the parameterised SQL piece by piece *)
Theorem inject_gives_inline (sc : script) sql vals inl ts :
  emit_params ftext b sc = Ok (sql, vals) -> emit_inline ftext b sc = Ok inl -> vals = params ->
  tokenize is_alpha sql = Some ts -> all_ptoks (pieces ftext b sc) ts ->
  inject_parameters ftext is_alpha b sql params = Ok inl.
Proof.
  intros Hp Hi Hv Htok Hall. subst vals.
  destruct (push_param_invariant ftext b sc sql params Hp) as (Esql & Evals & Eholes).
  destruct (inline_is_params_substituted ftext b sc inl sql params Hi Hp) as [Einl _].
  unfold inject_parameters. rewrite Htok. rewrite Einl.
  apply inject_pieces; [exact Hall| |].
  - intros _. rewrite Eholes. now rewrite map_length, seq_length.
  - intros n Hin. rewrite Eholes in Hin. apply in_map_iff in Hin as [k [<- Hk]]. apply in_seq in Hk.
    split; lia.
Qed.
End I.
