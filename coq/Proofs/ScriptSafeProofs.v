(* sc_ok (local, compositional; Spec/ScriptSafe.v) implies params_sep (Spec/EngScript.v): the text-level theorem of
   C01 then applies.  Also: the decimal text of a number reads back as that number, so that on Postgres the
   n-th hole is read as placeholder number n. *)
Require Import SQV.Model.Str SQV.Model.Escape SQV.Model.Value SQV.Model.Literal SQV.Model.Writer
  SQV.Spec.EngLex SQV.Spec.EngTok SQV.Spec.EngBoundary SQV.Proofs.WriterProofs SQV.Spec.EngScript
  SQV.Spec.ScriptSafe SQV.Proofs.EngTokProofs SQV.Proofs.EngLiteralTokProofs.
From Coq Require Import Lia.

(* ---------- decimal texts ---------- *)
Definition dstep (a d : N) : N := a * 10 + (d - 48).

Lemma dec_digits_value fuel : forall n acc a, n < 10 ^ N.of_nat fuel ->
  exists k, fold_left dstep (dec_digits_fuel fuel n acc) a = fold_left dstep acc (a * 10 ^ k + n).
Proof.
  induction fuel as [|f IH]; intros n acc a Hn.
  - cbn in Hn. assert (n = 0) by lia. subst n. exists 0. cbn [dec_digits_fuel]. f_equal. cbn. lia.
  - cbn [dec_digits_fuel].
    assert (Hdm : n = 10 * (n / 10) + n mod 10) by (apply N.div_mod; lia).
    assert (Hm : n mod 10 < 10) by (apply N.mod_lt; lia).
    destruct (n / 10 =? 0) eqn:Ez.
    + apply N.eqb_eq in Ez. exists 1. cbn [fold_left]. unfold dstep at 2. f_equal.
      rewrite N.pow_1_r. rewrite Ez in Hdm. generalize dependent (n mod 10). intros m Hdm Hm. lia.
    + assert (Hq : n / 10 < 10 ^ N.of_nat f).
      { apply N.div_lt_upper_bound; [lia|]. rewrite Nat2N.inj_succ, N.pow_succ_r' in Hn. lia. }
      destruct (IH (n / 10) ((48 + n mod 10) :: acc) a Hq) as [k Hk]. exists (N.succ k).
      rewrite Hk. cbn [fold_left]. unfold dstep at 2. f_equal. rewrite N.pow_succ_r'.
      generalize dependent (n mod 10). generalize dependent (n / 10). intros q Ez Hq Hk m Hdm Hm.
      generalize (10 ^ k). intros pk. nia.
Qed.

Lemma dec_of_N_value n : fold_left dstep (dec_of_N n) 0 = n.
Proof.
  unfold dec_of_N.
  assert (Hn : n < 10 ^ N.of_nat (S (N.to_nat (N.log2 n)))).
  { rewrite Nat2N.inj_succ, N2Nat.id. destruct n as [|p]; [reflexivity|].
    pose proof (N.log2_spec (N.pos p) ltac:(lia)) as [_ H2].
    eapply N.lt_le_trans; [exact H2|]. apply N.pow_le_mono_l. lia. }
  destruct (dec_digits_value _ n [] 0 Hn) as [k Hk]. rewrite Hk. cbn. lia.
Qed.

Lemma dec_digits_fuel_digits fuel : forall n acc, forallb is_digit acc = true ->
  forallb is_digit (dec_digits_fuel fuel n acc) = true.
Proof.
  induction fuel as [|f IH]; intros n acc Ha; [exact Ha|]. cbn [dec_digits_fuel].
  assert (Hd : is_digit (48 + n mod 10) = true).
  { pose proof (N.mod_lt n 10 ltac:(lia)) as Hm. generalize dependent (n mod 10). intros m Hm.
    unfold is_digit. apply andb_true_intro. split; apply N.leb_le; lia. }
  destruct (n / 10 =? 0); [cbn [forallb]; now rewrite Hd|]. apply IH. cbn [forallb]. now rewrite Hd.
Qed.
Lemma dec_of_N_digits' n : forallb is_digit (dec_of_N n) = true.
Proof. apply dec_digits_fuel_digits. reflexivity. Qed.
Lemma dec_digits_fuel_nonempty fuel : forall n acc, acc <> [] -> dec_digits_fuel fuel n acc <> [].
Proof.
  induction fuel as [|f IH]; intros n acc Ha; [exact Ha|]. cbn [dec_digits_fuel].
  destruct (n / 10 =? 0); [discriminate|]. apply IH. discriminate.
Qed.
Lemma dec_of_N_nonempty' n : dec_of_N n <> [].
Proof.
  unfold dec_of_N. cbn [dec_digits_fuel]. destruct (n / 10 =? 0); [discriminate|].
  apply dec_digits_fuel_nonempty. discriminate.
Qed.

(* ---------- a hole is read as exactly its placeholder ---------- *)
Lemma span_all_nil p s : forallb p s = true -> span p s = (s, []).
Proof.
  intros H. pose proof (span_all p s [] H) as E. rewrite app_nil_r in E. cbn in E. now rewrite app_nil_r in E.
Qed.

Lemma next_etok_pg_dollar t : next_etok Postgres (36 :: t) =
  let (ds, r) := span is_digit t in
  if is_nil ds then None else if starts_with_word_char r then None
  else Some (TkParam (fold_left dstep ds 0), r).
Proof. reflexivity. Qed.

Lemma hole_lexes b n : eng_tokens b (hole_text b n) = Some [TkParam (hole_no b n)].
Proof.
  destruct b; try reflexivity. unfold hole_text, hole_no. cbn [placeholder fst snd app].
  apply eng_tokens_single; [reflexivity|]. rewrite next_etok_pg_dollar.
  rewrite (span_all_nil is_digit _ (dec_of_N_digits' n)).
  pose proof (dec_of_N_nonempty' n) as H0. destruct (dec_of_N n) as [|d t] eqn:E; [contradiction|].
  cbn [is_nil starts_with_word_char]. rewrite <- E. now rewrite dec_of_N_value.
Qed.

Lemma follow_ws t c : is_ws c = true -> follow_char_ok t c = true.
Proof.
  unfold is_ws. intros H.
  repeat match type of H with (_ || _) = true => apply orb_prop in H as [H|H] end;
    apply N.eqb_eq in H; subst c; destruct t as [| | | | | | |p]; try reflexivity; cbn; destruct (p =? 46); reflexivity.
Qed.

Lemma rstrip_noblank s : (forall c, In c s -> is_ws c = false) -> s <> [] -> rstrip s = (s, []).
Proof.
  intros H Hne. unfold rstrip.
  destruct (rev s) as [|c r] eqn:E.
  - apply (f_equal (@rev N)) in E. rewrite rev_involutive in E. cbn in E. contradiction.
  - cbn [span]. rewrite (H c); [|apply in_rev; rewrite E; now left].
    rewrite <- E, rev_involutive. reflexivity.
Qed.

Section S.
Variable ftext : bool -> N -> str.
Variable b : backend.

Notation tok_text := (tok_text ftext b false).
Notation sc_ok := (sc_ok ftext b false).

(* pieces with an explicit starting counter *)
Fixpoint pieces_from (c : N) (sc : script) : list piece :=
  match sc with
  | [] => []
  | t :: r =>
      match t with
      | WS s | WCust s => PText s :: pieces_from c r
      | WId s => PText (iden_prepare (quote_char b) s) :: pieces_from c r
      | WVal _ => PHole (c + 1) :: pieces_from (c + 1) r
      | WConst v => PText (value_to_string ftext b v) :: pieces_from c r
      | WPanic => pieces_from c r
      end
  end.

Lemma pieces_fold sc : forall c ps,
  fold_left (pieces_tok ftext b) sc (c, ps) = (fst (fold_left (pieces_tok ftext b) sc (c, ps)), ps ++ pieces_from c sc).
Proof.
  induction sc as [|t r IH]; intros c ps; cbn [fold_left pieces_from]; [now rewrite app_nil_r|].
  destruct t; cbn [pieces_tok]; rewrite IH; cbn [fst snd]; rewrite <- ?app_assoc; reflexivity.
Qed.
Lemma pieces_eq sc : pieces ftext b sc = pieces_from 0 sc.
Proof. unfold pieces. now rewrite pieces_fold. Qed.

Lemma mark_shape : exists m, fst (placeholder b) = [m] /\ is_ws m = false /\
  forall n, exists x, hole_text b n = m :: x.
Proof.
  destruct b; [exists 63|exists 36|exists 63]; (split; [reflexivity|split; [reflexivity|]]);
    intros n; eexists; reflexivity.
Qed.

(* the first character of the text the rest of the script writes *)
Lemma first_char_concat sc : forall c,
  match first_char ftext b false sc with
  | Some f => exists x, concat (texts_params b (pieces_from c sc)) = f :: x
  | None => concat (texts_params b (pieces_from c sc)) = []
  end.
Proof.
  induction sc as [|t r IH]; intros c; [reflexivity|]. cbn [first_char pieces_from].
  destruct mark_shape as (m & Em & _ & Hh).
  destruct t as [s|s|v|v|s|]; cbn [tok_text];
    try (cbn [texts_params map concat];
         match goal with |- context [match ?s with _ :: _ => _ | [] => _ end] =>
           destruct s as [|c0 s0] eqn:Es; [cbn [app]; apply IH|eexists; reflexivity] end).
  - (* hole *) rewrite Em. cbn [texts_params map concat]. destruct (Hh (c + 1)) as [x ->]. eexists. reflexivity.
  - apply IH.
Qed.

Lemma hole_noblank n : rstrip (hole_text b n) = (hole_text b n, []).
Proof.
  apply rstrip_noblank.
  - intros c Hin. unfold hole_text in Hin. destruct b; cbn [placeholder app] in Hin;
      try (destruct Hin as [<-|[]]; reflexivity).
    destruct Hin as [<-|Hin]; [reflexivity|].
    pose proof (dec_of_N_digits' n) as Hd. rewrite forallb_forall in Hd. specialize (Hd c Hin).
    unfold is_digit in Hd. apply andb_prop in Hd as [H1 H2]. apply N.leb_le in H1, H2.
    unfold is_ws.
    destruct (N.eqb_spec c 32); [lia|]. destruct (N.eqb_spec c 9); [lia|]. destruct (N.eqb_spec c 10); [lia|].
    destruct (N.eqb_spec c 13); [lia|]. destruct (N.eqb_spec c 12); [lia|]. reflexivity.
  - destruct mark_shape as (m & _ & _ & Hh). destruct (Hh n) as [x ->]. discriminate.
Qed.

Theorem sc_ok_pieces sc : forall c, sc_ok sc = true ->
  exists tss, lex_texts b (texts_params b (pieces_from c sc)) = Some tss /\
              all2 (piece_toks_ok b) (pieces_from c sc) tss = true.
Proof.
  induction sc as [|t r IH]; intros c Hok; [exists []; split; reflexivity|].
  cbn [ScriptSafe.sc_ok] in Hok. apply andb_prop in Hok as [Hok Hr]. apply andb_prop in Hok as [Hlex Hfol].
  (* a text token *)
  assert (TEXT : forall s, tok_text t = s -> (match t with WVal _ | WPanic => False | _ => True end) ->
            forall c', exists tss, lex_texts b (s :: texts_params b (pieces_from c' r)) = Some tss /\
                     all2 (piece_toks_ok b) (PText s :: pieces_from c' r) tss = true).
  { intros s Es Hk c'. destruct (IH c' Hr) as (tss & Hl & Ha).
    assert (Hts : exists ts, text_toks b s = Some ts /\ has_param ts = false).
    { destruct t; try contradiction; cbn [tok_lexes] in Hlex; unfold text_lexes in Hlex; rewrite Es in Hlex;
        (destruct (text_toks b s) as [ts|]; [|discriminate Hlex]); exists ts; split; try reflexivity;
        now apply negb_true_iff in Hlex. }
    destruct Hts as (ts & Hts & Hnp). unfold text_toks in Hts.
    cbn [lex_texts]. destruct (rstrip s) as [core bl] eqn:Er. cbn [fst] in Hts. rewrite Hts, Hl.
    assert (Hj : join_ok ts (bl ++ concat (texts_params b (pieces_from c' r))) = true).
    { destruct ts as [|t0 ts0] eqn:Ets; [reflexivity|]. rewrite <- Ets in *.
      assert (Hj0 : forall x, join_ok ts x = follow_ok (last ts (TkPunct 0)) x) by (rewrite Ets; reflexivity).
      rewrite Hj0.
      destruct bl as [|w bl'].
      - cbn [app]. pose proof (first_char_concat r c') as Hf.
        destruct (first_char ftext b false r) as [f|].
        + destruct Hf as [x ->]. cbn [follow_ok].
          assert (Hs : s <> []).
          { intros ->. cbn in Er. inversion Er; subst. cbn in Hts. congruence. }
          assert (Hte : tok_empty ftext b false t = false).
          { destruct t; try contradiction; cbn [tok_empty]; rewrite Es; destruct s; try reflexivity; contradiction. }
          rewrite Hte in Hfol. cbn [orb] in Hfol.
          destruct t; try contradiction; cbn [tok_follow_ok] in Hfol; unfold text_follow_ok in Hfol; rewrite Es in Hfol;
            unfold text_trailing_blank, text_toks in Hfol; rewrite Er in Hfol; cbn [fst snd is_nil negb orb] in Hfol;
            rewrite Hts, Ets in Hfol; rewrite Ets; exact Hfol.
        + rewrite Hf. reflexivity.
      - destruct (rstrip_spec s core (w :: bl') Er) as [_ Hb]. cbn [forallb] in Hb. apply andb_prop in Hb as [Hw _].
        cbn [app follow_ok]. now apply follow_ws. }
    rewrite Hj. eexists. split; [reflexivity|]. cbn [all2 piece_toks_ok]. now rewrite Hnp, Ha. }
  destruct t as [s|s|v|v|s|]; cbn [pieces_from];
    try (change (texts_params b (?p :: ?ps)) with
           ((match p with PText s0 => s0 | PHole n0 => hole_text b n0 end) :: texts_params b ps)).
  - apply (TEXT s eq_refl I).
  - apply (TEXT _ eq_refl I).
  - (* hole *)
    destruct (IH (c + 1) Hr) as (tss & Hl & Ha).
    change (texts_params b (PHole (c + 1) :: pieces_from (c + 1) r))
      with (hole_text b (c + 1) :: texts_params b (pieces_from (c + 1) r)).
    cbn [lex_texts]. rewrite hole_noblank, hole_lexes, Hl.
    cbn [app join_ok follow_ok last].
    pose proof (first_char_concat r (c + 1)) as Hf. cbn [tok_empty orb tok_follow_ok] in Hfol.
    destruct (first_char ftext b false r) as [f|].
    + destruct Hf as [x ->]. cbn [follow_ok follow_char_ok]. rewrite Hfol.
      eexists. split; [reflexivity|]. cbn [all2 piece_toks_ok]. now rewrite N.eqb_refl, Ha.
    + rewrite Hf. cbn [follow_ok]. eexists. split; [reflexivity|]. cbn [all2 piece_toks_ok]. now rewrite N.eqb_refl, Ha.
  - apply (TEXT _ eq_refl I).
  - apply (TEXT s eq_refl I).
  - apply IH. exact Hr.
Qed.

Theorem sc_ok_params_sep sc : sc_ok sc = true -> params_sep ftext b sc = true.
Proof.
  intros H. unfold params_sep. rewrite pieces_eq. destruct (sc_ok_pieces sc 0 H) as (tss & -> & Ha). exact Ha.
Qed.
End S.

(* ---------- the inline mode ---------- *)
Section I.
Variable ftext : bool -> N -> str.
Variable b : backend.
Notation tok_text := (tok_text ftext b true).
Notation sc_ok := (sc_ok ftext b true).

(* the texts of the inline SQL: one per writer token (WPanic writes nothing) *)
Definition texts_of (sc : script) : list str :=
  flat_map (fun t => match t with WPanic => [] | _ => [tok_text t] end) sc.

Lemma texts_inline_eq sc : forall pre,
  texts_inline ftext b (pre ++ vals_of sc) (pieces_from ftext b (N.of_nat (length pre)) sc) = texts_of sc.
Proof.
  induction sc as [|t r IH]; intros pre; [reflexivity|].
  destruct t as [s|s|v|v|s|]; cbn [pieces_from texts_of flat_map app];
    try (change (vals_of (?t0 :: r)) with (vals_of r);
         change (texts_inline ftext b ?vs (PText ?x :: ?ps)) with (x :: texts_inline ftext b vs ps);
         now rewrite IH).
  - (* hole *)
    change (vals_of (WVal v :: r)) with (v :: vals_of r).
    change (texts_inline ftext b ?vs (PHole ?n :: ?ps))
      with ((match hole_value vs n with Some v0 => value_to_string ftext b v0 | None => [] end)
              :: texts_inline ftext b vs ps).
    assert (Hv : hole_value (pre ++ v :: vals_of r) (N.of_nat (length pre) + 1) = Some v).
    { unfold hole_value. replace (N.to_nat (N.of_nat (length pre) + 1 - 1)) with (length pre) by lia.
      rewrite nth_error_app2 by lia. now rewrite Nat.sub_diag. }
    rewrite Hv. cbn [ScriptSafe.tok_text]. f_equal.
    specialize (IH (pre ++ [v])). rewrite <- app_assoc in IH. cbn [app] in IH.
    rewrite app_length in IH. cbn [length] in IH.
    replace (N.of_nat (length pre + 1)) with (N.of_nat (length pre) + 1) in IH by lia. exact IH.
Qed.

Lemma first_char_texts sc :
  match first_char ftext b true sc with
  | Some f => exists x, concat (texts_of sc) = f :: x
  | None => concat (texts_of sc) = []
  end.
Proof.
  induction sc as [|t r IH]; [reflexivity|]. cbn [first_char texts_of flat_map].
  destruct t as [s|s|v|v|s|]; cbn [app concat];
    try (destruct (tok_text _) as [|c0 s0] eqn:Es; [cbn [app]; exact IH|eexists; reflexivity]).
  exact IH.
Qed.

Theorem sc_ok_texts sc : sc_ok sc = true -> exists tss, lex_texts b (texts_of sc) = Some tss.
Proof.
  induction sc as [|t r IH]; intros Hok; [exists []; reflexivity|].
  cbn [ScriptSafe.sc_ok] in Hok. apply andb_prop in Hok as [Hok Hr]. apply andb_prop in Hok as [Hlex Hfol].
  destruct (IH Hr) as (tss & Hl).
  destruct t as [s|s|v|v|s|]; cbn [texts_of flat_map app]; try (exists tss; exact Hl).
  all: fold (texts_of r); cbn [lex_texts];
    match goal with |- context [rstrip ?s0] => set (tx := s0) in * end;
    cbn [ScriptSafe.tok_lexes] in Hlex; unfold text_lexes, text_toks in Hlex; fold tx in Hlex;
    destruct (rstrip tx) as [core bl] eqn:Er; cbn [fst] in Hlex;
    destruct (eng_tokens b core) as [ts|] eqn:Ets; [|discriminate Hlex]; rewrite Hl;
    assert (Hj : join_ok ts (bl ++ concat (texts_of r)) = true).
  all: try (rewrite Hj; eexists; reflexivity).
  all: destruct ts as [|t0 ts0] eqn:E0; [reflexivity|]; rewrite <- E0 in *;
    assert (Hj0 : forall x, join_ok ts x = follow_ok (last ts (TkPunct 0)) x) by (rewrite E0; reflexivity);
    rewrite Hj0;
    (destruct bl as [|w bl'];
     [|destruct (rstrip_spec tx core (w :: bl') Er) as [_ Hb]; cbn [forallb] in Hb;
       apply andb_prop in Hb as [Hw _]; cbn [app follow_ok]; now apply follow_ws]);
    cbn [app]; pose proof (first_char_texts r) as Hf;
    (destruct (first_char ftext b true r) as [f|]; [|rewrite Hf; reflexivity]);
    destruct Hf as [x ->]; cbn [follow_ok];
    assert (Hs : tx <> []) by (intros Hs0; rewrite Hs0 in Er; cbn in Er; inversion Er; subst; cbn in Ets; congruence);
    cbn [ScriptSafe.tok_empty ScriptSafe.tok_follow_ok] in Hfol; fold tx in Hfol;
    (destruct tx as [|c0 s1] eqn:Es0; [contradiction|]); cbn [is_nil orb] in Hfol; rewrite <- Es0 in *;
    unfold text_follow_ok, text_trailing_blank, text_toks in Hfol; rewrite Er in Hfol;
    cbn [fst snd is_nil negb orb] in Hfol; rewrite Ets, E0 in Hfol; rewrite E0; exact Hfol.
Qed.

Theorem sc_ok_inline_sep sc : sc_ok sc = true -> inline_sep ftext b sc = true.
Proof.
  intros H. unfold inline_sep. rewrite pieces_eq.
  pose proof (texts_inline_eq sc []) as E. cbn [app length] in E. change (N.of_nat 0) with 0 in E. rewrite E.
  destruct (sc_ok_texts sc H) as (tss & ->). reflexivity.
Qed.
End I.
