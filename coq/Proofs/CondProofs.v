(* C06: the condition builder and holder mean what the calls say, under Kleene logic. *)
Require Import SQV.Model.Str SQV.Model.Value SQV.Model.Expr SQV.Model.Cond SQV.Model.Stmt SQV.Model.Build
  SQV.Spec.Logic3.
From Coq Require Import Lia.
Open Scope nat_scope.

(* ---- Kleene algebra facts ---- *)
Lemma and3_assoc a b c : and3 (and3 a b) c = and3 a (and3 b c). Proof. destruct a, b, c; reflexivity. Qed.
Lemma or3_assoc a b c : or3 (or3 a b) c = or3 a (or3 b c). Proof. destruct a, b, c; reflexivity. Qed.
Lemma and3_T_r a : and3 a T3 = a. Proof. destruct a; reflexivity. Qed.
Lemma and3_T_l a : and3 T3 a = a. Proof. destruct a; reflexivity. Qed.
Lemma or3_F_r a : or3 a F3 = a. Proof. destruct a; reflexivity. Qed.
Lemma or3_F_l a : or3 F3 a = a. Proof. destruct a; reflexivity. Qed.
Lemma not3_invol a : not3 (not3 a) = a. Proof. destruct a; reflexivity. Qed.

Lemma big_and_app l1 l2 : big_and (l1 ++ l2) = and3 (big_and l1) (big_and l2).
Proof. induction l1 as [|x l IH]; cbn [app big_and fold_right]; [now rewrite and3_T_l|fold (big_and (l ++ l2)); fold (big_and l); now rewrite IH, and3_assoc]. Qed.
Lemma big_or_app l1 l2 : big_or (l1 ++ l2) = or3 (big_or l1) (big_or l2).
Proof. induction l1 as [|x l IH]; cbn [app big_or fold_right]; [now rewrite or3_F_l|fold (big_or (l ++ l2)); fold (big_or l); now rewrite IH, or3_assoc]. Qed.

Section P.
Variable Q : Type.
Variable rho : expr Q -> tv.
Notation eval3 := (eval3 rho).
Notation sem_cond := (sem_cond rho).
Notation sem_member := (sem_member rho).
Notation sem_holder := (sem_holder rho).

(* ---- to_simple_expr denotes sem_cond ---- *)
Lemma eval_fold_and (rest : list (expr Q)) : forall first,
  eval3 (fold_binop BAnd first rest) = and3 (eval3 first) (big_and (map eval3 rest)).
Proof.
  unfold fold_binop. induction rest as [|x r IH]; intros first; cbn [fold_left map big_and fold_right].
  - now rewrite and3_T_r.
  - rewrite IH. cbn [Logic3.eval3]. now rewrite and3_assoc.
Qed.
Lemma eval_fold_or (rest : list (expr Q)) : forall first,
  eval3 (fold_binop BOr first rest) = or3 (eval3 first) (big_or (map eval3 rest)).
Proof.
  unfold fold_binop. induction rest as [|x r IH]; intros first; cbn [fold_left map big_or fold_right].
  - now rewrite or3_F_r.
  - rewrite IH. cbn [Logic3.eval3]. now rewrite or3_assoc.
Qed.

(* induction principle for the nested cond type *)
Fixpoint cond_size (c : cond Q) : nat :=
  match c with
  | Cond _ _ ms => S (fold_right (fun m acc => match m with MCond c' => cond_size c' | MExpr _ => 0 end + acc) 0 ms)
  end.

Lemma member_size_le (ms : list (cmember Q)) c' : In (MCond c') ms ->
  cond_size c' <= fold_right (fun m acc => match m with MCond c'' => cond_size c'' | MExpr _ => 0 end + acc) 0 ms.
Proof.
  induction ms as [|m ms IH]; [contradiction|]. intros [->|H]; cbn; [lia|]. specialize (IH H). lia.
Qed.

Theorem to_simple_expr_sound : forall c : cond Q, eval3 (to_simple_expr c) = sem_cond c.
Proof.
  intros c. remember (cond_size c) as n eqn:Hn. revert c Hn.
  induction n as [n IHn] using lt_wf_ind. intros c Hn.
  destruct c as [negate is_any ms].
  assert (Hm : map eval3 (map (fun m => match m with MCond c' => to_simple_expr c' | MExpr e => e end) ms)
             = map (fun m => match m with MCond c' => sem_cond c' | MExpr e => eval3 e end) ms).
  { rewrite map_map. apply map_ext_in. intros m Hin. destruct m as [c'|e]; [|reflexivity].
    apply (IHn (cond_size c')); [|reflexivity].
    subst n. cbn [cond_size]. pose proof (member_size_le ms c' Hin). lia. }
  cbn [to_simple_expr Logic3.sem_cond].
  set (inner := map (fun m => match m with MCond c' => to_simple_expr c' | MExpr e => e end) ms) in *.
  set (vs := map (fun m => match m with MCond c' => sem_cond c' | MExpr e => eval3 e end) ms) in *.
  assert (E : eval3 (match inner with
                     | [] => EConstant (if is_any then false_value else true_value)
                     | first :: rest => fold_binop (if is_any then BOr else BAnd) first rest
                     end) = (if is_any then big_or vs else big_and vs)).
  { rewrite <- Hm. destruct inner as [|first rest].
    - destruct is_any; reflexivity.
    - destruct is_any; cbn [map big_or big_and fold_right]; [apply eval_fold_or|apply eval_fold_and]. }
  destruct negate; cbn [Logic3.eval3]; now rewrite E.
Qed.

(* ---- Condition::add / not / add_option ---- *)
Lemma sem_single an (x : cmember Q) : sem_cond (Cond false an [x]) = sem_member x.
Proof.
  destruct an; cbn [Logic3.sem_cond map big_or big_and fold_right];
    [rewrite or3_F_r|rewrite and3_T_r]; destruct x; reflexivity.
Qed.

Lemma sem_unwrap (m : cmember Q) : sem_member (unwrap_single m) = sem_member m.
Proof.
  unfold unwrap_single.
  destruct m as [[[|] an [|x [|y l]]]|e]; try reflexivity.
  cbn [Logic3.sem_member]. now rewrite sem_single.
Qed.

Lemma sem_cond_add (c : cond Q) (m : cmember Q) :
  sem_cond (cond_add c m) =
  match c with
  | Cond negate is_any ms =>
      let v := if is_any then or3 (big_or (map sem_member ms)) (sem_member m)
               else and3 (big_and (map sem_member ms)) (sem_member m) in
      if negate then not3 v else v
  end.
Proof.
  destruct c as [negate is_any ms].
  unfold cond_add. cbn [Logic3.sem_cond].
  change (fun m0 : cmember_of Q (cond Q) => match m0 with MCond c' => sem_cond c' | MExpr e => eval3 e end)
    with sem_member.
  rewrite map_app. cbn [map]. rewrite sem_unwrap.
  destruct is_any.
  - rewrite big_or_app. cbn [big_or fold_right]. now rewrite or3_F_r.
  - rewrite big_and_app. cbn [big_and fold_right]. now rewrite and3_T_r.
Qed.

Lemma sem_cond_not (c : cond Q) : sem_cond (cond_not c) = not3 (sem_cond c).
Proof. destruct c as [[|] a ms]; cbn; [now rewrite not3_invol|reflexivity]. Qed.

(* specification of a condition program, stated on the call history itself *)
Definition prog_members (ops : list (cop)) : list (cmember query) :=
  flat_map (fun o => match o with CAdd m => [m] | _ => [] end) ops.
Definition prog_negated (ops : list cop) : bool :=
  fold_left (fun n o => match o with CNot => negb n | _ => n end) ops false.

End P.

Section Prog.
Variable rho : expr query -> tv.

Definition prog_sem (is_any : bool) (ops : list cop) : tv :=
  let vs := map (sem_member rho) (prog_members ops) in
  let v := if is_any then big_or vs else big_and vs in
  if prog_negated ops then not3 v else v.

Lemma build_cond_state ops : forall (c : cond query) negate is_any ms,
  c = Cond negate is_any ms ->
  sem_cond rho (fold_left cond_step ops c) =
  let vs := map (sem_member rho) ms ++ map (sem_member rho) (prog_members ops) in
  let v := if is_any then big_or vs else big_and vs in
  if fold_left (fun n o => match o with CNot => negb n | _ => n end) ops negate then not3 v else v.
Proof.
  induction ops as [|o ops IH]; intros c negate is_any ms ->; cbn [fold_left prog_members flat_map map].
  - rewrite app_nil_r. reflexivity.
  - destruct o as [m| |]; cbn [cond_step].
    + unfold cond_add at 1.
      erewrite IH by reflexivity. cbn zeta.
      rewrite map_app. cbn [map app].
      rewrite sem_unwrap, <- app_assoc. reflexivity.
    + erewrite IH by reflexivity. reflexivity.
    + unfold cond_not. erewrite IH by reflexivity. reflexivity.
Qed.

(* C06 (1): the built condition means what the calls say, for every program *)
Theorem condition_build_sound is_any ops :
  eval3 rho (to_simple_expr (build_cond is_any ops)) = prog_sem is_any ops.
Proof.
  rewrite to_simple_expr_sound. unfold build_cond, prog_sem.
  destruct is_any; unfold cond_any, cond_all; erewrite build_cond_state by reflexivity; reflexivity.
Qed.

(* ---- the holder denotes the conjunction of everything added ---- *)
Lemma sem_wrap (cur c : cond query) :
  sem_cond rho (cond_add (cond_add cond_all (MCond cur)) (MCond c)) = and3 (sem_cond rho cur) (sem_cond rho c).
Proof.
  assert (E : cond_add cond_all (MCond cur) = Cond false false [unwrap_single (MCond cur)]) by reflexivity.
  rewrite E, sem_cond_add. cbn [map big_and fold_right]. rewrite sem_unwrap, and3_T_r. reflexivity.
Qed.

(* cond_where on a holder filled by and_or_where panics in the code: the statements below are about the holders on
   which it does not *)
Definition no_chain (h : holder query) : Prop := match h with HChain _ => False | _ => True end.

Lemma holder_add_no_chain (h : holder query) (c : cond query) : no_chain h -> no_chain (holder_add h c).
Proof.
  destruct h as [|ms|cur]; [intros _; exact I|intros []|intros _].
  unfold holder_add. destruct cur as [[|] [|] ?]; try exact I. destruct c as [[|] [|] ?]; exact I.
Qed.

Lemma sem_holder_add (h : holder query) (c : cond query) : no_chain h ->
  sem_holder rho (holder_add h c) = and3 (sem_holder rho h) (sem_cond rho c).
Proof.
  destruct h as [|ms|cur]; [intros _|intros []|intros _]; cbn [holder_add sem_holder].
  - now rewrite and3_T_l.
  - destruct cur as [n a cms]. destruct n, a; cbn [sem_holder]; try apply sem_wrap.
    (* current is a non-negated ALL *)
    destruct c as [n2 a2 ams]. destruct n2, a2; cbn [sem_holder];
      try (rewrite sem_cond_add; reflexivity).
    cbn [Logic3.sem_cond]. rewrite map_app, big_and_app. reflexivity.
Qed.

(* C06 (2): for every history of cond_where / and_where calls, the holder is the AND of them *)
Theorem holder_is_conjunction (cs : list (cond query)) (h0 : holder query) : no_chain h0 ->
  sem_holder rho (fold_left holder_add cs h0) = and3 (sem_holder rho h0) (big_and (map (sem_cond rho) cs)).
Proof.
  revert h0. induction cs as [|c cs IH]; intros h0 Hn; cbn [fold_left map big_and fold_right].
  - now rewrite and3_T_r.
  - rewrite IH by (now apply holder_add_no_chain). rewrite sem_holder_add by exact Hn. now rewrite and3_assoc.
Qed.

(* the doc-hidden and_or_where: a history of And(..) members denotes their conjunction; with Or(..) members the
   chain is read the way SQL reads the flat text (sem_chain) *)
Lemma sem_chain_from_and acc (es : list (expr query)) :
  sem_chain_from rho acc (map (fun e => (false, e)) es) = and3 acc (big_and (map (eval3 rho) es)).
Proof.
  revert acc. induction es as [|e es IH]; intros acc; cbn [map sem_chain_from big_and fold_right].
  - now rewrite and3_T_r.
  - rewrite IH. now rewrite and3_assoc.
Qed.

Lemma fold_chain_and (es : list (expr query)) ms :
  fold_left (fun h e => holder_add_chain h false e) es (HChain ms) = HChain (ms ++ map (fun e => (false, e)) es).
Proof.
  revert ms. induction es as [|e es IH]; intros ms; cbn [fold_left map holder_add_chain].
  - now rewrite app_nil_r.
  - rewrite IH, <- app_assoc. reflexivity.
Qed.

Theorem and_chain_is_conjunction (es : list (expr query)) :
  sem_holder rho (fold_left (fun h e => holder_add_chain h false e) es HEmpty) = big_and (map (eval3 rho) es).
Proof.
  destruct es as [|e es]; [reflexivity|].
  cbn [fold_left holder_add_chain]. rewrite fold_chain_and. cbn [app map sem_holder sem_chain].
  rewrite sem_chain_from_and. reflexivity.
Qed.

(* C06 (3): a statement that was given no condition has no predicate; one that was given at least
   one always has one *)
Theorem holder_empty_iff (cs : list (cond query)) :
  fold_left holder_add cs HEmpty = HEmpty <-> cs = [].
Proof.
  split; [|intros ->; reflexivity].
  destruct cs as [|c cs]; [reflexivity|]. cbn [fold_left holder_add]. intros H. exfalso.
  assert (forall (l : list (cond query)) (h : holder query), (exists x, h = HCond x) -> exists y, fold_left holder_add l h = HCond y) as Hk.
  { intros l. induction l as [|a l IHl]; intros h [x ->].
    - exists x. reflexivity.
    - cbn [fold_left]. apply IHl.
      unfold holder_add. destruct x as [[|] [|] ?]; try (eexists; reflexivity).
      destruct a as [[|] [|] ?]; eexists; reflexivity. }
  destruct (Hk cs (HCond c) (ex_intro _ c eq_refl)) as [y Hy]. congruence.
Qed.
End Prog.

(* non-vacuity: a concrete program with the unwrap rule, a negated group, an empty group *)
Example cond_example :
  let rho := fun (e : expr query) => match e with EColumn (CCol [97%N]) => U3 | EColumn (CCol [98%N]) => F3 | _ => T3 end in
  prog_sem rho true [CAdd (MExpr (EColumn (CCol [97%N]))); CNot;
                     CAdd (MCond (build_cond false [CAdd (MExpr (EColumn (CCol [98%N])))]))] = U3.
Proof. reflexivity. Qed.
