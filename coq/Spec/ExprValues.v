(* C01 (2): which values an expression binds, and in which order - an independent in-order
   traversal of the tree, written without reference to strings or parenthesis decisions. *)
Require Import SQV.Model.Str SQV.Model.Value SQV.Model.Expr SQV.Model.RenderExpr.

Section EV.
Variable Q : Type.
Variable qvals : Q -> list value.      (* the values bound inside a sub-query, in its own order *)

Fixpoint expr_values (e : expr Q) : list value :=
  match e with
  | EColumn _ | ECustom _ | EKeyword _ | EConstant _ => []   (* constants are always written inline *)
  | ETuple es => flat_map expr_values es
  | ENot x => expr_values x
  | EFunc _ args => flat_map (fun a : bool * expr Q => expr_values (snd a)) args
  | EBinary l op r =>
      if is_empty_in Q op r then
        match op with
        | BIn => [int_value 1; int_value 2]       (* `x IN ()` is rendered as 1 = 2 *)
        | _ => [int_value 1; int_value 1]         (* `x NOT IN ()` as 1 = 1 *)
        end
      else expr_values l ++ expr_values r
  | ESubQuery _ q => qvals q
  | EValue v => [v]
  | EValues vs => vs
  | ECustomWith _ _ => []        (* templates choose their values by placeholder: see C11 *)
  | EAsEnum _ x => expr_values x
  | ECase whens els =>
      flat_map (fun w : expr Q * expr Q => expr_values (fst w) ++ expr_values (snd w)) whens ++
      match els with Some x => expr_values x | None => [] end
  end.

(* no custom template anywhere in the tree *)
Fixpoint no_template (e : expr Q) : bool :=
  match e with
  | ECustomWith _ _ => false
  | ETuple es => forallb no_template es
  | ENot x => no_template x
  | EFunc _ args => forallb (fun a : bool * expr Q => no_template (snd a)) args
  | EBinary l _ r => no_template l && no_template r
  | EAsEnum _ x => no_template x
  | ECase whens els =>
      forallb (fun w : expr Q * expr Q => no_template (fst w) && no_template (snd w)) whens &&
      match els with Some x => no_template x | None => true end
  | _ => true
  end.
End EV.
Arguments expr_values {Q}. Arguments no_template {Q}.

(* The same traversal for EVERY tree, custom templates included.  A template binds the values of the
   arguments its placeholders designate, each time a placeholder designates them (the template
   language itself - what is a placeholder, which argument it designates - is C11's subject:
   Spec/Template.v); `tv s vss` is that selection for the template text s and the arguments'
   value lists vss. *)
Section EVT.
Variable Q : Type.
Variable tv : str -> list (list value) -> list value.
Variable qvals : Q -> list value.

Fixpoint expr_values_t (e : expr Q) : list value :=
  match e with
  | EColumn _ | ECustom _ | EKeyword _ | EConstant _ => []
  | ETuple es => flat_map expr_values_t es
  | ENot x => expr_values_t x
  | EFunc _ args => flat_map (fun a : bool * expr Q => expr_values_t (snd a)) args
  | EBinary l op r =>
      if is_empty_in Q op r then
        match op with
        | BIn => [int_value 1; int_value 2]
        | _ => [int_value 1; int_value 1]
        end
      else expr_values_t l ++ expr_values_t r
  | ESubQuery _ q => qvals q
  | EValue v => [v]
  | EValues vs => vs
  | ECustomWith s es => tv s (map expr_values_t es)
  | EAsEnum _ x => expr_values_t x
  | ECase whens els =>
      flat_map (fun w : expr Q * expr Q => expr_values_t (fst w) ++ expr_values_t (snd w)) whens ++
      match els with Some x => expr_values_t x | None => [] end
  end.
End EVT.
Arguments expr_values_t {Q}.
