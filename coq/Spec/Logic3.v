(* SQL three-valued (Kleene) logic and the specification-side meaning of condition programs. *)
Require Import SQV.Model.Str SQV.Model.Value SQV.Model.Expr SQV.Model.Cond.

Inductive tv := T3 | F3 | U3.

Definition not3 (a : tv) : tv := match a with T3 => F3 | F3 => T3 | U3 => U3 end.
Definition and3 (a b : tv) : tv :=
  match a, b with
  | F3, _ | _, F3 => F3
  | T3, T3 => T3
  | _, _ => U3
  end.
Definition or3 (a b : tv) : tv :=
  match a, b with
  | T3, _ | _, T3 => T3
  | F3, F3 => F3
  | _, _ => U3
  end.
Definition tv_eqb (a b : tv) : bool :=
  match a, b with T3, T3 | F3, F3 | U3, U3 => true | _, _ => false end.

Section Sem.
Variable Q : Type.
(* valuation of the non-logical expressions (atoms): arbitrary *)
Variable rho : expr Q -> tv.

Definition is_true_value (v : value) : bool :=
  match v with V TBool (Some (PBool true)) => true | _ => false end.
Definition is_false_value (v : value) : bool :=
  match v with V TBool (Some (PBool false)) => true | _ => false end.

(* meaning of an expression: NOT / AND / OR / TRUE / FALSE are interpreted, everything else is an atom *)
Fixpoint eval3 (e : expr Q) : tv :=
  match e with
  | ENot x => not3 (eval3 x)
  | EBinary l BAnd r => and3 (eval3 l) (eval3 r)
  | EBinary l BOr r => or3 (eval3 l) (eval3 r)
  | EConstant v => if is_true_value v then T3 else if is_false_value v then F3 else rho e
  | _ => rho e
  end.

(* specification: an any group is the OR of its members (empty = false), an all group the AND
   (empty = true), a negated group is its negation *)
Definition big_and (l : list tv) : tv := fold_right and3 T3 l.
Definition big_or (l : list tv) : tv := fold_right or3 F3 l.

Fixpoint sem_cond (c : cond Q) : tv :=
  match c with
  | Cond negate is_any ms =>
      let vs := map (fun m => match m with MCond c' => sem_cond c' | MExpr e => eval3 e end) ms in
      let v := if is_any then big_or vs else big_and vs in
      if negate then not3 v else v
  end.
Definition sem_member (m : cmember Q) : tv :=
  match m with MCond c => sem_cond c | MExpr e => eval3 e end.

(* meaning of a holder: no condition = no predicate = every row qualifies *)
(* a chain written by and_or_where: SQL reads the flat text  m0 op1 m1 op2 m2 ..  with AND binding tighter than OR,
   i.e. as the OR of its maximal AND-runs *)
Fixpoint sem_chain_from (acc : tv) (ms : list (bool * expr Q)) : tv :=
  match ms with
  | [] => acc
  | (true, e) :: rest => or3 acc (sem_chain_from (eval3 e) rest)
  | (false, e) :: rest => sem_chain_from (and3 acc (eval3 e)) rest
  end.
Definition sem_chain (ms : list (bool * expr Q)) : tv :=
  match ms with [] => T3 | (_, e) :: rest => sem_chain_from (eval3 e) rest end.

Definition sem_holder (h : holder Q) : tv :=
  match h with HEmpty => T3 | HChain ms => sem_chain ms | HCond c => sem_cond c end.
End Sem.

Arguments eval3 {Q}. Arguments sem_cond {Q}. Arguments sem_member {Q}. Arguments sem_holder {Q}. Arguments sem_chain {Q}. Arguments sem_chain_from {Q}.
