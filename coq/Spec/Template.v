(* Specification of the custom-SQL template language (C11), stated on the token stream of the
   crate's own tokenizer (what counts as quoted text is defined by that tokenizer, C16):
   a placeholder is a mark token outside quoted text -- positional `?` on MySQL/SQLite, `$n` on
   Postgres -- a doubled mark stands for a literal mark, every other token is text. *)
Require Import SQV.Model.Str SQV.Model.Token SQV.Model.RenderExpr.

Inductive seg := SText (s : str) | SPos | SNum (n : N) | SLitMark.

Definition is_mark (mark : str) (t : token) : bool :=
  match t with Punct m => str_eqb m mark | _ => false end.

(* well-formed templates and their segmentation, as a relation (not the code's control flow) *)
Inductive Seg (mark : str) (numbered : bool) : list token -> list seg -> Prop :=
| seg_nil : Seg mark numbered [] []
| seg_lit m1 m2 rest s : str_eqb m1 mark = true -> str_eqb m2 mark = true ->
    Seg mark numbered rest s -> Seg mark numbered (Punct m1 :: Punct m2 :: rest) (SLitMark :: s)
| seg_num m d n rest s : numbered = true -> str_eqb m mark = true -> parse_usize d = Some n ->
    Seg mark numbered rest s -> Seg mark numbered (Punct m :: Unquoted d :: rest) (SNum n :: s)
| seg_pos m rest s : numbered = false -> str_eqb m mark = true ->
    (match rest with t :: _ => is_mark mark t = false | [] => True end) ->
    Seg mark numbered rest s -> Seg mark numbered (Punct m :: rest) (SPos :: s)
| seg_text t rest s : is_mark mark t = false ->
    Seg mark numbered rest s -> Seg mark numbered (t :: rest) (SText (text t) :: s).

(* the meaning of a segmentation: text in place, placeholders replaced by the designated value's
   rendering; None = a designated value does not exist *)
Fixpoint interp {A} (mark : list A) (txt : str -> list A) (vals : list (list A)) (segs : list seg) (count : nat)
  : option (list A) :=
  match segs with
  | [] => Some []
  | SText s :: r => option_map (fun o => txt s ++ o) (interp mark txt vals r count)
  | SLitMark :: r => option_map (fun o => mark ++ o) (interp mark txt vals r count)
  | SPos :: r =>
      match nth_error vals count with
      | Some v => option_map (fun o => v ++ o) (interp mark txt vals r (S count))
      | None => None
      end
  | SNum n :: r =>
      if n =? 0 then None else
      match nth_error vals (N.to_nat (n - 1)) with
      | Some v => option_map (fun o => v ++ o) (interp mark txt vals r count)
      | None => None
      end
  end.
