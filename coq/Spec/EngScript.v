(* The decidable premise under which the script-level theorems of C01 / C02 speak about the SQL text as
   the engine's lexer reads it (Proofs/EngScriptProofs.v): the pieces of a rendered script - fixed text,
   prepared identifiers, literals, placeholders - each lex alone (without their trailing blanks) and no
   token is read across a seam (Spec/EngBoundary.v); a text piece contains no placeholder token; a hole
   is read as exactly its placeholder token.  Evaluated by the extracted model on every generated
   statement (definitions only). *)
Require Import SQV.Model.Str SQV.Model.Escape SQV.Model.Value SQV.Model.Literal SQV.Model.Writer
  SQV.Spec.EngLex SQV.Spec.EngTok SQV.Spec.EngBoundary SQV.Proofs.WriterProofs.

Section S.
Variable ftext : bool -> N -> str.

Definition texts_params (b : backend) (ps : list piece) : list str :=
  map (fun p => match p with PText s => s | PHole n => hole_text b n end) ps.
Definition hole_value (vs : list value) (n : N) : option value := nth_error vs (N.to_nat (n - 1)).
Definition texts_inline (b : backend) (vs : list value) (ps : list piece) : list str :=
  map (fun p => match p with
                | PText s => s
                | PHole n => match hole_value vs n with
                             | Some v => value_to_string ftext b v
                             | None => []
                             end
                end) ps.

(* the number the engine reads for the n-th hole: $n on Postgres, a positional mark elsewhere *)
Definition hole_no (b : backend) (n : N) : N := if snd (placeholder b) then n else 0.

Definition piece_toks_ok (b : backend) (p : piece) (ts : list etok) : bool :=
  match p with
  | PText _ => negb (has_param ts)
  | PHole n => match ts with [TkParam m] => m =? hole_no b n | _ => false end
  end.

Fixpoint all2 {A B} (f : A -> B -> bool) (l1 : list A) (l2 : list B) : bool :=
  match l1, l2 with
  | [], [] => true
  | a :: l1', c :: l2' => f a c && all2 f l1' l2'
  | _, _ => false
  end.

(* build(): the parameterised text is read piece by piece *)
Definition params_sep (b : backend) (sc : script) : bool :=
  let ps := pieces ftext b sc in
  match lex_texts b (texts_params b ps) with
  | Some tss => all2 (piece_toks_ok b) ps tss
  | None => false
  end.

(* to_string(): the inline text is read piece by piece as well *)
Definition inline_sep (b : backend) (sc : script) : bool :=
  let ps := pieces ftext b sc in
  match lex_texts b (texts_inline b (vals_of sc) ps) with
  | Some _ => true
  | None => false
  end.
End S.
