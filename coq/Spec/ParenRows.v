(* The finite safety check behind C05: for a backend's precedence tables (Spec/Prec.v) and the
   parenthesis decisions the code makes (tables regenerated from the code, Model/ExprTablesInst.v),
   every (outer operator, inner top-level shape, side) row is either parenthesised or safe to leave
   bare in the sense of Spec/PrattT.v. *)
Require Import SQV.Model.Str SQV.Model.Escape SQV.Model.Expr SQV.Model.RenderExpr SQV.Model.ExprTablesInst
  SQV.Spec.Prec.
From Coq Require Import Arith.

Inductive side := SLeft | SRight | SUnary | SBetweenLo | SBetweenHi.

(* all binary operators by key (BCustom represented once) *)
Definition all_pgops : list pgop :=
  [PgILike; PgNotILike; PgMatches; PgContains; PgContained; PgConcatenate; PgOverlap; PgSimilarity;
   PgWordSimilarity; PgStrictWordSimilarity; PgSimilarityDistance; PgWordSimilarityDistance;
   PgStrictWordSimilarityDistance; PgGetJsonField; PgCastJsonField; PgRegex; PgRegexCaseInsensitive;
   PgEuclideanDistance; PgNegativeInnerProduct; PgCosineDistance].
Definition all_slops : list slop := [SlGlob; SlMatch; SlGetJsonField; SlCastJsonField].
Definition all_binops : list binop :=
  [BAnd; BOr; BLike; BNotLike; BIs; BIsNot; BIn; BNotIn; BBetween; BNotBetween; BEqual; BNotEqual;
   BSmallerThan; BGreaterThan; BSmallerThanOrEqual; BGreaterThanOrEqual; BAdd; BSub; BMul; BDiv; BMod;
   BBitAnd; BBitOr; BLShift; BRShift; BAs; BEscape; BCustom []] ++ map BPg all_pgops ++ map BSl all_slops.

Definition all_shapes : list shape :=
  [ShColumn; ShTuple; ShUnary; ShFunc; ShSubQuery; ShValue; ShValues; ShCustom; ShCustomWith; ShKeyword;
   ShAsEnum; ShCase; ShConstant] ++ map ShBinary all_binops.

Section Rows.
Variable b : backend.
Variable T : etables.

Definition drop_hp (s : shape) (o : oper) : bool := t_drop_paren T (shape_key s) (oper_key o).

(* does the code write parentheses around an operand of shape s on this side of outer operator o *)
Definition writes_paren (o : binop) (s : shape) (sd : side) : bool :=
  match sd with
  | SLeft =>
      let same := match s with ShBinary o1 => binop_eqb o o1 | _ => false end in
      negb (drop_hp s (OBin o)) && negb (same && t_lassoc T (binop_key o))
  | SRight =>
      let between_hack := is_between o && (match s with ShBinary BAnd => true | _ => false end) in
      let escape_hack := is_like o && (match s with ShBinary BEscape => true | _ => false end) in
      let as_hack := binop_eqb o BAs && (match s with ShCustom => true | _ => false end) in
      negb (drop_hp s (OBin o)) && negb escape_hack && negb between_hack && negb as_hack
  | SUnary => negb (drop_hp s ONot)
  | SBetweenLo | SBetweenHi =>   (* the bounds of `x BETWEEN a AND b`: decided against BETWEEN itself *)
      negb (drop_hp s (OBin o))
  end.

Definition leb_opt (a b : option nat) : bool :=
  match a, b with Some x, Some y => Nat.leb x y | _, _ => false end.
Definition ltb_opt (a b : option nat) : bool :=
  match a, b with Some x, Some y => Nat.ltb x y | _, _ => false end.
Definition succ_opt (a : option nat) : option nat := match a with Some x => Some (S x) | None => None end.

(* may an operand of shape s stand bare on this side of o, under the engine's tables *)
Definition bare_ok (o : binop) (s : shape) (sd : side) : bool :=
  let lv := level b in
  let notp := Some (not_level b) in
  match s with
  | ShUnary =>
      match sd with
      | SLeft => false
      | SRight => leb_opt (succ_opt (lv o)) notp
      | SUnary => true
      | SBetweenLo | SBetweenHi => leb_opt (succ_opt (lv BBetween)) notp
      end
  | ShBinary o1 =>
      (* a BETWEEN / LIKE..ESCAPE encoding seen from outside behaves like its head operator *)
      match sd with
      | SLeft => leb_opt (lv o) (lv o1) && ltb_opt (lv o) (succ_opt (lv o1))
      | SRight => leb_opt (succ_opt (lv o)) (lv o1)
      | SUnary => leb_opt notp (lv o1)
      | SBetweenLo | SBetweenHi => leb_opt (succ_opt (lv BBetween)) (lv o1)
      end
  | ShAsEnum =>
      (* a cast to an enum type is written CAST(.. AS ..) on Postgres only; MySQL and SQLite write the inner
         expression as it is, which may be any operator expression: it may never stand bare there *)
      match b with Postgres => true | _ => false end
  | _ => true    (* atoms: columns, values, function calls, tuples, sub-queries, CASE ... *)
  end.

(* rows where the hacks make the operand part of a ternary form rather than an operand *)
Definition is_ternary_part (o : binop) (s : shape) (sd : side) : bool :=
  match sd, s with
  | SRight, ShBinary BAnd => is_between o
  | SRight, ShBinary BEscape => is_like o
  | _, _ => false
  end.

Definition row_ok (o : binop) (s : shape) (sd : side) : bool :=
  is_ternary_part o s sd || writes_paren o s sd || bare_ok o s sd.

Definition all_rows : list (binop * shape * side) :=
  flat_map (fun o => flat_map (fun s => [(o, s, SLeft); (o, s, SRight)]) all_shapes) all_binops ++
  flat_map (fun s => [(BAnd, s, SUnary); (BBetween, s, SBetweenLo); (BBetween, s, SBetweenHi);
                      (BNotBetween, s, SBetweenLo); (BNotBetween, s, SBetweenHi)]) all_shapes.

Definition bad_rows : list (N * N * N) :=
  flat_map (fun r => match r with (o, s, sd) =>
    if row_ok o s sd then []
    else [(binop_key o, shape_key s,
           match sd with SLeft => 0 | SRight => 1 | SUnary => 2 | SBetweenLo => 3 | SBetweenHi => 4 end)]
    end) all_rows.
End Rows.
