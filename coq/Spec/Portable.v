(* C09: on the portable operator set the three backends make the same decisions: the same
   parenthesis decisions, the same left-associativity and the same spellings (finite check over
   the tables regenerated from the code); function names differ only by the documented
   substitutions. *)
Require Import SQV.Model.Str SQV.Model.Escape SQV.Model.Expr SQV.Model.RenderExpr SQV.Model.ExprTablesInst
  SQV.Spec.ParenRows.

Definition common_binops : list binop :=
  [BAnd; BOr; BLike; BNotLike; BIs; BIsNot; BIn; BNotIn; BBetween; BNotBetween; BEqual; BNotEqual;
   BSmallerThan; BGreaterThan; BSmallerThanOrEqual; BGreaterThanOrEqual; BAdd; BSub; BMul; BDiv; BMod;
   BBitAnd; BBitOr; BLShift; BRShift; BAs; BEscape; BCustom []].
Definition common_shapes : list shape :=
  [ShColumn; ShTuple; ShUnary; ShFunc; ShSubQuery; ShValue; ShValues; ShCustom; ShCustomWith; ShKeyword;
   ShAsEnum; ShCase; ShConstant] ++ map ShBinary common_binops.
Definition common_opers : list oper := ONot :: map OBin common_binops.

Definition opt_str_eqb (a b : option str) : bool :=
  match a, b with Some x, Some y => str_eqb x y | None, None => true | _, _ => false end.

Definition tables_agree_on_common (T1 T2 : etables) : bool :=
  forallb (fun s => forallb (fun o =>
     Bool.eqb (t_drop_paren T1 (shape_key s) (oper_key o)) (t_drop_paren T2 (shape_key s) (oper_key o)))
     common_opers) common_shapes &&
  forallb (fun o => Bool.eqb (t_lassoc T1 (binop_key o)) (t_lassoc T2 (binop_key o)) &&
                    opt_str_eqb (t_binop T1 (binop_key o)) (t_binop T2 (binop_key o))) common_binops &&
  (* sub-query operator EXISTS *)
  opt_str_eqb (t_sqop T1 0) (t_sqop T2 0).

(* function names: identical except the five documented substitutions *)
Definition portable_funcs : list func :=
  [FMax; FMin; FSum; FAvg; FAbs; FCount; FCast; FCoalesce; FLower; FUpper; FRound; FMd5].
Definition funcs_agree (T1 T2 : etables) : bool :=
  forallb (fun f => opt_str_eqb (t_func T1 (func_key f)) (t_func T2 (func_key f))) portable_funcs.
Definition substituted_names (T : etables) : list (option str) :=
  map (fun f => t_func T (func_key f)) [FIfNull; FGreatest; FLeast; FCharLength; FRandom].
