(* Seams for the crate's own tokenizer (Model/Token.v, src/token.rs), which inject_parameters uses:
   when may a text be followed directly by another without a token of the crate tokenizer reaching
   across the seam?  Decidable; definitions only (theorems: Proofs/CrateSeamProofs.v). *)
Require Import SQV.Model.Str SQV.Model.Escape SQV.Model.Value SQV.Model.Token SQV.Model.Writer
  SQV.Model.RenderExpr SQV.Spec.Template SQV.Proofs.WriterProofs SQV.Spec.EngScript.

Section C.
Variable is_alpha : N -> bool.

(* may a text that starts with character f follow token t directly?  A run of blanks must not be
   followed by a blank, a word not by a word character; a quoted token is tested with the scanner
   itself, one character of lookahead (it must be closed, and f must not double its delimiter);
   punctuation is always one character. *)
Definition cstable (t : token) (f : N) : bool :=
  match t with
  | Space _ => negb (is_space f)
  | Unquoted _ => negb (is_alphanumeric is_alpha f) && negb (is_identifier f)
  | Quoted a =>
      let (a', r) := scan_quoted true false 32 (a ++ [f]) in str_eqb a' a && str_eqb r [f]
  | Punct _ => true
  end.

Definition cjoin_ok (ts1 : list token) (x : str) : bool :=
  match ts1, x with
  | [], _ => true
  | _, [] => true
  | _, f :: _ => cstable (last ts1 (Punct [])) f
  end.

(* every text tokenizes alone and may be followed by the concatenation of the remaining ones *)
Fixpoint clex_texts (texts : list str) : option (list (list token)) :=
  match texts with
  | [] => Some []
  | s :: rest =>
      match tokenize is_alpha s, clex_texts rest with
      | Some ts, Some tss => if cjoin_ok ts (concat rest) then Some (ts :: tss) else None
      | _, _ => None
      end
  end.

Variable ftext : bool -> N -> str.

Definition tokens_eqb (a b : list token) : bool :=
  (fix go (a b : list token) : bool :=
     match a, b with
     | [], [] => true
     | x :: a', y :: b' =>
         (match x, y with
          | Quoted s, Quoted s' | Unquoted s, Unquoted s' | Space s, Space s' | Punct s, Punct s' => str_eqb s s'
          | _, _ => false
          end) && go a' b'
     | _, _ => false
     end) a b.

(* what the crate tokenizer must read for a piece: text without mark tokens; a hole as its mark
   (followed, on Postgres, by the digits of its number) *)
Definition piece_ctoks_ok (b : backend) (p : piece) (tt : list token) : bool :=
  let (ph, numbered) := placeholder b in
  match p with
  | PText _ => forallb (fun t => negb (is_mark ph t)) tt
  | PHole n =>
      if numbered then
        match tt with
        | [Punct m; Unquoted d] =>
            str_eqb m ph && match parse_usize d with Some k => k =? n | None => false end
        | _ => false
        end
      else match tt with [Punct m] => str_eqb m ph | _ => false end
  end.

(* consecutive text pieces are one text (a run of blanks may be written in two parts) *)
Fixpoint merge_texts (ps : list piece) : list piece :=
  match ps with
  | [] => []
  | PText a :: rest =>
      match merge_texts rest with
      | PText c :: rest' => PText (a ++ c) :: rest'
      | r => PText a :: r
      end
  | p :: rest => p :: merge_texts rest
  end.

(* the decidable premise of inject_parameters(build(s)) = to_string(s) *)
Definition crate_sep (b : backend) (sc : script) : bool :=
  let ps := merge_texts (pieces ftext b sc) in
  match clex_texts (texts_params b ps) with
  | Some tss => all2 (piece_ctoks_ok b) ps tss
  | None => false
  end.
End C.
