(* Auto traits (Send, Sync) as a greatest fixed point over the field graph of a crate's types.

   Written from the Rust reference (special traits: auto traits) and the std documentation of the
   Send / Sync impls of Rc, Arc, Box, Vec, Option, Cell, RefCell, Mutex, RwLock, references and raw
   pointers; not derived from sea-query.

   A type is given by the list of the types of all its fields (struct fields, every enum variant
   payload). An auto trait holds for a struct/enum iff it holds for every field type; because types
   may be recursive (SimpleExpr contains Box SimpleExpr) the reading is coinductive: the set of
   (type, trait) pairs that hold is the GREATEST set closed under the rule.  *)
From Coq Require Import String List Bool Arith.
Import ListNotations.

Inductive tr := Send | Sync.

Definition tr_eqb (a b : tr) : bool :=
  match a, b with Send, Send => true | Sync, Sync => true | _, _ => false end.

(* leaves: types whose answer does not depend on the graph *)
Inductive leaf :=
| LPrim (name : string)                    (* bool char integers floats str String unit: both *)
| LExt (name : string)                     (* type of another crate: ASSUMED both, listed in the evidence *)
| LDyn (name : string) (send sync : bool)  (* dyn Trait: exactly the auto traits among its declared bounds / supertraits *)
| LParam (name : string) (send sync : bool)(* an instantiated type parameter with the stated bounds *)
| LFnPtr.                                  (* fn pointers: both *)

Definition leaf_ok (l : leaf) (r : tr) : bool :=
  match l with
  | LPrim _ => true
  | LExt _ => true
  | LDyn _ s y => match r with Send => s | Sync => y end
  | LParam _ s y => match r with Send => s | Sync => y end
  | LFnPtr => true
  end.

Inductive ty :=
| TLeaf (l : leaf)
| TNode (n : nat)                  (* a struct/enum of the crate, by index in the graph *)
| TRc (t : ty)                     (* Rc, rc::Weak *)
| TArc (t : ty)                    (* Arc, sync::Weak *)
| TOwn (c : string) (ts : list ty) (* Box Vec Option tuple array slice Result, std collections, PhantomData: structural *)
| TCell (t : ty)                   (* Cell RefCell UnsafeCell OnceCell *)
| TRef (t : ty)                    (* shared reference *)
| TMutRef (t : ty)                 (* unique reference *)
| TMutex (t : ty)
| TRwLock (t : ty)
| TRawPtr (t : ty).

(* ---------------------------------------------------------------------------------------------
   The rule set, as a proposition relative to an assumption P about the crate's own types.  *)
Fixpoint sat (P : nat -> tr -> Prop) (t : ty) (r : tr) {struct t} : Prop :=
  match t with
  | TLeaf l => leaf_ok l r = true
  | TNode n => P n r
  | TRc _ => False
  | TArc a => sat P a Send /\ sat P a Sync
  | TOwn _ ts => (fix all (l : list ty) : Prop :=
                    match l with [] => True | x :: l' => sat P x r /\ all l' end) ts
  | TCell a => match r with Send => sat P a Send | Sync => False end
  | TRef a => sat P a Sync
  | TMutRef a => sat P a r
  | TMutex a => sat P a Send
  | TRwLock a => match r with Send => sat P a Send | Sync => sat P a Send /\ sat P a Sync end
  | TRawPtr _ => False
  end.

Definition graph := list (list ty).

Definition fields (G : graph) (n : nat) : list ty := nth n G [].

(* one unfolding of the auto-trait rule for node n *)
Definition step (G : graph) (P : nat -> tr -> Prop) (n : nat) (r : tr) : Prop :=
  n < length G /\ forall f, In f (fields G n) -> sat P f r.

(* a set of (node, trait) pairs that justifies itself *)
Definition invariant (G : graph) (P : nat -> tr -> Prop) : Prop :=
  forall n r, P n r -> step G P n r.

(* greatest fixed point: the union of all self-justifying sets *)
Definition AutoImpl (G : graph) (n : nat) (r : tr) : Prop :=
  exists P, invariant G P /\ P n r.

Definition SendSync (G : graph) (n : nat) : Prop :=
  AutoImpl G n Send /\ AutoImpl G n Sync.

(* ---------------------------------------------------------------------------------------------
   The checker: start from "everything holds" and delete pairs whose rule fails until stable.  *)
Definition verdicts := list (bool * bool).   (* per node: (Send, Sync) *)

Definition lookup (S : verdicts) (n : nat) (r : tr) : bool :=
  match nth_error S n with
  | Some (a, b) => match r with Send => a | Sync => b end
  | None => false
  end.

Fixpoint ok_ty (S : nat -> tr -> bool) (t : ty) (r : tr) {struct t} : bool :=
  match t with
  | TLeaf l => leaf_ok l r
  | TNode n => S n r
  | TRc _ => false
  | TArc a => ok_ty S a Send && ok_ty S a Sync
  | TOwn _ ts => (fix all (l : list ty) : bool :=
                    match l with [] => true | x :: l' => ok_ty S x r && all l' end) ts
  | TCell a => match r with Send => ok_ty S a Send | Sync => false end
  | TRef a => ok_ty S a Sync
  | TMutRef a => ok_ty S a r
  | TMutex a => ok_ty S a Send
  | TRwLock a => match r with Send => ok_ty S a Send | Sync => ok_ty S a Send && ok_ty S a Sync end
  | TRawPtr _ => false
  end.

Definition ok_node (G : graph) (S : verdicts) (n : nat) (r : tr) : bool :=
  lookup S n r && forallb (fun f => ok_ty (lookup S) f r) (fields G n).

Definition refine (G : graph) (S : verdicts) : verdicts :=
  map (fun n => (ok_node G S n Send, ok_node G S n Sync)) (seq 0 (length G)).

Definition init (G : graph) : verdicts := map (fun _ => (true, true)) G.

Fixpoint iter (G : graph) (k : nat) (S : verdicts) : verdicts :=
  match k with O => S | S k' => iter G k' (refine G S) end.

(* 2 * |G| pairs can be deleted at most once each *)
Definition solve (G : graph) : verdicts := iter G (2 * length G + 1) (init G).

Definition stable (G : graph) (S : verdicts) : Prop := refine G S = S.

Definition both (S : verdicts) (n : nat) : bool := lookup S n Send && lookup S n Sync.

(* ---------------------------------------------------------------------------------------------
   Field-graph reachability (used to state "everything that reaches a bad node is bad").  *)
Fixpoint refs (t : ty) : list nat :=
  match t with
  | TLeaf _ => []
  | TNode n => [n]
  | TRc a | TArc a | TCell a | TRef a | TMutRef a | TMutex a | TRwLock a | TRawPtr a => refs a
  | TOwn _ ts => (fix all (l : list ty) : list nat :=
                    match l with [] => [] | x :: l' => refs x ++ all l' end) ts
  end.

Definition succs (G : graph) (n : nat) : list nat := flat_map refs (fields G n).

Definition mem (n : nat) (l : list nat) : bool := existsb (Nat.eqb n) l.

(* the set of nodes from which [target] is reachable, by backward saturation *)
Definition reach_step (G : graph) (R : list nat) : list nat :=
  R ++ filter (fun n => negb (mem n R) && existsb (fun m => mem m R) (succs G n)) (seq 0 (length G)).

Fixpoint reach_iter (G : graph) (k : nat) (R : list nat) : list nat :=
  match k with
  | O => R
  | S k' => let R' := reach_step G R in
            if Nat.eqb (length R') (length R) then R else reach_iter G k' R'
  end.

Definition reaches (G : graph) (n target : nat) : bool :=
  mem n (reach_iter G (length G) [target]).
