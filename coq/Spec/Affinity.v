(* SQLite column affinity (https://www.sqlite.org/datatype3.html section 3.1), implemented literally:
   the affinity of a column is determined by the declared type of the column, according to the
   following rules in the order shown:
     1. if the declared type contains the string INT it is assigned INTEGER affinity;
     2. if it contains any of the strings CHAR, CLOB or TEXT it has TEXT affinity;
     3. if it contains the string BLOB or if no type is specified it has affinity BLOB;
     4. if it contains any of the strings REAL, FLOA or DOUB it has REAL affinity;
     5. otherwise the affinity is NUMERIC.
   The search is a case-insensitive (ASCII) substring search.
   Second part: the affinity INTENDED for each abstract column type - a specification-side table,
   written from the SQLite documentation and the meaning of the abstract types, not from the code. *)
Require Import SQV.Model.Str SQV.Model.Schema.
From Coq Require Import String.

Inductive affinity := AffInteger | AffText | AffBlob | AffReal | AffNumeric.

Definition affinity_eqb (a b : affinity) : bool :=
  match a, b with
  | AffInteger, AffInteger | AffText, AffText | AffBlob, AffBlob | AffReal, AffReal | AffNumeric, AffNumeric => true
  | _, _ => false
  end.

(* does s start with the (upper-case) keyword kw, comparing ASCII case-insensitively *)
Fixpoint prefix_ci (kw s : str) : bool :=
  match kw with
  | [] => true
  | k :: kw' => match s with
                | [] => false
                | c :: s' => (ascii_upper c =? k) && prefix_ci kw' s'
                end
  end.

(* does kw occur somewhere in s *)
Fixpoint contains_ci (kw s : str) : bool :=
  prefix_ci kw s || match s with [] => false | _ :: s' => contains_ci kw s' end.

Definition affinity_of (declared_type : str) : affinity :=
  if contains_ci (K "INT") declared_type then AffInteger
  else if contains_ci (K "CHAR") declared_type || contains_ci (K "CLOB") declared_type ||
          contains_ci (K "TEXT") declared_type then AffText
  else if contains_ci (K "BLOB") declared_type || is_nil declared_type then AffBlob
  else if contains_ci (K "REAL") declared_type || contains_ci (K "FLOA") declared_type ||
          contains_ci (K "DOUB") declared_type then AffReal
  else AffNumeric.

(* The storage class intended for each abstract column type on SQLite; None = the type has no SQLite
   form (the builder refuses it) or carries no intention of its own (Custom: the caller's text).
   - integer kinds of every width and signedness: INTEGER
   - float / double: REAL;  decimal / money: REAL (SQLite has no exact decimal storage; NUMERIC would also
     store non-integral values as REAL, the abstract type is a fractional number)
   - character strings, text, JSON documents, UUIDs and enumeration labels: TEXT
   - date / time kinds: TEXT (ISO-8601 strings, the first of the three representations listed in
     datatype3.html section 2.2, the one chrono / time values are bound as)
   - binary strings: BLOB
   - boolean: NUMERIC (datatype3.html section 3.1.1 lists BOOLEAN under NUMERIC; 0 / 1 are stored as integers) *)
Definition intended (ct : coltype) : option affinity :=
  match ct with
  | CTChar _ | CTString _ | CTText => Some AffText
  | CTTinyInteger | CTSmallInteger | CTInteger | CTBigInteger
  | CTTinyUnsigned | CTSmallUnsigned | CTUnsigned | CTBigUnsigned => Some AffInteger
  | CTFloat | CTDouble => Some AffReal
  | CTDecimal _ | CTMoney _ => Some AffReal
  | CTDateTime | CTTimestamp | CTTimestampWithTimeZone | CTTime | CTDate => Some AffText
  | CTBinary _ | CTVarBinary _ | CTBlob => Some AffBlob
  | CTBoolean => Some AffNumeric
  | CTJson | CTJsonBinary | CTUuid => Some AffText
  | CTEnum _ _ => Some AffText
  | CTCustom _ => None
  | CTYear | CTInterval _ _ | CTBit _ | CTVarBit _ | CTArray _ | CTVector _
  | CTCidr | CTInet | CTMacAddr | CTLTree => None
  end.

(* the same table indexed by the shape key of Generated/ColTypes.v (used by the finite check) *)
Definition intended_by_shape (shape : N) : option affinity :=
  if shape <=? 5 then Some AffText
  else if shape =? 6 then Some AffBlob
  else if shape <=? 14 then Some AffInteger
  else if shape <=? 18 then Some AffReal
  else if shape <=? 23 then Some AffText
  else if shape <? 70 then None
  else if shape <=? 73 then Some AffBlob
  else if shape <=? 76 then None
  else if shape =? 77 then Some AffNumeric
  else if shape <=? 79 then Some AffReal
  else if shape <=? 82 then Some AffText
  else if shape =? 84 then Some AffText
  else None.
