(* C09: the emulations some backends need are equivalent to the native forms, as mathematical
   functions on nullable values (hence for every input the engine could hold).
   NULL ordering: MySQL sorts NULL before every value in ASC order (manual 12.4.2 / B.3.4.3
   "Problems with NULL Values"); Postgres and SQLite have native NULLS FIRST / LAST. *)
From Coq Require Import List Bool.
Import ListNotations.

Section NullOrder.
Variable A : Type.
Variable cmp : A -> A -> comparison.       (* the total order of non-NULL values *)

Definition flip (c : comparison) : comparison := match c with Lt => Gt | Gt => Lt | Eq => Eq end.
Definition lex (c1 c2 : comparison) : comparison := match c1 with Eq => c2 | _ => c1 end.

(* MySQL's own ordering of a nullable key: NULL is the lowest value *)
Definition mysql_asc (x y : option A) : comparison :=
  match x, y with
  | None, None => Eq | None, Some _ => Lt | Some _, None => Gt | Some a, Some b => cmp a b
  end.
Definition mysql_dir (desc : bool) (x y : option A) : comparison :=
  if desc then flip (mysql_asc x y) else mysql_asc x y.

(* the sort key `e IS NULL` (0 for values, 1 for NULL), ascending or descending *)
Definition is_null_key (x : option A) : bool := match x with None => true | Some _ => false end.
Definition bool_cmp (a b : bool) : comparison :=
  match a, b with false, true => Lt | true, false => Gt | _, _ => Eq end.

(* what sea-query writes for MySQL:  e IS NULL ASC, e <dir>   (NULLS LAST)
                                      e IS NULL DESC, e <dir>  (NULLS FIRST) *)
Definition emulated (nulls_last desc : bool) (x y : option A) : comparison :=
  lex (if nulls_last then bool_cmp (is_null_key x) (is_null_key y)
       else flip (bool_cmp (is_null_key x) (is_null_key y)))
      (mysql_dir desc x y).

(* the native meaning of  e <dir> NULLS LAST / FIRST *)
Definition native (nulls_last desc : bool) (x y : option A) : comparison :=
  match x, y with
  | None, None => Eq
  | None, Some _ => if nulls_last then Gt else Lt
  | Some _, None => if nulls_last then Lt else Gt
  | Some a, Some b => if desc then flip (cmp a b) else cmp a b
  end.

Theorem nulls_emulation_is_native nulls_last desc x y :
  emulated nulls_last desc x y = native nulls_last desc x y.
Proof. destruct nulls_last, desc, x, y; reflexivity. Qed.

(* IFNULL(a, b) (MySQL, SQLite) and COALESCE(a, b) (Postgres) *)
Definition ifnull (a b : option A) : option A := match a with Some _ => a | None => b end.
Fixpoint coalesce (l : list (option A)) : option A :=
  match l with [] => None | Some v :: _ => Some v | None :: t => coalesce t end.
Theorem ifnull_is_coalesce2 a b : ifnull a b = coalesce [a; b].
Proof. destruct a, b; reflexivity. Qed.

(* GREATEST / LEAST (MySQL) and the multi-argument scalar MAX / MIN (SQLite): NULL if any argument
   is NULL, otherwise the extremum *)
Variable maxA : A -> A -> A.
Fixpoint all_some (l : list (option A)) : option (list A) :=
  match l with
  | [] => Some []
  | Some v :: t => match all_some t with Some r => Some (v :: r) | None => None end
  | None :: _ => None
  end.
Definition fold_max (l : list A) : option A :=
  match l with [] => None | v :: t => Some (fold_left maxA t v) end.
Definition mysql_greatest (l : list (option A)) : option A :=
  match all_some l with Some vs => fold_max vs | None => None end.
(* SQLite: "returns NULL if any argument is NULL", scanning left to right *)
Fixpoint sqlite_max_scan (acc : A) (l : list (option A)) : option A :=
  match l with
  | [] => Some acc
  | None :: _ => None
  | Some v :: t => sqlite_max_scan (maxA acc v) t
  end.
Definition sqlite_scalar_max (l : list (option A)) : option A :=
  match l with [] => None | None :: _ => None | Some v :: t => sqlite_max_scan v t end.

Lemma scan_spec t : forall acc,
  sqlite_max_scan acc t = match all_some t with Some vs => Some (fold_left maxA vs acc) | None => None end.
Proof.
  induction t as [|[v|] t IH]; intros acc; cbn; [reflexivity| |reflexivity].
  rewrite IH. destruct (all_some t); reflexivity.
Qed.

Theorem greatest_is_scalar_max l : mysql_greatest l = sqlite_scalar_max l.
Proof.
  destruct l as [|[v|] t]; cbn; [reflexivity| |reflexivity].
  unfold mysql_greatest. cbn. rewrite scan_spec. destruct (all_some t); reflexivity.
Qed.
End NullOrder.
