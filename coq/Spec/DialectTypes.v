(* The data types MySQL 8 and PostgreSQL define (MySQL 8.0 Reference Manual chapter 11 Data Types;
   PostgreSQL documentation chapter 8 Data Types, table 8.1 and sections 8.1 - 8.14, F.23 ltree,
   pgvector), as a set of type-name patterns, and a decoder from the text of a type name to
   (kind, the numeric modifiers as written, unsigned).  Written from the manuals, not from the code.
   A pattern is the lower-cased type text with every maximal run of decimal digits replaced by # and
   the blanks after commas removed:  decimal(10, 2)  has pattern  decimal(#,#)  and modifiers 10, 2. *)
Require Import SQV.Model.Str SQV.Model.Escape.
From Coq Require Import String.

Inductive dkind :=
| KChar | KVarChar | KText | KTinyInt | KSmallInt | KMediumInt | KInt | KBigInt | KFloat | KDouble
| KDecimal | KDateTime | KTimestamp | KTimestampTz | KTime | KTimeTz | KDate | KYear
| KInterval (fields : option N)          (* interval with the SQL field restriction, numbered as PgInterval *)
| KBinary | KVarBinary | KBlob | KBytea | KBit | KVarBit | KBool | KMoney | KJson | KJsonB | KUuid
| KCidr | KInet | KMacAddr | KLTree | KVector | KSmallSerial | KSerial | KBigSerial | KOther.

Definition dkind_eqb (a b : dkind) : bool :=
  match a, b with
  | KChar, KChar | KVarChar, KVarChar | KText, KText | KTinyInt, KTinyInt | KSmallInt, KSmallInt
  | KMediumInt, KMediumInt | KInt, KInt | KBigInt, KBigInt | KFloat, KFloat | KDouble, KDouble
  | KDecimal, KDecimal | KDateTime, KDateTime | KTimestamp, KTimestamp | KTimestampTz, KTimestampTz
  | KTime, KTime | KTimeTz, KTimeTz | KDate, KDate | KYear, KYear | KBinary, KBinary | KVarBinary, KVarBinary
  | KBlob, KBlob | KBytea, KBytea | KBit, KBit | KVarBit, KVarBit | KBool, KBool | KMoney, KMoney
  | KJson, KJson | KJsonB, KJsonB | KUuid, KUuid | KCidr, KCidr | KInet, KInet | KMacAddr, KMacAddr
  | KLTree, KLTree | KVector, KVector | KSmallSerial, KSmallSerial | KSerial, KSerial | KBigSerial, KBigSerial
  | KOther, KOther => true
  | KInterval None, KInterval None => true
  | KInterval (Some x), KInterval (Some y) => x =? y
  | _, _ => false
  end.

Definition is_digit (c : N) : bool := (48 <=? c) && (c <=? 57).

(* pattern (one # per maximal digit run) and the digit runs, left to right *)
Fixpoint abstract_digits (s : str) : str * list str :=
  match s with
  | [] => ([], [])
  | c :: t =>
      let (pat, runs) := abstract_digits t in
      if is_digit c then
        match t with
        | d :: _ =>
            if is_digit d then (pat, match runs with r :: rs => (c :: r) :: rs | [] => [[c]] end)
            else (35 :: pat, [c] :: runs)
        | [] => (35 :: pat, [c] :: runs)
        end
      else (c :: pat, runs)
  end.

(* lower case; blanks directly after a comma are dropped *)
Fixpoint norm_pattern (after_comma : bool) (s : str) : str :=
  match s with
  | [] => []
  | c :: t =>
      if (c =? 32) && after_comma then norm_pattern true t
      else ascii_lower c :: norm_pattern (c =? 44) t
  end.

Definition P (s : string) (k : dkind) : str * dkind := (K s, k).

(* integer kinds accept a display width; numeric kinds accept UNSIGNED (handled by the decoder) *)
Definition mysql_types : list (str * dkind) := [
  P "bit" KBit; P "bit(#)" KBit;
  P "tinyint" KTinyInt; P "tinyint(#)" KTinyInt; P "bool" KBool; P "boolean" KBool;
  P "smallint" KSmallInt; P "smallint(#)" KSmallInt; P "mediumint" KMediumInt; P "mediumint(#)" KMediumInt;
  P "int" KInt; P "int(#)" KInt; P "integer" KInt; P "integer(#)" KInt; P "bigint" KBigInt; P "bigint(#)" KBigInt;
  P "decimal" KDecimal; P "decimal(#)" KDecimal; P "decimal(#,#)" KDecimal;
  P "dec" KDecimal; P "dec(#)" KDecimal; P "dec(#,#)" KDecimal;
  P "numeric" KDecimal; P "numeric(#)" KDecimal; P "numeric(#,#)" KDecimal;
  P "fixed" KDecimal; P "fixed(#)" KDecimal; P "fixed(#,#)" KDecimal;
  P "float" KFloat; P "float(#)" KFloat; P "float(#,#)" KFloat;
  P "double" KDouble; P "double(#,#)" KDouble; P "double precision" KDouble; P "double precision(#,#)" KDouble;
  P "real" KDouble; P "real(#,#)" KDouble;
  P "date" KDate; P "datetime" KDateTime; P "datetime(#)" KDateTime; P "timestamp" KTimestamp;
  P "timestamp(#)" KTimestamp; P "time" KTime; P "time(#)" KTime; P "year" KYear; P "year(#)" KYear;
  P "char" KChar; P "char(#)" KChar; P "varchar(#)" KVarChar; P "binary" KBinary; P "binary(#)" KBinary;
  P "varbinary(#)" KVarBinary; P "tinyblob" KBlob; P "blob" KBlob; P "blob(#)" KBlob; P "mediumblob" KBlob;
  P "longblob" KBlob; P "tinytext" KText; P "text" KText; P "text(#)" KText; P "mediumtext" KText;
  P "longtext" KText; P "json" KJson;
  P "geometry" KOther; P "point" KOther; P "linestring" KOther; P "polygon" KOther; P "multipoint" KOther;
  P "multilinestring" KOther; P "multipolygon" KOther; P "geometrycollection" KOther
].

(* kinds that take UNSIGNED in MySQL *)
Definition mysql_numeric (k : dkind) : bool :=
  match k with
  | KTinyInt | KSmallInt | KMediumInt | KInt | KBigInt | KDecimal | KFloat | KDouble => true
  | _ => false
  end.

(* interval fields are numbered as in PgInterval: 0 YEAR 1 MONTH 2 DAY 3 HOUR 4 MINUTE 5 SECOND
   6 YEAR TO MONTH 7 DAY TO HOUR 8 DAY TO MINUTE 9 DAY TO SECOND 10 HOUR TO MINUTE 11 HOUR TO SECOND
   12 MINUTE TO SECOND.  A precision is only accepted when the fields include SECOND (section 8.5). *)
Definition postgres_types : list (str * dkind) := [
  P "smallint" KSmallInt; P "int2" KSmallInt; P "integer" KInt; P "int" KInt; P "int4" KInt;
  P "bigint" KBigInt; P "int8" KBigInt;
  P "decimal" KDecimal; P "decimal(#)" KDecimal; P "decimal(#,#)" KDecimal;
  P "numeric" KDecimal; P "numeric(#)" KDecimal; P "numeric(#,#)" KDecimal;
  P "real" KFloat; P "float4" KFloat; P "double precision" KDouble; P "float8" KDouble;
  P "float" KDouble; P "float(#)" KDouble;
  P "smallserial" KSmallSerial; P "serial2" KSmallSerial; P "serial" KSerial; P "serial4" KSerial;
  P "bigserial" KBigSerial; P "serial8" KBigSerial;
  P "money" KMoney;
  P "character varying" KVarChar; P "character varying(#)" KVarChar; P "varchar" KVarChar; P "varchar(#)" KVarChar;
  P "character" KChar; P "character(#)" KChar; P "char" KChar; P "char(#)" KChar; P "bpchar" KChar; P "text" KText;
  P "bytea" KBytea;
  P "timestamp" KTimestamp; P "timestamp(#)" KTimestamp;
  P "timestamp without time zone" KDateTime; P "timestamp(#) without time zone" KDateTime;
  P "timestamp with time zone" KTimestampTz; P "timestamp(#) with time zone" KTimestampTz; P "timestamptz" KTimestampTz;
  P "date" KDate;
  P "time" KTime; P "time(#)" KTime; P "time without time zone" KTime; P "time(#) without time zone" KTime;
  P "time with time zone" KTimeTz; P "time(#) with time zone" KTimeTz; P "timetz" KTimeTz;
  P "interval" (KInterval None); P "interval(#)" (KInterval None);
  P "interval year" (KInterval (Some 0)); P "interval month" (KInterval (Some 1));
  P "interval day" (KInterval (Some 2)); P "interval hour" (KInterval (Some 3));
  P "interval minute" (KInterval (Some 4)); P "interval second" (KInterval (Some 5));
  P "interval second(#)" (KInterval (Some 5));
  P "interval year to month" (KInterval (Some 6)); P "interval day to hour" (KInterval (Some 7));
  P "interval day to minute" (KInterval (Some 8)); P "interval day to second" (KInterval (Some 9));
  P "interval day to second(#)" (KInterval (Some 9));
  P "interval hour to minute" (KInterval (Some 10)); P "interval hour to second" (KInterval (Some 11));
  P "interval hour to second(#)" (KInterval (Some 11));
  P "interval minute to second" (KInterval (Some 12)); P "interval minute to second(#)" (KInterval (Some 12));
  P "boolean" KBool; P "bool" KBool;
  P "point" KOther; P "line" KOther; P "lseg" KOther; P "box" KOther; P "path" KOther; P "polygon" KOther;
  P "circle" KOther;
  P "cidr" KCidr; P "inet" KInet; P "macaddr" KMacAddr; P "macaddr8" KMacAddr;
  P "bit" KBit; P "bit(#)" KBit; P "bit varying" KVarBit; P "bit varying(#)" KVarBit; P "varbit" KVarBit;
  P "varbit(#)" KVarBit;
  P "tsvector" KOther; P "tsquery" KOther; P "uuid" KUuid; P "xml" KOther; P "json" KJson; P "jsonb" KJsonB;
  P "pg_lsn" KOther; P "pg_snapshot" KOther; P "txid_snapshot" KOther;
  (* additional supplied modules and the pgvector extension *)
  P "ltree" KLTree; P "vector" KVector; P "vector(#)" KVector; P "citext" KOther; P "hstore" KOther
].

Fixpoint lookup_type (tbl : list (str * dkind)) (pat : str) : option dkind :=
  match tbl with
  | [] => None
  | (p, k) :: t => if str_eqb p pat then Some k else lookup_type t pat
  end.

(* strip a trailing blank + unsigned (on the normalised pattern) *)
Definition strip_suffix (suf s : str) : option str :=
  let n := (List.length s - List.length suf)%nat in
  if (List.length suf <=? List.length s)%nat && str_eqb (skipn n s) suf then Some (firstn n s) else None.

Record dtype := { dt_kind : dkind; dt_mods : list str; dt_unsigned : bool }.

Definition decode_type (d : backend) (name : str) : option dtype :=
  let (pat0, runs) := abstract_digits name in
  let pat := norm_pattern false pat0 in
  match d with
  | MySQL =>
      match strip_suffix (K " unsigned") pat with
      | Some base =>
          match lookup_type mysql_types base with
          | Some k => if mysql_numeric k then Some {| dt_kind := k; dt_mods := runs; dt_unsigned := true |} else None
          | None => None
          end
      | None =>
          match lookup_type mysql_types pat with
          | Some k => Some {| dt_kind := k; dt_mods := runs; dt_unsigned := false |}
          | None => None
          end
      end
  | Postgres =>
      match lookup_type postgres_types pat with
      | Some k => Some {| dt_kind := k; dt_mods := runs; dt_unsigned := false |}
      | None => None
      end
  | SQLite => None     (* SQLite accepts any type name: see Spec/Affinity.v *)
  end.

(* ---------------------------------------------------------------------------------------------------
   what each abstract column type (shape key of Generated/ColTypes.v) is expected to decode to: the kind,
   the modifiers (inl = a fixed number the dialect needs, inr i = the abstract type's parameter i) and
   unsigned-ness.  `natural` is the faithful reading of the abstract type; `expected d` lists, per
   dialect, the documented many-to-one substitutions (the dialect has no such type) on top of it.
   --------------------------------------------------------------------------------------------------- *)
Definition mods := list (str + N).
Definition natural (shape : N) : option (dkind * mods * bool) :=
  let u (k : dkind) (m : mods) := Some (k, m, false) in
  if shape =? 0 then u KChar [] else if shape =? 1 then u KChar [inr 0]
  else if shape =? 2 then u KVarChar [inr 0] else if shape =? 3 then u KVarChar [] else if shape =? 4 then u KVarChar []
  else if shape =? 5 then u KText [] else if shape =? 6 then u KBlob []
  else if shape =? 7 then u KTinyInt [] else if shape =? 8 then u KSmallInt [] else if shape =? 9 then u KInt []
  else if shape =? 10 then u KBigInt []
  else if shape =? 11 then Some (KTinyInt, [], true) else if shape =? 12 then Some (KSmallInt, [], true)
  else if shape =? 13 then Some (KInt, [], true) else if shape =? 14 then Some (KBigInt, [], true)
  else if shape =? 15 then u KFloat [] else if shape =? 16 then u KDouble []
  else if shape =? 17 then u KDecimal [] else if shape =? 18 then u KDecimal [inr 0; inr 1]
  else if shape =? 19 then u KDateTime [] else if shape =? 20 then u KTimestamp []
  else if shape =? 21 then u KTimestampTz [] else if shape =? 22 then u KTime [] else if shape =? 23 then u KDate []
  else if shape =? 24 then u KYear []
  else if shape =? 25 then u (KInterval None) [] else if shape =? 26 then u (KInterval None) [inr 0]
  else if (30 <=? shape) && (shape <=? 42) then u (KInterval (Some (shape - 30))) []
  else if (50 <=? shape) && (shape <=? 62) then u (KInterval (Some (shape - 50))) [inr 0]
  else if shape =? 70 then u KBinary [inr 0] else if shape =? 71 then u KVarBinary [inr 0]
  else if shape =? 72 then u KVarBinary [] else if shape =? 73 then u KVarBinary []
  else if shape =? 74 then u KBit [] else if shape =? 75 then u KBit [inr 0] else if shape =? 76 then u KVarBit [inr 0]
  else if shape =? 77 then u KBool [] else if shape =? 78 then u KMoney [] else if shape =? 79 then u KMoney [inr 0; inr 1]
  else if shape =? 80 then u KJson [] else if shape =? 81 then u KJsonB [] else if shape =? 82 then u KUuid []
  else if shape =? 86 then u KVector [] else if shape =? 87 then u KVector [inr 0]
  else if shape =? 88 then u KCidr [] else if shape =? 89 then u KInet [] else if shape =? 90 then u KMacAddr []
  else if shape =? 91 then u KLTree []
  else None.     (* 83 Custom, 84 Enum, 85 Array: structural, not table-driven *)

(* the documented many-to-one rows: (shape, what it is written as instead) *)
Definition mysql_substitutions : list (N * (dkind * mods * bool)) := [
  (3, (KVarChar, [inl (K "255")], false));        (* String without length: varchar(255), the documented default *)
  (4, (KVarChar, [inl (K "65535")], false));      (* String(Max): the largest varchar *)
  (21, (KTimestamp, [], false));                  (* no time zone aware type *)
  (72, (KVarBinary, [inl (K "255")], false)); (73, (KVarBinary, [inl (K "65535")], false));
  (76, (KBit, [inr 0], false));                   (* VarBit(n): bit(n) *)
  (78, (KDecimal, [], false)); (79, (KDecimal, [inr 0; inr 1], false));   (* Money: decimal *)
  (81, (KJson, [], false));                       (* JsonBinary: json *)
  (82, (KBinary, [inl (K "16")], false))          (* Uuid: binary(16) *)
].
Definition postgres_substitutions : list (N * (dkind * mods * bool)) := [
  (6, (KBytea, [], false));                       (* Blob: bytea *)
  (7, (KSmallInt, [], false));                    (* TinyInteger: smallint (no one-byte integer) *)
  (11, (KSmallInt, [], false)); (12, (KSmallInt, [], false)); (13, (KInt, [], false));
  (14, (KBigInt, [], false));                     (* no unsigned integers: the signed type of the same width *)
  (70, (KBytea, [], false)); (71, (KBytea, [], false)); (72, (KBytea, [], false));
  (73, (KBytea, [], false))                       (* Binary(n) / VarBinary: bytea, lengths dropped *)
].
(* rows that are NOT a type of the dialect (findings; listed so that the theorem states them) *)
Definition mysql_undefined : list N :=
  [25; 26; 30; 31; 32; 33; 34; 35; 36; 37; 38; 39; 40; 41; 42; 50; 51; 52; 53; 54; 55; 56; 57; 58; 59; 60; 61; 62].
                                                   (* Interval: written as the word unsupported *)
Definition postgres_undefined : list N :=
  [79;                                            (* money takes no modifiers: money(p, s) is rejected *)
   50; 51; 52; 53; 54; 56; 57; 58; 60].           (* interval precision with fields that do not include SECOND *)

Fixpoint assoc_shape {A} (l : list (N * A)) (k : N) : option A :=
  match l with [] => None | (k', v) :: t => if k' =? k then Some v else assoc_shape t k end.

Definition substitutions (d : backend) : list (N * (dkind * mods * bool)) :=
  match d with MySQL => mysql_substitutions | Postgres => postgres_substitutions | SQLite => [] end.
Definition undefined_rows (d : backend) : list N :=
  match d with MySQL => mysql_undefined | Postgres => postgres_undefined | SQLite => [] end.

Definition expected (d : backend) (shape : N) : option (dkind * mods * bool) :=
  match assoc_shape (substitutions d) shape with
  | Some e => Some e
  | None => natural shape
  end.

(* Postgres auto-increment: the serial type of the same width *)
Definition serial_of (shape : N) : option dkind :=
  if shape =? 8 then Some KSmallSerial else if shape =? 9 then Some KSerial
  else if shape =? 10 then Some KBigSerial else None.

(* ---- comparison of a decoded type with an expected row, at parameter values p ---- *)
Definition mods_text (m : mods) (p : N * N) : list str :=
  map (fun x : str + N => match x with inl s => s | inr i => dec_of_N (if i =? 0 then fst p else snd p) end) m.

Fixpoint strs_eqb (a b : list str) : bool :=
  match a, b with
  | [], [] => true
  | x :: a', y :: b' => str_eqb x y && strs_eqb a' b'
  | _, _ => false
  end.

Definition dtype_matches (dt : dtype) (e : dkind * mods * bool) (p : N * N) : bool :=
  match e with
  | (k, m, u) => dkind_eqb (dt_kind dt) k && strs_eqb (dt_mods dt) (mods_text m p) && Bool.eqb (dt_unsigned dt) u
  end.

(* the parameter vectors at which the decoding is evaluated *)
Definition param_points : list (N * N) :=
  [(0, 0); (1, 1); (7, 3); (10, 2); (16, 4); (38, 10); (255, 255); (65535, 0); (4294967295, 4294967295)].

