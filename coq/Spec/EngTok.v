(* Engine-side statement tokenizers (trusted, written from the engines' lexical documentation):
   the token stream MySQL / Postgres / SQLite see for a statement.  Built on the literal and
   identifier lexers of EngLex.  Deliberately strict: anything sea-query has no business
   emitting (comments, a number glued to a word, unterminated quotes) is a lexing failure. *)
Require Import SQV.Model.Str SQV.Model.Escape SQV.Spec.EngLex.

Inductive etok :=
| TkId (s : str)            (* quoted identifier, decoded *)
| TkStr (s : str)           (* string literal, decoded *)
| TkBytes (bs : list N)     (* binary literal, decoded *)
| TkWord (s : str)          (* bare word / keyword, ASCII upper-cased *)
| TkNum (s : str)           (* numeric literal text *)
| TkParam (n : N)           (* placeholder: 0 = positional ?, n = $n *)
| TkOp (s : str)            (* operator: maximal run of operator characters *)
| TkPunct (c : N).          (* ( ) , ; . [ ] : *)

Definition quote_of (b : backend) : N := match b with MySQL => 96 | _ => 34 end.

Definition is_ws (c : N) : bool := (c =? 32) || (c =? 9) || (c =? 10) || (c =? 13) || (c =? 12).
Definition is_digit (c : N) : bool := (48 <=? c) && (c <=? 57).
Definition is_word_start (c : N) : bool :=
  ((65 <=? c) && (c <=? 90)) || ((97 <=? c) && (c <=? 122)) || (c =? 95) || (128 <=? c).
Definition is_word_char (c : N) : bool := is_word_start c || is_digit c || (c =? 36).
(* + - * / < > = ~ ! @ # % ^ & | *)
Definition is_op_char (c : N) : bool :=
  mem_N c [43; 45; 42; 47; 60; 62; 61; 126; 33; 64; 35; 37; 94; 38; 124].
(* ( ) , ; . [ ] : *)
Definition is_punct (c : N) : bool := mem_N c [40; 41; 44; 59; 46; 91; 93; 58].

(* MySQL double-quoted string (ANSI_QUOTES off): same escapes as '...' *)
Fixpoint mysql_lex_body_q (q : N) (esc : bool) (s : str) : option (str * str) :=
  match s with
  | [] => None
  | c :: t =>
      if esc then
        match mysql_lex_body_q q false t with
        | Some (o, r) => Some (mysql_escape c ++ o, r) | None => None end
      else if c =? 92 then mysql_lex_body_q q true t
      else if c =? q then
        match t with
        | d :: t' => if d =? q then push q (mysql_lex_body_q q false t') else Some ([], t)
        | [] => Some ([], [])
        end
      else push c (mysql_lex_body_q q false t)
  end.

(* number: digits [. digits] [e [+-] digits]; returns (text, rest) *)
Definition lex_number (s : str) : str * str :=
  let (ip, r1) := span is_digit s in
  let (fp, r2) :=
    match r1 with
    | d :: t => if d =? 46 then let (f, r) := span is_digit t in (46 :: f, r) else ([], r1)
    | [] => ([], r1)
    end in
  let (ep, r3) :=
    match r2 with
    | e :: t =>
        if (e =? 101) || (e =? 69) then
          match t with
          | sg :: t' =>
              if (sg =? 43) || (sg =? 45) then
                let (ds, r) := span is_digit t' in
                if is_nil ds then ([], r2) else (e :: sg :: ds, r)
              else
                let (ds, r) := span is_digit t in
                if is_nil ds then ([], r2) else (e :: ds, r)
          | [] => ([], r2)
          end
        else ([], r2)
    | [] => ([], r2)
    end in
  (ip ++ fp ++ ep, r3).

Definition starts_with_word_char (s : str) : bool :=
  match s with c :: _ => is_word_char c | [] => false end.

Definition has_comment_start (op : str) : bool :=
  (fix go (l : str) : bool :=
     match l with
     | a :: ((b :: _) as t) => ((a =? 45) && (b =? 45)) || ((a =? 47) && (b =? 42)) || go t
     | _ => false
     end) op.

Definition next_etok (b : backend) (s : str) : option (etok * str) :=
  match s with
  | [] => None
  | c :: t =>
      if c =? quote_of b then
        match lex_quoted_with c s with Some (n, r) => Some (TkId n, r) | None => None end
      else if c =? 39 then
        match (match b with MySQL => mysql_lex_string | Postgres => pg_lex_string
                          | SQLite => sqlite_lex_string end) s with
        | Some (v, r) => Some (TkStr v, r) | None => None end
      else if c =? 34 then
        (* only reached for MySQL (for the others 34 is the identifier quote) *)
        match mysql_lex_body_q 34 false t with Some (v, r) => Some (TkStr v, r) | None => None end
      else if c =? 96 then None   (* backtick outside MySQL *)
      else if ((c =? 120) || (c =? 88)) && (match t with q :: _ => q =? 39 | [] => false end) then
        match b with
        | Postgres => None
        | _ => match lex_hex_literal s with Some (bs, r) => Some (TkBytes bs, r) | None => None end
        end
      else if ((c =? 69) || (c =? 101)) && (match t with q :: _ => q =? 39 | [] => false end) then
        match b with
        | Postgres => match pg_lex_string s with Some (v, r) => Some (TkStr v, r) | None => None end
        | _ => None
        end
      else if is_word_start c then
        let (w, r) := span is_word_char s in Some (TkWord (map ascii_upper w), r)
      else if is_digit c || ((c =? 46) && (match t with d :: _ => is_digit d | [] => false end)) then
        let (n, r) := lex_number s in
        if starts_with_word_char r then None else Some (TkNum n, r)
      else if c =? 63 then
        match b with Postgres => None | _ => Some (TkParam 0, t) end
      else if c =? 36 then
        match b with
        | Postgres =>
            let (ds, r) := span is_digit t in
            if is_nil ds then None else
            if starts_with_word_char r then None else
            Some (TkParam (fold_left (fun a d => a * 10 + (d - 48)) ds 0), r)
        | _ => None
        end
      else if is_op_char c then
        let (o, r) := span is_op_char s in
        if has_comment_start o then None else Some (TkOp o, r)
      else if is_punct c then Some (TkPunct c, t)
      else None
  end.

(* the token stream of a whole statement; None = the engine's lexer rejects it *)
Fixpoint eng_tokens_fuel (fuel : nat) (b : backend) (s : str) : option (list etok) :=
  match fuel with
  | O => None
  | S f =>
      let (_, s') := span is_ws s in
      match s' with
      | [] => Some []
      | _ =>
          match next_etok b s' with
          | Some (t, r) =>
              (* every token consumes at least one char; guard against a non-advancing lexer *)
              if Nat.ltb (length r) (length s') then
                match eng_tokens_fuel f b r with Some ts => Some (t :: ts) | None => None end
              else None
          | None => None
          end
      end
  end.
Definition eng_tokens (b : backend) (s : str) : option (list etok) :=
  eng_tokens_fuel (S (length s)) b s.

(* the decoded quoted identifiers of a statement, in reading order *)
Definition idents_of (ts : list etok) : list str :=
  flat_map (fun t => match t with TkId n => [n] | _ => [] end) ts.
