(* Executable oracle for C03, applied to the implementation's own output: strip the position's
   prefix, lex the literal(s) with the engine lexer, return the decoded payloads and the rest. *)
Require Import SQV.Model.Str SQV.Model.Escape SQV.Spec.EngLex.

Fixpoint strip_prefix (p s : str) : option str :=
  match p, s with
  | [], _ => Some s
  | a :: p', b :: s' => if a =? b then strip_prefix p' s' else None
  | _ :: _, [] => None
  end.

Definition eng_lex_string (b : backend) : str -> option (str * str) :=
  match b with MySQL => mysql_lex_string | Postgres => pg_lex_string | SQLite => sqlite_lex_string end.
Definition eng_lex_bytes (b : backend) : str -> option (list N * str) :=
  match b with Postgres => pg_lex_bytea | _ => lex_hex_literal end.
Definition eng_lex_ident (b : backend) : str -> option (str * str) :=
  match b with MySQL => mysql_lex_ident | Postgres => pg_lex_ident | SQLite => sqlite_lex_ident end.

(* decode a `sep`-separated list of literals; fuel bounds the number of literals *)
Fixpoint decode_list {A} (lexer : str -> option (A * str)) (sep : str) (fuel : nat) (s : str)
  : option (list A * str) :=
  match fuel with
  | O => None
  | S f =>
      match lexer s with
      | None => None
      | Some (x, r) =>
          if is_nil sep then Some ([x], r) else
          match strip_prefix sep r with
          | Some r' =>
              (* only continue if another literal really follows *)
              match decode_list lexer sep f r' with
              | Some (xs, r'') => Some (x :: xs, r'')
              | None => Some ([x], r)
              end
          | None => Some ([x], r)
          end
      end
  end.

Definition decode_strings_at (b : backend) (pre sep : str) (stmt : str) : option (list str * str) :=
  match strip_prefix pre stmt with
  | Some s => decode_list (eng_lex_string b) sep (S (length s)) s
  | None => None
  end.
Definition decode_bytes_at (b : backend) (pre : str) (stmt : str) : option (list N * str) :=
  match strip_prefix pre stmt with
  | Some s => eng_lex_bytes b s
  | None => None
  end.
