(* Precedence-climbing grammar with ternary forms (the way MySQL, Postgres and SQLite parse operator
   expressions): Spec/Pratt.v extended with operators of the shape  lhs OP lo SEP hi  (BETWEEN .. AND ..),
   whose second and third operands are parsed at the operator's right level and are separated by the
   token of another operator.  Tables: prec (binding level of a binary / ternary operator), rmin (minimum
   level of its right operand(s)), notp (level of the operand of a prefix NOT), tern (Some sep for a
   ternary operator).  The tree of  lhs OP lo SEP hi  is  EB lhs OP (EB lo SEP hi), which is how the
   builder encodes BETWEEN.  Atoms are opaque. *)
From Coq Require Import List Arith Lia.
Import ListNotations.

Section PrattT.
Variables atom op : Type.
Variable prec : op -> nat.
Variable rmin : op -> nat.
Variable notp : nat.
Variable tern : op -> option op.

Inductive tok := TA (a : atom) | TL | TR | TO (o : op) | TN.
Inductive expr := EA (a : atom) | EN (e : expr) | EB (l : expr) (o : op) (r : expr).

Definition stops (min : nat) (ts : list tok) : Prop :=
  match ts with
  | [] => True
  | TR :: _ => True
  | TO o :: _ => prec o < min
  | _ => False
  end.

Inductive P : nat -> list tok -> expr -> list tok -> Prop :=
| P_atom min a ts e rest : L min (EA a) ts e rest -> P min (TA a :: ts) e rest
| P_paren min ts x ts' e rest : P 0 ts x (TR :: ts') -> L min x ts' e rest -> P min (TL :: ts) e rest
| P_not min ts x ts' e rest : min <= notp -> P notp ts x ts' -> L min (EN x) ts' e rest ->
                              P min (TN :: ts) e rest
with L : nat -> expr -> list tok -> expr -> list tok -> Prop :=
| L_stop min lhs ts : stops min ts -> L min lhs ts lhs ts
| L_op min lhs o ts r ts' e rest : tern o = None -> min <= prec o -> P (rmin o) ts r ts' ->
                                   L min (EB lhs o r) ts' e rest -> L min lhs (TO o :: ts) e rest
| L_tern min lhs o sep ts lo ts' hi ts'' e rest :
    tern o = Some sep -> min <= prec o ->
    P (rmin o) ts lo (TO sep :: ts') -> P (rmin o) ts' hi ts'' ->
    L min (EB lhs o (EB lo sep hi)) ts'' e rest -> L min lhs (TO o :: ts) e rest.

Scheme P_mind := Minimality for P Sort Prop
  with L_mind := Minimality for L Sort Prop.
Combined Scheme P_L_mutind from P_mind, L_mind.

(* ---- a renderer with arbitrary parenthesis decisions ---- *)
Variable paren_un : expr -> bool.
Variable paren_l paren_r : op -> expr -> bool.
Variable paren_lo paren_hi : op -> expr -> bool.     (* the two bounds of a ternary form *)

Definition wrap (b : bool) (ts : list tok) : list tok := if b then TL :: ts ++ [TR] else ts.

Fixpoint render (e : expr) : list tok :=
  match e with
  | EA a => [TA a]
  | EN x => TN :: wrap (paren_un x) (render x)
  | EB l o r =>
      match tern o, r with
      | Some _, EB lo s hi =>
          wrap (paren_l o l) (render l) ++ TO o :: wrap (paren_lo o lo) (render lo) ++
          TO s :: wrap (paren_hi o hi) (render hi)
      | _, _ => wrap (paren_l o l) (render l) ++ TO o :: wrap (paren_r o r) (render r)
      end
  end.

Definition top_ok (e : expr) (k : nat) : Prop :=
  match e with EA _ => True | EN _ => k <= notp | EB _ o _ => k <= prec o end.
Definition left_ok (o : op) (l : expr) : Prop :=
  match l with EA _ => True | EN _ => False | EB _ o1 _ => prec o <= prec o1 /\ prec o < rmin o1 end.

Fixpoint safe (e : expr) : Prop :=
  match e with
  | EA _ => True
  | EN x => safe x /\ (paren_un x = true \/ top_ok x notp)
  | EB l o r =>
      match tern o with
      | Some sep =>
          match r with
          | EB lo s hi =>
              s = sep /\ prec sep < rmin o /\
              safe l /\ safe lo /\ safe hi /\ (paren_l o l = true \/ left_ok o l) /\
              (paren_lo o lo = true \/ top_ok lo (rmin o)) /\ (paren_hi o hi = true \/ top_ok hi (rmin o))
          | _ => False           (* a ternary operator always carries both bounds *)
          end
      | None =>
          safe l /\ safe r /\ (paren_l o l = true \/ left_ok o l) /\
          (paren_r o r = true \/ top_ok r (rmin o))
      end
  end.

(* what follows e is not absorbed into e *)
Fixpoint nosteal (e : expr) (rest : list tok) : Prop :=
  match e with
  | EA _ => True
  | EN x => stops notp rest /\ (paren_un x = true \/ nosteal x rest)
  | EB _ o r =>
      stops (rmin o) rest /\
      match tern o, r with
      | Some _, EB _ _ hi => paren_hi o hi = true \/ nosteal hi rest
      | _, _ => paren_r o r = true \/ nosteal r rest
      end
  end.
End PrattT.
