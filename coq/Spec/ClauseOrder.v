(* The order in which each dialect's grammar requires the clauses of a statement (trusted, from the
   statement syntax diagrams):
   SQLite   lang_select.html, lang_insert.html, lang_update.html, lang_delete.html (update/delete
            with SQLITE_ENABLE_UPDATE_DELETE_LIMIT: RETURNING precedes ORDER BY / LIMIT)
   MySQL    13.2.13 SELECT, 13.2.7 INSERT, 13.2.17 UPDATE, 13.2.2 DELETE
   Postgres SELECT / INSERT / UPDATE / DELETE synopses.
   A statement respects the grammar when the kinds of the clauses it emits form an increasing
   sequence of positions; None = the dialect has no such clause at all. *)
Require Import SQV.Model.Str SQV.Model.Escape SQV.Model.RenderStmt.
From Coq Require Import Arith.

Definition select_pos (b : backend) (k : ckind) : option nat :=
  match k with
  | KWith => Some 0 | KHead => Some 1 | KFrom => Some 2 | KJoins => Some 3 | KWhere => Some 4
  | KGroupBy => Some 5 | KHaving => Some 6
  | KWindow => Some 7                      (* WINDOW follows HAVING in all three dialects *)
  | KCompound => Some 8 | KOrderBy => Some 9 | KLimit => Some 10 | KOffset => Some 11
  | KLock => match b with SQLite => None | _ => Some 12 end
  | _ => None
  end%nat.

Definition insert_pos (b : backend) (k : ckind) : option nat :=
  match k with
  | KWith => Some 0 | KHead => Some 1 | KSource => Some 2 | KOnConflict => Some 3
  | KReturning => match b with MySQL => None | _ => Some 4 end
  | _ => None
  end%nat.

Definition update_pos (b : backend) (k : ckind) : option nat :=
  match b, k with
  | _, KWith => Some 0 | _, KHead => Some 1
  | MySQL, KUpdJoin => Some 2             (* UPDATE t JOIN u ON .. SET .. *)
  | _, KSet => Some 3
  | Postgres, KUpdFrom | SQLite, KUpdFrom => Some 4
  | _, KWhere => Some 5
  | Postgres, KReturning | SQLite, KReturning => Some 6
  | MySQL, KOrderBy | SQLite, KOrderBy => Some 7
  | MySQL, KLimit | SQLite, KLimit => Some 8
  | _, _ => None
  end%nat.

Definition delete_pos (b : backend) (k : ckind) : option nat :=
  match b, k with
  | _, KWith => Some 0 | _, KHead => Some 1 | _, KWhere => Some 2
  | Postgres, KReturning | SQLite, KReturning => Some 3
  | MySQL, KOrderBy | SQLite, KOrderBy => Some 4
  | MySQL, KLimit | SQLite, KLimit => Some 5
  | _, _ => None
  end%nat.

(* strictly increasing positions, every kind placed *)
Fixpoint increasing (pos : ckind -> option nat) (prev : option nat) (ks : list ckind) : bool :=
  match ks with
  | [] => true
  | k :: t =>
      match pos k with
      | None => false
      | Some n => (match prev with Some p => Nat.ltb p n | None => true end) && increasing pos (Some n) t
      end
  end.
Definition respects (pos : ckind -> option nat) (ks : list ckind) : bool := increasing pos None ks.
