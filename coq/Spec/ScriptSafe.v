(* A LOCAL, decidable sufficient condition for the separability premise params_sep (Spec/EngScript.v), stated
   on the script itself so that it composes along the structure of the renderers:
   every writer token lexes alone, and every token may be followed by the next non-empty one - its text ends in
   a blank, or its last engine token may be followed by the first character of the next text
   (Spec/EngBoundary.v).  Definitions only; Proofs/ScriptSafeProofs.v shows sc_ok -> params_sep, and
   Proofs/ExprSafeProofs.v that the scripts of rendered expressions are sc_ok. *)
Require Import SQV.Model.Str SQV.Model.Escape SQV.Model.Value SQV.Model.Literal SQV.Model.Writer
  SQV.Spec.EngLex SQV.Spec.EngTok SQV.Spec.EngBoundary.

Section S.
Variable ftext : bool -> N -> str.
Variable b : backend.
Variable inl : bool.     (* false: the parameterised SQL of build(); true: the inline SQL of to_string() *)

(* the text a token contributes; in the parameterised SQL a hole is written as its mark (and number), in the
   inline SQL as the literal of its value *)
Definition tok_text (t : wtok) : str :=
  match t with
  | WS s | WCust s => s
  | WId s => iden_prepare (quote_char b) s
  | WVal v => if inl then value_to_string ftext b v else fst (placeholder b)
  | WConst v => value_to_string ftext b v
  | WPanic => []
  end.
Definition tok_empty (t : wtok) : bool :=
  match t with WVal _ => if inl then is_nil (tok_text t) else false | _ => is_nil (tok_text t) end.

(* the engine tokens of a text piece lexed alone (without its trailing blanks), and whether it has trailing blanks *)
Definition text_toks (s : str) : option (list etok) := eng_tokens b (fst (rstrip s)).
Definition text_trailing_blank (s : str) : bool := negb (is_nil (snd (rstrip s))).

(* a token lexes alone; a text piece contains no placeholder token *)
Definition text_lexes (s : str) : bool :=
  match text_toks s with Some ts => negb (has_param ts) | None => false end.
Definition tok_lexes (t : wtok) : bool :=
  match t with
  | WPanic => true
  | WVal _ => if inl then text_lexes (tok_text t) else true
  | _ => text_lexes (tok_text t)
  end.

(* may character f follow token t directly? *)
Definition text_follow_ok (s : str) (f : N) : bool :=
  text_trailing_blank s ||
  match text_toks s with
  | Some [] => true
  | Some ts => follow_char_ok (last ts (TkPunct 0)) f
  | None => false
  end.
Definition tok_follow_ok (t : wtok) (f : N) : bool :=
  match t with
  | WVal _ => if inl then text_follow_ok (tok_text t) f
              else negb (is_word_char f)          (* its last engine token is the placeholder *)
  | _ => text_follow_ok (tok_text t) f
  end.

(* the first character of the text written by the rest of the script, if any *)
Fixpoint first_char (sc : script) : option N :=
  match sc with
  | [] => None
  | t :: rest => match tok_text t with c :: _ => Some c | [] => first_char rest end
  end.

Fixpoint sc_ok (sc : script) : bool :=
  match sc with
  | [] => true
  | t :: rest =>
      tok_lexes t &&
      (tok_empty t || match first_char rest with Some f => tok_follow_ok t f | None => true end) &&
      sc_ok rest
  end.
End S.
