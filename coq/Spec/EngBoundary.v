(* When may two pieces of SQL text be written next to each other without the engine's lexer
   (Spec/EngTok.v) reading a token across the seam?  The condition depends on the last token of
   the first piece and the first character of what follows:
     - after a quoted token (identifier, string, binary literal) no quote character may follow
       (a doubled delimiter would continue the token);
     - after a bare word no word character and no single quote (x'..' / E'..' prefixes);
     - after a number no word character (digits, exponent letter) and no dot;
     - after a placeholder no word character;
     - after an operator no operator character;
     - after a dot no digit (.5 is a number);
     - after any other punctuation or white space: anything.
   Definitions only; the theorems are in Proofs/EngTokProofs.v. *)
Require Import SQV.Model.Str SQV.Model.Escape SQV.Spec.EngLex SQV.Spec.EngTok.

Definition is_quote (c : N) : bool := (c =? 39) || (c =? 34) || (c =? 96).

(* may a text starting with character f follow token t directly? *)
Definition follow_char_ok (t : etok) (f : N) : bool :=
  match t with
  | TkId _ | TkStr _ | TkBytes _ => negb (is_quote f)
  | TkWord _ => negb (is_word_char f) && negb (f =? 39)
  | TkNum _ => negb (is_word_char f) && negb (f =? 46)
  | TkParam _ => negb (is_word_char f)
  | TkOp _ => negb (is_op_char f)
  | TkPunct c => if c =? 46 then negb (is_digit f) else true
  end.

Definition follow_ok (t : etok) (x : str) : bool :=
  match x with [] => true | f :: _ => follow_char_ok t f end.

(* s1 (whose engine tokens are ts1) may be followed directly by x *)
Definition join_ok (ts1 : list etok) (x : str) : bool :=
  match ts1 with
  | [] => true                       (* s1 is empty or blank *)
  | _ => follow_ok (last ts1 (TkPunct 0)) x
  end.

(* a text is cut into its core and its trailing blanks, so that a seam after white space needs no condition *)
Definition rstrip (s : str) : str * str :=
  let (bl, core) := span is_ws (rev s) in (rev core, rev bl).

(* the engine token streams of a list of texts written one after the other: every text, without its
   trailing blanks, lexes alone, and its last token may be followed by what comes next.
   lex_texts b texts = Some tss : one token list per text *)
Fixpoint lex_texts (b : backend) (texts : list str) : option (list (list etok)) :=
  match texts with
  | [] => Some []
  | s :: rest =>
      let (core, bl) := rstrip s in
      match eng_tokens b core, lex_texts b rest with
      | Some ts, Some tss => if join_ok ts (bl ++ concat rest) then Some (ts :: tss) else None
      | _, _ => None
      end
  end.

(* the placeholder numbers the engine sees: 0 for a positional mark *)
Definition params_of (ts : list etok) : list N :=
  flat_map (fun t => match t with TkParam n => [n] | _ => [] end) ts.
Definition has_param (ts : list etok) : bool :=
  existsb (fun t => match t with TkParam _ => true | _ => false end) ts.
