(* Generic precedence-climbing grammar (the way MySQL, Postgres and SQLite parse operator
   expressions), parameterised by the engine's tables: prec (binding level of a binary operator),
   rmin (minimum level of its right operand: prec+1 for left-/non-associative operators, prec for
   right-associative ones), notp (level at which the operand of a prefix NOT is parsed).
   Atoms are opaque.  Deliberately strict: a prefix NOT is only accepted where min <= notp. *)
From Coq Require Import List Arith Lia.
Import ListNotations.

Section Pratt.
Variables atom op : Type.
Variable prec : op -> nat.
Variable rmin : op -> nat.
Variable notp : nat.

Inductive tok := TA (a : atom) | TL | TR | TO (o : op) | TN.
Inductive expr := EA (a : atom) | EN (e : expr) | EB (l : expr) (o : op) (r : expr).

(* the operator loop at level `min` stops in front of these tokens *)
Definition stops (min : nat) (ts : list tok) : Prop :=
  match ts with
  | [] => True
  | TR :: _ => True
  | TO o :: _ => prec o < min
  | _ => False
  end.

Inductive P : nat -> list tok -> expr -> list tok -> Prop :=
| P_atom min a ts e rest : L min (EA a) ts e rest -> P min (TA a :: ts) e rest
| P_paren min ts x ts' e rest : P 0 ts x (TR :: ts') -> L min x ts' e rest -> P min (TL :: ts) e rest
| P_not min ts x ts' e rest : min <= notp -> P notp ts x ts' -> L min (EN x) ts' e rest ->
                              P min (TN :: ts) e rest
with L : nat -> expr -> list tok -> expr -> list tok -> Prop :=
| L_stop min lhs ts : stops min ts -> L min lhs ts lhs ts
| L_op min lhs o ts r ts' e rest : min <= prec o -> P (rmin o) ts r ts' ->
                                   L min (EB lhs o r) ts' e rest -> L min lhs (TO o :: ts) e rest.

Scheme P_mind := Minimality for P Sort Prop
  with L_mind := Minimality for L Sort Prop.
Combined Scheme P_L_mutind from P_mind, L_mind.

(* ---- a renderer with arbitrary parenthesis decisions ---- *)
Variable paren_un : expr -> bool.          (* parenthesise the operand of NOT *)
Variable paren_l paren_r : op -> expr -> bool.

Definition wrap (b : bool) (ts : list tok) : list tok := if b then TL :: ts ++ [TR] else ts.

Fixpoint render (e : expr) : list tok :=
  match e with
  | EA a => [TA a]
  | EN x => TN :: wrap (paren_un x) (render x)
  | EB l o r => wrap (paren_l o l) (render l) ++ TO o :: wrap (paren_r o r) (render r)
  end.

(* e can stand, unparenthesised, where an operand of level k is expected *)
Definition top_ok (e : expr) (k : nat) : Prop :=
  match e with EA _ => True | EN _ => k <= notp | EB _ o _ => k <= prec o end.
(* l can stand, unparenthesised, as the left operand of o *)
Definition left_ok (o : op) (l : expr) : Prop :=
  match l with EA _ => True | EN _ => False | EB _ o1 _ => prec o <= prec o1 /\ prec o < rmin o1 end.

(* the local safety condition on parenthesis decisions *)
Fixpoint safe (e : expr) : Prop :=
  match e with
  | EA _ => True
  | EN x => safe x /\ (paren_un x = true \/ top_ok x notp)
  | EB l o r => safe l /\ safe r /\ (paren_l o l = true \/ left_ok o l) /\
                (paren_r o r = true \/ top_ok r (rmin o))
  end.

(* what follows e is not absorbed into e *)
Fixpoint nosteal (e : expr) (rest : list tok) : Prop :=
  match e with
  | EA _ => True
  | EN x => stops notp rest /\ (paren_un x = true \/ nosteal x rest)
  | EB _ o r => stops (rmin o) rest /\ (paren_r o r = true \/ nosteal r rest)
  end.
End Pratt.
