(* Engine-side lexical specifications, written from the engines' documentation (trusted, DESIGN §7):
   - MySQL 8.0 manual 9.1.1 "String Literals" (default sql_mode: backslash escapes active),
     9.1.4 "Hexadecimal Literals", 9.2 "Schema Object Names" (backtick identifiers)
   - PostgreSQL manual 4.1.2.1/4.1.2.2 (standard_conforming_strings = on, E'' strings),
     4.1.1 (quoted identifiers), 8.4.1 (bytea hex format)
   - SQLite "SQL As Understood By SQLite": literal values, blob literals, quoted identifiers.
   All lexers are written in continuation style over the character list, one character per
   step (state machines), so they are structurally recursive and total; None = not a literal. *)
Require Import SQV.Model.Str.

(* ---------- helpers ---------- *)
Definition hex_val (c : N) : option N :=
  if (48 <=? c) && (c <=? 57) then Some (c - 48)
  else if (65 <=? c) && (c <=? 70) then Some (c - 55)
  else if (97 <=? c) && (c <=? 102) then Some (c - 87)
  else None.
Definition oct_val (c : N) : option N :=
  if (48 <=? c) && (c <=? 55) then Some (c - 48) else None.

Definition push {A} (c : N) (r : option (str * A)) : option (str * A) :=
  match r with Some (o, x) => Some (c :: o, x) | None => None end.

(* ---------- quote-doubling bodies: SQLite strings, Postgres standard strings,
              quoted identifiers of all three engines ---------- *)
(* after the opening quote q: a doubled q stands for q, a single q ends the token *)
Fixpoint lex_doubling (q : N) (s : str) : option (str * str) :=
  match s with
  | [] => None
  | c :: t =>
      if c =? q then
        match t with
        | d :: t' => if d =? q then push q (lex_doubling q t') else Some ([], t)
        | [] => Some ([], [])
        end
      else push c (lex_doubling q t)
  end.

Definition lex_quoted_with (q : N) (s : str) : option (str * str) :=
  match s with
  | c :: t => if c =? q then lex_doubling q t else None
  | [] => None
  end.

(* SQLite string literal '...' *)
Definition sqlite_lex_string := lex_quoted_with 39.
(* Postgres '...' with standard_conforming_strings = on (backslash is an ordinary char) *)
Definition pg_lex_std_string := lex_quoted_with 39.
(* identifiers *)
Definition mysql_lex_ident := lex_quoted_with 96.
Definition pg_lex_ident := lex_quoted_with 34.
Definition sqlite_lex_ident := lex_quoted_with 34.

(* ---------- MySQL '...' with backslash escapes ---------- *)
Definition mysql_escape (c : N) : str :=
  if c =? 48 then [0] else          (* \0 *)
  if c =? 98 then [8] else          (* \b *)
  if c =? 110 then [10] else        (* \n *)
  if c =? 114 then [13] else        (* \r *)
  if c =? 116 then [9] else         (* \t *)
  if c =? 90 then [26] else         (* \Z  (upper case only) *)
  if c =? 37 then [92; 37] else     (* \% keeps the backslash *)
  if c =? 95 then [92; 95] else     (* \_ keeps the backslash *)
  [c].                              (* backslash-quote, backslash-dquote, double backslash and every other char: the char itself *)

Fixpoint mysql_lex_body (esc : bool) (s : str) : option (str * str) :=
  match s with
  | [] => None
  | c :: t =>
      if esc then
        match mysql_lex_body false t with
        | Some (o, r) => Some (mysql_escape c ++ o, r) | None => None end
      else if c =? 92 then mysql_lex_body true t
      else if c =? 39 then
        match t with
        | d :: t' => if d =? 39 then push 39 (mysql_lex_body false t') else Some ([], t)
        | [] => Some ([], [])
        end
      else push c (mysql_lex_body false t)
  end.
Definition mysql_lex_string (s : str) : option (str * str) :=
  match s with
  | c :: t => if c =? 39 then mysql_lex_body false t else None
  | [] => None
  end.

(* ---------- Postgres E'...' ---------- *)
Inductive pgst :=
| PNorm                      (* ordinary *)
| PEsc                       (* after a backslash *)
| POct (k : nat) (v : N)     (* k more octal digits allowed, value so far *)
| PHex (k : nat) (v : N) (any : bool)   (* k more hex digits allowed; any = at least one read *)
| PUni (k : nat) (v : N)     (* exactly k more hex digits required *)
| PQuote.                    (* just saw a quote in PNorm *)

(* processing of one char in PNorm; returns the char emitted (if any) and the next state *)
Definition pg_norm_step (c : N) : option N * pgst :=
  if c =? 92 then (None, PEsc) else if c =? 39 then (None, PQuote) else (Some c, PNorm).

Definition emit (o : option N) (r : option (str * str)) : option (str * str) :=
  match o with Some c => push c r | None => r end.

Fixpoint pg_e_body (st : pgst) (s : str) : option (str * str) :=
  match s with
  | [] => match st with PQuote => Some ([], []) | _ => None end
  | c :: t =>
      match st with
      | PNorm => let (o, st') := pg_norm_step c in emit o (pg_e_body st' t)
      | PQuote => if c =? 39 then push 39 (pg_e_body PNorm t) else Some ([], s)
      | PEsc =>
          if c =? 98 then push 8 (pg_e_body PNorm t) else
          if c =? 102 then push 12 (pg_e_body PNorm t) else
          if c =? 110 then push 10 (pg_e_body PNorm t) else
          if c =? 114 then push 13 (pg_e_body PNorm t) else
          if c =? 116 then push 9 (pg_e_body PNorm t) else
          if c =? 120 then pg_e_body (PHex 2 0 false) t else
          if c =? 117 then pg_e_body (PUni 4 0) t else
          if c =? 85 then pg_e_body (PUni 8 0) t else
          match oct_val c with
          | Some v => pg_e_body (POct 2 v) t
          | None => push c (pg_e_body PNorm t)
          end
      | POct k v =>
          match k, oct_val c with
          | S k', Some d => pg_e_body (POct k' (v * 8 + d)) t
          | _, _ => (* value complete: emit it, then treat c as ordinary *)
              let (o, st') := pg_norm_step c in push (v mod 256) (emit o (pg_e_body st' t))
          end
      | PHex k v any =>
          match k, hex_val c with
          | S k', Some d => pg_e_body (PHex k' (v * 16 + d) true) t
          | _, _ =>
              let (o, st') := pg_norm_step c in
              push (if any then v else 120) (emit o (pg_e_body st' t))
          end
      | PUni k v =>
          match k with
          | O => let (o, st') := pg_norm_step c in push v (emit o (pg_e_body st' t))
          | S k' => match hex_val c with
                    | Some d => pg_e_body (PUni k' (v * 16 + d)) t
                    | None => None      (* invalid Unicode escape *)
                    end
          end
      end
  end.

(* a Postgres string constant: '...' or E'...' / e'...' *)
Definition pg_lex_string (s : str) : option (str * str) :=
  match s with
  | c :: t =>
      if c =? 39 then lex_doubling 39 t
      else if (c =? 69) || (c =? 101) then
        match t with
        | q :: t' => if q =? 39 then pg_e_body PNorm t' else None
        | [] => None
        end
      else None
  | [] => None
  end.

(* ---------- binary literals ---------- *)
Fixpoint hex_pairs (s : str) : option (list N) :=
  match s with
  | [] => Some []
  | a :: t =>
      match t with
      | b :: t' =>
          match hex_val a, hex_val b, hex_pairs t' with
          | Some x, Some y, Some r => Some (x * 16 + y :: r)
          | _, _, _ => None
          end
      | [] => None
      end
  end.

(* x'HEX' / X'HEX' (MySQL, SQLite): content must be an even number of hex digits *)
Definition lex_hex_literal (s : str) : option (list N * str) :=
  match s with
  | x :: q :: t =>
      if ((x =? 120) || (x =? 88)) && (q =? 39) then
        let (body, r) := span (fun c => negb (c =? 39)) t in
        match r with
        | _ :: rest => match hex_pairs body with Some bs => Some (bs, rest) | None => None end
        | [] => None
        end
      else None
  | _ => None
  end.

(* Postgres bytea: a string constant whose text is the hex input format \xHEX *)
Definition pg_bytea_in (txt : str) : option (list N) :=
  match txt with
  | a :: b :: h => if (a =? 92) && (b =? 120) then hex_pairs h else None
  | _ => None
  end.
Definition pg_lex_bytea (s : str) : option (list N * str) :=
  match pg_lex_string s with
  | Some (txt, rest) => match pg_bytea_in txt with Some bs => Some (bs, rest) | None => None end
  | None => None
  end.
