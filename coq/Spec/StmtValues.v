(* C01 (3): which values a whole statement binds, and in which order - the SQL reading order of the
   dialect.  Written without reference to text: every clause contributes the values of its
   expressions (Spec/ExprValues.v) and its explicit values (LIMIT / OFFSET, VALUES rows, frame
   bounds), nothing else contributes, and a nested statement contributes its own values at the
   place where it is written.  Dialect differences are stated here:
     - MySQL emulates NULLS FIRST / LAST with an extra sort key `e IS NULL`, so e's values are bound
       twice; ORDER BY FIELD-style ordering repeats e once per listed constant (the constants
       themselves are written inline);
     - clauses a dialect does not write bind nothing there (RETURNING and the conflict target on
       MySQL, SEARCH / CYCLE outside Postgres, locking on SQLite);
     - UPDATE .. FROM on MySQL writes the condition in the JOIN .. ON position, before SET. *)
Require Import SQV.Model.Str SQV.Model.Escape SQV.Model.Value SQV.Model.Expr SQV.Model.Cond SQV.Model.Stmt SQV.Model.Token
  SQV.Model.Writer SQV.Model.RenderExpr SQV.Spec.ExprValues SQV.Proofs.WriterProofs.

(* the values a template designates: the template loop (C11) run over the bare value lists *)
Definition template_values (is_alpha : N -> bool) (b : backend) (s : str) (vss : list (list value)) : list value :=
  let (mark, numbered) := placeholder b in
  match tokenize is_alpha s with
  | Some toks => vals_of (custom_loop (map (map WVal) vss) mark numbered toks 0)
  | None => []
  end.

Section SV.
Variable b : backend.
Variable ev : expr query -> list value.     (* values of an expression *)
Variable qv : query -> list value.          (* values of a nested statement *)

Definition evs (es : list (expr query)) : list value := flat_map ev es.

Definition holder_values (h : holder query) : list value :=
  match h with HEmpty => [] | HChain ms => flat_map (fun m => ev (snd m)) ms | HCond c => ev (to_simple_expr c) end.

Definition tref_values (t : tref) : list value :=
  match t with
  | TPlain _ => []
  | TSubQuery s _ => qv (QSelect s)
  | TValues rows _ => concat rows
  | TFunc _ args _ => flat_map (fun a : bool * expr query => ev (snd a)) args
  end.

Definition order_values (oe : orderexpr) : list value :=
  match oe with
  | OrderExpr e o n =>
      (match b, n with MySQL, Some _ => ev e | _, _ => [] end) ++
      (match o with OField vs => flat_map (fun _ => ev e) vs | _ => ev e end)
  end.

Definition frame_values (f : frame) : list value :=
  match f with FPreceding n | FFollowing n => [V TUnsigned (Some (PInt (Z.of_N n)))] | _ => [] end.

Definition window_values (w : windowstmt) : list value :=
  match w with
  | Window pb ob fr =>
      evs pb ++ flat_map order_values ob ++
      match fr with
      | None => []
      | Some (_, st, en) => frame_values st ++ match en with Some e => frame_values e | None => [] end
      end
  end.

Definition selexpr_values (se : selexpr) : list value :=
  match se with
  | SelExpr e _ win => ev e ++ match win with Some (WQuery w) => window_values w | _ => [] end
  end.

Definition join_values (j : joinexpr) : list value :=
  match j with
  | Join _ t on _ => tref_values t ++ match on with Some h => holder_values h | None => [] end
  end.

Definition with_values (w : withclause) : list value :=
  match w with
  | WithClause recursive search cycle ctes =>
      flat_map (fun c : cte => match c with Cte _ _ q _ => qv q end) ctes ++
      match b, recursive with
      | Postgres, true =>
          (match search with Some (_, e, _) => ev e | None => [] end) ++
          (match cycle with Some (e, _, _) => ev e | None => [] end)
      | _, _ => []
      end
  end.
Definition with_opt_values (w : option withclause) : list value :=
  match w with Some x => with_values x | None => [] end.

Definition opt_value (v : option value) : list value := match v with Some x => [x] | None => [] end.

Definition lock_values (l : option lockclause) : list value :=
  match b, l with
  | SQLite, _ | _, None => []
  | _, Some (Lock _ tables _) => flat_map tref_values tables
  end.

(* SELECT: WITH, projection, FROM, JOINs, WHERE, GROUP BY, HAVING, compound parts, ORDER BY, LIMIT,
   OFFSET, locking, WINDOW *)
Definition select_values (s : select) : list value :=
  match s with
  | Select distinct selects from joins where_ groups having unions orders limit offset lock window
           with_ sample hints =>
      with_opt_values with_ ++
      flat_map selexpr_values selects ++
      flat_map tref_values from ++
      flat_map join_values joins ++
      holder_values where_ ++
      evs groups ++
      holder_values having ++
      flat_map (fun u : utype * select => qv (QSelect (snd u))) unions ++
      flat_map order_values orders ++
      opt_value limit ++
      opt_value offset ++
      lock_values lock ++
      match window with Some (_, w) => window_values w | None => [] end
  end.

Definition returning_values (r : option returning) : list value :=
  match b, r with
  | MySQL, _ => []
  | _, Some (RExprs es) => evs es
  | _, _ => []
  end.

Definition onconflict_values (o : option onconflict) : list value :=
  match o with
  | None => []
  | Some (OnConflict targets twhere action awhere) =>
      (match b with
       | MySQL => []
       | _ => flat_map (fun t => match t with OCColumn _ => [] | OCExpr e => ev e end) targets ++
              holder_values twhere
       end) ++
      (match action with
       | Some (OCUpdate ups) => flat_map (fun u => match u with OCUpColumn _ => [] | OCUpExpr _ e => ev e end) ups
       | _ => []
       end) ++
      (match b with MySQL => [] | _ => holder_values awhere end)
  end.

(* INSERT: WITH, target, rows (row by row, left to right) or the source query, conflict clause,
   RETURNING *)
Definition insert_values (i : insert) : list value :=
  match i with
  | Insert replace table columns source on_conflict returning default_values with_ =>
      with_opt_values with_ ++
      (match table with Some t => tref_values t | None => [] end) ++
      (match default_values, columns, source with
       | Some _, [], None => []
       | _, _, Some (ISValues rows) => flat_map evs rows
       | _, _, Some (ISSelect s) => qv (QSelect s)
       | _, _, None => []
       end) ++
      onconflict_values on_conflict ++
      returning_values returning
  end.

(* UPDATE: WITH, target, (MySQL: joined table and the condition as ON), assignments left to right,
   (others: FROM tables, WHERE), RETURNING, ORDER BY, LIMIT *)
Definition update_values (u : update) : list value :=
  match u with
  | Update table from values where_ orders limit returning with_ =>
      with_opt_values with_ ++
      (match table with Some t => tref_values t | None => [] end) ++
      (match b, from with MySQL, f0 :: _ => tref_values f0 ++ holder_values where_ | _, _ => [] end) ++
      flat_map (fun cv : str * expr query => ev (snd cv)) values ++
      (match b, from with MySQL, _ => [] | _, _ => flat_map tref_values from end) ++
      (match b, from with MySQL, _ :: _ => [] | _, _ => holder_values where_ end) ++
      returning_values returning ++
      flat_map order_values orders ++
      opt_value limit
  end.

Definition delete_values (d : delete) : list value :=
  match d with
  | Delete table where_ orders limit returning with_ =>
      with_opt_values with_ ++
      (match table with Some t => tref_values t | None => [] end) ++
      holder_values where_ ++
      returning_values returning ++
      flat_map order_values orders ++
      opt_value limit
  end.

Definition query_values_gen (q : query) : list value :=
  match q with
  | QSelect s => select_values s
  | QInsert i => insert_values i
  | QUpdate u => update_values u
  | QDelete d => delete_values d
  | QWith w q' => with_values w ++ qv q'
  end.
End SV.

(* the knot, one unit per statement nesting level, as in rquery; at depth 0 nothing is rendered *)
Fixpoint query_values (is_alpha : N -> bool) (b : backend) (fuel : nat) (q : query) : list value :=
  match fuel with
  | O => []
  | S n => query_values_gen b (expr_values_t (template_values is_alpha b) (query_values is_alpha b n))
                            (query_values is_alpha b n) q
  end.
