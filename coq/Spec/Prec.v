(* Engine-side operator precedence tables (trusted, DESIGN §7), written from:
   - SQLite: the %left/%right declarations of parse.y (also in lang_expr.html "Operators"),
     calibrated against sqlite3 3.40.1 during the design phase (DESIGN Appendix B);
   - PostgreSQL: manual 4.1.6, table "Operator Precedence" (precedence is by operator name;
     every operator not listed falls in "any other operator");
   - MySQL 8.0: manual 12.4.1 "Operator Precedence" (default sql_mode).
   Levels are natural numbers, larger binds tighter.  All binary operators sea-query can emit are
   left-associative or non-associative in these grammars: the right operand must bind strictly
   tighter (rmin = level + 1).  None = the operator has no defined place in this dialect
   (BinOper::Custom, another dialect's extension operators): its operands must then be atoms or
   parenthesised, and it must be parenthesised when it is an operand.
   The pseudo-operator SBetweenAnd is the AND of `x BETWEEN a AND b`; ESCAPE is the separator of
   `x LIKE p ESCAPE c`, placed just above LIKE. *)
Require Import SQV.Model.Str SQV.Model.Escape SQV.Model.Expr.
From Coq Require Import Arith.

Inductive sop := SBin (o : binop) | SBetweenAnd.

Definition level_sqlite (o : binop) : option nat :=
  match o with
  | BOr => Some 1 | BAnd => Some 2
  | BEqual | BNotEqual | BIs | BIsNot | BIn | BNotIn | BLike | BNotLike | BBetween | BNotBetween => Some 4
  | BSl SlGlob | BSl SlMatch => Some 4
  | BSmallerThan | BSmallerThanOrEqual | BGreaterThan | BGreaterThanOrEqual => Some 5
  | BEscape => Some 6
  | BBitAnd | BBitOr | BLShift | BRShift => Some 7
  | BAdd | BSub => Some 8
  | BMul | BDiv | BMod => Some 9
  | BSl SlGetJsonField | BSl SlCastJsonField => Some 10
  | BAs => Some 0
  | BCustom _ | BPg _ => None
  end%nat.
Definition not_level_sqlite : nat := 3.

Definition level_postgres (o : binop) : option nat :=
  match o with
  | BOr => Some 2 | BAnd => Some 4
  | BIs | BIsNot => Some 8
  | BEqual | BNotEqual | BSmallerThan | BSmallerThanOrEqual | BGreaterThan | BGreaterThanOrEqual => Some 10
  | BBetween | BNotBetween | BIn | BNotIn | BLike | BNotLike | BPg PgILike | BPg PgNotILike => Some 12
  | BEscape => Some 13
  | BBitAnd | BBitOr | BLShift | BRShift => Some 14          (* & | << >> : any other operator *)
  | BPg PgSimilarity => Some 18                               (* spelled %, same name as modulo *)
  | BPg _ => Some 14                                          (* any other operator *)
  | BAdd | BSub => Some 16
  | BMul | BDiv | BMod => Some 18
  | BAs => Some 0
  | BCustom _ | BSl _ => None
  end%nat.
Definition not_level_postgres : nat := 6.

Definition level_mysql (o : binop) : option nat :=
  match o with
  | BOr => Some 2 | BAnd => Some 6
  | BBetween | BNotBetween => Some 10
  | BEqual | BNotEqual | BSmallerThan | BSmallerThanOrEqual | BGreaterThan | BGreaterThanOrEqual
  | BIs | BIsNot | BLike | BNotLike | BIn | BNotIn => Some 12
  | BEscape => Some 13
  | BBitOr => Some 14 | BBitAnd => Some 16
  | BLShift | BRShift => Some 18
  | BAdd | BSub => Some 20
  | BMul | BDiv | BMod => Some 22
  | BAs => Some 0
  | BCustom _ | BPg _ | BSl _ => None
  end%nat.
Definition not_level_mysql : nat := 8.

Definition level (b : backend) (o : binop) : option nat :=
  match b with MySQL => level_mysql o | Postgres => level_postgres o | SQLite => level_sqlite o end.
Definition not_level (b : backend) : nat :=
  match b with MySQL => not_level_mysql | Postgres => not_level_postgres | SQLite => not_level_sqlite end.

Definition slevel (b : backend) (o : sop) : option nat :=
  match o with
  | SBin o => level b o
  | SBetweenAnd => level b BBetween
  end.
