(* Executable oracle for C03 on array values, applied to the implementation's own output: after
   the position's prefix the text must be ARRAY [ lit , lit , ... ] ; every element is lexed with
   the engine's string / byte-string lexer.  Returns the decoded elements and the text after the
   last element (expected: the closing bracket followed by the position's suffix). *)
Require Import SQV.Model.Str SQV.Model.Escape SQV.Spec.EngLex SQV.Spec.LitOracle.
From Coq Require Import String.
Open Scope list_scope.

Definition array_open : str := K "ARRAY [".
Definition array_close : str := K "]".
Definition array_sep : str := K ",".

Definition decode_string_array_at (b : backend) (pre : str) (stmt : str) : option (list str * str) :=
  match strip_prefix (pre ++ array_open) stmt with
  | Some s => decode_list (eng_lex_string b) array_sep (S (List.length s)) s
  | None => None
  end.
Definition decode_bytes_array_at (b : backend) (pre : str) (stmt : str) : option (list (list N) * str) :=
  match strip_prefix (pre ++ array_open) stmt with
  | Some s => decode_list (eng_lex_bytes b) array_sep (S (List.length s)) s
  | None => None
  end.
