(* Model of the query statement ASTs: SelectStatement (src/query/select.rs), InsertStatement,
   UpdateStatement, DeleteStatement, WithClause / CommonTableExpression / WithQuery, OnConflict,
   ReturningClause, WindowStatement, OrderExpr, TableRef, SubQueryStatement. *)
Require Import SQV.Model.Str SQV.Model.Value SQV.Model.Expr.

Inductive order := OAsc | ODesc | OField (vs : list value).
Inductive nulls := NFirst | NLast.
Inductive jtype := JJoin | JCross | JInner | JLeft | JRight | JFull.
Inductive utype := UIntersect | UDistinct | UExcept | UAll.
Inductive locktype := LUpdate | LNoKeyUpdate | LShare | LKeyShare.
Inductive lockbeh := LNowait | LSkipLocked.
Inductive frame := FUnboundedPreceding | FPreceding (n : N) | FCurrentRow | FFollowing (n : N) | FUnboundedFollowing.
Inductive frametype := FTRange | FTRows.
Inductive hinttype := HUse | HIgnore | HForce.
Inductive hintscope := HSJoin | HSOrderBy | HSGroupBy | HSAll.
Inductive samplemethod := SBernoulli | SSystem.

(* the identifier-only forms of TableRef *)
Inductive tplain :=
| TRTable (t : str) | TRSchemaTable (s t : str) | TRDbSchemaTable (d s t : str)
| TRTableAlias (t a : str) | TRSchemaTableAlias (s t a : str) | TRDbSchemaTableAlias (d s t a : str).

Inductive select :=
| Select
    (distinct : option sdistinct)
    (selects : list selexpr)
    (from : list tref)
    (joins : list joinexpr)
    (where_ : holder query)
    (groups : list (expr query))
    (having : holder query)
    (unions : list (utype * select))
    (orders : list orderexpr)
    (limit : option value)
    (offset : option value)
    (lock : option lockclause)
    (window : option (str * windowstmt))
    (with_ : option withclause)
    (table_sample : option (samplemethod * str * option str))   (* method, percentage text, repeatable text *)
    (index_hints : list (hinttype * hintscope * str))
with sdistinct := DAll | DDistinct | DDistinctRow | DDistinctOn (cols : list colref)
with selexpr := SelExpr (e : expr query) (alias : option str) (win : option winsel)
with winsel := WName (n : str) | WQuery (w : windowstmt)
with windowstmt := Window (partition_by : list (expr query)) (order_by : list orderexpr)
                          (fr : option (frametype * frame * option frame))
with orderexpr := OrderExpr (e : expr query) (o : order) (n : option nulls)
with tref :=
| TPlain (t : tplain)
| TSubQuery (s : select) (alias : str)
| TValues (rows : list (list value)) (alias : str)
| TFunc (f : func) (args : list (bool * expr query)) (alias : str)
with joinexpr := Join (jt : jtype) (t : tref) (on : option (holder query)) (lateral : bool)
with lockclause := Lock (lt : locktype) (tables : list tref) (beh : option lockbeh)
with withclause := WithClause (recursive : bool) (search : option (bool * expr query * str))  (* breadth?, expr, alias *)
                              (cycle : option (expr query * str * str)) (ctes : list cte)
with cte := Cte (name : str) (cols : list str) (q : query) (materialized : option bool)
with insert :=
| Insert (replace : bool) (table : option tref) (columns : list str) (source : option isource)
         (on_conflict : option onconflict) (returning : option returning) (default_values : option N)
         (with_ : option withclause)
with isource := ISValues (rows : list (list (expr query))) | ISSelect (s : select)
with onconflict := OnConflict (targets : list octarget) (target_where : holder query)
                              (action : option ocaction) (action_where : holder query)
with octarget := OCColumn (c : str) | OCExpr (e : expr query)
with ocaction := OCDoNothing (pks : list str) | OCUpdate (ups : list ocupdate)
with ocupdate := OCUpColumn (c : str) | OCUpExpr (c : str) (e : expr query)
with returning := RAll | RColumns (cs : list colref) | RExprs (es : list (expr query))
with update :=
| Update (table : option tref) (from : list tref) (values : list (str * expr query)) (where_ : holder query)
         (orders : list orderexpr) (limit : option value) (returning : option returning)
         (with_ : option withclause)
with delete :=
| Delete (table : option tref) (where_ : holder query) (orders : list orderexpr) (limit : option value)
         (returning : option returning) (with_ : option withclause)
with query :=
| QSelect (s : select) | QInsert (i : insert) | QUpdate (u : update) | QDelete (d : delete)
| QWith (w : withclause) (q : query).
