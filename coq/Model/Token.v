(* Model of src/token.rs: the four scanners as span functions, Iterator::next, the token loop
   (with fuel), and Token::unquote.  `is_alpha` models char::is_alphabetic. *)
Require Import SQV.Model.Str.

Inductive token := Quoted (s : str) | Unquoted (s : str) | Space (s : str) | Punct (s : str).

Definition text (t : token) : str :=
  match t with Quoted s | Unquoted s | Space s | Punct s => s end.

Definition is_space (c : N) : bool := (c =? 32) || (c =? 9) || (c =? 13) || (c =? 10).
Definition is_identifier (c : N) : bool := (c =? 95) || (c =? 36).
Definition is_ascii_digit (c : N) : bool := (48 <=? c) && (c <=? 57).
Definition is_delim_start (c : N) : bool := (c =? 96) || (c =? 91) || (c =? 39) || (c =? 34).
Definition is_escape_for (start c : N) : bool :=
  if start =? 96 then c =? 96 else if start =? 39 then c =? 39 else if start =? 34 then c =? 34 else false.
Definition is_delim_end_for (start c : N) : bool :=
  if start =? 96 then c =? 96 else if start =? 91 then c =? 93 else
  if start =? 39 then c =? 39 else if start =? 34 then c =? 34 else false.
Definition is_escape_char (c : N) : bool := c =? 92.

Section Tokenizer.
Variable is_alpha : N -> bool.

Definition is_alphanumeric (c : N) : bool := is_alpha c || is_ascii_digit c.

(* fn space *)
Definition scan_space (s : str) : str * str := span is_space s.

(* fn unquoted: `first` is cleared by the first alphanumeric char *)
Fixpoint scan_unquoted (first : bool) (s : str) : str * str :=
  match s with
  | [] => ([], [])
  | c :: t =>
      if is_alphanumeric c then let (a, r) := scan_unquoted false t in (c :: a, r)
      else if negb first && is_identifier c then let (a, r) := scan_unquoted first t in (c :: a, r)
      else ([], s)
  end.

(* fn quoted: state (first, escape, start); the doubled-delimiter branch consumes two chars
   and does not touch `escape`. *)
Fixpoint scan_quoted (first escape : bool) (start : N) (s : str) : str * str :=
  match s with
  | [] => ([], [])
  | c :: t =>
      if first && is_delim_start c then
        let (a, r) := scan_quoted false escape c t in (c :: a, r)
      else if negb first && negb escape && is_delim_end_for start c then
        match t with
        | [] => ([c], [])
        | d :: t' =>
            if is_escape_for start d then
              let (a, r) := scan_quoted first escape start t' in (c :: d :: a, r)
            else ([c], t)
        end
      else if negb first then
        let (a, r) := scan_quoted first (negb escape && is_escape_char c) start t in (c :: a, r)
      else ([], s)
  end.

(* fn punctuation *)
Definition scan_punct (s : str) : str * str :=
  match s with
  | c :: t => if negb (is_space c) && negb (is_alphanumeric c) then ([c], t) else ([], s)
  | [] => ([], [])
  end.

(* Iterator::next *)
Definition next (s : str) : option (token * str) :=
  let (a, r) := scan_space s in
  if negb (is_nil a) then Some (Space a, r) else
  let (a, r) := scan_unquoted true s in
  if negb (is_nil a) then Some (Unquoted a, r) else
  let (a, r) := scan_quoted true false 32 s in
  if negb (is_nil a) then Some (Quoted a, r) else
  let (a, r) := scan_punct s in
  if negb (is_nil a) then Some (Punct a, r) else None.

(* collect(): None = out of fuel (never happens with fuel = length + 1, see TokenProofs) *)
Fixpoint tokenize_fuel (fuel : nat) (s : str) : option (list token) :=
  match fuel with
  | O => None
  | S f =>
      match next s with
      | None => Some []
      | Some (t, r) =>
          match tokenize_fuel f r with Some ts => Some (t :: ts) | None => None end
      end
  end.
Definition tokenize (s : str) : option (list token) := tokenize_fuel (S (length s)) s.

(* Tokenizer::unquote (private fn), same state machine, emitting the content *)
Fixpoint unquote_loop (first escape : bool) (start : N) (s : str) : str :=
  match s with
  | [] => []
  | c :: t =>
      if first && is_delim_start c then unquote_loop false escape c t
      else if negb first && negb escape && is_delim_end_for start c then
        match t with
        | [] => []
        | d :: t' => if is_escape_for start d then c :: unquote_loop first escape start t' else []
        end
      else if negb first then c :: unquote_loop first (negb escape && is_escape_char c) start t
      else []
  end.

Definition unquote (t : token) : option str :=
  match t with Quoted s => Some (unquote_loop true false 32 s) | _ => None end.

End Tokenizer.
