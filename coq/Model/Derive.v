(* Model of the identifier derive macros (sea-query-derive/src/lib.rs, src/iden/{attr,write_arm,mod}.rs),
   of heck 0.4.1's snake_case / PascalCase (heck/src/lib.rs `transform`, `lowercase`, `capitalize`,
   non-unicode `get_iterator`: sea-query-derive depends on heck with default-features = false) and of the
   default methods of trait Iden (src/types.rs; general_prepare below, which is `iden_prepare` of
   Model/Literal.v when left = right).
   Definitions only.

   heck: the non-unicode word iterator splits on every char that is not an ASCII alphanumeric, so the
   chars that reach `is_lowercase` / `is_uppercase` / `to_lowercase` / `to_uppercase` are ASCII letters
   and digits only; for them the Unicode predicates and mappings are the ASCII ones used below (and the
   final-sigma case of `lowercase` cannot occur). The model therefore covers every input string. *)
Require Import SQV.Model.Str SQV.Model.Escape SQV.Model.Literal.
From Coq Require Import String.
Open Scope list_scope.
Open Scope N_scope.

(* ---------------------------------------------------------------------------------------------- *)
(* char classes *)
Definition is_lowercase (c : N) : bool := (97 <=? c) && (c <=? 122).
Definition is_uppercase (c : N) : bool := (65 <=? c) && (c <=? 90).
Definition is_dec_digit (c : N) : bool := (48 <=? c) && (c <=? 57).
Definition is_ascii_alphabetic (c : N) : bool := is_lowercase c || is_uppercase c.
Definition is_ascii_alphanumeric (c : N) : bool := is_ascii_alphabetic c || is_dec_digit c.
Definition UNDERSCORE : N := 95.

(* ---------------------------------------------------------------------------------------------- *)
(* heck::transform *)

(* str::split(pred): the pieces between separator chars, empty pieces included *)
Fixpoint split_on (p : N -> bool) (s : str) : list str :=
  match s with
  | [] => [[]]
  | c :: t =>
      if p c then [] :: split_on p t
      else match split_on p t with
           | w :: ws => (c :: w) :: ws
           | [] => [[c]]
           end
  end.

Definition get_iterator (s : str) : list str := split_on (fun c => negb (is_ascii_alphanumeric c)) s.

Inductive word_mode := Boundary | Lowercase | Uppercase.
Definition is_mode_lower (m : word_mode) : bool := match m with Lowercase => true | _ => false end.
Definition is_mode_upper (m : word_mode) : bool := match m with Uppercase => true | _ => false end.

(* `if !first_word { boundary(f)? }  with_word(w, f)?` on the output written so far *)
Definition emit (with_word : str -> str) (boundary : str) (first : bool) (out : str) (w : str) : str :=
  out ++ (if first then [] else boundary) ++ with_word w.

(* The `while let Some((i, c)) = char_indices.next()` loop over one word.
   w    : the chars not yet consumed (head = c, second = the peeked `next`);
   seg  : word[init..i], the chars collected for the segment being built (init == i  iff  seg = []);
   result: (first_word, output). *)
Fixpoint word_loop (with_word : str -> str) (boundary : str)
         (w seg : str) (mode : word_mode) (first : bool) (out : str) : bool * str :=
  match w with
  | [] => (first, out)
  | c :: rest =>
      if c =? UNDERSCORE then
        (* skip underscore characters (init += 1 only when the segment is still empty) *)
        word_loop with_word boundary rest (if is_nil seg then [] else seg ++ [c]) mode first out
      else
        match rest with
        | [] =>
            (* collect trailing characters as a word *)
            (false, emit with_word boundary first out (seg ++ [c]))
        | next :: _ =>
            let next_mode := if is_lowercase c then Lowercase
                             else if is_uppercase c then Uppercase else mode in
            if (next =? UNDERSCORE) || (is_mode_lower next_mode && is_uppercase next) then
              (* word boundary after c *)
              word_loop with_word boundary rest [] Boundary false
                        (emit with_word boundary first out (seg ++ [c]))
            else if is_mode_upper mode && is_uppercase c && is_lowercase next then
              (* word boundary before c *)
              word_loop with_word boundary rest [c] Boundary false
                        (emit with_word boundary first out seg)
            else
              word_loop with_word boundary rest (seg ++ [c]) next_mode first out
        end
  end.

Definition transform (with_word : str -> str) (boundary : str) (s : str) : str :=
  snd (fold_left (fun st word => word_loop with_word boundary word [] Boundary (fst st) (snd st))
                 (get_iterator s) (true, [])).

Definition lowercase (s : str) : str := map ascii_lower s.
Definition capitalize (s : str) : str :=
  match s with [] => [] | c :: t => ascii_upper c :: lowercase t end.

(* ToSnakeCase / ToPascalCase (= ToUpperCamelCase) *)
Definition snake_case (s : str) : str := transform lowercase [UNDERSCORE] s.
Definition pascal_case (s : str) : str := transform capitalize [] s.

(* ---------------------------------------------------------------------------------------------- *)
(* attributes (iden/attr.rs) *)

Inductive iden_attr := Rename (name : str) | Method (m : str) | Flatten.

(* the attribute as written *)
Inductive nested_meta := NFlatten | NRename (s : str) | NMethod (m : str).
Inductive attr_meta :=
  | MIdenEq (lit : str)            (* #[iden = "lit"] *)
  | MMethodEq (lit : str)          (* #[method = "lit"] *)
  | MIdenList (items : list nested_meta).   (* #[iden(item, ...)] *)

Definition attr_of_nested (n : nested_meta) : iden_attr :=
  match n with NFlatten => Flatten | NRename s => Rename s | NMethod m => Method m end.

(* IdenAttr::try_from: parse_nested_meta overwrites `iden_attr` for every item, so the last one stays;
   an empty list is the WrongListFormat error (None) *)
Definition attr_of_meta (m : attr_meta) : option iden_attr :=
  match m with
  | MIdenEq lit => Some (Rename lit)
  | MMethodEq lit => Some (Method lit)
  | MIdenList items => option_map attr_of_nested (last (map Some items) None)
  end.

(* find_attr: the first attribute whose path is `iden` or `method`; the lists of this model contain
   exactly those attributes, in source order *)
Definition find_attr (attrs : list attr_meta) : option attr_meta := hd_error attrs.

(* outer None: compile error *)
Definition parsed_attr (attrs : list attr_meta) : option (option iden_attr) :=
  match find_attr attrs with
  | None => Some None
  | Some m => match attr_of_meta m with Some a => Some (Some a) | None => None end
  end.

(* syn::ext::IdentExt::unraw (and format_ident!, which drops the prefix of an identifier argument):
   the identifier without its raw prefix r#. Identifiers travel in this model as their to_string(). *)
Definition unraw (ident : str) : str :=
  match ident with 114 :: 35 :: t => t | _ => ident end.

(* lib.rs get_table_name *)
Definition get_table_name (ident : str) (attrs : list attr_meta) : option str :=
  match parsed_attr attrs with
  | None => None
  | Some None => Some (snake_case (unraw ident))
  | Some (Some (Rename lit)) => Some lit
  | Some (Some _) => None          (* ErrorMsg::ContainerAttr *)
  end.

(* lib.rs must_be_valid_iden *)
Definition must_be_valid_iden (name : str) : bool :=
  forallb (fun c => (c =? UNDERSCORE) || is_ascii_alphabetic c) (firstn 1 name)
  && forallb (fun c => (c =? UNDERSCORE) || is_ascii_alphanumeric c) name.

(* ---------------------------------------------------------------------------------------------- *)
(* variants (iden/write_arm.rs) *)

Inductive fields := FUnit | FUnnamed (n : nat) | FNamed (n : nat).
Record variant := { v_ident : str; v_fields : fields; v_attrs : list attr_meta }.

Definition TABLE : str := K "Table"%string.

(* IdenVariant::new: flatten needs exactly one field *)
Definition variant_new (v : variant) : option (option iden_attr) :=
  match parsed_attr (v_attrs v) with
  | None => None
  | Some (Some Flatten) =>
      match v_fields v with
      | FUnnamed 1 | FNamed 1 => Some (Some Flatten)
      | _ => None
      end
  | Some a => Some a
  end.

Definition table_or_snake_case (table_name ident : str) : str :=
  if str_eqb ident TABLE then table_name else snake_case (unraw ident).

(* what the generated match arm writes *)
Inductive name_expr := NLit (s : str) | NCall (m : str) | NDelegated.

Definition write_variant_name (table_name : str) (ident : str) (attr : option iden_attr) : name_expr :=
  match attr with
  | Some (Rename name) => NLit name
  | Some (Method m) => NCall m
  | Some Flatten => NDelegated
  | None => NLit (table_or_snake_case table_name ident)
  end.

(* IdenVariant::must_be_valid_iden *)
Definition variant_valid (table_name : str) (ident : str) (attr : option iden_attr) : bool :=
  match attr with
  | Some (Rename name) => must_be_valid_iden name
  | Some (Method _) => false
  | Some Flatten => false
  | None => must_be_valid_iden (table_or_snake_case table_name ident)
  end.

(* ---------------------------------------------------------------------------------------------- *)
(* enum_def (lib.rs) *)

Record enum_def_args := { ed_prefix : option str; ed_suffix : option str; ed_table_name : option str }.

Definition or_default (o : option str) (d : str) : str := match o with Some s => s | None => d end.
Definition DEFAULT_PREFIX : str := [].
Definition DEFAULT_SUFFIX : str := K "Iden"%string.

Definition enum_def_name (a : enum_def_args) (ident : str) : str :=
  or_default (ed_prefix a) DEFAULT_PREFIX ++ unraw ident ++ or_default (ed_suffix a) DEFAULT_SUFFIX.
Definition enum_def_table_name (a : enum_def_args) (ident : str) : str :=
  match ed_table_name a with Some t => t | None => snake_case (unraw ident) end.
(* variant identifiers of the generated enum, in order *)
Definition enum_def_variants (field_names : list str) : list str :=
  TABLE :: map (fun f => pascal_case (unraw f)) field_names.
(* IdenStatic::as_str of the i-th variant: stringify!(ident) *)
Definition enum_def_as_str (a : enum_def_args) (ident : str) (field_names : list str) (i : nat) : option str :=
  match i with
  | O => Some (enum_def_table_name a ident)
  | S k => option_map unraw (nth_error field_names k)
  end.

(* ---------------------------------------------------------------------------------------------- *)
(* type definitions, values, and the generated trait methods *)

Inductive tydef :=
  | DEnum (ident : str) (attrs : list attr_meta) (vs : list variant)   (* #[derive(Iden | IdenStatic)] enum *)
  | DUnit (ident : str) (attrs : list attr_meta)                       (* #[derive(Iden | IdenStatic)] struct X; *)
  | DEnumDef (args : enum_def_args) (ident : str) (field_names : list str).   (* #[enum_def(..)] struct X { .. } *)

(* a value: a unit struct, or the i-th variant, which for a flattened variant carries the value of
   its single field together with that field's type *)
Inductive value :=
  | VUnit
  | VVariant (i : nat) (inner : option (tydef * value)).

Definition ty_ident (t : tydef) : str :=
  match t with DEnum i _ _ => i | DUnit i _ => i | DEnumDef a i _ => enum_def_name a i end.

(* methods named by #[method = ".."] are user code: menv type_ident method_name = the text it returns *)
Definition method_env := str -> str -> str.

Definition variant_arm (table_name : str) (v : variant) : option name_expr :=
  option_map (write_variant_name table_name (v_ident v)) (variant_new v).

(* Iden::unquoted as generated (None: the program does not compile / the value is ill-typed) *)
Fixpoint unquoted (menv : method_env) (t : tydef) (v : value) : option str :=
  match t, v with
  | DUnit ident attrs, VUnit => get_table_name ident attrs        (* the name is an argument of write!, not its format string *)
  | DEnum ident attrs vs, VVariant i inner =>
      match get_table_name ident attrs, nth_error vs i with
      | Some tn, Some var =>
          match variant_arm tn var, inner with
          | Some (NLit s), _ => Some s
          | Some (NCall m), _ => Some (menv ident m)
          | Some NDelegated, Some (t', v') => unquoted menv t' v'
          | _, _ => None
          end
      | _, _ => None
      end
  | DEnumDef a ident fs, VVariant i _ => enum_def_as_str a ident fs i
  | _, _ => None
  end.

(* IdenStatic::as_str as generated *)
Fixpoint as_str (menv : method_env) (t : tydef) (v : value) : option str :=
  match t, v with
  | DUnit ident attrs, VUnit => get_table_name ident attrs
  | DEnum ident attrs vs, VVariant i inner =>
      match get_table_name ident attrs, nth_error vs i with
      | Some tn, Some var =>
          match variant_arm tn var, inner with
          | Some (NLit s), _ => Some s
          | Some (NCall m), _ => Some (menv ident m)
          | Some NDelegated, Some (t', v') => as_str menv t' v'
          | _, _ => None
          end
      | _, _ => None
      end
  | DEnumDef a ident fs, VVariant i _ => enum_def_as_str a ident fs i
  | _, _ => None
  end.

(* is_all_valid of impl_iden_for_enum / the test of impl_iden_for_unit_struct: whether the derive
   emits the `prepare` override that writes left quote, unquoted, right quote *)
Definition variant_is_valid (table_name : str) (v : variant) : bool :=
  match variant_new v with
  | Some a => variant_valid table_name (v_ident v) a
  | None => false
  end.

Definition has_fast_prepare (t : tydef) : bool :=
  match t with
  | DUnit ident attrs =>
      match get_table_name ident attrs with Some tn => must_be_valid_iden tn | None => false end
  | DEnum ident attrs vs =>
      match get_table_name ident attrs with
      | Some tn => forallb (variant_is_valid tn) vs
      | None => false
      end
  | DEnumDef _ _ _ => false
  end.

(* Quote(left, right) of src/types.rs: two bytes; left() / right() are char::from(byte). *)
Record quote := { q_left : N; q_right : N }.
Definition sym_quote (q : N) : quote := {| q_left := q; q_right := q |}.

(* trait Iden, default methods (src/types.rs):
     quoted(q)  = to_string().replace(right, right right)     -- the RIGHT quote byte is doubled
     prepare(q) = left, quoted(q), right
   (from_utf8 of the single right byte: the byte must be ASCII, otherwise quoted panics; the theorems
   ask for an ASCII right byte) *)
Definition general_quoted (q : quote) (name : str) : str := replace_char (q_right q) [q_right q; q_right q] name.
Definition general_prepare (q : quote) (name : str) : str := q_left q :: general_quoted q name ++ [q_right q].

(* the prepare override the derive emits: write left, unquoted, right *)
Definition fast_prepare (q : quote) (name : str) : str := q_left q :: name ++ [q_right q].

(* Iden::prepare of the derived impl: the generated fast path if present, else the trait default *)
Definition derived_prepare (menv : method_env) (q : quote) (t : tydef) (v : value) : option str :=
  match unquoted menv t v with
  | Some name => Some (if has_fast_prepare t then fast_prepare q name else general_prepare q name)
  | None => None
  end.

(* the Debug name of the i-th variant of an enum_def enum (#[derive(Debug)] on a fieldless enum) *)
Definition enum_def_variant_ident (field_names : list str) (i : nat) : option str :=
  nth_error (enum_def_variants field_names) i.
