(* Strings as lists of Unicode scalar values; byte strings as lists of N < 256.
   Definitions only (no proofs) so that the model runs even when a proof is broken. *)
From Coq Require Export List NArith ZArith Bool.
From Coq Require Import String Ascii.
Export ListNotations.
Open Scope N_scope.

(* ASCII text written in the model as Coq string literals: K "SELECT " *)
Definition K (s : string) : list N := List.map N_of_ascii (list_ascii_of_string s).

Definition chr := N.
Definition str := list N.

(* Result of a model function that mirrors code which can panic. *)
Inductive res (A : Type) : Type := Ok (a : A) | Panic.
Arguments Ok {A} a.
Arguments Panic {A}.

Definition rbind {A B} (r : res A) (f : A -> res B) : res B :=
  match r with Ok a => f a | Panic => Panic end.
Definition rmap {A B} (f : A -> B) (r : res A) : res B :=
  match r with Ok a => Ok (f a) | Panic => Panic end.

(* Rust `str::replace(c: char, to: &str)`: every occurrence of one char. *)
Definition replace_char (c : N) (r : str) (s : str) : str :=
  flat_map (fun x => if N.eqb x c then r else [x]) s.

(* Rust `str::replace(&str of two chars a b, to)`: leftmost, non-overlapping. *)
Fixpoint replace2 (a b : N) (r : str) (s : str) : str :=
  match s with
  | x :: t =>
      match t with
      | y :: t' =>
          if N.eqb x a && N.eqb y b then r ++ replace2 a b r t' else x :: replace2 a b r t
      | [] => [x]
      end
  | [] => []
  end.

Fixpoint str_eqb (a b : str) : bool :=
  match a, b with
  | [], [] => true
  | x :: a', y :: b' => N.eqb x y && str_eqb a' b'
  | _, _ => false
  end.

Fixpoint span (p : N -> bool) (s : str) : str * str :=
  match s with
  | c :: t => if p c then let (a, r) := span p t in (c :: a, r) else ([], s)
  | [] => ([], [])
  end.

Definition is_nil {A} (l : list A) : bool := match l with [] => true | _ => false end.

Fixpoint mem_N (x : N) (l : list N) : bool :=
  match l with [] => false | y :: t => N.eqb x y || mem_N x t end.

(* decimal rendering of naturals (Rust integer Display) *)
Fixpoint dec_digits_fuel (fuel : nat) (n : N) (acc : str) : str :=
  match fuel with
  | O => acc
  | S f => let acc' := (48 + n mod 10) :: acc in
           if n / 10 =? 0 then acc' else dec_digits_fuel f (n / 10) acc'
  end.
Definition dec_of_N (n : N) : str := dec_digits_fuel (S (N.to_nat (N.log2 n))) n [].
(* decimal text, also for 0 *)
Definition dec_of_N' (n : N) : str := if n =? 0 then [48] else dec_of_N n.
Definition dec_of_Z (z : Z) : str :=
  match z with
  | Z0 => [48]
  | Zpos p => dec_of_N (Npos p)
  | Zneg p => 45 :: dec_of_N (Npos p)
  end.

(* ASCII helpers *)
Definition ascii_upper (c : N) : N := if (97 <=? c) && (c <=? 122) then c - 32 else c.
Definition ascii_lower (c : N) : N := if (65 <=? c) && (c <=? 90) then c + 32 else c.
