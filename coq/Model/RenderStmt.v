(* Model of prepare_select_statement / prepare_insert_statement / prepare_update_statement /
   prepare_delete_statement / prepare_with_* and their clause emitters
   (src/backend/query_builder.rs) with the MySQL, Postgres and SQLite overrides
   (src/backend/{mysql,postgres,sqlite}/query.rs).
   Statement renderers are written in open-recursion style over `rq` (= prepare_query_statement
   and every nested prepare_select_statement); the knot is tied with explicit fuel, one unit per
   statement nesting level (rquery). *)
Require Import SQV.Model.Str SQV.Model.Escape SQV.Model.Value SQV.Model.Literal SQV.Model.Expr
  SQV.Model.Cond SQV.Model.Stmt SQV.Model.Writer SQV.Model.RenderExpr.
From Coq Require Import String.
Open Scope list_scope.

Definition wss (s : string) : script := [WS (K s)].
Definition comma : script := [WS (K ", ")].

Definition uint_value (n : N) : value := V TUnsigned (Some (PInt (Z.of_N n))).

Section Gen.
Variable is_alpha : N -> bool.
Variable b : backend.
Variable T : etables.
Variable rq : query -> script.

Definition rex (e : expr query) : script := rexpr query rq is_alpha b T false e.

(* prepare_logical_chain_oper: member i of a chain of `len` members.  A member is parenthesised when the chain has
   more than one member and either the member is a binary expression whose right operand is binary (the rule the
   code always had) or the precedence decider does not know it to bind tighter than the chain's AND / OR *)
Definition rchain_member (len i : nat) (m : bool * expr query) : script :=
  let (is_or, e) := m in
  let op := if is_or then BOr else BAnd in
  let both_binary := match e with EBinary _ _ (EBinary _ _ _) => true | _ => false end in
  let paren := Nat.ltb 1 len &&
               (both_binary || negb (t_drop_paren T (shape_key (shape_of e)) (oper_key (OBin op)))) in
  (if Nat.ltb 0 i then [ws (if is_or then " OR " else " AND ")] else []) ++ wrap paren (rex e).

Fixpoint rchain (len i : nat) (ms : list (bool * expr query)) : script :=
  match ms with
  | [] => []
  | m :: rest => rchain_member len i m ++ rchain len (S i) rest
  end.

Definition rholder (kw : string) (h : holder query) : script :=
  match h with
  | HEmpty => []
  | HChain ms => [WS (K " " ++ K kw ++ K " ")] ++ rchain (List.length ms) 0 ms
  | HCond c => [WS (K " " ++ K kw ++ K " ")] ++ rex (to_simple_expr c)
  end.

Definition rtplain (t : tplain) : script :=
  match t with
  | TRTable t => [WId t]
  | TRSchemaTable s t => [WId s; ws "."; WId t]
  | TRDbSchemaTable d s t => [WId d; ws "."; WId s; ws "."; WId t]
  | TRTableAlias t a => [WId t; ws " AS "; WId a]
  | TRSchemaTableAlias s t a => [WId s; ws "."; WId t; ws " AS "; WId a]
  | TRDbSchemaTableAlias d s t a => [WId d; ws "."; WId s; ws "."; WId t; ws " AS "; WId a]
  end.

Definition rvalues_list (rows : list (list value)) : script :=
  wss "VALUES " ++
  sep_by comma (map (fun row : list value =>
    (match b with MySQL => wss "ROW" | _ => [] end) ++ wss "(" ++
    sep_by comma (map (fun v => [WVal v]) row) ++ wss ")") rows).

Definition rfunc_args (args : list (bool * expr query)) : script :=
  wss "(" ++ sep_by comma (map (fun a : bool * expr query =>
     (if fst a then wss "DISTINCT " else []) ++ rex (snd a)) args) ++ wss ")".

Definition rtref (t : tref) : script :=
  match t with
  | TPlain p => rtplain p
  | TSubQuery s a => wss "(" ++ rq (QSelect s) ++ wss ")" ++ wss " AS " ++ [WId a]
  | TValues rows a => wss "(" ++ rvalues_list rows ++ wss ")" ++ wss " AS " ++ [WId a]
  | TFunc f args a => rfunc_name T f ++ rfunc_args args ++ wss " AS " ++ [WId a]
  end.

Definition rorder_field (e : expr query) (vs : list value) : script :=
  wss "CASE " ++
  (fix go (l : list value) (i : N) : script :=
     match l with
     | [] => [WS (K "ELSE " ++ dec_of_N' i ++ K " END")]
     | v :: t => wss "WHEN " ++ rex e ++ wss "=" ++ [WConst v] ++
                 [WS (K " THEN " ++ dec_of_N' i ++ K " ")] ++ go t (i + 1)
     end) vs 0.

Definition rorder (oe : orderexpr) : script :=
  match oe with
  | OrderExpr e o n =>
      let pre := match b, n with
                 (* the emulated key is the expression `e IS NULL` (e.is_null()), so e is parenthesised
                    where its top-level operator binds looser than IS *)
                 | MySQL, Some NLast => rex (EBinary e BIs (EKeyword KwNull)) ++ wss " ASC, "
                 | MySQL, Some NFirst => rex (EBinary e BIs (EKeyword KwNull)) ++ wss " DESC, "
                 | _, _ => []
                 end in
      let main := (match o with OField _ => [] | _ => rex e end) ++
                  (match o with OAsc => wss " ASC" | ODesc => wss " DESC" | OField vs => rorder_field e vs end) in
      let post := match b, n with
                  | MySQL, _ => []
                  | _, Some NLast => wss " NULLS LAST"
                  | _, Some NFirst => wss " NULLS FIRST"
                  | _, None => []
                  end in
      pre ++ main ++ post
  end.

Definition rorders (os : list orderexpr) : script :=
  match os with [] => [] | _ => wss " ORDER BY " ++ sep_by comma (map rorder os) end.

Definition rframe (f : frame) : script :=
  match f with
  | FUnboundedPreceding => wss "UNBOUNDED PRECEDING"
  | FPreceding n => [WVal (uint_value n)] ++ wss " PRECEDING"
  | FCurrentRow => wss "CURRENT ROW"
  | FFollowing n => [WVal (uint_value n)] ++ wss " FOLLOWING"
  | FUnboundedFollowing => wss "UNBOUNDED FOLLOWING"
  end.

Definition rwindow (w : windowstmt) : script :=
  match w with
  | Window pb ob fr =>
      (match pb with [] => [] | _ => wss "PARTITION BY " ++ sep_by comma (map rex pb) end) ++
      (match ob with [] => [] | _ => wss " ORDER BY " ++ sep_by comma (map rorder ob) end) ++
      (match fr with
       | None => []
       | Some (ft, st, en) =>
           (match ft with FTRange => wss " RANGE " | FTRows => wss " ROWS " end) ++
           (match en with
            | Some e => wss "BETWEEN " ++ rframe st ++ wss " AND " ++ rframe e
            | None => rframe st
            end)
       end)
  end.

Definition rselexpr (se : selexpr) : script :=
  match se with
  | SelExpr e alias win =>
      rex e ++
      (match win with
       | Some (WName n) => wss " OVER " ++ [WId n]
       | Some (WQuery w) => wss " OVER " ++ wss "( " ++ rwindow w ++ wss " )"
       | None => []
       end) ++
      (match alias with Some a => wss " AS " ++ [WId a] | None => [] end)
  end.

Definition rjointype (j : jtype) : script :=
  match j with
  | JJoin => wss "JOIN" | JCross => wss "CROSS JOIN" | JInner => wss "INNER JOIN"
  | JLeft => wss "LEFT JOIN" | JRight => wss "RIGHT JOIN"
  | JFull => match b with MySQL => [WPanic] | _ => wss "FULL OUTER JOIN" end
  end.

Definition rjoin (j : joinexpr) : script :=
  match j with
  | Join jt t on lateral =>
      rjointype jt ++ wss " " ++ (if lateral then wss "LATERAL " else []) ++ rtref t ++
      (match on with Some h => rholder "ON" h | None => [] end)
  end.

Definition rdistinct (d : sdistinct) : script :=
  match d with
  | DAll => wss "ALL"
  | DDistinct => wss "DISTINCT"
  | DDistinctRow => match b with MySQL => wss "DISTINCTROW" | _ => [] end
  | DDistinctOn cols =>
      match b with
      | Postgres => wss "DISTINCT ON (" ++ sep_by comma (map rcolref cols) ++ wss ")"
      | _ => []
      end
  end.

Definition rhints (hs : list (hinttype * hintscope * str)) : script :=
  match b, hs with
  | MySQL, _ :: _ =>
      wss " " ++ sep_by (wss " ") (map (fun h : hinttype * hintscope * str =>
        (match fst (fst h) with HUse => wss "USE INDEX " | HIgnore => wss "IGNORE INDEX "
                               | HForce => wss "FORCE INDEX " end) ++
        (match snd (fst h) with HSJoin => wss "FOR JOIN " | HSOrderBy => wss "FOR ORDER BY "
                               | HSGroupBy => wss "FOR GROUP BY " | HSAll => [] end) ++
        wss "(" ++ [WId (snd h)] ++ wss ")") hs)
  | _, _ => []
  end.

Definition rsample (s : option (samplemethod * str * option str)) : script :=
  match b, s with
  | Postgres, Some (m, pct, rep) =>
      (match m with SBernoulli => wss " TABLESAMPLE BERNOULLI" | SSystem => wss " TABLESAMPLE SYSTEM" end) ++
      [WS (K " (" ++ pct ++ K ")")] ++
      (match rep with Some r => [WS (K " REPEATABLE (" ++ r ++ K ")")] | None => [] end)
  | _, _ => []
  end.

Definition runion (u : utype * select) : script :=
  let kw := match fst u with UIntersect => " INTERSECT " | UDistinct => " UNION "
                           | UExcept => " EXCEPT " | UAll => " UNION ALL " end%string in
  match b with
  | SQLite => wss kw ++ rq (QSelect (snd u))
  | _ => wss kw ++ wss "(" ++ rq (QSelect (snd u)) ++ wss ")"
  end.

Definition rlock (l : lockclause) : script :=
  match b with
  | SQLite => []
  | _ =>
      match l with
      | Lock lt tables beh =>
          (match lt with LUpdate => wss "FOR UPDATE" | LNoKeyUpdate => wss "FOR NO KEY UPDATE"
                       | LShare => wss "FOR SHARE" | LKeyShare => wss "FOR KEY SHARE" end) ++
          (match tables with [] => [] | _ => wss " OF " ++ sep_by comma (map rtref tables) end) ++
          (match beh with Some LNowait => wss " NOWAIT" | Some LSkipLocked => wss " SKIP LOCKED" | None => [] end)
      end
  end.

Definition rcte (c : cte) : script :=
  match c with
  | Cte name cols q mat =>
      [WId name] ++
      (match cols with [] => wss " " | _ => wss " (" ++ sep_by comma (map (fun c => [WId c]) cols) ++ wss ") " end) ++
      wss "AS " ++
      (match b, mat with
       | MySQL, _ => []
       | _, Some true => wss " MATERIALIZED "
       | _, Some false => wss "NOT MATERIALIZED "
       | _, None => []
       end) ++
      wss "(" ++ rq q ++ wss ") "
  end.

Definition rwith (w : withclause) : script :=
  match w with
  | WithClause recursive search cycle ctes =>
      wss "WITH " ++ (if recursive then wss "RECURSIVE " else []) ++
      (match ctes with [] => [WPanic] | _ => sep_by comma (map rcte ctes) end) ++
      (match b, recursive with
       | Postgres, true =>
           (match search with
            | Some (breadth, e, alias) =>
                (if breadth then wss "SEARCH BREADTH FIRST BY " else wss "SEARCH DEPTH FIRST BY ") ++
                rex e ++ wss " SET " ++ [WId alias] ++ wss " "
            | None => []
            end) ++
           (match cycle with
            | Some (e, set_as, usng) =>
                wss "CYCLE " ++ rex e ++ wss " SET " ++ [WId set_as] ++ wss " USING " ++ [WId usng] ++ wss " "
            | None => []
            end)
       | _, _ => []
       end)
  end.

Definition rwith_opt (w : option withclause) : script :=
  match w with Some x => rwith x | None => [] end.

Definition rlimit (kw : string) (v : option value) : script :=
  match v with Some x => wss kw ++ [WVal x] | None => [] end.

(* The statement renderers are driven by an explicit clause order: a statement is the
   concatenation of its clause scripts in `*_render_order` (the order in which the code emits them). *)
Inductive ckind :=
| KWith | KHead | KFrom | KJoins | KWhere | KGroupBy | KHaving | KCompound | KOrderBy | KLimit | KOffset
| KLock | KWindow                                   (* SELECT *)
| KSet | KUpdJoin | KUpdFrom | KReturning            (* UPDATE / DELETE *)
| KSource | KOnConflict.                             (* INSERT *)

Definition sel_render_order : list ckind :=
  [KWith; KHead; KFrom; KJoins; KWhere; KGroupBy; KHaving; KCompound; KOrderBy; KLimit; KOffset; KLock; KWindow].

Definition sel_clause (s : select) (k : ckind) : script :=
  match s with
  | Select distinct selects from joins where_ groups having unions orders limit offset lock window
           with_ sample hints =>
      match k with
      | KWith => rwith_opt with_
      | KHead => wss "SELECT " ++
                 (match distinct with Some d => rdistinct d ++ wss " " | None => [] end) ++
                 sep_by comma (map rselexpr selects)
      | KFrom => match from with
                 | [] => []
                 | _ => wss " FROM " ++ sep_by comma (map rtref from) ++ rhints hints ++ rsample sample
                 end
      | KJoins => flat_map (fun j => wss " " ++ rjoin j) joins
      | KWhere => rholder "WHERE" where_
      | KGroupBy => match groups with [] => [] | _ => wss " GROUP BY " ++ sep_by comma (map rex groups) end
      | KHaving => rholder "HAVING" having
      | KCompound => flat_map runion unions
      | KOrderBy => rorders orders
      | KLimit => rlimit " LIMIT " limit
      | KOffset => rlimit " OFFSET " offset
      | KLock => match lock with Some l => wss " " ++ rlock l | None => [] end
      | KWindow => match window with
                   | Some (name, w) => wss " WINDOW " ++ [WId name] ++ wss " AS " ++ rwindow w
                   | None => []
                   end
      | _ => []
      end
  end.

(* was the clause given by the builder calls *)
Definition sel_present (s : select) (k : ckind) : bool :=
  match s with
  | Select distinct selects from joins where_ groups having unions orders limit offset lock window
           with_ sample hints =>
      match k with
      | KWith => match with_ with Some _ => true | None => false end
      | KHead => true
      | KFrom => negb (is_nil from)
      | KJoins => negb (is_nil joins)
      | KWhere => match where_ with HEmpty => false | _ => true end
      | KGroupBy => negb (is_nil groups)
      | KHaving => match having with HEmpty => false | _ => true end
      | KCompound => negb (is_nil unions)
      | KOrderBy => negb (is_nil orders)
      | KLimit => match limit with Some _ => true | None => false end
      | KOffset => match offset with Some _ => true | None => false end
      | KLock => match lock with Some _ => true | None => false end
      | KWindow => match window with Some _ => true | None => false end
      | _ => false
      end
  end.

Definition rselect (s : select) : script := flat_map (sel_clause s) sel_render_order.

Definition rreturning (r : option returning) : script :=
  match b, r with
  | MySQL, _ => []
  | _, None => []
  | _, Some RAll => wss " RETURNING " ++ wss "*"
  | _, Some (RColumns cs) => wss " RETURNING " ++ sep_by comma (map rcolref cs)
  | _, Some (RExprs es) => wss " RETURNING " ++ sep_by comma (map rex es)
  end.

Definition rexcluded (c : str) : script :=
  match b with
  | MySQL => wss "VALUES(" ++ [WId c] ++ wss ")"
  | _ => [WS ([quote_char b] ++ K "excluded" ++ [quote_char b])] ++ wss "." ++ [WId c]
  end.

Definition roc_update (u : ocupdate) : script :=
  match u with
  | OCUpColumn c => [WId c] ++ wss " = " ++ rexcluded c
  | OCUpExpr c e => [WId c] ++ wss " = " ++ rex e
  end.

Definition roc_action (a : option ocaction) : script :=
  let do_update_kw := match b with MySQL => wss " UPDATE " | _ => wss " DO UPDATE SET " end in
  match a with
  | None => []
  | Some (OCDoNothing pks) =>
      match b with
      | MySQL =>
          match pks with
          | [] => wss " IGNORE"
          | _ => do_update_kw ++ sep_by comma (map (fun c => [WId c] ++ wss " = " ++ [WId c]) pks)
          end
      | _ => wss " DO NOTHING"
      end
  | Some (OCUpdate ups) => do_update_kw ++ sep_by comma (map roc_update ups)
  end.

Definition ronconflict (o : option onconflict) : script :=
  match o with
  | None => []
  | Some (OnConflict targets twhere action awhere) =>
      (match b with MySQL => wss " ON DUPLICATE KEY" | _ => wss " ON CONFLICT " end) ++
      (match b, targets with
       | MySQL, _ => []
       | _, [] => []
       | _, _ => wss "(" ++ sep_by comma (map (fun t => match t with OCColumn c => [WId c]
                                                               | OCExpr e => rex e end) targets) ++ wss ")"
       end) ++
      (match b with MySQL => [] | _ => rholder "WHERE" twhere end) ++
      roc_action action ++
      (match b with MySQL => [] | _ => rholder "WHERE" awhere end)
  end.

Definition rdefault_rows (n : N) : script :=
  match b with
  | SQLite => wss "DEFAULT VALUES"
  | _ => wss "VALUES " ++
         sep_by comma (repeat (match b with MySQL => wss "()" | _ => wss "(DEFAULT)" end) (N.to_nat n))
  end.

Definition ins_render_order : list ckind := [KWith; KHead; KSource; KOnConflict; KReturning].
Definition ins_clause (i : insert) (k : ckind) : script :=
  match i with
  | Insert replace table columns source on_conflict returning default_values with_ =>
      match k with
      | KWith => rwith_opt with_
      | KHead => (if replace then wss "REPLACE" else wss "INSERT") ++
                 (match table with Some t => wss " INTO " ++ rtref t | None => [] end)
      | KSource =>
          match default_values, columns, source with
          | Some n, [], None => wss " " ++ rdefault_rows n
          | _, _, _ =>
              wss " " ++ wss "(" ++ sep_by comma (map (fun c => [WId c]) columns) ++ wss ")" ++
              (match source with
               | None => []
               | Some (ISValues rows) =>
                   wss " " ++ wss "VALUES " ++
                   sep_by comma (map (fun row : list (expr query) =>
                                        wss "(" ++ sep_by comma (map rex row) ++ wss ")") rows)
               | Some (ISSelect s) => wss " " ++ rq (QSelect s)
               end)
          end
      | KOnConflict => ronconflict on_conflict
      | KReturning => rreturning returning
      | _ => []
      end
  end.
Definition rinsert (i : insert) : script := flat_map (ins_clause i) ins_render_order.

Definition upd_render_order : list ckind :=
  [KWith; KHead; KUpdJoin; KSet; KUpdFrom; KWhere; KReturning; KOrderBy; KLimit].
Definition upd_clause (u : update) (k : ckind) : script :=
  match u with
  | Update table from values where_ orders limit returning with_ =>
      match k with
      | KWith => rwith_opt with_
      | KHead => wss "UPDATE " ++ (match table with Some t => rtref t | None => [] end)
      | KUpdJoin => match b, from with
                    | MySQL, f0 :: _ => wss " JOIN " ++ rtref f0 ++ rholder "ON" where_
                    | _, _ => []
                    end
      | KSet => wss " SET " ++
                sep_by comma (map (fun cv : str * expr query =>
                  (match b, from, table with
                   | MySQL, _ :: _, Some (TPlain (TRTable t)) => [WId t; ws "."; WId (fst cv)]
                   | _, _, _ => [WId (fst cv)]
                   end) ++ wss " = " ++ rex (snd cv)) values)
      | KUpdFrom => match b, from with
                    | MySQL, _ => []
                    | _, [] => []
                    | _, _ => wss " FROM " ++ sep_by comma (map rtref from)
                    end
      | KWhere => match b, from with
                  | MySQL, _ :: _ => []
                  | _, _ => rholder "WHERE" where_
                  end
      | KReturning => rreturning returning
      | KOrderBy => rorders orders
      | KLimit => rlimit " LIMIT " limit
      | _ => []
      end
  end.
Definition rupdate (u : update) : script := flat_map (upd_clause u) upd_render_order.

Definition del_render_order : list ckind := [KWith; KHead; KWhere; KReturning; KOrderBy; KLimit].
Definition del_clause (d : delete) (k : ckind) : script :=
  match d with
  | Delete table where_ orders limit returning with_ =>
      match k with
      | KWith => rwith_opt with_
      | KHead => wss "DELETE " ++ (match table with Some t => wss "FROM " ++ rtref t | None => [] end)
      | KWhere => rholder "WHERE" where_
      | KReturning => rreturning returning
      | KOrderBy => rorders orders
      | KLimit => rlimit " LIMIT " limit
      | _ => []
      end
  end.
Definition rdelete (d : delete) : script := flat_map (del_clause d) del_render_order.

Definition rquery_gen (q : query) : script :=
  match q with
  | QSelect s => rselect s
  | QInsert i => rinsert i
  | QUpdate u => rupdate u
  | QDelete d => rdelete d
  | QWith w q' => rwith w ++ rq q'
  end.
End Gen.

(* tie the knot: one unit of fuel per statement nesting level *)
Fixpoint rquery (is_alpha : N -> bool) (b : backend) (T : etables) (fuel : nat) (q : query) : script :=
  match fuel with
  | O => [WPanic]
  | S n => rquery_gen is_alpha b T (rquery is_alpha b T n) q
  end.
