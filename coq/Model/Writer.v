(* The writer abstraction: prepare_* methods only ever call write_str (via write!) and push_param
   on `&mut dyn SqlWriter` (src/prepare.rs).  A rendering is therefore a script of writer tokens,
   interpreted by `impl SqlWriter for String` (inline) or by SqlWriterValues (placeholders). *)
Require Import SQV.Model.Str SQV.Model.Escape SQV.Model.Value SQV.Model.Literal.
From Coq Require Import String.
Open Scope list_scope.

Inductive wtok :=
| WS (s : str)        (* fixed text written by the renderer: keywords, punctuation, spaces *)
| WId (s : str)       (* identifier through Iden::prepare *)
| WVal (v : value)    (* prepare_value -> push_param *)
| WConst (v : value)  (* value_to_string written in both modes *)
| WCust (s : str)     (* user-supplied raw SQL text *)
| WPanic.             (* the code panics here (unsupported construct on this backend) *)

Definition script := list wtok.

Section ValueStr.
(* Display of f32 / f64 is an external formatter: text supplied per bit pattern *)
Variable ftext : bool -> N -> str.

Definition quoted_plain (s : str) : str := 39 :: s ++ [39].

Fixpoint value_to_string (b : backend) (v : value) {struct v} : str :=
  match v with
  | V _ None => K "NULL"
  | VArray _ None => K "NULL"
  | V t (Some p) =>
      match p with
      | PBool true => K "TRUE"
      | PBool false => K "FALSE"
      | PInt z => dec_of_Z z
      | PF32 bits => ftext false bits
      | PF64 bits => ftext true bits
      | PStr s => write_string_quoted b s
      | PChar c => write_char_quoted b c
      | PBytes bs => write_bytes b bs
      | POpaque _ text =>
          match t with
          | TJson => write_string_quoted b text
          | TDecimal | TBigDecimal => text
          | TVector => K "'[" ++ text ++ K "]'"
          | _ => quoted_plain text
          end
      end
  | VArray _ (Some vs) =>
      match vs with
      | [] => K "'{}'"
      | _ => K "ARRAY [" ++
             (fix go (l : list value) : str :=
                match l with
                | [] => []
                | [x] => value_to_string b x
                | x :: t => value_to_string b x ++ K "," ++ go t
                end) vs ++ K "]"
      end
  end.

(* impl SqlWriter for String: push_param writes value_to_string *)
Definition emit_inline_tok (b : backend) (t : wtok) : str :=
  match t with
  | WS s | WCust s => s
  | WId s => iden_prepare (quote_char b) s
  | WVal v | WConst v => value_to_string b v
  | WPanic => []
  end.
Definition has_panic (sc : script) : bool :=
  existsb (fun t => match t with WPanic => true | _ => false end) sc.
Definition emit_inline (b : backend) (sc : script) : res str :=
  if has_panic sc then Panic else Ok (flat_map (emit_inline_tok b) sc).

(* SqlWriterValues { counter, placeholder, numbered, string, values } *)
Record swv := { sw_counter : N; sw_sql : str; sw_values : list value }.
Definition placeholder (b : backend) : str * bool :=
  match b with Postgres => ([36], true) | _ => ([63], false) end.
Definition push_param (b : backend) (w : swv) (v : value) : swv :=
  let c := sw_counter w + 1 in
  let (ph, numbered) := placeholder b in
  {| sw_counter := c;
     sw_sql := sw_sql w ++ ph ++ (if numbered then dec_of_N c else []);
     sw_values := sw_values w ++ [v] |}.
Definition write_str (w : swv) (s : str) : swv :=
  {| sw_counter := sw_counter w; sw_sql := sw_sql w ++ s; sw_values := sw_values w |}.
Definition emit_params_tok (b : backend) (w : swv) (t : wtok) : swv :=
  match t with
  | WS s | WCust s => write_str w s
  | WId s => write_str w (iden_prepare (quote_char b) s)
  | WVal v => push_param b w v
  | WConst v => write_str w (value_to_string b v)
  | WPanic => w
  end.
Definition emit_params (b : backend) (sc : script) : res (str * list value) :=
  if has_panic sc then Panic else
  let w := fold_left (emit_params_tok b) sc {| sw_counter := 0; sw_sql := []; sw_values := [] |} in
  Ok (sw_sql w, sw_values w).
End ValueStr.
