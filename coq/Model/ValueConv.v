(* Conversions between Rust types and sea_query::Value (src/value.rs), written in the shape of the
   code.  Definitions only.

   A Rust value of a supported type T is represented by its mathematical content (`payload`); the
   macros type_to_value! / type_to_box_value! and the hand-written impls are all instances of the
   functions below, parameterised by the row (side) of Generated/ValueTypes.v:

     impl From<T> for Value        { fn from(x) -> Value { Value::$name(Some(x)) } }            from_side
     impl Nullable for T           { fn null() -> Value { Value::$name(None) } }                null_of
     impl ValueType for T          { fn try_from(v) { match v { Value::$name(Some(x)) => Ok(x),
                                                               _ => Err(ValueTypeErr) } } }      try_from_side
     ValueType::unwrap             Self::try_from(v).unwrap()                                   unwrap_side

   Box::new / *x and the representation changes (conv) do not change the content; they are kept as
   identity functions so that the expansion can be read off. *)
Require Import SQV.Model.Str SQV.Model.Value SQV.Model.ValueRow SQV.Model.ValueEq.
Require Import SQV.Generated.ValueTypes.

(* Result<T, ValueTypeErr>, plus the possibility of a panic *)
Inductive cres (A : Type) : Type := COk (a : A) | CErr | CPanic.
Arguments COk {A} a.
Arguments CErr {A}.
Arguments CPanic {A}.

Definition cmap {A B} (f : A -> B) (r : cres A) : cres B :=
  match r with COk a => COk (f a) | CErr => CErr | CPanic => CPanic end.

Definition box (p : payload) : payload := p.                      (* Box::new(x) *)
Definition unbox (p : payload) : payload := p.                    (* *x *)
Definition apply_conv (c : conv) (p : payload) : payload := p.    (* into / into_uuid / braced() / ... *)

(* ---- T <-> Value for a table row ------------------------------------------------------------ *)

Definition from_side (s : side) (p : payload) : value :=
  let x := apply_conv (s_conv s) p in
  V (s_tag s) (Some (if s_boxed s then box x else x)).

Definition null_of (t : vtag) : value := V t None.

Definition try_from_side (s : side) (v : value) : cres payload :=
  match v with
  | V t (Some x) =>
      if vtag_eqb t (s_tag s) then COk (apply_conv (s_conv s) (if s_boxed s then unbox x else x))
      else CErr
  | _ => CErr
  end.

(* Result::unwrap *)
Definition unwrap_res {A} (r : cres A) : cres A :=
  match r with COk a => COk a | CErr => CPanic | CPanic => CPanic end.
Definition unwrap_side (s : side) (v : value) : cres payload := unwrap_res (try_from_side s v).

(* ---- Option<T> ---------------------------------------------------------------------------------------
   impl<T: Into<Value> + Nullable> From<Option<T>> for Value:
       match x { Some(v) => v.into(), None => T::null() }
   impl<T: ValueType + Nullable> ValueType for Option<T>:
       if v == T::null() { Ok(None) } else { Ok(Some(T::try_from(v)?)) }
   `==` is PartialEq for Value: the derived one, or the hashable_value one; both are parameters here
   (eqv), the theorems hold for either. *)
Definition from_option {A} (from : A -> value) (null : value) (o : option A) : value :=
  match o with Some x => from x | None => null end.

Definition try_from_option {A} (eqv : value -> value -> bool) (try : value -> cres A) (null : value)
           (v : value) : cres (option A) :=
  if eqv v null then COk None else cmap Some (try v).

(* ---- Vec<T> (postgres-array; T: NotU8) -------------------------------------------------------------------
   From<Vec<T>>:  Value::Array(T::array_type(), Some(Box::new(x.into_iter().map(|e| e.into()).collect())))
   Nullable:      Value::Array(T::array_type(), None)
   ValueType:     match v { Value::Array(ty, Some(v)) if T::array_type() == ty =>
                                Ok(v.into_iter().map(|e| e.unwrap()).collect()),
                            _ => Err(ValueTypeErr) }
   e.unwrap() is Value::unwrap::<T> = T::try_from(e).unwrap(): an element of another variant, or a NULL
   element, makes the whole extraction panic. *)
Definition from_vec (s : side) (a : vtag) (ps : list payload) : value :=
  VArray a (Some (map (from_side s) ps)).
Definition null_vec (a : vtag) : value := VArray a None.

Fixpoint unwrap_all (s : side) (vs : list value) : cres (list payload) :=
  match vs with
  | [] => COk []
  | v :: r =>
      match unwrap_side s v with
      | COk p => cmap (cons p) (unwrap_all s r)
      | _ => CPanic
      end
  end.

Definition try_from_vec (s : side) (a : vtag) (v : value) : cres (list payload) :=
  match v with
  | VArray ty (Some vs) => if vtag_eqb a ty then unwrap_all s vs else CErr
  | _ => CErr
  end.

(* ---- Rust type expressions over the table: T, Option<T>, Vec<T>, Option<Vec<T>> ----------------------- *)

Inductive ctype :=
| CtPlain (r : vrow) | CtOpt (r : vrow) | CtVec (r : vrow) | CtOptVec (r : vrow).

(* a Rust value of such a type *)
Inductive cpay :=
| CP (p : payload) | CO (o : option payload) | CL (l : list payload) | COL (o : option (list payload)).

(* which impls the type expression needs (the trait bounds of the generic impls) *)
Definition has_vec (r : vrow) : option (side * side * vtag) :=
  match r_from r, r_try r, r_arr r with
  | Some f, Some t, Some a => if r_notu8 r then Some (f, t, a) else None
  | _, _, _ => None
  end.

(* Value::from(x); None when the type has no such impl (the program would not compile) *)
Definition ct_from (c : ctype) (x : cpay) : option value :=
  match c, x with
  | CtPlain r, CP p => option_map (fun f => from_side f p) (r_from r)
  | CtOpt r, CO o =>
      match r_from r, r_null r with
      | Some f, Some n => Some (from_option (from_side f) (null_of n) o)
      | _, _ => None
      end
  | CtVec r, CL l => option_map (fun '(f, _, a) => from_vec f a l) (has_vec r)
  | CtOptVec r, COL o => option_map (fun '(f, _, a) => from_option (from_vec f a) (null_vec a) o) (has_vec r)
  | _, _ => None
  end.

Definition ct_null (c : ctype) : option value :=
  match c with
  | CtPlain r => option_map null_of (r_null r)
  | CtVec r => option_map (fun '(_, _, a) => null_vec a) (has_vec r)
  | _ => None                                       (* Option<T> is not Nullable *)
  end.

(* <C as ValueType>::try_from(v) *)
Definition ct_try (eqv : value -> value -> bool) (c : ctype) (v : value) : option (cres cpay) :=
  match c with
  | CtPlain r => option_map (fun t => cmap CP (try_from_side t v)) (r_try r)
  | CtOpt r =>
      match r_try r, r_null r with
      | Some t, Some n => Some (cmap CO (try_from_option eqv (try_from_side t) (null_of n) v))
      | _, _ => None
      end
  | CtVec r => option_map (fun '(_, t, a) => cmap CL (try_from_vec t a v)) (has_vec r)
  | CtOptVec r =>
      option_map (fun '(_, t, a) => cmap COL (try_from_option eqv (try_from_vec t a) (null_vec a) v)) (has_vec r)
  end.

(* ---- tuples --------------------------------------------------------------------------------------------
   IntoValueTuple for V / (V,W) / (U,V,W) / (T0..Tn-1), n = 4..12: One / Two / Three / Many(vec![..]),
   each component through Into<Value>, in order.  The constructor per arity comes from the generated
   table.  FromValueTuple: the matching constructor (Many: `if vec.len() == n`), each component through
   ValueType::unwrap in order; anything else panics. *)
Definition build_tuple (k : tctor) (l : list value) : option vtuple :=
  match k, l with
  | KOne, [a] => Some (TOne a)
  | KTwo, [a; b] => Some (TTwo a b)
  | KThree, [a; b; c] => Some (TThree a b c)
  | KMany, _ => Some (TMany l)
  | _, _ => None
  end.

(* the components already converted by Into<Value>; None: no impl for this arity *)
Definition into_value_tuple (l : list value) : option vtuple :=
  match lookup_N (N.of_nat (length l)) into_tuple_table with
  | Some k => build_tuple k l
  | None => None
  end.

(* ValueTuple::into_iter *)
Definition tuple_into_iter (t : vtuple) : list value :=
  match t with
  | TOne v => [v]
  | TTwo v w => [v; w]
  | TThree u v w => [u; v; w]
  | TMany vec => vec
  end.

(* unwrap component i with extractor i *)
Fixpoint unwrap_each {A} (ts : list (value -> cres A)) (vs : list value) : cres (list A) :=
  match ts, vs with
  | [], _ => COk []
  | t :: ts', v :: vs' =>
      match unwrap_res (t v) with
      | COk p => cmap (cons p) (unwrap_each ts' vs')
      | _ => CPanic
      end
  | _ :: _, [] => CPanic                      (* iter.next().unwrap() on an exhausted iterator *)
  end.

Definition from_value_tuple {A} (ts : list (value -> cres A)) (t : vtuple) : option (cres (list A)) :=
  match lookup_N (N.of_nat (length ts)) from_tuple_table with
  | Some KOne => Some (match t with TOne u => unwrap_each ts [u] | _ => CPanic end)
  | Some KTwo => Some (match t with TTwo v w => unwrap_each ts [v; w] | _ => CPanic end)
  | Some KThree => Some (match t with TThree u v w => unwrap_each ts [u; v; w] | _ => CPanic end)
  | Some KMany =>
      Some (match t with
            | TMany vec => if Nat.eqb (length vec) (length ts) then unwrap_each ts vec else CPanic
            | _ => CPanic
            end)
  | None => None
  end.

(* ---- as_null / dummy_value: the match arms listed in Generated/ValueTypes.v ---------------------- *)

Definition as_null_gen (v : value) : option value :=
  match v with
  | V t _ => option_map (fun t' => V t' None) (lookup_tag t as_null_arms)
  | VArray e _ => if as_null_array_arm then Some (VArray e None) else None
  end.

(* Default::default() of the primitive payloads; payload-crate defaults and constants are opaque *)
Definition dummy_payload (t : vtag) : payload :=
  match t with
  | TBool => PBool false
  | TTinyInt | TSmallInt | TInt | TBigInt | TTinyUnsigned | TSmallUnsigned | TUnsigned | TBigUnsigned => PInt 0
  | TFloat => PF32 0
  | TDouble => PF64 0
  | TString => PStr []
  | TChar => PChar 0
  | TBytes => PBytes []
  | _ => POpaque 0 []
  end.

Definition dummy_gen (v : value) : option value :=
  match v with
  | V t _ => option_map (fun '(t', _) => V t' (Some (dummy_payload t'))) (lookup_tag t dummy_arms)
  | VArray e _ => if dummy_array_arm then Some (VArray e (Some [])) else None
  end.

(* variant of a value: Some tag, or None for Array (with its element tag kept apart) *)
Definition variant_of (v : value) : option vtag := match v with V t _ => Some t | VArray _ _ => None end.
Definition same_variant (a b : value) : bool :=
  match a, b with
  | V t _, V t' _ => vtag_eqb t t'
  | VArray e _, VArray e' _ => vtag_eqb e e'
  | _, _ => false
  end.

Fixpoint find_row (name : str) (l : list vrow) : option vrow :=
  match l with
  | [] => None
  | r :: t => if str_eqb name (r_name r) then Some r else find_row name t
  end.
