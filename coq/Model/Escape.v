(* Model of EscapeBuilder (src/backend/mod.rs) and the SQLite override (src/backend/sqlite/mod.rs). *)
Require Import SQV.Model.Str.

Inductive backend := MySQL | Postgres | SQLite.

Definition backend_eqb (a b : backend) : bool :=
  match a, b with MySQL, MySQL | Postgres, Postgres | SQLite, SQLite => true | _, _ => false end.

(* the literal chain of `replace` calls of the default escape_string *)
Definition escape_default (s : str) : str :=
  replace_char 13 [92; 114]        (* '\r' -> \r *)
  (replace_char 10 [92; 110]       (* '\n' -> \n *)
  (replace_char 9 [92; 116]        (* '\t' -> \t *)
  (replace_char 8 [92; 98]         (* '\x08' -> \b *)
  (replace_char 0 [92; 48]         (* '\0' -> \0 *)
  (replace_char 39 [92; 39]        (* '\'' -> \' *)
  (replace_char 34 [92; 34]        (* '"' -> \" *)
  (replace_char 92 [92; 92] s))))))).

Definition unescape_char (c : N) : N :=
  if c =? 48 then 0 else if c =? 98 then 8 else if c =? 116 then 9 else
  if c =? 122 then 26 else if c =? 110 then 10 else if c =? 114 then 13 else c.

(* the `for c in string.chars()` loop with its `escape` flag; output accumulated in order *)
Fixpoint unescape_loop (escape : bool) (s : str) : str :=
  match s with
  | [] => []
  | c :: t =>
      if negb escape && (c =? 92) then unescape_loop true t
      else if escape then unescape_char c :: unescape_loop false t
      else c :: unescape_loop escape t
  end.
Definition unescape_default (s : str) : str := unescape_loop false s.

Definition escape_sqlite (s : str) : str := replace_char 39 [39; 39] s.
Definition unescape_sqlite (s : str) : str := replace2 39 39 [39] s.

Definition escape_string (b : backend) (s : str) : str :=
  match b with SQLite => escape_sqlite s | _ => escape_default s end.
Definition unescape_string (b : backend) (s : str) : str :=
  match b with SQLite => unescape_sqlite s | _ => unescape_default s end.

(* specification-side view: per-character escaping *)
Definition esc_char (c : N) : str :=
  if c =? 92 then [92; 92] else if c =? 34 then [92; 34] else if c =? 39 then [92; 39] else
  if c =? 0 then [92; 48] else if c =? 8 then [92; 98] else if c =? 9 then [92; 116] else
  if c =? 10 then [92; 110] else if c =? 13 then [92; 114] else [c].
