(* Model of literal rendering: write_string_quoted / write_bytes (src/backend/query_builder.rs and
   the Postgres overrides in src/backend/postgres/query.rs), the Char arm of value_to_string_common,
   MySQL COMMENT / ENUM label writers (src/backend/mysql/table.rs), and Iden::quoted / prepare
   (src/types.rs). *)
Require Import SQV.Model.Str SQV.Model.Escape.

Definition has_backslash (s : str) : bool := existsb (fun c => c =? 92) s.

Definition write_string_quoted (b : backend) (s : str) : str :=
  let e := escape_string b s in
  match b with
  | Postgres => if has_backslash e then 69 :: 39 :: e ++ [39] else 39 :: e ++ [39]
  | _ => 39 :: e ++ [39]
  end.

(* Value::Char: the character is written as a one-character string *)
Definition write_char_quoted (b : backend) (c : N) : str := write_string_quoted b [c].

Definition hex_digit_upper (d : N) : N := if d <? 10 then 48 + d else 55 + d.
Definition hex_byte_upper (x : N) : str := [hex_digit_upper (x / 16); hex_digit_upper (x mod 16)].

Definition write_bytes (b : backend) (bs : list N) : str :=
  match b with
  | Postgres => 39 :: 92 :: 120 :: flat_map hex_byte_upper bs ++ [39]
  | _ => 120 :: 39 :: flat_map hex_byte_upper bs ++ [39]
  end.

(* MySQL: COMMENT '<escaped>' (table option and column spec) *)
Definition mysql_comment_lit (s : str) : str := 39 :: escape_default s ++ [39].

(* MySQL: ENUM('a', 'b') labels *)
Definition join_with (sep : str) (l : list str) : str :=
  match l with
  | [] => []
  | x :: t => x ++ flat_map (fun y => sep ++ y) t
  end.
Definition mysql_enum_label (s : str) : str := 39 :: escape_default s ++ [39].
Definition mysql_enum_type (labels : list str) : str :=
  [69; 78; 85; 77; 40] ++ join_with [44; 32] (map mysql_enum_label labels) ++ [41].

(* Iden::quoted: replace(right quote, doubled right quote); prepare: left ++ quoted ++ right *)
Definition quote_char (b : backend) : N := match b with MySQL => 96 | _ => 34 end.
Definition iden_quoted (q : N) (name : str) : str := replace_char q [q; q] name.
Definition iden_prepare (q : N) (name : str) : str := q :: iden_quoted q name ++ [q].
