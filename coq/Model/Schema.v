(* Model of the schema statement ASTs: ColumnType / ColumnSpec / ColumnDef (src/table/column.rs),
   TableCreateStatement (src/table/create.rs), TableAlterStatement (src/table/alter.rs),
   TableDrop / Rename / Truncate, IndexCreateStatement / TableIndex / IndexDropStatement (src/index),
   TableForeignKey / ForeignKeyCreate / Drop (src/foreign_key), the Postgres type statements
   (src/extension/postgres/types.rs) and extension statements (src/extension/postgres/extension.rs),
   and of their builder methods (one step function per public builder call). Definitions only. *)
Require Import SQV.Model.Str SQV.Model.Value SQV.Model.Expr SQV.Model.Cond SQV.Model.Stmt SQV.Model.Build.

(* ---- column types ---- *)
Inductive pginterval :=
| IvYear | IvMonth | IvDay | IvHour | IvMinute | IvSecond | IvYearToMonth | IvDayToHour | IvDayToMinute
| IvDayToSecond | IvHourToMinute | IvHourToSecond | IvMinuteToSecond.
Definition pginterval_key (f : pginterval) : N :=
  match f with
  | IvYear => 0 | IvMonth => 1 | IvDay => 2 | IvHour => 3 | IvMinute => 4 | IvSecond => 5
  | IvYearToMonth => 6 | IvDayToHour => 7 | IvDayToMinute => 8 | IvDayToSecond => 9
  | IvHourToMinute => 10 | IvHourToSecond => 11 | IvMinuteToSecond => 12
  end.

Inductive stringlen := SLN (n : N) | SLMax | SLNone.

Inductive coltype :=
| CTChar (len : option N)
| CTString (len : stringlen)
| CTText | CTBlob
| CTTinyInteger | CTSmallInteger | CTInteger | CTBigInteger
| CTTinyUnsigned | CTSmallUnsigned | CTUnsigned | CTBigUnsigned
| CTFloat | CTDouble
| CTDecimal (ps : option (N * N))
| CTDateTime | CTTimestamp | CTTimestampWithTimeZone | CTTime | CTDate | CTYear
| CTInterval (fields : option pginterval) (precision : option N)
| CTBinary (len : N)
| CTVarBinary (len : stringlen)
| CTBit (len : option N)
| CTVarBit (len : N)
| CTBoolean
| CTMoney (ps : option (N * N))
| CTJson | CTJsonBinary | CTUuid
| CTCustom (name : str)
| CTEnum (name : str) (variants : list str)
| CTArray (elem : coltype)
| CTVector (size : option N)
| CTCidr | CTInet | CTMacAddr | CTLTree.

(* the shape of a column type: variant + which optional parameters are present. The keys are those of
   harness/src/ddl.rs::shapes (rows of Generated/ColTypes.v) *)
Definition ct_shape (t : coltype) : N :=
  match t with
  | CTChar None => 0 | CTChar (Some _) => 1
  | CTString (SLN _) => 2 | CTString SLNone => 3 | CTString SLMax => 4
  | CTText => 5 | CTBlob => 6
  | CTTinyInteger => 7 | CTSmallInteger => 8 | CTInteger => 9 | CTBigInteger => 10
  | CTTinyUnsigned => 11 | CTSmallUnsigned => 12 | CTUnsigned => 13 | CTBigUnsigned => 14
  | CTFloat => 15 | CTDouble => 16
  | CTDecimal None => 17 | CTDecimal (Some _) => 18
  | CTDateTime => 19 | CTTimestamp => 20 | CTTimestampWithTimeZone => 21 | CTTime => 22 | CTDate => 23
  | CTYear => 24
  | CTInterval None None => 25 | CTInterval None (Some _) => 26
  | CTInterval (Some f) None => 30 + pginterval_key f
  | CTInterval (Some f) (Some _) => 50 + pginterval_key f
  | CTBinary _ => 70
  | CTVarBinary (SLN _) => 71 | CTVarBinary SLNone => 72 | CTVarBinary SLMax => 73
  | CTBit None => 74 | CTBit (Some _) => 75
  | CTVarBit _ => 76
  | CTBoolean => 77
  | CTMoney None => 78 | CTMoney (Some _) => 79
  | CTJson => 80 | CTJsonBinary => 81 | CTUuid => 82
  | CTCustom _ => 83 | CTEnum _ _ => 84 | CTArray _ => 85
  | CTVector None => 86 | CTVector (Some _) => 87
  | CTCidr => 88 | CTInet => 89 | CTMacAddr => 90 | CTLTree => 91
  end.

(* the numeric parameters of a column type (parameter 1, parameter 2); 0 where absent *)
Definition ct_params (t : coltype) : N * N :=
  match t with
  | CTChar (Some n) | CTString (SLN n) | CTBinary n | CTVarBinary (SLN n) | CTBit (Some n) | CTVarBit n
  | CTVector (Some n) | CTInterval _ (Some n) => (n, 0)
  | CTDecimal (Some (p, s)) | CTMoney (Some (p, s)) => (p, s)
  | _ => (0, 0)
  end.

(* ---- column definitions ---- *)
Inductive colspec :=
| CSNull | CSNotNull
| CSDefault (e : expr query)
| CSAutoIncrement | CSUniqueKey | CSPrimaryKey
| CSCheck (e : expr query)
| CSGenerated (e : expr query) (stored : bool)
| CSExtra (s : str)
| CSComment (s : str)
| CSUsing (e : expr query).

Record coldef := { cd_name : str; cd_type : option coltype; cd_spec : list colspec }.

Definition is_autoinc (s : colspec) : bool := match s with CSAutoIncrement => true | _ => false end.
Definition has_autoinc (c : coldef) : bool := existsb is_autoinc (cd_spec c).

(* ---- indexes ---- *)
Inductive indexorder := IOAsc | IODesc.
Record indexcol := { ic_name : str; ic_prefix : option N; ic_order : option indexorder }.
Record tableindex := { ti_name : option str; ti_columns : list indexcol }.
Inductive indextype := ITBTree | ITFullText | ITHash | ITCustom (s : str).
Record indexcreate := {
  ix_table : option tref; ix_index : tableindex; ix_primary : bool; ix_unique : bool;
  ix_nulls_not_distinct : bool; ix_type : option indextype; ix_if_not_exists : bool;
  ix_where : holder query; ix_include : list str }.
Record indexdrop := { ixd_table : option tref; ixd_index : tableindex; ixd_if_exists : bool }.

(* ---- foreign keys ---- *)
Inductive fkaction := FKRestrict | FKCascade | FKSetNull | FKNoAction | FKSetDefault.
Record tablefk := {
  fk_name : option str; fk_table : option tref; fk_ref_table : option tref;
  fk_columns : list str; fk_ref_columns : list str;
  fk_on_delete : option fkaction; fk_on_update : option fkaction }.
Record fkdrop := { fkd_fk : tablefk; fkd_table : option tref }.

(* ---- tables ---- *)
Inductive tableopt := TOEngine (s : str) | TOCollate (s : str) | TOCharacterSet (s : str).
Inductive tablepartition := .      (* pub enum TablePartition {} *)
Record tablecreate := {
  tc_table : option tref; tc_columns : list coldef; tc_options : list tableopt;
  tc_partitions : list tablepartition; tc_indexes : list indexcreate; tc_foreign_keys : list tablefk;
  tc_if_not_exists : bool; tc_check : list (expr query); tc_comment : option str;
  tc_extra : option str; tc_temporary : bool }.

Inductive alteropt :=
| AOAddColumn (c : coldef) (if_not_exists : bool)
| AOModifyColumn (c : coldef)
| AORenameColumn (from_name to_name : str)
| AODropColumn (c : str)
| AOAddForeignKey (fk : tablefk)
| AODropForeignKey (name : str).
Record tablealter := { ta_table : option tref; ta_options : list alteropt }.

Inductive dropopt := DORestrict | DOCascade.
Record tabledrop := { td_tables : list tref; td_options : list dropopt; td_if_exists : bool }.
Record tablerename := { tr_from : option tref; tr_to : option tref }.
Record tabletruncate := { tt_table : option tref }.

(* ---- Postgres types and extensions ---- *)
Inductive typeref := TyType (n : str) | TySchemaType (s n : str) | TyDbSchemaType (d s n : str).
Inductive typeas := TAEnum.
Record typecreate := { tyc_name : option typeref; tyc_as : option typeas; tyc_values : list str }.
Record typedrop := { tyd_names : list typeref; tyd_option : option dropopt; tyd_if_exists : bool }.
Inductive typeaddopt := TABefore (v : str) | TAAfter (v : str).
Inductive typealteropt :=
| TAAdd (value : str) (placement : option typeaddopt) (if_not_exists : bool)
| TARename (n : str)
| TARenameValue (existing new_name : str).
Record typealter := { tya_name : option typeref; tya_option : option typealteropt }.
Record extcreate := { exc_name : str; exc_schema : option str; exc_version : option str;
                      exc_if_not_exists : bool; exc_cascade : bool }.
Record extdrop := { exd_name : str; exd_if_exists : bool; exd_restrict : bool; exd_cascade : bool }.

Inductive ddl :=
| DTableCreate (c : tablecreate) | DTableAlter (a : tablealter) | DTableDrop (d : tabledrop)
| DTableRename (r : tablerename) | DTableTruncate (t : tabletruncate)
| DIndexCreate (c : indexcreate) | DIndexDrop (d : indexdrop)
| DForeignKeyCreate (fk : tablefk) | DForeignKeyDrop (d : fkdrop)
| DTypeCreate (c : typecreate) | DTypeAlter (a : typealter) | DTypeDrop (d : typedrop)
| DExtensionCreate (c : extcreate) | DExtensionDrop (d : extdrop).

(* =====================================================================================================
   builder methods: a statement is the left fold of its calls over the Default value
   ===================================================================================================== *)

(* ColumnDef::new / new_with_type followed by the spec-pushing methods *)
Definition cd_push (c : coldef) (s : colspec) : coldef :=
  {| cd_name := cd_name c; cd_type := cd_type c; cd_spec := cd_spec c ++ [s] |}.
Definition build_coldef (name : str) (ty : option coltype) (specs : list colspec) : coldef :=
  fold_left cd_push specs {| cd_name := name; cd_type := ty; cd_spec := [] |}.

(* IndexCreateStatement *)
Inductive ixclause :=
| IXName (n : str) | IXTable (t : tref) | IXCol (c : indexcol) | IXPrimary | IXUnique | IXNullsNotDistinct
| IXIndexType (t : indextype) | IXInclude (c : str) | IXIfNotExists | IXWhere (c : condarg).
Definition ix_new : indexcreate :=
  {| ix_table := None; ix_index := {| ti_name := None; ti_columns := [] |}; ix_primary := false;
     ix_unique := false; ix_nulls_not_distinct := false; ix_type := None; ix_if_not_exists := false;
     ix_where := HEmpty; ix_include := [] |}.
Definition ix_step (x : indexcreate) (c : ixclause) : indexcreate :=
  let idx := ix_index x in
  match c with
  | IXName n => {| ix_table := ix_table x; ix_index := {| ti_name := Some n; ti_columns := ti_columns idx |};
                   ix_primary := ix_primary x; ix_unique := ix_unique x;
                   ix_nulls_not_distinct := ix_nulls_not_distinct x; ix_type := ix_type x;
                   ix_if_not_exists := ix_if_not_exists x; ix_where := ix_where x; ix_include := ix_include x |}
  | IXTable t => {| ix_table := Some t; ix_index := idx; ix_primary := ix_primary x; ix_unique := ix_unique x;
                    ix_nulls_not_distinct := ix_nulls_not_distinct x; ix_type := ix_type x;
                    ix_if_not_exists := ix_if_not_exists x; ix_where := ix_where x; ix_include := ix_include x |}
  | IXCol col => {| ix_table := ix_table x;
                    ix_index := {| ti_name := ti_name idx; ti_columns := ti_columns idx ++ [col] |};
                    ix_primary := ix_primary x; ix_unique := ix_unique x;
                    ix_nulls_not_distinct := ix_nulls_not_distinct x; ix_type := ix_type x;
                    ix_if_not_exists := ix_if_not_exists x; ix_where := ix_where x; ix_include := ix_include x |}
  | IXPrimary => {| ix_table := ix_table x; ix_index := idx; ix_primary := true; ix_unique := ix_unique x;
                    ix_nulls_not_distinct := ix_nulls_not_distinct x; ix_type := ix_type x;
                    ix_if_not_exists := ix_if_not_exists x; ix_where := ix_where x; ix_include := ix_include x |}
  | IXUnique => {| ix_table := ix_table x; ix_index := idx; ix_primary := ix_primary x; ix_unique := true;
                   ix_nulls_not_distinct := ix_nulls_not_distinct x; ix_type := ix_type x;
                   ix_if_not_exists := ix_if_not_exists x; ix_where := ix_where x; ix_include := ix_include x |}
  | IXNullsNotDistinct => {| ix_table := ix_table x; ix_index := idx; ix_primary := ix_primary x;
                   ix_unique := ix_unique x; ix_nulls_not_distinct := true; ix_type := ix_type x;
                   ix_if_not_exists := ix_if_not_exists x; ix_where := ix_where x; ix_include := ix_include x |}
  | IXIndexType t => {| ix_table := ix_table x; ix_index := idx; ix_primary := ix_primary x;
                   ix_unique := ix_unique x; ix_nulls_not_distinct := ix_nulls_not_distinct x; ix_type := Some t;
                   ix_if_not_exists := ix_if_not_exists x; ix_where := ix_where x; ix_include := ix_include x |}
  | IXInclude col => {| ix_table := ix_table x; ix_index := idx; ix_primary := ix_primary x;
                   ix_unique := ix_unique x; ix_nulls_not_distinct := ix_nulls_not_distinct x; ix_type := ix_type x;
                   ix_if_not_exists := ix_if_not_exists x; ix_where := ix_where x;
                   ix_include := ix_include x ++ [col] |}
  | IXIfNotExists => {| ix_table := ix_table x; ix_index := idx; ix_primary := ix_primary x;
                   ix_unique := ix_unique x; ix_nulls_not_distinct := ix_nulls_not_distinct x; ix_type := ix_type x;
                   ix_if_not_exists := true; ix_where := ix_where x; ix_include := ix_include x |}
  | IXWhere ca => {| ix_table := ix_table x; ix_index := idx; ix_primary := ix_primary x;
                   ix_unique := ix_unique x; ix_nulls_not_distinct := ix_nulls_not_distinct x; ix_type := ix_type x;
                   ix_if_not_exists := ix_if_not_exists x;
                   ix_where := holder_add (ix_where x) (into_condition ca); ix_include := ix_include x |}
  end.
Definition build_index (cs : list ixclause) : indexcreate := fold_left ix_step cs ix_new.

(* TableForeignKey / ForeignKeyCreateStatement (the latter delegates every call) *)
Inductive fkclause :=
| FKName (n : str) | FKFromTbl (t : tref) | FKToTbl (t : tref) | FKFromCol (c : str) | FKToCol (c : str)
| FKOnDelete (a : fkaction) | FKOnUpdate (a : fkaction).
Definition fk_new : tablefk :=
  {| fk_name := None; fk_table := None; fk_ref_table := None; fk_columns := []; fk_ref_columns := [];
     fk_on_delete := None; fk_on_update := None |}.
Definition fk_step (f : tablefk) (c : fkclause) : tablefk :=
  match c with
  | FKName n => {| fk_name := Some n; fk_table := fk_table f; fk_ref_table := fk_ref_table f;
                   fk_columns := fk_columns f; fk_ref_columns := fk_ref_columns f;
                   fk_on_delete := fk_on_delete f; fk_on_update := fk_on_update f |}
  | FKFromTbl t => {| fk_name := fk_name f; fk_table := Some t; fk_ref_table := fk_ref_table f;
                   fk_columns := fk_columns f; fk_ref_columns := fk_ref_columns f;
                   fk_on_delete := fk_on_delete f; fk_on_update := fk_on_update f |}
  | FKToTbl t => {| fk_name := fk_name f; fk_table := fk_table f; fk_ref_table := Some t;
                   fk_columns := fk_columns f; fk_ref_columns := fk_ref_columns f;
                   fk_on_delete := fk_on_delete f; fk_on_update := fk_on_update f |}
  | FKFromCol c => {| fk_name := fk_name f; fk_table := fk_table f; fk_ref_table := fk_ref_table f;
                   fk_columns := fk_columns f ++ [c]; fk_ref_columns := fk_ref_columns f;
                   fk_on_delete := fk_on_delete f; fk_on_update := fk_on_update f |}
  | FKToCol c => {| fk_name := fk_name f; fk_table := fk_table f; fk_ref_table := fk_ref_table f;
                   fk_columns := fk_columns f; fk_ref_columns := fk_ref_columns f ++ [c];
                   fk_on_delete := fk_on_delete f; fk_on_update := fk_on_update f |}
  | FKOnDelete a => {| fk_name := fk_name f; fk_table := fk_table f; fk_ref_table := fk_ref_table f;
                   fk_columns := fk_columns f; fk_ref_columns := fk_ref_columns f;
                   fk_on_delete := Some a; fk_on_update := fk_on_update f |}
  | FKOnUpdate a => {| fk_name := fk_name f; fk_table := fk_table f; fk_ref_table := fk_ref_table f;
                   fk_columns := fk_columns f; fk_ref_columns := fk_ref_columns f;
                   fk_on_delete := fk_on_delete f; fk_on_update := Some a |}
  end.
Definition build_fk (cs : list fkclause) : tablefk := fold_left fk_step cs fk_new.

(* TableCreateStatement *)
Inductive tcclause :=
| TCTable (t : tref) | TCIfNotExists | TCTemporary | TCComment (s : str) | TCExtra (s : str)
| TCOpt (o : tableopt) | TCCol (c : coldef) | TCCheck (e : expr query)
| TCIndex (i : indexcreate) | TCPrimaryKey (i : indexcreate) | TCForeignKey (f : tablefk).
Definition tc_new : tablecreate :=
  {| tc_table := None; tc_columns := []; tc_options := []; tc_partitions := []; tc_indexes := [];
     tc_foreign_keys := []; tc_if_not_exists := false; tc_check := []; tc_comment := None; tc_extra := None;
     tc_temporary := false |}.
Definition ix_set_primary (x : indexcreate) : indexcreate :=
  {| ix_table := ix_table x; ix_index := ix_index x; ix_primary := true; ix_unique := ix_unique x;
     ix_nulls_not_distinct := ix_nulls_not_distinct x; ix_type := ix_type x;
     ix_if_not_exists := ix_if_not_exists x; ix_where := ix_where x; ix_include := ix_include x |}.
Definition tc_step (t : tablecreate) (c : tcclause) : tablecreate :=
  let mk table columns options indexes fks ine check comment extra temporary :=
    {| tc_table := table; tc_columns := columns; tc_options := options; tc_partitions := tc_partitions t;
       tc_indexes := indexes; tc_foreign_keys := fks; tc_if_not_exists := ine; tc_check := check;
       tc_comment := comment; tc_extra := extra; tc_temporary := temporary |} in
  let table := tc_table t in let columns := tc_columns t in let options := tc_options t in
  let indexes := tc_indexes t in let fks := tc_foreign_keys t in let ine := tc_if_not_exists t in
  let check := tc_check t in let comment := tc_comment t in let extra := tc_extra t in
  let temporary := tc_temporary t in
  match c with
  | TCTable x => mk (Some x) columns options indexes fks ine check comment extra temporary
  | TCIfNotExists => mk table columns options indexes fks true check comment extra temporary
  | TCTemporary => mk table columns options indexes fks ine check comment extra true
  | TCComment s => mk table columns options indexes fks ine check (Some s) extra temporary
  | TCExtra s => mk table columns options indexes fks ine check comment (Some s) temporary
  | TCOpt o => mk table columns (options ++ [o]) indexes fks ine check comment extra temporary
  | TCCol cd => mk table (columns ++ [cd]) options indexes fks ine check comment extra temporary
  | TCCheck e => mk table columns options indexes fks ine (check ++ [e]) comment extra temporary
  | TCIndex i => mk table columns options (indexes ++ [i]) fks ine check comment extra temporary
  | TCPrimaryKey i => mk table columns options (indexes ++ [ix_set_primary i]) fks ine check comment extra temporary
  | TCForeignKey f => mk table columns options indexes (fks ++ [f]) ine check comment extra temporary
  end.
Definition build_tablecreate (cs : list tcclause) : tablecreate := fold_left tc_step cs tc_new.

(* TableAlterStatement *)
Inductive taclause := TATable (t : tref) | TAOption (o : alteropt).
Definition ta_step (a : tablealter) (c : taclause) : tablealter :=
  match c with
  | TATable t => {| ta_table := Some t; ta_options := ta_options a |}
  | TAOption o => {| ta_table := ta_table a; ta_options := ta_options a ++ [o] |}
  end.
Definition build_tablealter (cs : list taclause) : tablealter :=
  fold_left ta_step cs {| ta_table := None; ta_options := [] |}.

(* TableDropStatement *)
Inductive tdclause := TDTable (t : tref) | TDIfExists | TDOpt (o : dropopt).
Definition td_step (d : tabledrop) (c : tdclause) : tabledrop :=
  match c with
  | TDTable t => {| td_tables := td_tables d ++ [t]; td_options := td_options d; td_if_exists := td_if_exists d |}
  | TDIfExists => {| td_tables := td_tables d; td_options := td_options d; td_if_exists := true |}
  | TDOpt o => {| td_tables := td_tables d; td_options := td_options d ++ [o]; td_if_exists := td_if_exists d |}
  end.
Definition build_tabledrop (cs : list tdclause) : tabledrop :=
  fold_left td_step cs {| td_tables := []; td_options := []; td_if_exists := false |}.

(* IndexDropStatement *)
Inductive ixdclause := IXDName (n : str) | IXDTable (t : tref) | IXDIfExists.
Definition ixd_step (d : indexdrop) (c : ixdclause) : indexdrop :=
  match c with
  | IXDName n => {| ixd_table := ixd_table d;
                    ixd_index := {| ti_name := Some n; ti_columns := ti_columns (ixd_index d) |};
                    ixd_if_exists := ixd_if_exists d |}
  | IXDTable t => {| ixd_table := Some t; ixd_index := ixd_index d; ixd_if_exists := ixd_if_exists d |}
  | IXDIfExists => {| ixd_table := ixd_table d; ixd_index := ixd_index d; ixd_if_exists := true |}
  end.
Definition build_indexdrop (cs : list ixdclause) : indexdrop :=
  fold_left ixd_step cs {| ixd_table := None; ixd_index := {| ti_name := None; ti_columns := [] |};
                           ixd_if_exists := false |}.

(* ForeignKeyDropStatement *)
Inductive fkdclause := FKDName (n : str) | FKDTable (t : tref).
Definition fkd_step (d : fkdrop) (c : fkdclause) : fkdrop :=
  match c with
  | FKDName n => {| fkd_fk := fk_step (fkd_fk d) (FKName n); fkd_table := fkd_table d |}
  | FKDTable t => {| fkd_fk := fkd_fk d; fkd_table := Some t |}
  end.
Definition build_fkdrop (cs : list fkdclause) : fkdrop :=
  fold_left fkd_step cs {| fkd_fk := fk_new; fkd_table := None |}.

(* TypeCreateStatement / TypeDropStatement / TypeAlterStatement *)
Inductive tycclause := TYCAsEnum (n : typeref) | TYCValues (vs : list str).
Definition tyc_step (t : typecreate) (c : tycclause) : typecreate :=
  match c with
  | TYCAsEnum n => {| tyc_name := Some n; tyc_as := Some TAEnum; tyc_values := tyc_values t |}
  | TYCValues vs => {| tyc_name := tyc_name t; tyc_as := tyc_as t; tyc_values := tyc_values t ++ vs |}
  end.
Definition build_typecreate (cs : list tycclause) : typecreate :=
  fold_left tyc_step cs {| tyc_name := None; tyc_as := None; tyc_values := [] |}.

Inductive tydclause := TYDNames (ns : list typeref) | TYDIfExists | TYDOpt (o : dropopt).
Definition tyd_step (t : typedrop) (c : tydclause) : typedrop :=
  match c with
  | TYDNames ns => {| tyd_names := tyd_names t ++ ns; tyd_option := tyd_option t; tyd_if_exists := tyd_if_exists t |}
  | TYDIfExists => {| tyd_names := tyd_names t; tyd_option := tyd_option t; tyd_if_exists := true |}
  | TYDOpt o => {| tyd_names := tyd_names t; tyd_option := Some o; tyd_if_exists := tyd_if_exists t |}
  end.
Definition build_typedrop (cs : list tydclause) : typedrop :=
  fold_left tyd_step cs {| tyd_names := []; tyd_option := None; tyd_if_exists := false |}.

Inductive tyaclause :=
| TYAName (n : typeref) | TYAAddValue (v : str) | TYABefore (v : str) | TYAAfter (v : str) | TYAIfNotExists
| TYARenameTo (n : str) | TYARenameValue (a b : str).
(* before / after / if_not_exists only act on an Add option that is already present *)
Definition tya_step (t : typealter) (c : tyaclause) : typealter :=
  let set o := {| tya_name := tya_name t; tya_option := o |} in
  match c with
  | TYAName n => {| tya_name := Some n; tya_option := tya_option t |}
  | TYAAddValue v => set (Some (TAAdd v None false))
  | TYABefore v =>
      match tya_option t with
      | Some (TAAdd value _ ine) => set (Some (TAAdd value (Some (TABefore v)) ine))
      | o => set o
      end
  | TYAAfter v =>
      match tya_option t with
      | Some (TAAdd value _ ine) => set (Some (TAAdd value (Some (TAAfter v)) ine))
      | o => set o
      end
  | TYAIfNotExists =>
      match tya_option t with
      | Some (TAAdd value pl _) => set (Some (TAAdd value pl true))
      | o => set o
      end
  | TYARenameTo n => set (Some (TARename n))
  | TYARenameValue a b => set (Some (TARenameValue a b))
  end.
Definition build_typealter (cs : list tyaclause) : typealter :=
  fold_left tya_step cs {| tya_name := None; tya_option := None |}.

(* ExtensionCreateStatement / ExtensionDropStatement *)
Inductive excclause := EXCName (s : str) | EXCSchema (s : str) | EXCVersion (s : str) | EXCCascade | EXCIfNotExists.
Definition exc_step (e : extcreate) (c : excclause) : extcreate :=
  match c with
  | EXCName s => {| exc_name := s; exc_schema := exc_schema e; exc_version := exc_version e;
                    exc_if_not_exists := exc_if_not_exists e; exc_cascade := exc_cascade e |}
  | EXCSchema s => {| exc_name := exc_name e; exc_schema := Some s; exc_version := exc_version e;
                      exc_if_not_exists := exc_if_not_exists e; exc_cascade := exc_cascade e |}
  | EXCVersion s => {| exc_name := exc_name e; exc_schema := exc_schema e; exc_version := Some s;
                       exc_if_not_exists := exc_if_not_exists e; exc_cascade := exc_cascade e |}
  | EXCCascade => {| exc_name := exc_name e; exc_schema := exc_schema e; exc_version := exc_version e;
                     exc_if_not_exists := exc_if_not_exists e; exc_cascade := true |}
  | EXCIfNotExists => {| exc_name := exc_name e; exc_schema := exc_schema e; exc_version := exc_version e;
                         exc_if_not_exists := true; exc_cascade := exc_cascade e |}
  end.
Definition build_extcreate (cs : list excclause) : extcreate :=
  fold_left exc_step cs {| exc_name := []; exc_schema := None; exc_version := None;
                           exc_if_not_exists := false; exc_cascade := false |}.

Inductive exdclause := EXDName (s : str) | EXDIfExists | EXDCascade | EXDRestrict.
Definition exd_step (e : extdrop) (c : exdclause) : extdrop :=
  match c with
  | EXDName s => {| exd_name := s; exd_if_exists := exd_if_exists e; exd_restrict := exd_restrict e;
                    exd_cascade := exd_cascade e |}
  | EXDIfExists => {| exd_name := exd_name e; exd_if_exists := true; exd_restrict := exd_restrict e;
                      exd_cascade := exd_cascade e |}
  | EXDCascade => {| exd_name := exd_name e; exd_if_exists := exd_if_exists e; exd_restrict := exd_restrict e;
                     exd_cascade := true |}
  | EXDRestrict => {| exd_name := exd_name e; exd_if_exists := exd_if_exists e; exd_restrict := true;
                      exd_cascade := exd_cascade e |}
  end.
Definition build_extdrop (cs : list exdclause) : extdrop :=
  fold_left exd_step cs {| exd_name := []; exd_if_exists := false; exd_restrict := false; exd_cascade := false |}.
