(* Shapes of the rows of Generated/ValueTypes.v (the data is regenerated from /repo/src/value.rs by
   tools/valuetypes.py; the shapes are fixed here).  Definitions only. *)
Require Import SQV.Model.Str SQV.Model.Value.

(* representation change applied to the payload by a conversion; none of them changes the content *)
Inductive conv :=
| CvId            (* x  /  *x                                           *)
| CvOwned         (* x.into(): borrowed -> owned copy, or String -> Cow *)
| CvViaString     (* x.into_owned().into(): delegates to From<String>   *)
| CvUuidFmt       (* uuid::fmt wrapper <-> Uuid (into_uuid / braced() ..) *)
| CvRefix.        (* DateTime<FixedOffset>: rebuilt from naive_utc + offset.fix() *)

(* one side of a conversion: Value::<tag>(Some(<boxed?>(<conv> x))) *)
Record side := mk_side { s_tag : vtag; s_boxed : bool; s_conv : conv }.

Record vrow := mk_vrow {
  r_name : str;                 (* the Rust type as written in the source, whitespace removed *)
  r_from : option side;         (* impl From<T> for Value *)
  r_null : option vtag;         (* impl Nullable for T: Value::<tag>(None) *)
  r_try  : option side;         (* impl ValueType for T: match v { Value::<tag>(Some(x)) => Ok(..), _ => Err } *)
  r_arr  : option vtag;         (* ValueType::array_type (None: unimplemented!) *)
  r_notu8 : bool                (* impl NotU8 for T: may be the element type of Vec<T> <-> Value::Array *)
}.

(* ValueTuple constructors *)
Inductive tctor := KOne | KTwo | KThree | KMany.

(* dummy_value arms: Default::default() or a named constant of the payload crate *)
Inductive dummy_kind := DkDefault | DkConst.

(* mod hashable_value: what the arm of a variant calls *)
Inductive eq_kind := EqPlain (* l == r *) | EqF32 | EqF64 | EqJson | EqVector.
Inductive hash_kind := HsPlain (* v.hash(state) *) | HsF32 | HsF64 | HsJson | HsVector.

Fixpoint lookup_tag {A} (t : vtag) (l : list (vtag * A)) : option A :=
  match l with
  | [] => None
  | (t', a) :: r => if vtag_eqb t t' then Some a else lookup_tag t r
  end.

Fixpoint lookup_N {A} (n : N) (l : list (N * A)) : option A :=
  match l with
  | [] => None
  | (m, a) :: r => if N.eqb n m then Some a else lookup_N n r
  end.

Definition all_vtags : list vtag :=
  [TBool; TTinyInt; TSmallInt; TInt; TBigInt; TTinyUnsigned; TSmallUnsigned; TUnsigned; TBigUnsigned;
   TFloat; TDouble; TString; TChar; TBytes; TJson;
   TChronoDate; TChronoTime; TChronoDateTime; TChronoDateTimeUtc; TChronoDateTimeLocal; TChronoDateTimeWithTimeZone;
   TTimeDate; TTimeTime; TTimeDateTime; TTimeDateTimeWithTimeZone;
   TUuid; TDecimal; TBigDecimal; TVector; TIpNetwork; TMacAddress].
