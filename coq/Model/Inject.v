(* Model of inject_parameters (src/prepare.rs): tokenize the SQL, replace placeholder tokens by the
   inline literal of the designated value. *)
Require Import SQV.Model.Str SQV.Model.Escape SQV.Model.Value SQV.Model.Token SQV.Model.Writer
  SQV.Model.RenderExpr.

Section Inject.
Variable ftext : bool -> N -> str.
Variable is_alpha : N -> bool.

Fixpoint inject_loop (b : backend) (params : list value) (toks : list token) (counter : nat) : res str :=
  match toks with
  | [] => Ok []
  | t :: rest =>
      let (ph, numbered) := placeholder b in
      match t with
      | Punct m =>
          if str_eqb m ph && negb numbered then
            match nth_error params counter with
            | Some v => rmap (fun o => value_to_string ftext b v ++ o) (inject_loop b params rest (S counter))
            | None => Panic
            end
          else if str_eqb m ph && numbered then
            match rest with
            | Unquoted next :: rest' =>
                match parse_usize next with
                | Some num =>
                    if num =? 0 then Panic else
                    match nth_error params (N.to_nat (num - 1)) with
                    | Some v => rmap (fun o => value_to_string ftext b v ++ o) (inject_loop b params rest' counter)
                    | None => Panic
                    end
                | None => rmap (fun o => m ++ o) (inject_loop b params rest counter)
                end
            | _ => rmap (fun o => m ++ o) (inject_loop b params rest counter)
            end
          else rmap (fun o => m ++ o) (inject_loop b params rest counter)
      | _ => rmap (fun o => text t ++ o) (inject_loop b params rest counter)
      end
  end.

Definition inject_parameters (b : backend) (sql : str) (params : list value) : res str :=
  match tokenize is_alpha sql with
  | Some toks => inject_loop b params toks 0
  | None => Panic
  end.
End Inject.
