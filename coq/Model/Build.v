(* Builder programs: the public builder calls that construct statements, as step functions on
   the model AST (src/query/select.rs, insert.rs, update.rs, delete.rs, with.rs, on_conflict.rs).
   A statement is `fold_left step clauses new`. *)
Require Import SQV.Model.Str SQV.Model.Value SQV.Model.Expr SQV.Model.Cond SQV.Model.Stmt SQV.Model.Literal.

Definition ucond := cond query.
(* what IntoCondition accepts: a condition or a plain expression *)
Inductive condarg := CACond (c : ucond) | CAExpr (e : expr query).
Definition into_condition (a : condarg) : ucond :=
  match a with CACond c => c | CAExpr e => expr_into_condition e end.

Definition sel_new : select :=
  Select None [] [] [] HEmpty [] HEmpty [] [] None None None None None None [].

Inductive sclause :=
| SCDistinct
| SCDistinctOn (cols : list colref)
| SCSelExpr (se : selexpr)                       (* column / expr / expr_as / expr_window* *)
| SCFrom (t : tref)
| SCJoin (jt : jtype) (t : tref) (c : condarg) (lateral : bool)
| SCWhere (c : condarg)                          (* and_where / cond_where *)
| SCWhereChain (is_or : bool) (e : expr query)   (* the doc-hidden and_or_where(LogicalChainOper) *)
| SCGroupBy (e : expr query)
| SCHaving (c : condarg)                         (* and_having / cond_having *)
| SCUnion (ut : utype) (s : select)
| SCOrderBy (o : orderexpr)
| SCLimit (n : N)
| SCOffset (n : N)
| SCLock (l : lockclause)
| SCWindow (name : str) (w : windowstmt)
| SCWith (w : withclause)
| SCSample (m : samplemethod) (pct : str) (rep : option str)
| SCHint (ht : hinttype) (hs : hintscope) (name : str).

Definition u64_value (n : N) : value := V TBigUnsigned (Some (PInt (Z.of_N n))).

Definition sel_step (s : select) (c : sclause) : select :=
  match s with
  | Select distinct selects from joins where_ groups having unions orders limit offset lock window
           with_ sample hints =>
      match c with
      | SCDistinct =>
          Select (Some DDistinct) selects from joins where_ groups having unions orders limit offset lock window with_ sample hints
      | SCDistinctOn cols =>
          Select (match cols with [] => None | _ => Some (DDistinctOn cols) end)
                 selects from joins where_ groups having unions orders limit offset lock window with_ sample hints
      | SCSelExpr se =>
          Select distinct (selects ++ [se]) from joins where_ groups having unions orders limit offset lock window with_ sample hints
      | SCFrom t =>
          Select distinct selects (from ++ [t]) joins where_ groups having unions orders limit offset lock window with_ sample hints
      | SCJoin jt t ca lateral =>
          Select distinct selects from (joins ++ [Join jt t (Some (HCond (into_condition ca))) lateral])
                 where_ groups having unions orders limit offset lock window with_ sample hints
      | SCWhere ca =>
          Select distinct selects from joins (holder_add where_ (into_condition ca)) groups having unions orders limit offset lock window with_ sample hints
      | SCWhereChain is_or e =>
          Select distinct selects from joins (holder_add_chain where_ is_or e) groups having unions orders limit offset lock window with_ sample hints
      | SCGroupBy e =>
          Select distinct selects from joins where_ (groups ++ [e]) having unions orders limit offset lock window with_ sample hints
      | SCHaving ca =>
          Select distinct selects from joins where_ groups (holder_add having (into_condition ca)) unions orders limit offset lock window with_ sample hints
      | SCUnion ut u =>
          Select distinct selects from joins where_ groups having (unions ++ [(ut, u)]) orders limit offset lock window with_ sample hints
      | SCOrderBy o =>
          Select distinct selects from joins where_ groups having unions (orders ++ [o]) limit offset lock window with_ sample hints
      | SCLimit n =>
          Select distinct selects from joins where_ groups having unions orders (Some (u64_value n)) offset lock window with_ sample hints
      | SCOffset n =>
          Select distinct selects from joins where_ groups having unions orders limit (Some (u64_value n)) lock window with_ sample hints
      | SCLock l =>
          Select distinct selects from joins where_ groups having unions orders limit offset (Some l) window with_ sample hints
      | SCWindow name w =>
          Select distinct selects from joins where_ groups having unions orders limit offset lock (Some (name, w)) with_ sample hints
      | SCWith w =>
          Select distinct selects from joins where_ groups having unions orders limit offset lock window (Some w) sample hints
      | SCSample m pct rep =>
          Select distinct selects from joins where_ groups having unions orders limit offset lock window with_ (Some (m, pct, rep)) hints
      | SCHint ht hs name =>
          Select distinct selects from joins where_ groups having unions orders limit offset lock window with_ sample (hints ++ [(ht, hs, name)])
      end
  end.
Definition build_select (cs : list sclause) : select := fold_left sel_step cs sel_new.

(* ---------------- OnConflict ---------------- *)
Definition oc_new : onconflict := OnConflict [] HEmpty None HEmpty.
Inductive occlause :=
| OCCols (cs : list str)        (* OnConflict::column(s): a fresh OnConflict with these targets *)
| OCTExpr (e : expr query)
| OCTWhere (e : expr query)
| OCNothing
| OCNothingOn (pks : list str)
| OCUpdCol (c : str)
| OCUpdExpr (c : str) (e : expr query)
| OCAWhere (e : expr query).
Definition oc_add_update (a : option ocaction) (u : ocupdate) : option ocaction :=
  match a with
  | Some (OCUpdate ups) => Some (OCUpdate (ups ++ [u]))
  | _ => Some (OCUpdate [u])
  end.
Definition oc_step (o : onconflict) (c : occlause) : onconflict :=
  match o with
  | OnConflict targets tw action aw =>
      match c with
      | OCCols cs => OnConflict (map OCColumn cs) HEmpty None HEmpty
      | OCTExpr e => OnConflict (targets ++ [OCExpr e]) tw action aw
      | OCTWhere e => OnConflict targets (holder_add tw (expr_into_condition e)) action aw
      | OCNothing => OnConflict targets tw (Some (OCDoNothing [])) aw
      | OCNothingOn pks => OnConflict targets tw (Some (OCDoNothing pks)) aw
      | OCUpdCol c => OnConflict targets tw (oc_add_update action (OCUpColumn c)) aw
      | OCUpdExpr c e => OnConflict targets tw (oc_add_update action (OCUpExpr c e)) aw
      | OCAWhere e => OnConflict targets tw action (holder_add aw (expr_into_condition e))
      end
  end.
Definition build_onconflict (cs : list occlause) : onconflict := fold_left oc_step cs oc_new.

(* ---------------- InsertStatement ---------------- *)
Definition ins_new : insert := Insert false None [] None None None None None.

Inductive iclause :=
| ICReplace
| ICInto (t : tref)
| ICColumns (cs : list str)
| ICValues (row : list (expr query))            (* values(): fallible *)
| ICValuesPanic (row : list (expr query))
| ICValuesFromPanic (rows : list (list (expr query)))
| ICSelectFrom (s : select)                     (* fallible *)
| ICOrDefault
| ICOrDefaultMany (n : N)
| ICOnConflict (o : onconflict)
| ICReturning (r : returning)
| ICWith (w : withclause).

(* observation of one fallible call *)
Inductive iobs := IOk | IErr (col_len val_len : nat).

Definition select_len (s : select) : nat :=
  match s with Select _ selects _ _ _ _ _ _ _ _ _ _ _ _ _ _ => length selects end.

(* InsertStatement::values: length check; an accepted empty row is not stored *)
Definition ins_values (i : insert) (row : list (expr query)) : insert * iobs :=
  match i with
  | Insert replace table columns source oc ret dv w =>
      if Nat.eqb (length columns) (length row) then
        match row with
        | [] => (i, IOk)
        | _ =>
            let rows := match source with Some (ISValues rs) => rs | _ => [] end in
            (Insert replace table columns (Some (ISValues (rows ++ [row]))) oc ret dv w, IOk)
        end
      else (i, IErr (length columns) (length row))
  end.
Definition ins_select_from (i : insert) (s : select) : insert * iobs :=
  match i with
  | Insert replace table columns source oc ret dv w =>
      if Nat.eqb (length columns) (select_len s) then
        (Insert replace table columns (Some (ISSelect s)) oc ret dv w, IOk)
      else (i, IErr (length columns) (select_len s))
  end.

(* state: statement, log of fallible calls, panicked? *)
Definition istate := (insert * list iobs * bool)%type.

Definition ins_step (st : istate) (c : iclause) : istate :=
  let '(i, log, panicked) := st in
  if panicked then st else
  match i with
  | Insert replace table columns source oc ret dv w =>
      match c with
      | ICReplace => (Insert true table columns source oc ret dv w, log, false)
      | ICInto t => (Insert replace (Some t) columns source oc ret dv w, log, false)
      | ICColumns cs => (Insert replace table cs source oc ret dv w, log, false)
      | ICValues row => let (i', o) := ins_values i row in (i', log ++ [o], false)
      | ICValuesPanic row =>
          let (i', o) := ins_values i row in
          match o with IOk => (i', log, false) | IErr _ _ => (i, log, true) end
      | ICValuesFromPanic rows =>
          fold_left (fun (acc : istate) row =>
            let '(j, lg, p) := acc in
            if p then acc else
            let (j', o) := ins_values j row in
            match o with IOk => (j', lg, false) | IErr _ _ => (j, lg, true) end) rows st
      | ICSelectFrom s => let (i', o) := ins_select_from i s in (i', log ++ [o], false)
      | ICOrDefault => (Insert replace table columns source oc ret (Some 1) w, log, false)
      | ICOrDefaultMany n => (Insert replace table columns source oc ret (Some n) w, log, false)
      | ICOnConflict o => (Insert replace table columns source (Some o) ret dv w, log, false)
      | ICReturning r => (Insert replace table columns source oc (Some r) dv w, log, false)
      | ICWith wc => (Insert replace table columns source oc ret dv (Some wc), log, false)
      end
  end.
Definition build_insert (cs : list iclause) : istate := fold_left ins_step cs (ins_new, [], false).

(* ---------------- UpdateStatement / DeleteStatement ---------------- *)
Definition upd_new : update := Update None [] [] HEmpty [] None None None.
Inductive uclause :=
| UCTable (t : tref) | UCFrom (t : tref) | UCValue (c : str) (e : expr query) | UCWhere (c : condarg) | UCWhereChain (is_or : bool) (e : expr query)
| UCOrderBy (o : orderexpr) | UCLimit (n : N) | UCReturning (r : returning) | UCWith (w : withclause).
Definition upd_step (u : update) (c : uclause) : update :=
  match u with
  | Update table from values where_ orders limit ret w =>
      match c with
      | UCTable t => Update (Some t) from values where_ orders limit ret w
      | UCFrom t => Update table (from ++ [t]) values where_ orders limit ret w
      | UCValue col e => Update table from (values ++ [(col, e)]) where_ orders limit ret w
      | UCWhere ca => Update table from values (holder_add where_ (into_condition ca)) orders limit ret w
      | UCWhereChain is_or e => Update table from values (holder_add_chain where_ is_or e) orders limit ret w
      | UCOrderBy o => Update table from values where_ (orders ++ [o]) limit ret w
      | UCLimit n => Update table from values where_ orders (Some (u64_value n)) ret w
      | UCReturning r => Update table from values where_ orders limit (Some r) w
      | UCWith wc => Update table from values where_ orders limit ret (Some wc)
      end
  end.
Definition build_update (cs : list uclause) : update := fold_left upd_step cs upd_new.

Definition del_new : delete := Delete None HEmpty [] None None None.
Inductive dclause :=
| DCFrom (t : tref) | DCWhere (c : condarg) | DCWhereChain (is_or : bool) (e : expr query) | DCOrderBy (o : orderexpr) | DCLimit (n : N)
| DCReturning (r : returning) | DCWith (w : withclause).
Definition del_step (d : delete) (c : dclause) : delete :=
  match d with
  | Delete table where_ orders limit ret w =>
      match c with
      | DCFrom t => Delete (Some t) where_ orders limit ret w
      | DCWhere ca => Delete table (holder_add where_ (into_condition ca)) orders limit ret w
      | DCWhereChain is_or e => Delete table (holder_add_chain where_ is_or e) orders limit ret w
      | DCOrderBy o => Delete table where_ (orders ++ [o]) limit ret w
      | DCLimit n => Delete table where_ orders (Some (u64_value n)) ret w
      | DCReturning r => Delete table where_ orders limit (Some r) w
      | DCWith wc => Delete table where_ orders limit ret (Some wc)
      end
  end.
Definition build_delete (cs : list dclause) : delete := fold_left del_step cs del_new.

(* ---------------- condition programs ---------------- *)
Inductive cop := CAdd (m : cmember query) | CAddNone | CNot.
Definition cond_step (c : ucond) (o : cop) : ucond :=
  match o with CAdd m => cond_add c m | CAddNone => c | CNot => cond_not c end.
Definition build_cond (is_any : bool) (ops : list cop) : ucond :=
  fold_left cond_step ops (if is_any then cond_any else cond_all).

(* ---------------- ExprTrait encodings (src/expr.rs) ---------------- *)
Definition str_value (s : str) : value := V TString (Some (PStr s)).
Definition char_value (c : N) : value := V TChar (Some (PChar c)).
Definition api_between (x a b' : expr query) : expr query := EBinary x BBetween (EBinary a BAnd b').
Definition api_not_between (x a b' : expr query) : expr query := EBinary x BNotBetween (EBinary a BAnd b').
Definition like_rhs (pat : str) (esc : option N) : expr query :=
  match esc with
  | Some c => EBinary (EValue (str_value pat)) BEscape (EConstant (char_value c))
  | None => EValue (str_value pat)
  end.
Definition api_like (x : expr query) (pat : str) (esc : option N) : expr query := EBinary x BLike (like_rhs pat esc).
Definition api_not_like (x : expr query) (pat : str) (esc : option N) : expr query := EBinary x BNotLike (like_rhs pat esc).
Definition api_is_in (x : expr query) (vs : list value) : expr query :=
  EBinary x BIn (ETuple (map EValue vs)).
Definition api_is_not_in (x : expr query) (vs : list value) : expr query :=
  EBinary x BNotIn (ETuple (map EValue vs)).
Definition api_in_tuples (x : expr query) (ts : list (list value)) : expr query :=
  EBinary x BIn (ETuple (map (fun t => ETuple (map EValue t)) ts)).
Definition api_is_null (x : expr query) : expr query := EBinary x BIs (EKeyword KwNull).
Definition api_is_not_null (x : expr query) : expr query := EBinary x BIsNot (EKeyword KwNull).
Definition api_cast_as (x : expr query) (ty : str) : expr query :=
  EFunc FCast [(false, EBinary x BAs (ECustom ty))].
(* Func::cast_as_quoted: the type name is prepared as an identifier between the given quote character *)
Definition api_cast_as_quoted (x : expr query) (ty : str) (q : N) : expr query :=
  EFunc FCast [(false, EBinary x BAs (ECustom (iden_prepare q ty)))].
Definition api_in_subquery (x : expr query) (s : select) : expr query :=
  EBinary x BIn (ESubQuery None (QSelect s)).
Definition api_exists (s : select) : expr query := ESubQuery (Some SqExists) (QSelect s).

(* CommonTableExpression::from_select (src/query/with.rs): the table name is cte_<name of the first FROM table (its
   alias when it has one)>, the column list is taken from the select list when every item is an aliased expression
   or a plain column reference (t.c becomes t_c, s.t.c becomes s_t_c), otherwise it stays empty.  None = no table
   name could be derived (rendering then panics on the missing name). *)
Definition us : str := [95].
Definition cte_cols_of_selects (sel : list selexpr) : option (list str) :=
  (fix go (l : list selexpr) : option (list str) :=
     match l with
     | [] => Some []
     | SelExpr e al _ :: t =>
         let c := match al with
                  | Some a => Some a
                  | None => match e with
                            | EColumn (CCol c) => Some c
                            | EColumn (CTblCol tb c) => Some (tb ++ us ++ c)
                            | EColumn (CSchTblCol sc tb c) => Some (sc ++ us ++ tb ++ us ++ c)
                            | _ => None
                            end
                  end in
         match c, go t with Some c, Some r => Some (c :: r) | _, _ => None end
     end) sel.
Definition cte_from_select (s : select) : option cte :=
  match s with
  | Select _ sels from _ _ _ _ _ _ _ _ _ _ _ _ _ =>
      let name :=
        match from with
        | TPlain t :: _ =>
            Some (match t with
                  | TRTable t | TRSchemaTable _ t | TRDbSchemaTable _ _ t => t
                  | TRTableAlias _ a | TRSchemaTableAlias _ _ a | TRDbSchemaTableAlias _ _ _ a => a
                  end)
        | _ => None
        end in
      match name with
      | Some n =>
          Some (Cte ([99; 116; 101; 95] ++ n) (match cte_cols_of_selects sels with Some c => c | None => [] end) (QSelect s) None)
      | None => None
      end
  end.
