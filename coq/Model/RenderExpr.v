(* Model of QueryBuilder::prepare_simple_expr / prepare_simple_expr_common / binary_expr and
   friends (src/backend/query_builder.rs) with the Postgres AsEnum override
   (src/backend/postgres/query.rs).  Finite per-backend tables (operator spellings, function
   names, parenthesis decisions, left-associativity) are parameters: they are regenerated from the
   code on every run (Generated/ExprTables.v). *)
Require Import SQV.Model.Str SQV.Model.Escape SQV.Model.Value SQV.Model.Literal SQV.Model.Token
  SQV.Model.Expr SQV.Model.Writer.
From Coq Require Import String.
Open Scope list_scope.

Record etables := {
  t_drop_paren : N -> N -> bool;   (* inner shape key, outer oper key: may the parentheses be dropped *)
  t_lassoc : N -> bool;            (* binop key: well_known_left_associative *)
  t_binop : N -> option str;       (* binop key: spelled text, None = unimplemented (panics) *)
  t_func : N -> option str;        (* func key: spelled name *)
  t_sqop : N -> option str         (* sub-query operator *)
}.

Definition sqop_key (o : sqop) : N :=
  match o with SqExists => 0 | SqAny => 1 | SqSome => 2 | SqAll => 3 end.

Definition ws (s : string) : wtok := WS (K s).

(* writes elements separated by `sep` *)
Fixpoint sep_by (sep : script) (l : list script) : script :=
  match l with
  | [] => []
  | [x] => x
  | x :: t => x ++ sep ++ sep_by sep t
  end.

Definition opt_text (o : option str) : script :=
  match o with Some s => [WS s] | None => [WPanic] end.

Definition rcolref (c : colref) : script :=
  match c with
  | CCol c => [WId c]
  | CTblCol t c => [WId t; ws "."; WId c]
  | CSchTblCol s t c => [WId s; ws "."; WId t; ws "."; WId c]
  | CAsterisk => [ws "*"]
  | CTblAsterisk t => [WId t; ws ".*"]
  end.

Definition rkeyword (k : keyword) : script :=
  match k with
  | KwNull => [ws "NULL"] | KwCurrentDate => [ws "CURRENT_DATE"]
  | KwCurrentTime => [ws "CURRENT_TIME"] | KwCurrentTimestamp => [ws "CURRENT_TIMESTAMP"]
  | KwCustom s => [WCust s]
  end.

(* str::parse::<usize>() on an Unquoted token: decimal digits only (an optional leading + cannot
   occur in an Unquoted token), must fit 64 bits *)
Fixpoint parse_usize_go (acc : N) (s : str) : option N :=
  match s with
  | [] => Some acc
  | c :: t => if (48 <=? c) && (c <=? 57) then
                let a := acc * 10 + (c - 48) in
                if 18446744073709551615 <? a then None else parse_usize_go a t
              else None
  end.
Definition parse_usize (s : str) : option N :=
  match s with [] => None | _ => parse_usize_go 0 s end.

Definition ends_with_brackets (s : str) : option str :=
  match rev s with
  | 93 :: 91 :: r => Some (rev r)
  | _ => None
  end.

Section Render.
Variable Q : Type.
Variable render_q : Q -> script.     (* prepare_query_statement *)
Variable is_alpha : N -> bool.       (* char::is_alphabetic, for the template tokenizer *)
Variable b : backend.
Variable T : etables.

Definition rbinop (op : binop) : script :=
  match op with
  | BCustom s => [WCust s]
  | _ => opt_text (t_binop T (binop_key op))
  end.
Definition rfunc_name (f : func) : script :=
  match f with
  | FCustom name => [WCust name]
  | _ => opt_text (t_func T (func_key f))
  end.

Definition wrap (paren : bool) (s : script) : script :=
  if paren then ws "(" :: s ++ [ws ")"] else s.

Definition is_binary_with {Q} (e : expr Q) (p : binop -> bool) : bool :=
  match e with EBinary _ op _ => p op | _ => false end.

(* the CustomWithExpr loop over tokens, `rs` = the already rendered value expressions *)
Fixpoint custom_loop (rs : list script) (mark : str) (numbered : bool) (toks : list token) (count : nat)
  : script :=
  match toks with
  | [] => []
  | t :: rest =>
      match t with
      | Punct m =>
          if str_eqb m mark then
            match rest with
            | Punct m2 :: rest' =>
                if str_eqb m2 mark then WCust m2 :: custom_loop rs mark numbered rest' count
                else nth_default [WPanic] rs count ++ custom_loop rs mark numbered rest (S count)
            | Unquoted tok :: rest' =>
                if numbered then
                  (match parse_usize tok with
                   | Some num => if num =? 0 then [WPanic]
                                 else nth_default [WPanic] rs (N.to_nat (num - 1))
                   | None => []
                   end) ++ custom_loop rs mark numbered rest' count
                else nth_default [WPanic] rs count ++ custom_loop rs mark numbered rest (S count)
            | _ => nth_default [WPanic] rs count ++ custom_loop rs mark numbered rest (S count)
            end
          else WCust m :: custom_loop rs mark numbered rest count
      | _ => WCust (text t) :: custom_loop rs mark numbered rest count
      end
  end.

(* binary_expr, given the already rendered operands *)
Definition binary_expr (l : expr Q) (op : binop) (r : expr Q) (sl sr : script) : script :=
  let drop_left_hp := t_drop_paren T (shape_key (shape_of l)) (oper_key (OBin op)) in
  let drop_left_assoc := is_binary_with l (binop_eqb op) && t_lassoc T (binop_key op) in
  let left_paren := negb drop_left_hp && negb drop_left_assoc in
  let drop_right_hp := t_drop_paren T (shape_key (shape_of r)) (oper_key (OBin op)) in
  let between_hack := is_between op && is_binary_with r (binop_eqb BAnd) in
  let escape_hack := is_like op && is_binary_with r (binop_eqb BEscape) in
  let as_hack := binop_eqb op BAs && (match r with ECustom _ => true | _ => false end) in
  let right_paren := negb drop_right_hp && negb escape_hack && negb between_hack && negb as_hack in
  wrap left_paren sl ++ [ws " "] ++ rbinop op ++ [ws " "] ++ wrap right_paren sr.

(* the bounds of `x BETWEEN a AND b` are decided against the BETWEEN operator itself *)
Definition between_bounds (op : binop) (lo hi : expr Q) (slo shi : script) : script :=
  wrap (negb (t_drop_paren T (shape_key (shape_of lo)) (oper_key (OBin op)))) slo ++ [ws " AND "] ++
  wrap (negb (t_drop_paren T (shape_key (shape_of hi)) (oper_key (OBin op)))) shi.

Definition int_value (z : Z) : value := V TInt (Some (PInt z)).

(* (BinOper::In | NotIn, SimpleExpr::Tuple(t)) if t.is_empty() *)
Definition is_empty_in (op : binop) (r : expr Q) : bool :=
  match op, r with BIn, ETuple [] | BNotIn, ETuple [] => true | _, _ => false end.

(* prepare_simple_expr (common = false) / prepare_simple_expr_common (common = true) *)
Fixpoint rexpr (common : bool) (e : expr Q) {struct e} : script :=
  match e with
  | EAsEnum ty inner =>
      match b, common with
      | Postgres, false =>
          let (ty', sfx) := match ends_with_brackets ty with
                            | Some t => (t, K "[]") | None => (ty, []) end in
          [ws "CAST("] ++ rexpr true inner ++ [ws " AS "; WId ty'; WS sfx; ws ")"]
      | _, _ => rexpr false inner
      end
  | EColumn c => rcolref c
  | ETuple es => ws "(" :: sep_by [ws ", "] (map (rexpr false) es) ++ [ws ")"]
  | ENot x =>
      let drop := t_drop_paren T (shape_key (shape_of x)) (oper_key ONot) in
      [ws "NOT"; ws " "] ++ wrap (negb drop) (rexpr false x)
  | EFunc f args =>
      rfunc_name f ++ [ws "("] ++
      sep_by [ws ", "] (map (fun a : bool * expr Q => (if fst a then [ws "DISTINCT "] else []) ++ rexpr false (snd a)) args) ++
      [ws ")"]
  | EBinary l op r =>
      let one := EValue (int_value 1) in
      let two := EValue (int_value 2) in
      if is_empty_in op r then
        (* `x IN ()` / `x NOT IN ()` are rewritten to constant comparisons *)
        match op with
        | BIn => binary_expr one BEqual two [WVal (int_value 1)] [WVal (int_value 2)]
        | _ => binary_expr one BEqual one [WVal (int_value 1)] [WVal (int_value 1)]
        end
      else
        let sr := match r with
                  | EBinary lo BAnd hi =>
                      if is_between op then between_bounds op lo hi (rexpr false lo) (rexpr false hi)
                      else rexpr false r
                  | _ => rexpr false r
                  end in
        binary_expr l op r (rexpr false l) sr
  | ESubQuery op q =>
      (match op with Some o => opt_text (t_sqop T (sqop_key o)) | None => [] end) ++
      [ws "("] ++ render_q q ++ [ws ")"]
  | EValue v => [WVal v]
  | EValues vs => ws "(" :: sep_by [ws ", "] (map (fun v => [WVal v]) vs) ++ [ws ")"]
  | ECustom s => [WCust s]
  | ECustomWith s es =>
      let (mark, numbered) := placeholder b in
      match tokenize is_alpha s with
      | Some toks => custom_loop (map (rexpr false) es) mark numbered toks 0
      | None => [WPanic]
      end
  | EKeyword k => rkeyword k
  | ECase whens els =>
      [ws "(CASE"] ++
      flat_map (fun w : expr Q * expr Q => [ws " WHEN ("] ++ rexpr false (fst w) ++ [ws ") THEN "] ++ rexpr false (snd w)) whens ++
      (match els with Some x => [ws " ELSE "] ++ rexpr false x | None => [] end) ++
      [ws " END)"]
  | EConstant v => [WConst v]
  end.

Definition render_expr (e : expr Q) : script := rexpr false e.
End Render.
