(* The positions where a text / char / bytes value is written inline (C03), as templates
   (prefix, separator, suffix) around the literal(s).  The surrounding text is fixed by the
   harness (table t, column c, type e); it is part of the model and checked by the correspondence. *)
Require Import SQV.Model.Str SQV.Model.Escape SQV.Model.Literal.
From Coq Require Import String.
Open Scope list_scope.

Inductive lpos :=
| PValStr | PVal | PConst | PField | PLikeEsc | PDefault | PTComment | PCComment | PEnum
| PTypeCreate | PTypeAdd | PTypeAddBefore | PTypeRenVal.

Inductive lkind := KStr (s : str) | KChar (c : N) | KBytes (bs : list N).

Definition qid (b : backend) (name : string) : str := iden_prepare (quote_char b) (K name).

Definition varchar_name (b : backend) : str :=
  match b with MySQL => K "varchar(255)" | _ => K "varchar" end.

(* None: this backend writes no literal at this position (or panics) *)
Definition lit_template (b : backend) (p : lpos) : option (str * str * str) :=
  let c := qid b "c" in let t := qid b "t" in
  match p with
  | PValStr => Some ([], [], [])
  | PVal | PConst => Some (K "SELECT ", [], [])
  | PField => Some (K "SELECT " ++ c ++ K " FROM " ++ t ++ K " ORDER BY CASE WHEN " ++ c ++ K "=", [],
                    K " THEN 0 ELSE 1 END")
  | PLikeEsc => Some (K "SELECT " ++ c ++ K " FROM " ++ t ++ K " WHERE " ++ c ++ K " LIKE 'p' ESCAPE ", [], [])
  | PDefault => Some (K "CREATE TABLE " ++ t ++ K " ( " ++ c ++ K " " ++ varchar_name b ++ K " DEFAULT ", [], K " )")
  | PTComment => match b with
                 | MySQL => Some (K "CREATE TABLE " ++ t ++ K " ( " ++ c ++ K " varchar(255) ) COMMENT ", [], [])
                 | _ => None end
  | PCComment => match b with
                 | MySQL => Some (K "CREATE TABLE " ++ t ++ K " ( " ++ c ++ K " varchar(255) COMMENT ", [], K " )")
                 | _ => None end
  | PEnum => match b with
             | MySQL => Some (K "CREATE TABLE " ++ t ++ K " ( " ++ c ++ K " ENUM(", K ", ", K ") )")
             | _ => None end
  | PTypeCreate => match b with
                   | Postgres => Some (K "CREATE TYPE " ++ qid b "e" ++ K " AS ENUM (", K ", ", K ")")
                   | _ => None end
  | PTypeAdd => match b with
                | Postgres => Some (K "ALTER TYPE " ++ qid b "e" ++ K " ADD VALUE ", [], [])
                | _ => None end
  | PTypeAddBefore => match b with
                | Postgres => Some (K "ALTER TYPE " ++ qid b "e" ++ K " ADD VALUE 'x' BEFORE ", [], [])
                | _ => None end
  | PTypeRenVal => match b with
                | Postgres => Some (K "ALTER TYPE " ++ qid b "e" ++ K " RENAME VALUE ", [], K " TO 'y'")
                | _ => None end
  end.

(* the literal written for one payload at a position *)
Definition lit_at (b : backend) (p : lpos) (k : lkind) : str :=
  match p, k with
  | PTComment, KStr s | PCComment, KStr s => mysql_comment_lit s
  | PEnum, KStr s => mysql_enum_label s
  | _, KStr s => write_string_quoted b s
  | _, KChar c => write_char_quoted b c
  | _, KBytes bs => write_bytes b bs
  end.

Definition lit_render (b : backend) (p : lpos) (ks : list lkind) : res str :=
  match lit_template b p with
  | Some (pre, sep, suf) => Ok (pre ++ join_with sep (map (lit_at b p) ks) ++ suf)
  | None => Panic
  end.
