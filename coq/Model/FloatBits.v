(* IEEE-754 binary32/binary64 values as bit patterns (N), and the comparisons the code uses on them.
   Definitions only.  Fields: sign (top bit), biased exponent (8 / 11 bits), fraction (23 / 52 bits).

   ieee_eq32/64  : Rust `==` on f32/f64 (IEEE 754 compareQuietEqual): false if either side is NaN,
                   otherwise true iff the bit patterns are equal or both are zeros (+0 = -0).
   of_eq32/64    : ordered_float::OrderedFloat::eq (4.6.0):
                     if self.0.is_nan() { other.0.is_nan() } else { self.0 == other.0 }
   of_hash32/64  : the u64 that OrderedFloat::hash feeds to the hasher:
                     if is_nan { CANONICAL_NAN_BITS } else { raw_double_bits(&canonicalize_signed_zero(x)) }
                   with raw_double_bits built from num_traits FloatCore::integer_decode. *)
Require Import SQV.Model.Str.

Definition f32_exp (b : N) : N := (b / 8388608) mod 256.
Definition f32_frac (b : N) : N := b mod 8388608.
Definition f64_exp (b : N) : N := (b / 4503599627370496) mod 2048.
Definition f64_frac (b : N) : N := b mod 4503599627370496.

Definition is_nan32 (b : N) : bool := (f32_exp b =? 255) && negb (f32_frac b =? 0).
Definition is_nan64 (b : N) : bool := (f64_exp b =? 2047) && negb (f64_frac b =? 0).
(* +0 and -0: everything but the sign bit is zero *)
Definition is_zero32 (b : N) : bool := (b mod 2147483648 =? 0).
Definition is_zero64 (b : N) : bool := (b mod 9223372036854775808 =? 0).

Definition ieee_eq32 (a b : N) : bool :=
  negb (is_nan32 a) && negb (is_nan32 b) && ((a =? b) || (is_zero32 a && is_zero32 b)).
Definition ieee_eq64 (a b : N) : bool :=
  negb (is_nan64 a) && negb (is_nan64 b) && ((a =? b) || (is_zero64 a && is_zero64 b)).

Definition of_eq32 (a b : N) : bool := if is_nan32 a then is_nan32 b else ieee_eq32 a b.
Definition of_eq64 (a b : N) : bool := if is_nan64 a then is_nan64 b else ieee_eq64 a b.

(* canonicalize_signed_zero: x + 0.0 (x not NaN): -0 becomes +0, every other value is unchanged *)
Definition canon_zero32 (b : N) : N := if is_zero32 b then 0 else b.
Definition canon_zero64 (b : N) : N := if is_zero64 b then 0 else b.

(* num_traits integer_decode_f32 / _f64: (mantissa, exponent, sign > 0) *)
Definition decode32 (b : N) : N * Z * bool :=
  let e := f32_exp b in
  let m := if e =? 0 then f32_frac b * 2 else f32_frac b + 8388608 in
  (m, (Z.of_N e - 150)%Z, b / 2147483648 =? 0).
Definition decode64 (b : N) : N * Z * bool :=
  let e := f64_exp b in
  let m := if e =? 0 then f64_frac b * 2 else f64_frac b + 4503599627370496 in
  (m, (Z.of_N e - 1075)%Z, b / 9223372036854775808 =? 0).

Definition MAN_MASK : N := 4503599627370495.            (* 0x000fffffffffffff *)
Definition EXP_MASK : N := 9218868437227405312.         (* 0x7ff0000000000000 *)
Definition SIGN_MASK : N := 9223372036854775808.        (* 0x8000000000000000 *)
Definition CANONICAL_NAN_BITS : N := 9221120237041090560. (* 0x7ff8000000000000 *)

(* raw_double_bits: (man & MAN_MASK) | (((exp as u16 as u64) << 52) & EXP_MASK) | (((sign > 0) as u64) << 63) *)
Definition raw_double_bits (d : N * Z * bool) : N :=
  let '(man, exp, pos) := d in
  let exp_u64 := Z.to_N (exp mod 65536)%Z in
  N.lor (N.lor (N.land man MAN_MASK) (N.land (N.shiftl exp_u64 52 mod 18446744073709551616) EXP_MASK))
        (if pos then SIGN_MASK else 0).

Definition of_hash32 (b : N) : N :=
  if is_nan32 b then CANONICAL_NAN_BITS else raw_double_bits (decode32 (canon_zero32 b)).
Definition of_hash64 (b : N) : N :=
  if is_nan64 b then CANONICAL_NAN_BITS else raw_double_bits (decode64 (canon_zero64 b)).
