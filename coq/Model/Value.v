(* Model of sea_query::Value (src/value.rs).  One constructor tag per enum variant (= ArrayType
   tag); payloads are the mathematical content: booleans, integers (Z, range is a separate
   predicate), float bit patterns, strings, code points, bytes.  Values of external crates
   (json, chrono, time, uuid, decimal, bigdecimal, vector, ipnetwork, mac) are opaque: an abstract
   identity `oid` (equal ids = equal Rust values) plus the text the external formatter printed
   (supplied by the harness, never computed by the model). *)
Require Import SQV.Model.Str.

Inductive vtag :=
| TBool | TTinyInt | TSmallInt | TInt | TBigInt
| TTinyUnsigned | TSmallUnsigned | TUnsigned | TBigUnsigned
| TFloat | TDouble | TString | TChar | TBytes
| TJson
| TChronoDate | TChronoTime | TChronoDateTime | TChronoDateTimeUtc | TChronoDateTimeLocal
| TChronoDateTimeWithTimeZone
| TTimeDate | TTimeTime | TTimeDateTime | TTimeDateTimeWithTimeZone
| TUuid | TDecimal | TBigDecimal | TVector | TIpNetwork | TMacAddress.

Definition vtag_index (t : vtag) : N :=
  match t with
  | TBool => 0 | TTinyInt => 1 | TSmallInt => 2 | TInt => 3 | TBigInt => 4
  | TTinyUnsigned => 5 | TSmallUnsigned => 6 | TUnsigned => 7 | TBigUnsigned => 8
  | TFloat => 9 | TDouble => 10 | TString => 11 | TChar => 12 | TBytes => 13
  | TJson => 14
  | TChronoDate => 15 | TChronoTime => 16 | TChronoDateTime => 17 | TChronoDateTimeUtc => 18
  | TChronoDateTimeLocal => 19 | TChronoDateTimeWithTimeZone => 20
  | TTimeDate => 21 | TTimeTime => 22 | TTimeDateTime => 23 | TTimeDateTimeWithTimeZone => 24
  | TUuid => 25 | TDecimal => 26 | TBigDecimal => 27 | TVector => 28 | TIpNetwork => 29
  | TMacAddress => 30
  end.
Definition vtag_eqb (a b : vtag) : bool := vtag_index a =? vtag_index b.

Inductive payload :=
| PBool (b : bool)
| PInt (z : Z)                       (* all integer variants *)
| PF32 (bits : N)                    (* IEEE-754 binary32 bit pattern *)
| PF64 (bits : N)                    (* IEEE-754 binary64 bit pattern *)
| PStr (s : str)
| PChar (c : N)
| PBytes (bs : list N)
| POpaque (oid : N) (text : str).    (* external crate value: identity + formatter output *)

(* Value::X(Option<..>) and Value::Array(ArrayType, Option<Vec<Value>>) *)
Inductive value :=
| V (t : vtag) (p : option payload)
| VArray (elem : vtag) (vs : option (list value)).

(* which payload shape a variant carries *)
Definition payload_ok (t : vtag) (p : payload) : bool :=
  match t, p with
  | TBool, PBool _ => true
  | (TTinyInt | TSmallInt | TInt | TBigInt | TTinyUnsigned | TSmallUnsigned | TUnsigned | TBigUnsigned), PInt _ => true
  | TFloat, PF32 _ => true
  | TDouble, PF64 _ => true
  | TString, PStr _ => true
  | TChar, PChar _ => true
  | TBytes, PBytes _ => true
  | (TJson | TChronoDate | TChronoTime | TChronoDateTime | TChronoDateTimeUtc | TChronoDateTimeLocal
     | TChronoDateTimeWithTimeZone | TTimeDate | TTimeTime | TTimeDateTime | TTimeDateTimeWithTimeZone
     | TUuid | TDecimal | TBigDecimal | TVector | TIpNetwork | TMacAddress), POpaque _ _ => true
  | _, _ => false
  end.

(* integer ranges of the integer variants *)
Definition int_range (t : vtag) : option (Z * Z) :=
  match t with
  | TTinyInt => Some (-128, 127)%Z | TSmallInt => Some (-32768, 32767)%Z
  | TInt => Some (-2147483648, 2147483647)%Z
  | TBigInt => Some (-9223372036854775808, 9223372036854775807)%Z
  | TTinyUnsigned => Some (0, 255)%Z | TSmallUnsigned => Some (0, 65535)%Z
  | TUnsigned => Some (0, 4294967295)%Z | TBigUnsigned => Some (0, 18446744073709551615)%Z
  | _ => None
  end.

(* Value::as_null / the null of a variant *)
Definition as_null (v : value) : value :=
  match v with V t _ => V t None | VArray e _ => VArray e None end.
Definition is_null (v : value) : bool :=
  match v with V _ None | VArray _ None => true | _ => false end.
