(* Equality and hashing of sea_query::Value (src/value.rs).  Definitions only.

   Two PartialEq implementations exist, selected by the feature `hashable-value`:
     * without it, `#[derive(PartialEq)]`: same variant and `==` of the payloads
       (so f32/f64 compare by IEEE rules: NaN != NaN, +0 == -0)                 -> veq_derived
     * with it, `mod hashable_value`: the arms listed in Generated/ValueTypes.v (eq_arms), with
       cmp_f32/cmp_f64 through OrderedFloat, cmp_json through serde_json::to_string, cmp_vector
       element-wise through cmp_f32, arrays by type tag and then element-wise, `_ => false`   -> veq
   Hash (only with the feature) is modelled as the sequence of Hasher::write_* calls (hstream), so that
   a statement about equal streams holds for every Hasher.

   Opaque payloads (POpaque oid text): `==` of the payload crate is equality of oid (equal ids = equal
   Rust values), its Hash is the abstract word HOpaque tag oid (the crate is assumed to hash equal values
   equally; sampled by the check, not proved).  Exceptions, which are computed:
     Json   with hashable-value: compared and hashed through `text` = serde_json::to_string(v)
            (the map type of serde_json sorts keys unless `preserve_order` is enabled, so two objects that
            differ only in the order their keys were inserted have the same text and are equal);
     Vector: `text` holds the f32 bit patterns of the elements (oid unused). *)
Require Import SQV.Model.Str SQV.Model.Value SQV.Model.ValueRow SQV.Model.FloatBits.
Require Import SQV.Generated.ValueTypes.

(* ---- payload comparison ------------------------------------------------------------------ *)

Fixpoint list_eqb {A} (f : A -> A -> bool) (a b : list A) : bool :=
  match a, b with
  | [], [] => true
  | x :: a', y :: b' => f x y && list_eqb f a' b'
  | _, _ => false
  end.

Definition opt_eqb {A} (f : A -> A -> bool) (a b : option A) : bool :=
  match a, b with
  | None, None => true
  | Some x, Some y => f x y
  | _, _ => false
  end.

(* `l == r` of the payload type itself *)
Definition plain_eq (t : vtag) (p q : payload) : bool :=
  match p, q with
  | PBool a, PBool b => Bool.eqb a b
  | PInt a, PInt b => Z.eqb a b
  | PF32 a, PF32 b => ieee_eq32 a b
  | PF64 a, PF64 b => ieee_eq64 a b
  | PStr a, PStr b => list_eqb N.eqb a b
  | PChar a, PChar b => N.eqb a b
  | PBytes a, PBytes b => list_eqb N.eqb a b
  | POpaque o1 t1, POpaque o2 t2 =>
      match t with
      | TVector => list_eqb ieee_eq32 t1 t2      (* pgvector::Vector derives PartialEq over Vec<f32> *)
      | _ => N.eqb o1 o2
      end
  | _, _ => false
  end.

Definition payload_eq (k : eq_kind) (t : vtag) (p q : payload) : bool :=
  match k with
  | EqPlain => plain_eq t p q
  | EqF32 => match p, q with PF32 a, PF32 b => of_eq32 a b | _, _ => false end
  | EqF64 => match p, q with PF64 a, PF64 b => of_eq64 a b | _, _ => false end
  | EqJson => match p, q with POpaque _ t1, POpaque _ t2 => list_eqb N.eqb t1 t2 | _, _ => false end
  | EqVector => match p, q with POpaque _ t1, POpaque _ t2 => list_eqb of_eq32 t1 t2 | _, _ => false end
  end.

(* ---- Value == Value ------------------------------------------------------------------------ *)

Fixpoint veq_with (kf : vtag -> option eq_kind) (arr : bool) (a b : value) {struct a} : bool :=
  match a, b with
  | V t1 p1, V t2 p2 =>
      if vtag_eqb t1 t2 then
        match kf t1 with
        | Some k => opt_eqb (payload_eq k t1) p1 p2
        | None => false
        end
      else false
  | VArray e1 l1, VArray e2 l2 =>
      arr && vtag_eqb e1 e2 &&
      match l1, l2 with
      | None, None => true
      | Some x, Some y =>
          (fix go (x y : list value) {struct x} : bool :=
             match x, y with
             | [], [] => true
             | u :: x', w :: y' => veq_with kf arr u w && go x' y'
             | _, _ => false
             end) x y
      | _, _ => false
      end
  | _, _ => false
  end.

(* with hashable-value: the arms of `impl PartialEq for Value` *)
Definition veq : value -> value -> bool := veq_with (fun t => lookup_tag t eq_arms) eq_array_arm.
(* without: #[derive(PartialEq)] *)
Definition veq_derived : value -> value -> bool := veq_with (fun _ => Some EqPlain) true.

(* ---- Hash ---------------------------------------------------------------------------------------- *)

Inductive hword :=
| HIsize (z : Z) | HUsize (n : N)
| HU8 (n : N) | HU16 (n : N) | HU32 (n : N) | HU64 (n : N)
| HI8 (z : Z) | HI16 (z : Z) | HI32 (z : Z) | HI64 (z : Z)
| HStr (s : str)                 (* write(s.as_bytes()) *)
| HBytes (bs : list N)           (* write(bytes) *)
| HOpaque (t : vtag) (oid : N).  (* what the payload crate's Hash writes for the value with identity oid *)

(* str::hash: write_str = write(bytes); write_u8(0xff) *)
Definition hash_str (s : str) : list hword := [HStr s; HU8 255].
Definition hash_null_word : list hword := hash_str [110; 117; 108; 108] (* ASCII of the four letters n u l l *).

(* position in a declaration-ordered list = discriminant *)
Fixpoint index_of {A} (f : A -> bool) (l : list A) (i : Z) : Z :=
  match l with
  | [] => (-1)%Z
  | x :: r => if f x then i else index_of f r (i + 1)%Z
  end.
Definition disc_of_tag (t : vtag) : Z :=
  index_of (fun o => match o with Some t' => vtag_eqb t t' | None => false end) value_enum_order 0.
Definition disc_array : Z :=
  index_of (fun o => match o with None => true | Some _ => false end) value_enum_order 0.
Definition disc_array_type (t : vtag) : Z := index_of (vtag_eqb t) array_enum_order 0.

(* x.hash(state) of the payload type itself *)
Definition plain_hash (t : vtag) (p : payload) : list hword :=
  match p with
  | PBool b => [HU8 (if b then 1 else 0)]
  | PInt z =>
      match t with
      | TTinyInt => [HI8 z] | TSmallInt => [HI16 z] | TInt => [HI32 z] | TBigInt => [HI64 z]
      | TTinyUnsigned => [HU8 (Z.to_N z)] | TSmallUnsigned => [HU16 (Z.to_N z)]
      | TUnsigned => [HU32 (Z.to_N z)] | _ => [HU64 (Z.to_N z)]
      end
  | PF32 b => [HOpaque t b]       (* f32 is not Hash: no such arm can compile *)
  | PF64 b => [HOpaque t b]
  | PStr s => hash_str s
  | PChar c => [HU32 c]
  | PBytes bs => [HUsize (N.of_nat (length bs)); HBytes bs]
  | POpaque oid _ => [HOpaque t oid]
  end.

(* Option<T>::hash (derived): discriminant as isize, then the payload *)
Definition hash_option (f : payload -> list hword) (o : option payload) : list hword :=
  match o with
  | None => [HIsize 0]
  | Some p => HIsize 1 :: f p
  end.

Definition payload_hash (h : hash_kind) (t : vtag) (o : option payload) : list hword :=
  match h with
  | HsPlain => hash_option (plain_hash t) o
  | HsF32 => match o with
             | Some (PF32 b) => [HU64 (of_hash32 b)]
             | Some _ => [] | None => hash_null_word end
  | HsF64 => match o with
             | Some (PF64 b) => [HU64 (of_hash64 b)]
             | Some _ => [] | None => hash_null_word end
  | HsJson => match o with
              | Some (POpaque _ text) => hash_str text
              | Some _ => [] | None => hash_null_word end
  | HsVector => match o with
                | Some (POpaque _ fs) => map (fun b => HU64 (of_hash32 b)) fs
                | Some _ => [] | None => hash_null_word end
  end.

Fixpoint hstream_with (hf : vtag -> option hash_kind) (v : value) : list hword :=
  match v with
  | V t o =>
      HIsize (disc_of_tag t) ::
      match hf t with
      | Some h => payload_hash h t o
      | None => []
      end
  | VArray e l =>
      HIsize disc_array :: HIsize (disc_array_type e) ::
      match l with
      | None => [HIsize 0]
      | Some vs =>
          HIsize 1 :: HUsize (N.of_nat (length vs)) ::
          (fix go (x : list value) : list hword :=
             match x with [] => [] | u :: x' => hstream_with hf u ++ go x' end) vs
      end
  end.

Definition hstream : value -> list hword := hstream_with (fun t => lookup_tag t hash_arms).

(* ---- ValueTuple: #[derive(PartialEq)] always, #[derive(Hash, Eq)] with hashable-value -------------- *)

Inductive vtuple :=
| TOne (a : value) | TTwo (a b : value) | TThree (a b c : value) | TMany (l : list value).

Definition teq_with (e : value -> value -> bool) (x y : vtuple) : bool :=
  match x, y with
  | TOne a, TOne a' => e a a'
  | TTwo a b, TTwo a' b' => e a a' && e b b'
  | TThree a b c, TThree a' b' c' => e a a' && e b b' && e c c'
  | TMany l, TMany l' => list_eqb e l l'
  | _, _ => false
  end.
Definition teq : vtuple -> vtuple -> bool := teq_with veq.

Definition tstream (x : vtuple) : list hword :=
  match x with
  | TOne a => HIsize 0 :: hstream a
  | TTwo a b => HIsize 1 :: hstream a ++ hstream b
  | TThree a b c => HIsize 2 :: hstream a ++ hstream b ++ hstream c
  | TMany l => HIsize 3 :: HUsize (N.of_nat (length l)) :: flat_map hstream l
  end.

(* ---- well-formed values: the payload has the shape the variant carries; array elements likewise ----- *)

Fixpoint wf_value (v : value) : bool :=
  match v with
  | V t None => true
  | V t (Some p) => payload_ok t p
  | VArray _ None => true
  | VArray _ (Some vs) =>
      (fix go (x : list value) : bool := match x with [] => true | u :: x' => wf_value u && go x' end) vs
  end.
Definition wf_tuple (x : vtuple) : bool :=
  match x with
  | TOne a => wf_value a
  | TTwo a b => wf_value a && wf_value b
  | TThree a b c => wf_value a && wf_value b && wf_value c
  | TMany l => forallb wf_value l
  end.
