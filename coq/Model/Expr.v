(* Model of the expression AST: SimpleExpr (src/expr.rs), BinOper/UnOper/ColumnRef/Keyword/
   SubQueryOper (src/types.rs), Function (src/func.rs), PgBinOper, SqliteBinOper, PgFunction.
   The expression type is parameterised by the type Q of sub-query statements, so that the
   statement model can be defined afterwards (nested inductive through the parameter). *)
Require Import SQV.Model.Str SQV.Model.Value.

Inductive pgop :=
| PgILike | PgNotILike | PgMatches | PgContains | PgContained | PgConcatenate | PgOverlap
| PgSimilarity | PgWordSimilarity | PgStrictWordSimilarity | PgSimilarityDistance
| PgWordSimilarityDistance | PgStrictWordSimilarityDistance | PgGetJsonField | PgCastJsonField
| PgRegex | PgRegexCaseInsensitive | PgEuclideanDistance | PgNegativeInnerProduct | PgCosineDistance.

Inductive slop := SlGlob | SlMatch | SlGetJsonField | SlCastJsonField.

Inductive binop :=
| BAnd | BOr | BLike | BNotLike | BIs | BIsNot | BIn | BNotIn | BBetween | BNotBetween
| BEqual | BNotEqual | BSmallerThan | BGreaterThan | BSmallerThanOrEqual | BGreaterThanOrEqual
| BAdd | BSub | BMul | BDiv | BMod | BBitAnd | BBitOr | BLShift | BRShift | BAs | BEscape
| BCustom (s : str) | BPg (o : pgop) | BSl (o : slop).

(* dense key; every BCustom maps to the same key (the deciders never look at the text) *)
Definition pgop_key (o : pgop) : N :=
  match o with
  | PgILike => 0 | PgNotILike => 1 | PgMatches => 2 | PgContains => 3 | PgContained => 4
  | PgConcatenate => 5 | PgOverlap => 6 | PgSimilarity => 7 | PgWordSimilarity => 8
  | PgStrictWordSimilarity => 9 | PgSimilarityDistance => 10 | PgWordSimilarityDistance => 11
  | PgStrictWordSimilarityDistance => 12 | PgGetJsonField => 13 | PgCastJsonField => 14
  | PgRegex => 15 | PgRegexCaseInsensitive => 16 | PgEuclideanDistance => 17
  | PgNegativeInnerProduct => 18 | PgCosineDistance => 19
  end.
Definition slop_key (o : slop) : N :=
  match o with SlGlob => 0 | SlMatch => 1 | SlGetJsonField => 2 | SlCastJsonField => 3 end.
Definition binop_key (o : binop) : N :=
  match o with
  | BAnd => 0 | BOr => 1 | BLike => 2 | BNotLike => 3 | BIs => 4 | BIsNot => 5 | BIn => 6
  | BNotIn => 7 | BBetween => 8 | BNotBetween => 9 | BEqual => 10 | BNotEqual => 11
  | BSmallerThan => 12 | BGreaterThan => 13 | BSmallerThanOrEqual => 14
  | BGreaterThanOrEqual => 15 | BAdd => 16 | BSub => 17 | BMul => 18 | BDiv => 19 | BMod => 20
  | BBitAnd => 21 | BBitOr => 22 | BLShift => 23 | BRShift => 24 | BAs => 25 | BEscape => 26
  | BCustom _ => 27 | BPg o => 30 + pgop_key o | BSl o => 60 + slop_key o
  end.
(* derived PartialEq of BinOper: Custom compares its text *)
Definition binop_eqb (a b : binop) : bool :=
  match a, b with
  | BCustom x, BCustom y => str_eqb x y
  | _, _ => binop_key a =? binop_key b
  end.

Inductive oper := ONot | OBin (o : binop).
Definition oper_key (o : oper) : N := match o with ONot => 100 | OBin b => binop_key b end.

Inductive colref :=
| CCol (c : str) | CTblCol (t c : str) | CSchTblCol (s t c : str) | CAsterisk | CTblAsterisk (t : str).

Inductive keyword := KwNull | KwCurrentDate | KwCurrentTime | KwCurrentTimestamp | KwCustom (s : str).
Inductive sqop := SqExists | SqAny | SqSome | SqAll.

Inductive pgfunc :=
| PfToTsquery | PfToTsvector | PfPhrasetoTsquery | PfPlaintoTsquery | PfWebsearchToTsquery
| PfTsRank | PfTsRankCd | PfStartsWith | PfGenRandomUUID | PfJsonBuildObject | PfJsonAgg
| PfArrayAgg | PfDateTrunc | PfAny | PfSome | PfAll.
Inductive func :=
| FMax | FMin | FSum | FAvg | FAbs | FCount | FIfNull | FGreatest | FLeast | FCharLength | FCast
| FCustom (name : str) | FCoalesce | FLower | FUpper | FBitAnd | FBitOr | FRandom | FRound | FMd5
| FPg (f : pgfunc).
Definition pgfunc_key (f : pgfunc) : N :=
  match f with
  | PfToTsquery => 0 | PfToTsvector => 1 | PfPhrasetoTsquery => 2 | PfPlaintoTsquery => 3
  | PfWebsearchToTsquery => 4 | PfTsRank => 5 | PfTsRankCd => 6 | PfStartsWith => 7
  | PfGenRandomUUID => 8 | PfJsonBuildObject => 9 | PfJsonAgg => 10 | PfArrayAgg => 11
  | PfDateTrunc => 12 | PfAny => 13 | PfSome => 14 | PfAll => 15
  end.
Definition func_key (f : func) : N :=
  match f with
  | FMax => 0 | FMin => 1 | FSum => 2 | FAvg => 3 | FAbs => 4 | FCount => 5 | FIfNull => 6
  | FGreatest => 7 | FLeast => 8 | FCharLength => 9 | FCast => 10 | FCustom _ => 11
  | FCoalesce => 12 | FLower => 13 | FUpper => 14 | FBitAnd => 15 | FBitOr => 16 | FRandom => 17
  | FRound => 18 | FMd5 => 19 | FPg f => 30 + pgfunc_key f
  end.

Section WithQ.
Variable Q : Type.

Inductive expr :=
| EColumn (c : colref)
| ETuple (es : list expr)
| ENot (e : expr)                                   (* Unary(UnOper::Not, e) *)
| EFunc (f : func) (args : list (bool * expr))      (* (distinct modifier, argument) *)
| EBinary (l : expr) (op : binop) (r : expr)
| ESubQuery (op : option sqop) (q : Q)
| EValue (v : value)
| EValues (vs : list value)
| ECustom (s : str)
| ECustomWith (s : str) (es : list expr)
| EKeyword (k : keyword)
| EAsEnum (ty : str) (e : expr)
| ECase (whens : list (expr * expr)) (els : option expr)   (* condition already as an expression *)
| EConstant (v : value).

(* Condition { negate, condition_type, conditions } and ConditionExpression (src/query/condition.rs) *)
(* (not a mutual block: mutual inductives cannot be used as nested containers later on) *)
Inductive cmember_of (C : Type) := MCond (c : C) | MExpr (e : expr).
Inductive cond := Cond (negate : bool) (is_any : bool) (members : list (cmember_of cond)).
Definition cmember := cmember_of cond.

(* ConditionHolderContents.  Chain is the form filled by the doc-hidden and_or_where(LogicalChainOper):
   (true, e) = Or(e), (false, e) = And(e) *)
Inductive holder := HEmpty | HChain (ms : list (bool * expr)) | HCond (c : cond).

(* top-level shape, the only thing the parenthesis deciders look at *)
Inductive shape :=
| ShColumn | ShTuple | ShUnary | ShFunc | ShBinary (op : binop) | ShSubQuery | ShValue | ShValues
| ShCustom | ShCustomWith | ShKeyword | ShAsEnum | ShCase | ShConstant.

Definition shape_of (e : expr) : shape :=
  match e with
  | EColumn _ => ShColumn | ETuple _ => ShTuple | ENot _ => ShUnary | EFunc _ _ => ShFunc
  | EBinary _ op _ => ShBinary op | ESubQuery _ _ => ShSubQuery | EValue _ => ShValue
  | EValues _ => ShValues | ECustom _ => ShCustom | ECustomWith _ _ => ShCustomWith
  | EKeyword _ => ShKeyword | EAsEnum _ _ => ShAsEnum | ECase _ _ => ShCase
  | EConstant _ => ShConstant
  end.
End WithQ.

Arguments EColumn {Q}. Arguments ETuple {Q}. Arguments ENot {Q}. Arguments EFunc {Q}.
Arguments EBinary {Q}. Arguments ESubQuery {Q}. Arguments EValue {Q}. Arguments EValues {Q}.
Arguments ECustom {Q}. Arguments ECustomWith {Q}. Arguments EKeyword {Q}. Arguments EAsEnum {Q}.
Arguments ECase {Q}. Arguments EConstant {Q}. Arguments shape_of {Q}.
Arguments Cond {Q}. Arguments MCond {Q C}. Arguments MExpr {Q C}. Arguments HEmpty {Q}. Arguments HChain {Q}. Arguments HCond {Q}.

Definition shape_key (s : shape) : N :=
  match s with
  | ShColumn => 200 | ShTuple => 201 | ShUnary => 202 | ShFunc => 203 | ShSubQuery => 204
  | ShValue => 205 | ShValues => 206 | ShCustom => 207 | ShCustomWith => 208 | ShKeyword => 209
  | ShAsEnum => 210 | ShCase => 211 | ShConstant => 212
  | ShBinary op => binop_key op
  end.

(* operator classes of src/backend/mod.rs (the Oper is_xxx predicates), used by the hacks of binary_expr *)
Definition is_between (o : binop) : bool := match o with BBetween | BNotBetween => true | _ => false end.
Definition is_like (o : binop) : bool := match o with BLike | BNotLike => true | _ => false end.
