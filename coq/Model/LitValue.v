(* A whole Value written at a value position (C03 over the Json arm and over text / char / bytes
   elements of arrays): the position's fixed text around value_to_string.  The positions are the
   ones of LitPos.v that take a Value (value_to_string itself, Expr::val, Constant, ORDER BY FIELD,
   DEFAULT); the other positions take a string and are not value positions. *)
Require Import SQV.Model.Str SQV.Model.Escape SQV.Model.Literal SQV.Model.LitPos SQV.Model.Value
  SQV.Model.Writer.
Open Scope list_scope.

Definition value_pos (p : lpos) : bool :=
  match p with PValStr | PVal | PConst | PField | PDefault => true | _ => false end.

Definition lit_render_value (ftext : bool -> N -> str) (b : backend) (p : lpos) (v : value) : res str :=
  if value_pos p then
    match lit_template b p with
    | Some (pre, _, suf) => Ok (pre ++ value_to_string ftext b v ++ suf)
    | None => Panic
    end
  else Panic.
